import PymocaVerif.Lemmas.ParseCache
import PymocaVerif.Generated.SqlProgram
/-!
# C01 — the parse cache is transparent over any cache history

Theorems about `Model/ParseCache.lean` (the state machine that follows `parser.parse` and
`_check_database_structure` statement by statement).  `pf` is the uncached parser, arbitrary.
Histories are arbitrary finite lists of operations: parses with any flags, module reload, version
change (clean or dirty), clock advance, damage to an entry / to a table layout / to the whole file,
rows written by another pymoca version.

Open finding **C01-F2** (see `known/C01.json`, `proposed_fixes/C01-1.diff`): when the file is deleted,
overwritten, or loses its `models` table *after* this process has put it into
`parse.initialized_dbs`, and the module is not reloaded, the next `parse` raises a `DatabaseError`.
`damaged_while_initialised_raises` is that counterexample on the model; the theorems that need the
region excluded carry the hypothesis `Undamaged` / `Synced` and are named `…_partial`.
-/
namespace PymocaVerif.C01
open PymocaVerif.ParseCache

variable {pf : Ver → TextId → Option TreeId} {cfg : Cfg}

/-- Operations the statement quantifies over: an entry is damaged into something that does not unpickle,
    or unpickles to `None` — not into a *different well-formed tree* (outside "entries that no longer
    unpickle"; nothing could detect that). -/
def Admissible (pf : Ver → TextId → Option TreeId) : Op → Prop
  | .corruptEntry x v (.good (some t)) => pf v x = some t
  | _ => True

instance (pf : Ver → TextId → Option TreeId) (op : Op) : Decidable (Admissible pf op) := by
  unfold Admissible; split <;> infer_instance

/-- deleting / overwriting the file, dropping the `models` table or replacing it by one with other columns -/
def damaging : Op → Bool
  | .corruptFile _ => true
  | .corruptLayout .models .drop => true
  | .corruptLayout .models .alien => true
  | _ => false

/-! ### The invariant holds after every operation, whatever it is -/

/-- **Every operation preserves the row invariant** (each stored row that unpickles to a tree holds the tree
    of the uncached parse of its own text under its own version) — including every corruption, from every
    state, and also when `parse` raises. -/
theorem inv_step (s : St) (op : Op) (hadm : Admissible pf op) (h : RowInv pf s) : RowInv pf (step cfg pf s op).1 := by
  cases op with
  | parse x days upd bypass =>
    simp only [step]
    split
    · exact h
    · exact parseCached_inv h
  | reload => exact h
  | setVersion v d => exact h
  | tick us => exact h
  | setInc us => exact h
  | corruptEntry x v b =>
    simp only [step, RowInv, damageEntry]
    cases hq : s.file.queryable with
    | none => exact h
    | some m =>
      intro r hr
      rw [rowsOf_setRows _ hq] at hr
      obtain ⟨r0, hr0, rfl⟩ := List.mem_map.mp hr
      have h0 := h r0 (by rw [queryable_rows hq]; exact hr0)
      by_cases hm : matches_ x v r0 = true
      · simp only [hm, if_true]
        intro t ht
        simp only at ht
        subst ht
        simp [matches_] at hm
        simpa [Admissible, hm.1, hm.2] using hadm
      · simpa [hm] using h0
  | corruptLayout t how =>
    simp only [step, RowInv]
    cases hf : s.file with
    | garbage => simp [damageLayout, FileInv, rowsOf]
    | db m mt =>
      have hrows : ∀ r ∈ rowsOf (damageLayout t how (.db m mt)), r ∈ rowsOf (.db m mt) := by
        cases t <;> cases how <;> cases m <;> simp [damageLayout, rowsOf]
        all_goals (try (rename_i mm; intro r hr; split at hr <;> simp_all))
      intro r hr
      exact h r (by rw [hf]; exact hrows r hr)
  | corruptFile how => cases how <;> simp [step, RowInv, damageFile, FileInv, rowsOf]
  | foreignWrite x v d =>
    simp only [step, RowInv, foreignWrite]
    cases hpf : pf v x with
    | none => exact h
    | some t =>
      simp only []
      cases hi : txInsert x v t (s.now - d * day) s.file with
      | error e => exact h
      | ok f => exact fileInv_insert h hpf hi

example : RowInv (fun _ x => if x = 1 then none else some (x + 10))
    (finalState ⟨["Exception"]⟩ (fun _ x => if x = 1 then none else some (x + 10)) (St.initial 5)
      [.parse 0 30 false false, .parse 1 30 false false, .corruptEntry 0 0 (.bad .eof), .parse 0 30 true false]) := by
  intro r hr t ht
  simp [finalState, step, parseCached, initBlock, txIntegrity, txCheckModels, txCheckMeta, txMetaDefaults, txPrune,
    txLookup, txTouch, txInsert, finish, St.initial, St.read, DbFile.queryable, DbFile.setRows, rowsOf, damageEntry,
    matches_, Cfg.isCaught, catches] at hr
  subst hr
  simp at ht
  subst ht
  rfl

/-! ### One parse -/

/-- **A parse returns exactly what the uncached parser returns** — a tree equal to the fresh one, `none`
    exactly for a syntax error, never an exception — from every state that satisfies the invariant, whatever
    damaged entries, layouts or file it contains; *partial*: states in which the file was damaged after this
    process initialised it (`¬ Synced`, finding C01-F2) are excluded. -/
theorem parse_transparent_partial (hc : CaughtAll cfg) (s : St) (h : RowInv pf s) (hs : Synced s)
    (x : TextId) (days : Int) (upd bypass : Bool) :
    (step cfg pf s (.parse x days upd bypass)).2 = some (.value (pf s.ver x)) := by
  simp only [step]
  split
  · rfl
  · simp only [(parseCached_spec (x := x) (days := days) (upd := upd) hc h hs).1]

example : RowInv (fun _ _ => some 7) ⟨.db (some ⟨.noPk, [⟨0, 0, .bad .eof, 3⟩]⟩) (some .alien), false, 10, 1, 0, false⟩ ∧
    Synced ⟨.db (some ⟨.noPk, [⟨0, 0, .bad .eof, 3⟩]⟩) (some .alien), false, 10, 1, 0, false⟩ :=
  ⟨by intro r hr t ht; simp [rowsOf] at hr; subst hr; simp at ht, by intro h; cases h⟩

/-- In particular the result is `none` iff the text has a syntax error. -/
theorem none_iff_syntax_error_partial (hc : CaughtAll cfg) (s : St) (h : RowInv pf s) (hs : Synced s)
    (x : TextId) (days : Int) (upd bypass : Bool) :
    (step cfg pf s (.parse x days upd bypass)).2 = some (.value none) ↔ pf s.ver x = none := by
  rw [parse_transparent_partial hc s h hs]
  constructor
  · intro he; injection he with he; injection he
  · intro he; rw [he]

example : (step ⟨["Exception"]⟩ (fun _ _ => (none : Option TreeId)) (St.initial 0) (.parse 3 30 false false)).2
    = some (.value none) := by decide

/-! ### Whole histories -/

/-- no damaging operation happens while the process holds the database initialised -/
def Undamaged (cfg : Cfg) (pf : Ver → TextId → Option TreeId) : St → List Op → Prop
  | _, [] => True
  | s, op :: ops => (damaging op = true → s.init = false) ∧ Undamaged cfg pf (step cfg pf s op).1 ops

/-- every parse of the run returns the uncached result -/
def Transparent (cfg : Cfg) (pf : Ver → TextId → Option TreeId) : St → List Op → Prop
  | _, [] => True
  | s, op :: ops =>
    (∀ x d u b, op = .parse x d u b → (step cfg pf s op).2 = some (.value (pf s.ver x))) ∧
    Transparent cfg pf (step cfg pf s op).1 ops

/-- every parse of the run *from a synced state* returns the uncached result -/
def TransparentWhenSynced (cfg : Cfg) (pf : Ver → TextId → Option TreeId) : St → List Op → Prop
  | _, [] => True
  | s, op :: ops =>
    (∀ x d u b, op = .parse x d u b → Synced s → (step cfg pf s op).2 = some (.value (pf s.ver x))) ∧
    TransparentWhenSynced cfg pf (step cfg pf s op).1 ops

theorem synced_step (hc : CaughtAll cfg) (s : St) (op : Op) (h : RowInv pf s) (hs : Synced s)
    (hd : damaging op = true → s.init = false) : Synced (step cfg pf s op).1 := by
  cases op with
  | parse x days upd bypass =>
    simp only [step]
    split
    · exact hs
    · intro _; exact (parseCached_spec (x := x) (days := days) (upd := upd) hc h hs).2.2
  | reload => intro hi; simp [step] at hi
  | setVersion v d => exact hs
  | tick us => exact hs
  | setInc us => exact hs
  | corruptEntry x v b =>
    intro hi
    have hq := hs hi
    obtain ⟨m, hm⟩ := Option.isSome_iff_exists.mp hq
    simp [step, damageEntry, hm, queryable_setRows _ hm]
  | corruptLayout t how =>
    intro hi
    have hi' : s.init = true := hi
    have hq := hs hi'
    cases t <;> cases how <;>
      first
        | (have := hd rfl; rw [this] at hi'; cases hi')
        | (cases hf : s.file with
           | garbage => simp [hf, DbFile.queryable] at hq
           | db m mt =>
             cases m with
             | none => simp [hf, DbFile.queryable] at hq
             | some mm =>
               simp only [hf, DbFile.queryable] at hq
               simp [step, hf, damageLayout, DbFile.queryable]
               try (split at hq <;> simp_all))
  | corruptFile how =>
    intro hi
    have hi' : s.init = true := hi
    have := hd rfl
    rw [this] at hi'; cases hi'
  | foreignWrite x v d =>
    intro hi
    have hq := hs hi
    obtain ⟨m, hm⟩ := Option.isSome_iff_exists.mp hq
    simp only [step, foreignWrite]
    cases pf v x with
    | none => exact hq
    | some t => simp [txInsert, hm, queryable_setRows _ hm]

/-- **Every parse of every finite history returns the uncached result**, from any state satisfying the invariant
    (in particular from a folder without a database), for every sequence of parses with any flags, reloads,
    version changes, clock advances, damaged entries, damaged metadata, `noPk` layouts and foreign rows —
    *partial*: the damaging operations (file deleted/overwritten, `models` table dropped/replaced) may only happen
    while the process does not hold the database initialised (finding C01-F2 is the complement). -/
theorem history_transparent_partial (hc : CaughtAll cfg) (ops : List Op) :
    ∀ (s : St), RowInv pf s → Synced s → (∀ op ∈ ops, Admissible pf op) → Undamaged cfg pf s ops →
      Transparent cfg pf s ops := by
  induction ops with
  | nil => intros; trivial
  | cons op ops ih =>
    intro s h hs hadm hund
    refine ⟨?_, ih _ (inv_step s op (hadm op (by simp)) h) (synced_step hc s op h hs hund.1)
      (fun o ho => hadm o (by simp [ho])) hund.2⟩
    intro x d u b hop
    subst hop
    exact parse_transparent_partial hc s h hs x d u b

/-- The same without any restriction on the history: every parse that starts from a synced state is
    transparent; the invariant itself never breaks, so a reload always restores transparency. -/
theorem history_transparent_when_synced (hc : CaughtAll cfg) (ops : List Op) :
    ∀ (s : St), RowInv pf s → (∀ op ∈ ops, Admissible pf op) → TransparentWhenSynced cfg pf s ops := by
  induction ops with
  | nil => intros; trivial
  | cons op ops ih =>
    intro s h hadm
    refine ⟨?_, ih _ (inv_step s op (hadm op (by simp)) h) (fun o ho => hadm o (by simp [ho]))⟩
    intro x d u b hop hs
    subst hop
    exact parse_transparent_partial hc s h hs x d u b

theorem initial_inv (t0 : Int) : RowInv pf (St.initial t0) := by
  intro r hr; simp [St.initial, rowsOf] at hr

theorem initial_synced (t0 : Int) : Synced (St.initial t0) := by
  intro h; simp [St.initial] at h

/-- a 12-operation history with a hit, a prune, an entry that does not unpickle, an entry that unpickles to
    `None`, a wrong layout, a corrupt file (before a reload), a foreign row and a version change -/
def demoOps : List Op :=
  [.parse 0 30 false false, .parse 0 30 true false, .corruptEntry 0 0 (.bad .eof), .parse 0 30 false false,
   .corruptEntry 0 0 (.good none), .parse 1 30 false false, .reload, .corruptFile .text, .tick 3000000000000,
   .parse 0 1 false false, .foreignWrite 0 7 0, .setVersion 1 false, .corruptLayout .metadata .alien, .reload,
   .corruptLayout .models .noPk, .parse 0 0 false false, .parse 0 30 false false]

def demoPf : Ver → TextId → Option TreeId := fun v x => if x = 1 then none else some (100 * v + x)

example : (∀ op ∈ demoOps, Admissible demoPf op) ∧ Undamaged ⟨["Exception"]⟩ demoPf (St.initial 1000) demoOps := by
  refine ⟨by decide, ?_⟩
  simp [demoOps, Undamaged, damaging, step]

example : (run ⟨["Exception"]⟩ demoPf (St.initial 1000) demoOps).filterMap (·.2) =
    [.value (some 0), .value (some 0), .value (some 0), .value none, .value (some 0), .value (some 100), .value (some 100)] := by
  decide +kernel

/-! ### A failed parse is never stored -/

/-- planting a blob that unpickles to `None` is the only way such a row comes into existence -/
def plantsNone : Op → Bool
  | .corruptEntry _ _ (.good none) => true
  | _ => false

theorem noNone_setRows {f : DbFile} {m : Models} {rows : List Row} (hq : f.queryable = some m)
    (h : ∀ r ∈ rows, r.blob ≠ .good none) : NoNone (f.setRows rows) := by
  intro r hr
  rw [rowsOf_setRows _ hq] at hr
  exact h r hr

theorem noNone_insert {f f' : DbFile} {x : TextId} {v : Ver} {tree : TreeId} {t : Int} (h : NoNone f)
    (he : txInsert x v tree t f = .ok f') : NoNone f' := by
  unfold txInsert at he
  split at he
  · cases he
  · rename_i m hq
    cases he
    apply noNone_setRows hq
    intro r hr
    rcases List.mem_append.mp hr with hr | hr
    · have : r ∈ m.rows := by
        split at hr
        · exact (List.mem_filter.mp hr).1
        · exact hr
      exact h r (by rw [queryable_rows hq]; exact this)
    · simp at hr; subst hr; simp

theorem noNone_finish {s : St} {x : TextId} {tree : Option TreeId} (h : NoNone s.file) :
    NoNone (finish pf s x tree).1.file := by
  unfold finish
  split
  · exact h
  · split
    · exact h
    · simp only []
      split
      · exact h
      · rename_i f he
        exact noNone_insert (f := s.file) h (by simpa [St.read] using he)

theorem noNone_touch {f f' : DbFile} {x : TextId} {v : Ver} {t : Int} (h : NoNone f)
    (he : txTouch x v t f = .ok f') : NoNone f' := by
  unfold txTouch at he
  split at he
  · cases he
  · rename_i m hq
    cases he
    apply noNone_setRows hq
    intro r hr
    obtain ⟨r0, hr0, rfl⟩ := List.mem_map.mp hr
    have h0 := h r0 (by rw [queryable_rows hq]; exact hr0)
    split <;> simpa using h0

theorem noNone_afterInit {s : St} {x : TextId} {upd : Bool} (h : NoNone s.file) :
    NoNone (afterInit cfg pf s x upd).1.file := by
  unfold afterInit
  cases hl : txLookup x s.ver s.file with
  | error e => exact h
  | ok o =>
    cases o with
    | none => exact noNone_finish h
    | some lb =>
      obtain ⟨lh, blob⟩ := lb
      simp only []
      by_cases hcnd : (upd || decide (lh < s.read.1 - day)) = true
      · simp only [hcnd, if_true]
        cases ht : txTouch x s.read.2.read.2.ver s.read.2.read.1 s.read.2.read.2.file with
        | error e => exact h
        | ok f =>
          have hf : NoNone f := noNone_touch (f := s.file) h ht
          simp only []
          cases blob with
          | good t => exact noNone_finish (s := { s.read.2.read.2 with file := f }) hf
          | bad e =>
            by_cases hcg : cfg.isCaught e = true
            · simp only [hcg, if_true]; exact noNone_finish (s := { s.read.2.read.2 with file := f }) hf
            · simp only [hcg]; exact hf
      · simp only [hcnd]
        cases blob with
        | good t => exact noNone_finish (s := s.read.2) h
        | bad e =>
          by_cases hcg : cfg.isCaught e = true
          · simp only [hcg, if_true]; exact noNone_finish (s := s.read.2) h
          · simp only [hcg]; exact h

theorem noNone_step (s : St) (op : Op) (hp : plantsNone op = false) (h : NoNone s.file) :
    NoNone (step cfg pf s op).1.file := by
  cases op with
  | parse x days upd bypass =>
    simp only [step]
    split
    · exact h
    · rw [parseCached_eq]
      by_cases hi : s.init = true
      · simp only [hi, if_true]; exact noNone_afterInit h
      · have hif : s.init = false := by simpa using hi
        obtain ⟨s', he, _, _, _, rows, c, p, hfile, hsub⟩ := initBlock_spec s days
        simp only [hif, he, Bool.false_eq_true, if_false]
        apply noNone_afterInit
        intro r hr
        rw [hfile] at hr
        exact h r (hsub r (by simpa [rowsOf] using hr))
  | reload => exact h
  | setVersion v d => exact h
  | tick us => exact h
  | setInc us => exact h
  | corruptEntry x v b =>
    simp only [step, damageEntry]
    cases hq : s.file.queryable with
    | none => exact h
    | some m =>
      apply noNone_setRows hq
      intro r hr
      obtain ⟨r0, hr0, rfl⟩ := List.mem_map.mp hr
      have h0 := h r0 (by rw [queryable_rows hq]; exact hr0)
      split
      · cases b with
        | good t => cases t <;> simp_all [plantsNone]
        | bad e => simp
      · exact h0
  | corruptLayout t how =>
    simp only [step]
    cases hf : s.file with
    | garbage => simp [damageLayout, NoNone, rowsOf]
    | db m mt =>
      have hrows : ∀ r ∈ rowsOf (damageLayout t how (.db m mt)), r ∈ rowsOf (.db m mt) := by
        cases t <;> cases how <;> cases m <;> simp [damageLayout, rowsOf]
        all_goals (try (rename_i mm; intro r hr; split at hr <;> simp_all))
      intro r hr
      exact h r (by rw [hf]; exact hrows r hr)
  | corruptFile how => cases how <;> simp [step, damageFile, NoNone, rowsOf]
  | foreignWrite x v d =>
    simp only [step, foreignWrite]
    cases pf v x with
    | none => exact h
    | some t =>
      simp only []
      cases hi : txInsert x v t (s.now - d * day) s.file with
      | error e => exact h
      | ok f => exact noNone_insert h hi

/-- **A failed parse is never stored**: in every history in which the harness does not itself plant a blob that
    unpickles to `None`, no row of the database ever unpickles to `None` — whatever else happens (syntax
    errors, damaged entries, layouts, files, exceptions). -/
theorem none_never_stored (ops : List Op) :
    ∀ (s : St), NoNone s.file → (∀ op ∈ ops, plantsNone op = false) → NoNone (finalState cfg pf s ops).file := by
  induction ops with
  | nil => intro s h _; exact h
  | cons op ops ih =>
    intro s h hp
    exact ih _ (noNone_step s op (hp op (by simp)) h) (fun o ho => hp o (by simp [ho]))

example : NoNone (St.initial 0).file ∧ ∀ op ∈ [Op.parse 1 30 false false, .corruptEntry 1 0 (.bad .eof), .parse 0 30 false false],
    plantsNone op = false := ⟨by intro r hr; simp [St.initial, rowsOf] at hr, by decide⟩

/-- … and a planted one is never served: with a row that unpickles to `None` the parse still returns the
    fresh tree and replaces the row. -/
theorem planted_none_not_served :
    (run ⟨["Exception"]⟩ (fun _ _ => some 5) (St.initial 0)
      [.parse 0 30 false false, .corruptEntry 0 0 (.good none), .parse 0 30 false false]).map (·.2) =
      [some (.value (some 5)), none, some (.value (some 5))] ∧
    NoNone (finalState ⟨["Exception"]⟩ (fun _ _ => some 5) (St.initial 0)
      [.parse 0 30 false false, .corruptEntry 0 0 (.good none), .parse 0 30 false false]).file := by
  refine ⟨by decide +kernel, ?_⟩
  unfold NoNone
  decide +kernel

/-! ### Obligation over the current sources; the open finding -/

/-- The `except` clause around `pickle.loads` in the current `parse` (extracted by the translator) catches
    every exception class a damaged blob was seen to raise. -/
theorem caught_classes_cover : CaughtAll ⟨Generated.SqlProgram.caughtUnpickle⟩ :=
  caughtAll_of_all (by decide)

/-- With only `pickle.UnpicklingError` caught (the code before the fix) an empty blob escapes as `EOFError`. -/
theorem narrow_except_raises :
    (run ⟨["pickle.UnpicklingError"]⟩ (fun _ _ => some 5) (St.initial 0)
      [.parse 0 30 false false, .corruptEntry 0 0 (.bad .eof), .parse 0 30 false false]).map (·.2) =
      [some (.value (some 5)), none, some (.raised (.unpickle .eof))] := by decide +kernel

/-- **Finding C01-F2 on the model**: parse, then the file is deleted (or overwritten, or the table dropped)
    while the process keeps it in `initialized_dbs`, then parse again: `DatabaseError`.  After a reload the
    same parse succeeds. -/
theorem damaged_while_initialised_raises :
    (run ⟨["Exception"]⟩ (fun _ _ => some 5) (St.initial 0)
      [.parse 0 30 false false, .corruptFile .delete, .parse 0 30 false false, .reload, .parse 0 30 false false]).map (·.2) =
      [some (.value (some 5)), none, some (.raised .db), none, some (.value (some 5))] := by decide +kernel

end PymocaVerif.C01
