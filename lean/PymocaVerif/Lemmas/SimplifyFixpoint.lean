import PymocaVerif.Lemmas.SimplifyComplete
import PymocaVerif.Lemmas.SimplifyAliasCount
/-!
# Simplify: the substitution fixpoint loses nothing; completeness of the replace_* passes
Helper lemmas for C14.
-/
set_option linter.unusedSectionVars false
set_option linter.unusedSimpArgs false
namespace PymocaVerif.Simplify
open PymocaVerif.AliasRel Lean.Grind

variable {K : Type} [Field K] [DecidableEq K]

/-! ## the substitution fixpoint loses nothing -/

theorem eval_congr {I : Interp K} {ρ ρ' : Env K} : ∀ (e : Ex K), (∀ n ∈ e.syms, ρ n = ρ' n) → e.eval I ρ = e.eval I ρ' := by
  intro e
  induction e with
  | sym n => intro h; simpa [Ex.eval] using h n (by simp [Ex.syms])
  | const c => intro _; simp [Ex.eval]
  | un o a ih =>
    intro h
    have := ih (by simpa [Ex.syms] using h)
    cases o <;> simp [Ex.eval, this]
  | bin o a b iha ihb =>
    intro h
    have h1 := iha (fun n hn => h n (by simp [Ex.syms, hn]))
    have h2 := ihb (fun n hn => h n (by simp [Ex.syms, hn]))
    cases o <;> simp [Ex.eval, h1, h2]

theorem lookup_zip_map {α β} (f : α → β) : ∀ (syms : List String) (vs : List α) (n : String),
    (syms.zip (vs.map f)).lookup n = ((syms.zip vs).lookup n).map f
  | [], _, _ => by simp
  | _ :: _, [], _ => by simp
  | s :: ss, v :: vs, n => by
    simp only [List.map_cons, List.zip_cons_cons, List.lookup]
    cases n == s
    · exact lookup_zip_map f ss vs n
    · rfl

theorem zip_fst_of_length {α} : ∀ (syms : List String) (vs : List α), syms.length ≤ vs.length →
    (syms.zip vs).map (·.1) = syms
  | [], _, _ => by simp
  | s :: ss, [], h => by simp at h
  | s :: ss, v :: vs, h => by
    simp only [List.zip_cons_cons, List.map_cons]
    rw [zip_fst_of_length ss vs (by simpa using h)]

/-- one round of the loop is the environment update applied twice -/
theorem upd_step {I : Interp K} {E : Engine K} (hE : EngineOk I E) (syms : List String) (vs : List (Ex K)) (ρ : Env K) :
    upd I ρ (syms.zip (vs.map (E.sub (syms.zip vs)))) = upd I (upd I ρ (syms.zip vs)) (syms.zip vs) := by
  funext n
  unfold upd
  rw [lookup_zip_map]
  cases h : (syms.zip vs).lookup n with
  | none => simp [h]
  | some t =>
    simp only [Option.map_some, h]
    rw [eval_sub_upd hE]
    rfl

/-- every stage of the loop commutes with the original bindings -/
theorem fixValues_comm {I : Interp K} {E : Engine K} (hE : EngineOk I E) (syms : List String) (l0 : List (String × Ex K)) :
    ∀ (fuel : Nat) (vs : List (Ex K)),
      (∀ ρ, upd I (upd I ρ l0) (syms.zip vs) = upd I (upd I ρ (syms.zip vs)) l0) →
      ∀ ρ, upd I (upd I ρ l0) (syms.zip (fixValues E syms fuel vs).1) = upd I (upd I ρ (syms.zip (fixValues E syms fuel vs).1)) l0
  | 0, vs, h => by simpa [fixValues] using h
  | fuel + 1, vs, h => by
    have step : ∀ ρ, upd I (upd I ρ l0) (syms.zip (vs.map (E.sub (syms.zip vs)))) =
        upd I (upd I ρ (syms.zip (vs.map (E.sub (syms.zip vs))))) l0 := by
      intro ρ
      rw [upd_step hE, upd_step hE, h ρ, h (upd I ρ (syms.zip vs))]
    simp only [fixValues]
    split
    · exact step
    · exact fixValues_comm hE syms l0 fuel _ step

/-- **the fixpoint loses nothing**: with the resolved values closed (they mention none of the
    replaced symbols), the environment that gives the replaced symbols their resolved values
    satisfies the *original* bindings -/
theorem fix_back {I : Interp K} {E : Engine K} (hE : EngineOk I E) (l0 : List (String × Ex K))
    (hnd : (l0.map (·.1)).Nodup) (fuel : Nat) (τ : Env K)
    (hclosed : ∀ t ∈ (fixValues E (l0.map (·.1)) fuel (l0.map (·.2))).1, ∀ n ∈ t.syms, n ∉ l0.map (·.1)) :
    HoldsL I (upd I τ ((l0.map (·.1)).zip (fixValues E (l0.map (·.1)) fuel (l0.map (·.2))).1)) l0 := by
  generalize hsy : l0.map (·.1) = syms at *
  generalize hvf : (fixValues E syms fuel (l0.map (·.2))).1 = vf at *
  have hl0 : syms.zip (l0.map (·.2)) = l0 := by rw [← hsy]; exact zip_fst_snd l0
  have hlen : syms.length ≤ vf.length := by
    rw [← hvf, fixValues_length, ← hsy]; simp
  have hcomm := fixValues_comm hE syms l0 fuel (l0.map (·.2)) (by intro ρ; rw [hl0])
  rw [hvf] at hcomm
  -- the resolved bindings do not look at the replaced symbols
  have hind : upd I (upd I τ l0) (syms.zip vf) = upd I τ (syms.zip vf) := by
    funext n
    unfold upd
    cases hlk : (syms.zip vf).lookup n with
    | none =>
      simp only
      have hn : n ∉ syms := by
        intro hin
        exact zip_lookup_ne_none syms vf n hin hlen hlk
      have : l0.lookup n = none := lookup_none_of_not_mem l0 n (by rw [hsy]; exact hn)
      simp [this]
    | some t =>
      simp only
      apply eval_congr
      intro k hk
      have htm : t ∈ vf := by
        have := lookup_mem _ _ _ hlk
        exact (List.of_mem_zip this).2
      have hk' : k ∉ syms := hclosed t htm k hk
      have : l0.lookup k = none := lookup_none_of_not_mem l0 k (by rw [hsy]; exact hk')
      simp [this]
  have hfix : upd I (upd I τ (syms.zip vf)) l0 = upd I τ (syms.zip vf) := by
    rw [← hcomm τ, hind]
  intro p hp
  have hlk : l0.lookup p.1 = some p.2 := lookup_of_mem_nodup l0 p.1 p.2 (by rw [hsy]; exact hnd) hp
  have := congrFun hfix p.1
  simp only [upd, hlk] at this
  exact this.symm

theorem exprValues_fst (vs : List (Var K)) : (exprValues vs).map (·.1) = names (vs.filter fun v => !v.simple) := by
  induction vs with
  | nil => rfl
  | cons a as ih =>
    simp only [exprValues, List.filterMap_cons, List.filter_cons] at ih ⊢
    cases hav : a.value with
    | none => simp [Var.simple, hav]; exact ih
    | some e =>
      by_cases hc : e.isConst = true
      · simp [Var.simple, hav, hc]; exact ih
      · simp [Var.simple, hav, hc, names]; exact ih

theorem fixedList_fst (E : Engine K) (vs : List (Var K)) : (fixedList E vs).map (·.1) = (exprValues vs).map (·.1) := by
  unfold fixedList
  exact zip_fst_of_length _ _ (by rw [fixValues_length]; simp)

/-- replace_parameter_expressions loses no constraint (resolved values closed, names distinct, the
    removed parameters not mentioned by the alias relation) -/
theorem pexpr_complete {I : Interp K} {E : Engine K} (hE : EngineOk I E) {τ : Env K} {m : Model K}
    (hnd : NamesNodup m)
    (hclosed : ∀ p ∈ fixedList E m.params, ∀ n ∈ p.2.syms, n ∉ (exprValues m.params).map (·.1))
    (hfree : ARFree ((exprValues m.params).map (·.1)) m.ar)
    (hs : Sat I τ (replaceParameterExpressions E m)) :
    ∃ σ, Sat I σ m ∧ ∀ n, n ∉ (exprValues m.params).map (·.1) → σ n = τ n := by
  have hpn : (names m.params).Nodup := by
    unfold NamesNodup at hnd
    simp only [List.nodup_append] at hnd
    exact hnd.1.2.1
  have hcn : ∀ v ∈ m.consts, v.name ∉ names m.params := by
    intro v hv hp
    unfold NamesNodup at hnd
    rw [List.nodup_append] at hnd
    exact hnd.2.2 v.name (List.mem_append_right _ hp) v.name (List.mem_map.2 ⟨v, hv, rfl⟩) rfl
  have hdom_sub : ∀ n, n ∈ (exprValues m.params).map (·.1) → n ∈ names m.params := by
    intro n hn
    rw [exprValues_fst] at hn
    obtain ⟨v, hv, rfl⟩ := List.mem_map.1 hn
    exact List.mem_map.2 ⟨v, (List.mem_filter.1 hv).1, rfl⟩
  unfold replaceParameterExpressions at hs
  simp only at hs
  split at hs
  · rename_i hemp
    refine ⟨τ, ⟨hs.eqs, ?_, hs.consts, hs.alias⟩, fun _ _ => rfl⟩
    intro v hv t ht
    have hsimple : v.simple = true := by
      by_cases h1 : v.simple = true
      · exact h1
      · have := not_simple_mem_exprValues hv (by simpa using h1)
        have he : exprValues m.params = [] := by simpa using hemp
        simp [he] at this
    exact hs.params v (List.mem_filter.2 ⟨hv, hsimple⟩) t ht
  · have hlf : (fixedList E m.params).map (·.1) = (exprValues m.params).map (·.1) := fixedList_fst E m.params
    have hl0nd : ((exprValues m.params).map (·.1)).Nodup := by
      rw [exprValues_fst]; exact filter_name_nodup _ hpn
    have hback := fix_back hE (exprValues m.params) hl0nd 100 τ (by
      intro t ht n hn
      obtain ⟨i, hi, rfl⟩ := List.mem_iff_getElem.1 ht
      have hlen : i < ((exprValues m.params).map (·.1)).length := by
        rw [fixValues_length] at hi; simpa using hi
      have hmem : (((exprValues m.params).map (·.1))[i], (fixValues E ((exprValues m.params).map (·.1)) 100 ((exprValues m.params).map (·.2))).1[i])
          ∈ fixedList E m.params := by
        unfold fixedList
        rw [List.mem_iff_getElem]
        exact ⟨i, by simp only [List.length_zip, List.length_map] at hlen ⊢; omega, by simp⟩
      exact hclosed _ hmem n hn)
    refine ⟨upd I τ (fixedList E m.params), ?_, fun n hn => upd_off τ _ n (by rw [hlf]; exact hn)⟩
    have hs' : Sat I τ (substEverywhere E (fixedList E m.params) { m with params := m.params.filter Var.simple }) :=
      ⟨hs.eqs, hs.params, hs.consts, hs.alias⟩
    refine ⟨eqok_back hE (by simpa [substEverywhere, substMeta] using hs'.eqs), ?_, ?_,
      aliasOk_of_agree hfree (fun n hn => upd_off τ _ n (by rw [hlf]; exact hn)) (by simpa [substEverywhere, substMeta] using hs'.alias)⟩
    · intro v hv t ht
      by_cases hsimple : v.simple = true
      · have hval := valok_back hE (vs := m.params.filter Var.simple) (τ := τ) (l := fixedList E m.params)
          (by
            intro w hw hin
            rw [hlf, exprValues_fst] at hin
            obtain ⟨u, hu, hname⟩ := List.mem_map.1 hin
            have hu' := List.mem_filter.1 hu
            have hw' := List.mem_filter.1 hw
            have : u = w := nodup_map_inj _ _ (by simpa [names] using hpn) u hu'.1 w hw'.1 hname
            subst this
            simp [hw'.2] at hu')
          (by simpa [substEverywhere, substMeta] using hs'.params)
        exact hval v (List.mem_filter.2 ⟨hv, hsimple⟩) t ht
      · -- a replaced parameter: its original binding holds
        have hmem : (v.name, t) ∈ exprValues m.params := by
          have hns : v.simple = false := by simpa using hsimple
          unfold Var.simple at hns
          rw [ht] at hns
          exact List.mem_filterMap.2 ⟨v, hv, by simp [ht, hns]⟩
        exact hback (v.name, t) hmem
    · exact valok_back hE (fun v hv hin => hcn v hv (hdom_sub _ (by rw [← hlf]; exact hin)))
        (by simpa [substEverywhere, substMeta] using hs'.consts)

/-- replace_constant_expressions loses no constraint (same argument, for the constants) -/
theorem cexpr_complete {I : Interp K} {E : Engine K} (hE : EngineOk I E) {τ : Env K} {m : Model K}
    (hnd : NamesNodup m)
    (hclosed : ∀ p ∈ fixedList E m.consts, ∀ n ∈ p.2.syms, n ∉ (exprValues m.consts).map (·.1))
    (hfree : ARFree ((exprValues m.consts).map (·.1)) m.ar)
    (hs : Sat I τ (replaceConstantExpressions E m)) :
    ∃ σ, Sat I σ m ∧ ∀ n, n ∉ (exprValues m.consts).map (·.1) → σ n = τ n := by
  have hpn : (names m.consts).Nodup := by
    unfold NamesNodup at hnd
    rw [List.nodup_append] at hnd
    exact hnd.2.1
  have hcn : ∀ v ∈ m.params, v.name ∉ names m.consts := by
    intro v hv hp
    unfold NamesNodup at hnd
    rw [List.nodup_append] at hnd
    exact hnd.2.2 v.name (List.mem_append_right _ (List.mem_map.2 ⟨v, hv, rfl⟩)) v.name hp rfl
  have hdom_sub : ∀ n, n ∈ (exprValues m.consts).map (·.1) → n ∈ names m.consts := by
    intro n hn
    rw [exprValues_fst] at hn
    obtain ⟨v, hv, rfl⟩ := List.mem_map.1 hn
    exact List.mem_map.2 ⟨v, (List.mem_filter.1 hv).1, rfl⟩
  unfold replaceConstantExpressions at hs
  simp only at hs
  split at hs
  · rename_i hemp
    refine ⟨τ, ⟨hs.eqs, hs.params, ?_, hs.alias⟩, fun _ _ => rfl⟩
    intro v hv t ht
    have hsimple : v.simple = true := by
      by_cases h1 : v.simple = true
      · exact h1
      · have := not_simple_mem_exprValues hv (by simpa using h1)
        have he : exprValues m.consts = [] := by simpa using hemp
        simp [he] at this
    exact hs.consts v (List.mem_filter.2 ⟨hv, hsimple⟩) t ht
  · have hlf : (fixedList E m.consts).map (·.1) = (exprValues m.consts).map (·.1) := fixedList_fst E m.consts
    have hl0nd : ((exprValues m.consts).map (·.1)).Nodup := by
      rw [exprValues_fst]; exact filter_name_nodup _ hpn
    have hback := fix_back hE (exprValues m.consts) hl0nd 100 τ (by
      intro t ht n hn
      obtain ⟨i, hi, rfl⟩ := List.mem_iff_getElem.1 ht
      have hlen : i < ((exprValues m.consts).map (·.1)).length := by
        rw [fixValues_length] at hi; simpa using hi
      have hmem : (((exprValues m.consts).map (·.1))[i], (fixValues E ((exprValues m.consts).map (·.1)) 100 ((exprValues m.consts).map (·.2))).1[i])
          ∈ fixedList E m.consts := by
        unfold fixedList
        rw [List.mem_iff_getElem]
        exact ⟨i, by simp only [List.length_zip, List.length_map] at hlen ⊢; omega, by simp⟩
      exact hclosed _ hmem n hn)
    refine ⟨upd I τ (fixedList E m.consts), ?_, fun n hn => upd_off τ _ n (by rw [hlf]; exact hn)⟩
    have hs' : Sat I τ (substEverywhere E (fixedList E m.consts) { m with consts := m.consts.filter Var.simple }) :=
      ⟨hs.eqs, hs.params, hs.consts, hs.alias⟩
    refine ⟨eqok_back hE (by simpa [substEverywhere, substMeta] using hs'.eqs), ?hp, ?hc,
      aliasOk_of_agree hfree (fun n hn => upd_off τ _ n (by rw [hlf]; exact hn)) (by simpa [substEverywhere, substMeta] using hs'.alias)⟩
    case hc =>
      intro v hv t ht
      by_cases hsimple : v.simple = true
      · have hval := valok_back hE (vs := m.consts.filter Var.simple) (τ := τ) (l := fixedList E m.consts)
          (by
            intro w hw hin
            rw [hlf, exprValues_fst] at hin
            obtain ⟨u, hu, hname⟩ := List.mem_map.1 hin
            have hu' := List.mem_filter.1 hu
            have hw' := List.mem_filter.1 hw
            have : u = w := nodup_map_inj _ _ (by simpa [names] using hpn) u hu'.1 w hw'.1 hname
            subst this
            simp [hw'.2] at hu')
          (by simpa [substEverywhere, substMeta] using hs'.consts)
        exact hval v (List.mem_filter.2 ⟨hv, hsimple⟩) t ht
      · -- a replaced parameter: its original binding holds
        have hmem : (v.name, t) ∈ exprValues m.consts := by
          have hns : v.simple = false := by simpa using hsimple
          unfold Var.simple at hns
          rw [ht] at hns
          exact List.mem_filterMap.2 ⟨v, hv, by simp [ht, hns]⟩
        exact hback (v.name, t) hmem
    case hp =>
      exact valok_back hE (fun v hv hin => hcn v hv (hdom_sub _ (by rw [← hlf]; exact hin)))
        (by simpa [substEverywhere, substMeta] using hs'.params)

theorem allValues_fst : ∀ {vs : List (Var K)} {l : List (String × Ex K)}, allValues vs = .ok l → l.map (·.1) = names vs
  | [], l, h => by simp [allValues] at h; subst h; rfl
  | v :: vs, l, h => by
    simp only [allValues] at h
    split at h
    · simp at h
    · cases hr : allValues vs with
      | error err => simp [hr, Except.map] at h
      | ok l' =>
        simp [hr, Except.map] at h; subst h
        simp [names, allValues_fst hr]

/-- replace_constant_values loses no constraint -/
theorem cvalues_complete {I : Interp K} {E : Engine K} (hE : EngineOk I E) {τ : Env K} {m m' : Model K}
    (h : replaceConstantValues E m = .ok m') (hnd : NamesNodup m)
    (hna : ∀ v ∈ m.consts, v.simple = true → v.aliased = false)
    (hfree : ARFree (names (m.consts.filter Var.simple)) m.ar) (hs : Sat I τ m') :
    ∃ σ, Sat I σ m ∧ ∀ n, n ∉ names (m.consts.filter Var.simple) → σ n = τ n := by
  unfold replaceConstantValues at h
  cases hv : allValues (m.consts.filter Var.simple) with
  | error err => simp [hv, bind, Except.bind] at h
  | ok l =>
    have hrm := removeAliased_id (m.consts.filter Var.simple) m.ar (fun v hv' => hna v (List.mem_filter.1 hv').1 (List.mem_filter.1 hv').2)
    simp [hv, hrm, bind, Except.bind, pure, Except.pure] at h
    subst h
    have hdom : l.map (·.1) = names (m.consts.filter Var.simple) := allValues_fst hv
    have hcn : (names m.consts).Nodup := by
      unfold NamesNodup at hnd
      rw [List.nodup_append] at hnd
      exact hnd.2.1
    have hpn : ∀ v ∈ m.params, v.name ∉ names m.consts := by
      intro v hv' hp
      unfold NamesNodup at hnd
      rw [List.nodup_append] at hnd
      exact hnd.2.2 v.name (List.mem_append_right _ (List.mem_map.2 ⟨v, hv', rfl⟩)) v.name hp rfl
    have hsub : ∀ n, n ∈ l.map (·.1) → n ∈ names m.consts := by
      intro n hn
      rw [hdom] at hn
      obtain ⟨v, hv', rfl⟩ := List.mem_map.1 hn
      exact List.mem_map.2 ⟨v, (List.mem_filter.1 hv').1, rfl⟩
    refine ⟨upd I τ l, ?_, fun n hn => upd_off τ l n (by rw [hdom]; exact hn)⟩
    refine ⟨eqok_back hE hs.eqs, ?_, ?_, aliasOk_of_agree hfree (fun n hn => upd_off τ l n (by rw [hdom]; exact hn)) hs.alias⟩
    · exact valok_back hE (fun v hv' hin => hpn v hv' (hsub _ hin)) (by simpa [substMeta] using hs.params)
    · intro v hv' t ht
      by_cases hsimple : v.simple = true
      · have hmem : (v.name, t) ∈ l := (allValues_mem hv v.name t).2 ⟨v, List.mem_filter.2 ⟨hv', hsimple⟩, rfl, ht⟩
        have hlnd : (l.map (·.1)).Nodup := by rw [hdom]; exact filter_name_nodup _ hcn
        have hc : t.isConst = true := by simpa [Var.simple, ht] using hsimple
        cases t <;> simp [Ex.isConst] at hc
        simp only [upd, lookup_of_mem_nodup l _ _ hlnd hmem, Ex.eval]
      · have hval := valok_back hE (vs := m.consts.filter (fun v => !v.simple)) (τ := τ) (l := l)
          (by
            intro w hw hin
            rw [hdom] at hin
            obtain ⟨u, hu, hname⟩ := List.mem_map.1 hin
            have hu' := List.mem_filter.1 hu
            have hw' := List.mem_filter.1 hw
            have : u = w := nodup_map_inj _ _ (by simpa [names] using hcn) u hu'.1 w hw'.1 hname
            subst this
            simp [hu'.2] at hw')
          (by simpa [substMeta] using hs.consts)
        exact hval v (List.mem_filter.2 ⟨hv', by simpa using hsimple⟩) t ht

end PymocaVerif.Simplify
