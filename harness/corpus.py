"""Minimised past failures and known-finding replays: corpus/<id>/*.json, always run first."""
import glob
import json
import os

from harness.common import VERIF


def load(pid):
    out = []
    for p in sorted(glob.glob(os.path.join(VERIF, "corpus", pid, "*.json"))):
        with open(p) as f:
            c = json.load(f)
        c.setdefault("_file", os.path.basename(p))
        out.append(c)
    return out
