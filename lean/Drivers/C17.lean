import Drivers.Proto
import PymocaVerif.Model.AliasRel
/-! Driver for C17: replays an operation history on the `AliasRel` model and reports the
    observables after every step. -/
open Lean Drivers PymocaVerif.AliasRel

def parseName (s : String) : SName :=
  if s.startsWith "-" then (true, (s.drop 1).toString) else (false, s)
def showName (v : SName) : String := if v.1 then "-" ++ v.2 else v.2

def parseOp (j : Json) : Except String Op := do
  let a ← j.getArr?
  let kind ← (a[0]?.getD Json.null).getStr?
  match kind with
  | "add" => do
    let o ← (a[1]?.getD Json.null).getNat?
    let x ← (a[2]?.getD Json.null).getStr?
    let y ← (a[3]?.getD Json.null).getStr?
    pure (.add o (parseName x) (parseName y))
  | "remove" => do
    let o ← (a[1]?.getD Json.null).getNat?
    let x ← (a[2]?.getD Json.null).getStr?
    pure (.remove o (parseName x))
  | "copy" => do
    let s ← (a[1]?.getD Json.null).getNat?
    let d ← (a[2]?.getD Json.null).getNat?
    pure (.copy s d)
  | k => throw s!"bad-op {k}"

/-- Observables of one relation object over a universe of base names. -/
def observe (s : AR) (univ : List String) : Json :=
  let names : List SName := univ.flatMap fun n => [(false, n), (true, n)]
  let al := names.map fun v =>
    (showName v, jstrs (sortStrs ((s.aliases v).map showName).eraseDups))
  let cs := names.map fun v =>
    let c := s.canonicalSigned v
    (showName v, Json.arr #[Json.str c.1, Json.num (if c.2 then (-1 : Int) else 1)])
  let it := (s.iter.map fun (c, xs) =>
    (c, jstrs (sortStrs (xs.map showName).eraseDups)))
  let itSorted := (it.toArray.qsort (fun a b => a.1 < b.1)).toList
  Json.mkObj [
    ("aliases", Json.mkObj al),
    ("canonical", Json.mkObj cs),
    ("cv", jstrs (sortStrs s.cv.eraseDups)),
    ("iter", Json.arr (itSorted.map fun (c, xs) => Json.arr #[Json.str c, xs]).toArray)]

def objOf : Op → List Nat
  | .add o _ _ => [o] | .remove o _ => [o] | .copy s d => [s, d]

def handle (req : Json) : Except String Json := do
  let op ← getStr req "op"
  match op with
  | "alias.run" => do
    let univ ← (← getArr req "univ").toList.mapM (·.getStr?)
    let hist ← (← getArr req "hist").toList.mapM parseOp
    let nobj ← getNat req "nobj"
    let mut st : Store := Store.init
    let mut outs : Array Json := #[]
    let mut failed := false
    for o in hist do
      if failed then break
      let adm := admissible st o
      match step st o with
      | none => outs := outs.push (Json.mkObj [("raised", true), ("admissible", adm)]); failed := true
      | some st' =>
        st := st'
        let obs := (List.range nobj).map fun i => observe (st i) univ
        outs := outs.push (Json.mkObj [("raised", false), ("admissible", adm), ("objs", Json.arr obs.toArray)])
    pure (Json.mkObj [("ok", true), ("steps", Json.arr outs)])
  | o => throw s!"unknown-op {o}"

def main : IO Unit := serve handle
