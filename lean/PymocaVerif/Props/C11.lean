/-! # C11 — property theorems (stub: not built yet) -/
