/-!
# Model `XmlTree` — the ModelicaXML backend (property C25)

Follows `XmlGenerator` in `src/pymoca/backends/xml/generator.py` node class by node class: the element built
by every `exit…` handler, in the order the handlers put children and attributes.

* `Expr`, `Eqn`, `Var`, `Cls`, `Flat`: the part of the flat AST the generator reads (operator names, operand
  order, literal texts as Python's `str(value)`, flattened reference names, symbol name / type name /
  prefixes / `start` / `value` / `fixed`, the equations of every class of the flat tree).
* `encode`: `none` = generation raises — a node class without handler in a position a handler looks up
  (`KeyError`), or a when-equation with `elsewhen` branches (`NotImplementedError`, `Cfg.rejectElse`, commit
  8d9d442), or — before commit 4e2bf7e, `Cfg.exprAttrs = false` — a `start` / `value` that is not a plain
  literal (`AttributeError` on `.value`).  `Cfg.fixed` is the tree as it is now, `Cfg.asIs` the tree before the
  two commits, in which findings C25-F1 and C25-F2 were recorded.
* `decode`: a strict reader of exactly the elements `encode` produces.
-/
namespace PymocaVerif.XmlTree

/-- An XML element: tag, attributes in document order, child elements (the generator emits no text). -/
inductive Xml where
  | node (tag : String) (attrs : List (String × String)) (kids : List Xml)
  deriving Repr, BEq

/-- Expressions of the flat AST as the generator sees them. -/
inductive Expr where
  | lit (text : String)                     -- `ast.Primary`, `text = str(value)`
  | ref (name : String)                     -- `ast.ComponentRef`, flattened name
  | op (name : String) (args : List Expr)   -- `ast.Expression`: operator (or called function) and operands
  | other (kind : String)                   -- a node class without handler (IfExpression, Array, …)
  deriving Repr, BEq

/-- Equations of the flat AST. A when-equation carries its first branch and, separately, what the later
    (`elsewhen`) branches hold: the generator reads `conditions[0]` and `blocks[0]` only. -/
inductive Eqn where
  | equal (l r : Expr)                                                  -- `ast.Equation`
  | call (name : String) (args : List Expr)                             -- `ast.Function` (`reinit(x, e);`)
  | when (cond : Expr) (body : List Eqn) (elseConds : List Expr) (elseBody : List Eqn)   -- `ast.WhenEquation`
  | other (kind : String)                                               -- if-/for-equation, connect clause
  deriving Repr, BEq

structure Var where
  name : String
  type : String
  prefixes : List String
  start : Option Expr      -- `none`: `Primary(value=None)`
  value : Option Expr
  fixed : Bool
  deriving Repr, BEq

structure Cls where
  name : String
  vars : List Var
  eqs : List Eqn
  deriving Repr, BEq

structure Flat where
  classes : List Cls
  deriving Repr, BEq

/-- Two points on which the tree changed (fixes C25-1 = 4e2bf7e, C25-2 = 8d9d442). -/
structure Cfg where
  exprAttrs : Bool    -- `start` / `value` are emitted as the expression's own element (any supported expression)
  rejectElse : Bool   -- a when-equation with `elsewhen` branches makes generation raise instead of losing them
  deriving Repr, DecidableEq

def Cfg.asIs : Cfg := ⟨false, false⟩
def Cfg.fixed : Cfg := ⟨true, true⟩

/-! ## encode -/

mutual
/-- `exitPrimary`, `exitComponentRef`, `exitExpression` -/
def encE : Expr → Xml
  | .lit t => .node "real" [("value", t)] []
  | .ref n => .node "local" [("name", n)] []
  | .op n args =>
    match encEs args with
    | [k] => .node "operator" [("name", n)] [k]
    | ks => .node "apply" [("builtin", n)] ks
  | .other k => .node "?" [("class", k)] []          -- never emitted: `encode` raises instead
def encEs : List Expr → List Xml
  | [] => []
  | e :: es => encE e :: encEs es
end

mutual
/-- `exitEquation`, `exitFunction`, `exitWhenEquation` -/
def encQ : Eqn → Xml
  | .equal l r => .node "equal" [] [encE l, encE r]
  | .call n args => .node "apply" [("builtin", n)] (encEs args)
  | .when c b _ _ => .node "when" [] [.node "cond" [] [encE c], .node "then" [] (encQs b)]
  | .other k => .node "?" [("class", k)] []
def encQs : List Eqn → List Xml
  | [] => []
  | q :: qs => encQ q :: encQs qs
end

/-- the first of `discrete, continuous, parameter, constant` among the prefixes -/
def variabilityOf (prefixes : List String) : Option String :=
  ["discrete", "continuous", "parameter", "constant"].find? (fun v => prefixes.contains v)

def encItem (name : String) : Option Expr → List Xml
  | none => []
  | some e => [.node "item" [("name", name)] [encE e]]

/-- `exitSymbol` -/
def encVar (v : Var) : Xml :=
  .node "component"
    (("name", v.name) :: match variabilityOf v.prefixes with
      | none => []
      | some w => [("variability", w)])
    [.node "builtin" [("name", v.type)] [],
     .node "modifier" []
       (encItem "start" v.start ++ encItem "value" v.value ++
        (if v.fixed then [.node "item" [("name", "fixed")] [.node "true" [] []]] else []))]

/-- `exitClass` -/
def encCls (c : Cls) : Xml :=
  .node "classDefinition" [("name", c.name)]
    [.node "class" [("kind", "model")] (c.vars.map encVar ++ [.node "equation" [] (encQs c.eqs)])]

/-- `exitTree` -/
def enc (m : Flat) : Xml :=
  .node "modelica" [("format", "1.0")] [.node "declarations" [] (m.classes.map encCls)]

/-! ### when generation raises -/

mutual
def okE : Expr → Bool
  | .lit _ => true
  | .ref _ => true
  | .op _ args => okEs args
  | .other _ => false
def okEs : List Expr → Bool
  | [] => true
  | e :: es => okE e && okEs es
end

mutual
def okQ (cfg : Cfg) : Eqn → Bool
  | .equal l r => okE l && okE r
  | .call _ args => okEs args
  | .when c b ec eb =>
    okE c && okQs cfg b && okEs ec && okQs cfg eb && (!cfg.rejectElse || (ec.isEmpty && eb.isEmpty))
  | .other _ => false
def okQs (cfg : Cfg) : List Eqn → Bool
  | [] => true
  | q :: qs => okQ cfg q && okQs cfg qs
end

/-- `getattr(tree, f).value`: only a `Primary` has `.value` -/
def okAttr (cfg : Cfg) : Option Expr → Bool
  | none => true
  | some (.lit _) => true
  | some e => cfg.exprAttrs && okE e

def okVar (cfg : Cfg) (v : Var) : Bool := okAttr cfg v.start && okAttr cfg v.value
def okCls (cfg : Cfg) (c : Cls) : Bool := c.vars.all (okVar cfg) && okQs cfg c.eqs

/-- `backends.xml.generator.generate` on a flat tree: `none` = raises. -/
def encode (cfg : Cfg) (m : Flat) : Option Xml :=
  if m.classes.all (okCls cfg) then some (enc m) else none

/-! ## decode: a strict reader of the generator's output -/

mutual
def decE : Xml → Option Expr
  | .node tag attrs kids =>
    if tag = "real" then
      match attrs, kids with
      | [("value", t)], [] => some (.lit t)
      | _, _ => none
    else if tag = "local" then
      match attrs, kids with
      | [("name", n)], [] => some (.ref n)
      | _, _ => none
    else if tag = "operator" then
      match attrs, kids with
      | [("name", n)], [k] => (decE k).map (fun e => .op n [e])
      | _, _ => none
    else if tag = "apply" then
      match attrs with
      | [("builtin", n)] =>
        match kids with
        | [_] => none
        | _ => (decEs kids).map (fun es => .op n es)
      | _ => none
    else none
def decEs : List Xml → Option (List Expr)
  | [] => some []
  | k :: ks =>
    match decE k, decEs ks with
    | some e, some es => some (e :: es)
    | _, _ => none
end

mutual
def decQ : Xml → Option Eqn
  | .node tag attrs kids =>
    if tag = "equal" then
      match attrs, kids with
      | [], [l, r] =>
        match decE l, decE r with
        | some l, some r => some (.equal l r)
        | _, _ => none
      | _, _ => none
    else if tag = "apply" then
      match attrs with
      | [("builtin", n)] => (decEs kids).map (fun es => .call n es)
      | _ => none
    else if tag = "when" then
      match attrs, kids with
      | [], [.node "cond" [] [c], .node "then" [] body] =>
        match decE c, decQs body with
        | some c, some b => some (.when c b [] [])
        | _, _ => none
      | _, _ => none
    else none
def decQs : List Xml → Option (List Eqn)
  | [] => some []
  | k :: ks =>
    match decQ k, decQs ks with
    | some q, some qs => some (q :: qs)
    | _, _ => none
end

/-- items of a `modifier`: optional `start`, optional `value`, optional `fixed`, in this order -/
def decItems (items : List Xml) : Option (Option Expr × Option Expr × Bool) :=
  let takeItem (name : String) (xs : List Xml) : Option (Option Expr × List Xml) :=
    match xs with
    | .node "item" [("name", n)] [k] :: rest =>
      if n = name then (decE k).map (fun e => (some e, rest)) else some (none, xs)
    | _ => some (none, xs)
  match takeItem "start" items with
  | none => none
  | some (st, r1) =>
    match takeItem "value" r1 with
    | none => none
    | some (va, r2) =>
      match r2 with
      | [] => some (st, va, false)
      | [.node "item" [("name", "fixed")] [.node "true" [] []]] => some (st, va, true)
      | _ => none

def decVar : Xml → Option Var
  | .node "component" attrs [.node "builtin" [("name", ty)] [], .node "modifier" [] items] =>
    match decItems items with
    | none => none
    | some (st, va, fx) =>
      match attrs with
      | [("name", n)] => some ⟨n, ty, [], st, va, fx⟩
      | [("name", n), ("variability", w)] => some ⟨n, ty, [w], st, va, fx⟩
      | _ => none
  | _ => none

/-- components, then the single `equation` element -/
def decBody : List Xml → Option (List Var × List Eqn)
  | [] => none
  | [.node "equation" [] qs] => (decQs qs).map (fun q => ([], q))
  | k :: ks =>
    match decVar k, decBody ks with
    | some v, some (vs, q) => some (v :: vs, q)
    | _, _ => none

def decCls : Xml → Option Cls
  | .node "classDefinition" [("name", n)] [.node "class" [("kind", "model")] body] =>
    (decBody body).map (fun (vs, q) => ⟨n, vs, q⟩)
  | _ => none

def decClss : List Xml → Option (List Cls)
  | [] => some []
  | k :: ks =>
    match decCls k, decClss ks with
    | some c, some cs => some (c :: cs)
    | _, _ => none

def decode : Xml → Option Flat
  | .node "modelica" [("format", "1.0")] [.node "declarations" [] cs] => (decClss cs).map (fun c => ⟨c⟩)
  | _ => none

/-! ## what the XML keeps of a flat model -/

mutual
def keptQ : Eqn → Eqn
  | .when c b _ _ => .when c (keptQs b) [] []
  | q => q
def keptQs : List Eqn → List Eqn
  | [] => []
  | q :: qs => keptQ q :: keptQs qs
end

def keptVar (v : Var) : Var := { v with prefixes := (variabilityOf v.prefixes).toList }
def keptCls (c : Cls) : Cls := ⟨c.name, c.vars.map keptVar, keptQs c.eqs⟩
/-- The flat model as far as the XML mirrors it: of the prefixes the variability, of a when-equation the
    first branch. -/
def kept (m : Flat) : Flat := ⟨m.classes.map keptCls⟩

mutual
def noElseQ : Eqn → Bool
  | .when _ b ec eb => noElseQs b && ec.isEmpty && eb.isEmpty
  | _ => true
def noElseQs : List Eqn → Bool
  | [] => true
  | q :: qs => noElseQ q && noElseQs qs
end

/-- no when-equation of the model has an `elsewhen` branch -/
def noElse (m : Flat) : Bool := m.classes.all (fun c => noElseQs c.eqs)

end PymocaVerif.XmlTree
