import PymocaVerif.Lemmas.SimplifyPasses
/-!
# Simplify: `factor_and_simplify_equations` and `eliminable_variable_expression`
Helper lemmas for C14/C15.
-/
set_option linter.unusedSectionVars false
set_option linter.unusedSimpArgs false
namespace PymocaVerif.Simplify
open PymocaVerif.AliasRel Lean.Grind

variable {K : Type} [Field K] [DecidableEq K]

/-! ## factor_and_simplify_equations -/

/-- the operations `factor` drops do not move zeros: what is assumed of `fabs` and `sqrt` -/
structure InterpOk (I : Interp K) : Prop where
  fabs_zero : ∀ x, I.fabs x = 0 ↔ x = 0
  sqrt_zero : ∀ x, I.sqrt x = 0 ↔ x = 0

/-- the precondition the property states for this option: every constant factor or divisor that
    is dropped is non-zero -/
def FactorPre : Ex K → Prop
  | .un .neg a => FactorPre a
  | .un .fabs a => FactorPre a
  | .un .sqrt a => FactorPre a
  | .bin .mul a b =>
    match b with
    | .const c => c ≠ 0 ∧ FactorPre a
    | _ => match a with
      | .const c => c ≠ 0 ∧ FactorPre b
      | _ => True
  | .bin .div a b =>
    match b with
    | .const c => c ≠ 0 ∧ FactorPre a
    | _ => True
  | _ => True

theorem factor_zero_iff {I : Interp K} (hI : InterpOk I) {σ : Env K} :
    ∀ (e : Ex K), FactorPre e → ((factor e).eval I σ = 0 ↔ e.eval I σ = 0) := by
  intro e
  induction e with
  | sym n => intro _; simp [factor]
  | const c => intro _; simp [factor]
  | un o a ih =>
    cases o with
    | neg => intro h; simp only [factor, Ex.eval]; rw [ih (by simpa [FactorPre] using h)]; grind
    | fabs => intro h; simp only [factor, Ex.eval]; rw [ih (by simpa [FactorPre] using h), hI.fabs_zero]
    | sqrt => intro h; simp only [factor, Ex.eval]; rw [ih (by simpa [FactorPre] using h), hI.sqrt_zero]
    | twice => intro _; simp [factor]
    | sq => intro _; simp [factor]
    | other n => intro _; simp [factor]
  | bin o a b iha ihb =>
    cases o with
    | mul =>
      intro h
      cases b with
      | const c =>
        simp only [FactorPre] at h
        simp only [factor, Ex.isConst, Bool.false_eq_true, if_false, if_true, Ex.eval]
        rw [iha h.2]
        have := h.1
        constructor
        · intro h0; rw [h0]; grind
        · intro h0; grind
      | sym n =>
        cases a with
        | const c =>
          simp only [FactorPre] at h
          simp only [factor, Ex.isConst, Bool.false_eq_true, if_false, if_true, Ex.eval]
          have := h.1
          constructor
          · intro h0; rw [h0]; grind
          · intro h0; grind
        | _ => simp [factor, Ex.isConst]
      | un o' b' =>
        cases a with
        | const c =>
          simp only [FactorPre] at h
          simp only [factor, Ex.isConst, Bool.false_eq_true, if_false, if_true, Ex.eval]
          rw [ihb h.2]
          have := h.1
          constructor
          · intro h0; rw [h0]; grind
          · intro h0; grind
        | _ => simp [factor, Ex.isConst]
      | bin o' b1 b2 =>
        cases a with
        | const c =>
          simp only [FactorPre] at h
          simp only [factor, Ex.isConst, Bool.false_eq_true, if_false, if_true, Ex.eval]
          rw [ihb h.2]
          have := h.1
          constructor
          · intro h0; rw [h0]; grind
          · intro h0; grind
        | _ => simp [factor, Ex.isConst]
    | div =>
      intro h
      cases b with
      | const c =>
        simp only [FactorPre] at h
        simp only [factor, Ex.isConst, Bool.false_eq_true, if_false, if_true, Ex.eval]
        rw [iha h.2]
        have := h.1
        constructor
        · intro h0; rw [h0]; grind
        · intro h0; grind
      | _ => simp [factor, Ex.isConst]
    | add => intro _; simp [factor]
    | sub => intro _; simp [factor]
    | ifElseZero => intro _; simp [factor]
    | other n => intro _; simp [factor]

/-! ## eliminable_variable_expression -/

/-- precondition for looking through the `if_else_zero` forms: the conditions select exactly one
    branch (this is what CasADi's `if_else(c, a, b) = if_else_zero(c, a) + if_else_zero(!c, b)` gives);
    a lone `if_else_zero(c, x - v)` determines `x` only where `c` holds -/
def ExtractPre (I : Interp K) (σ : Env K) : Ex K → Prop
  | .bin .ifElseZero c e => c.eval I σ ≠ 0 ∧ ExtractPre I σ e
  | .bin .add (.bin .ifElseZero c1 e1) (.bin .ifElseZero c2 e2) =>
    ((c1.eval I σ ≠ 0 ∧ c2.eval I σ = 0) ∨ (c1.eval I σ = 0 ∧ c2.eval I σ ≠ 0)) ∧ ExtractPre I σ e1 ∧ ExtractPre I σ e2
  | _ => True

theorem extract_sound {I : Interp K} {σ : Env K} (cx : ElimCtx) (e : Ex K) :
    ∀ x v, extract cx e = some (x, v) → ExtractPre I σ e → e.eval I σ = 0 → σ x = v.eval I σ := by
  fun_induction extract cx e <;> intro x v h hp he
  all_goals (try (simp at h))
  all_goals (try (obtain ⟨rfl, rfl⟩ := h))
  all_goals (try (simp [Ex.eval] at he ⊢ <;> grind))
  case case3 c e' x' v' hx ih =>
    simp only [ExtractPre] at hp
    simp only [Ex.eval, hp.1, if_false] at he ⊢
    exact ih _ _ hx hp.2 he
  case case6 | case7 | case8 =>
    repeat' (split at h)
    all_goals (try (simp at h))
    all_goals (try (obtain ⟨rfl, rfl⟩ := h))
    all_goals (simp [Ex.eval] at he ⊢ <;> grind)
  case case16 a b direct hd =>
    simp +zetaDelta only [] at hd
    repeat' (split at hd)
    all_goals (try (simp at hd))
    all_goals (try (obtain ⟨rfl, rfl⟩ := hd))
    all_goals (simp [Ex.eval] at he ⊢ <;> grind)
  case case17 c1 e1 c2 e2 v1 x2 v2 hx2 direct hdn hx1 ih1 ih2 =>
    simp only [ExtractPre] at hp
    obtain ⟨hc, hp1, hp2⟩ := hp
    simp only [Ex.eval] at he ⊢
    rcases hc with ⟨h1, h2⟩ | ⟨h1, h2⟩
    · simp only [h1, h2, if_false, if_true] at he ⊢
      have := ih1 _ _ hx1 hp1 (by grind)
      rw [this]; grind
    · simp only [h1, h2, if_false, if_true] at he ⊢
      have := ih2 _ _ hx2 hp2 (by grind)
      rw [this]; grind

theorem elimLoop_sound {I : Interp K} {σ : Env K} (states allSt matched : List String) :
    ∀ (es : List (Ex K)) (algs : List (Var K)) (r : List (Ex K) × List (String × Ex K) × List (Var K)),
      elimLoop states allSt matched es algs = .ok r → (∀ e ∈ es, ExtractPre I σ e) → EqOk I σ es →
      EqOk I σ r.1 ∧ HoldsL I σ r.2.1
  | [], algs, r, h, _, _ => by
    simp [elimLoop] at h; subst h
    exact ⟨by intro e he; simp at he, by intro p hp; simp at hp⟩
  | e :: es, algs, r, h, hpre, heq => by
    have hes : EqOk I σ es := fun x hx => heq x (List.mem_cons_of_mem _ hx)
    have hpes : ∀ x ∈ es, ExtractPre I σ x := fun x hx => hpre x (List.mem_cons_of_mem _ hx)
    simp only [elimLoop] at h
    split at h
    · rename_i x v hext
      split at h
      · simp at h
      · split at h
        · simp at h
        · rename_i r' hr'
          split at h
          · simp at h
          · simp at h; subst h
            have ih := elimLoop_sound states allSt matched es _ r' hr' hpes hes
            refine ⟨ih.1, ?_⟩
            intro p hp
            rcases List.mem_cons.1 hp with rfl | hp
            · exact extract_sound _ e x v hext (hpre e (by simp)) (heq e (by simp))
            · exact ih.2 p hp
    · split at h
      · simp at h
      · rename_i r' hr'
        simp at h; subst h
        have ih := elimLoop_sound states allSt matched es algs r' hr' hpes hes
        refine ⟨?_, ih.2⟩
        intro x hx
        rcases List.mem_cons.1 hx with rfl | hx
        · exact heq _ (by simp)
        · exact ih.1 x hx


/-- forward direction of eliminable_variable_expression (algebraic variables) -/
theorem elim_sound {I : Interp K} {E : Engine K} (hE : EngineOk I E) {σ : Env K} {expandMx : Bool}
    {matched : List String} {m m' : Model K} (h : eliminateVariables E expandMx matched m = .ok m')
    (hpre : ∀ e ∈ m.eqs, ExtractPre I σ e) (hs : Sat I σ m) : Sat I σ m' := by
  unfold eliminateVariables at h
  split at h
  · simp at h
  · split at h
    · simp at h
    · rename_i r hr
      have hl := elimLoop_sound _ _ _ m.eqs m.algs r hr hpre hs.eqs
      simp only at h
      split at h
      · simp at h; subst h
        exact ⟨hl.1, hs.params, hs.consts, hs.alias⟩
      · simp at h; subst h
        have hl0 : HoldsL I σ ((List.map (·.1) r.2.1).zip (List.map (·.2) r.2.1)) := by
          rw [zip_fst_snd]; exact hl.2
        have hfix := fixValues_holds hE _ 100 _ hl0
        exact ⟨(eqok_map (fun e => sub_eval hE hfix e)).2 hl.1, hs.params, hs.consts, hs.alias⟩

theorem factor_sound {I : Interp K} (hI : InterpOk I) {σ : Env K} {m : Model K}
    (hpre : ∀ e ∈ m.eqs, FactorPre e) : Sat I σ (factorAndSimplify m) ↔ Sat I σ m := by
  unfold factorAndSimplify
  have key : EqOk I σ (m.eqs.map factor) ↔ EqOk I σ m.eqs := by
    unfold EqOk
    constructor
    · intro h e he
      exact (factor_zero_iff hI e (hpre e he)).1 (h _ (List.mem_map_of_mem he))
    · intro h e he
      obtain ⟨e0, he0, rfl⟩ := List.mem_map.1 he
      exact (factor_zero_iff hI e0 (hpre e0 he0)).2 (h e0 he0)
  constructor
  · intro h; exact ⟨key.1 h.eqs, h.params, h.consts, h.alias⟩
  · intro h; exact ⟨key.2 h.eqs, h.params, h.consts, h.alias⟩

end PymocaVerif.Simplify
