/-! # C09 — property theorems (stub: not built yet) -/
