import os, shutil, tempfile, time
import numpy as np
import pymoca
from pymoca.backends.casadi import api
from pymoca.backends.casadi.api import transfer_model
def write(path, txt, mtime):
    open(path,"w").write(txt); os.utime(path,(mtime,mtime))
def sig(m):
    f = m.dae_residual_function
    return (str([v.symbol.name() for v in m.states+m.alg_states+m.parameters]), str(m.variable_metadata_function(np.array([float(i+1) for i in range(len(m.parameters))]) if m.parameters else [])[3] if m.parameters else ""), f.n_out() and f.size_out(0))
d = tempfile.mkdtemp(); lib = tempfile.mkdtemp()
t0 = time.time() - 1000
write(os.path.join(d,"M.mo"), "model M parameter Real p=1; Real x; equation x = p; end M;", t0)
o = {"cache": True}
m1 = transfer_model(d,"M",dict(o)); print("1", sig(m1), type(m1).__name__)
m2 = transfer_model(d,"M",dict(o)); print("2", sig(m2), type(m2).__name__)
# edit with later mtime than cache
cm = os.path.getmtime(os.path.join(d,"M.pymoca_cache"))
write(os.path.join(d,"M.mo"), "model M parameter Real p=2; Real x,y; equation x = p; y = 2*x; end M;", cm+1)
m3 = transfer_model(d,"M",dict(o)); print("3 after edit", sig(m3), type(m3).__name__)
# option change
m4 = transfer_model(d,"M",dict(o, replace_parameter_values=True)); print("4 opt change", sig(m4), type(m4).__name__)
m5 = transfer_model(d,"M",dict(o, replace_parameter_values=True)); print("5", sig(m5), type(m5).__name__)
# version change
api.__version__ = "other"
m6 = transfer_model(d,"M",dict(o, replace_parameter_values=True)); print("6 version change", type(m6).__name__)
# library folder: add lib later with OLD mtime
write(os.path.join(lib,"L.mo"), "model L Real z; equation z=1; end L;", t0)
m7 = transfer_model(d,"M",dict(o, replace_parameter_values=True, library_folders=[lib])); print("7 lib added(old mtime)", type(m7).__name__)
# mtime equal to cache
cm = os.path.getmtime(os.path.join(d,"M.pymoca_cache"))
write(os.path.join(d,"M.mo"), "model M parameter Real p=3; Real x; equation x = p; end M;", cm)
m8 = transfer_model(d,"M",dict(o, replace_parameter_values=True)); print("8 equal mtime edit", type(m8).__name__, sig(m8))
