import PymocaVerif.Model.Delay
/-!
# Lemmas for C22: the delay translation allocates one argument per source delay node, in
post-order, and preserves every delayed expression and duration
-/
namespace PymocaVerif.Delay
open PymocaVerif.Classify (Cat derName delayName)

/-- A source delay node: identity, delayed expression, duration. -/
abbrev DNode := Nat × Expr × Expr

/-- The `delay` nodes of a source expression, in post-order (operands before the node). -/
def delayNodes : Expr → List DNode
  | .lit _ => []
  | .time => []
  | .ref _ => []
  | .idx _ i => delayNodes i
  | .der _ => []
  | .derAt _ i => delayNodes i
  | .un _ e => delayNodes e
  | .ite c t e => delayNodes c ++ delayNodes t ++ delayNodes e
  | .bin _ a b => delayNodes a ++ delayNodes b
  | .delay id a d => delayNodes a ++ delayNodes d ++ [(id, a, d)]
  | .dsym _ => []
  | .dsymAt _ i => delayNodes i

def pairNodes (body : List (Expr × Expr)) : List DNode :=
  body.flatMap (fun p => delayNodes p.1 ++ delayNodes p.2)

def eqNodes : Equation → List DNode
  | .eq l r => delayNodes l ++ delayNodes r
  | .forEq _ _ body => pairNodes body

/-- All delay nodes in the order of the generator's walk: initial equations first. -/
def allNodes (ieqs eqs : List Equation) : List DNode :=
  ieqs.flatMap eqNodes ++ eqs.flatMap eqNodes

/-- Symbols a *source* duration mentions (outside loops): like `atoms none`, a nested `delay` node
    counting as a delay input. -/
def srcAtoms : Expr → List Atom
  | .lit _ => []
  | .time => [.time]
  | .ref n => [.var n]
  | .idx n i => .var n :: srcAtoms i
  | .der n => [.der n]
  | .derAt n i => .der n :: srcAtoms i
  | .un _ e => srcAtoms e
  | .ite c t e => srcAtoms c ++ srcAtoms t ++ srcAtoms e
  | .bin _ a b => srcAtoms a ++ srcAtoms b
  | .delay id _ _ => [.dly id]
  | .dsym k => [.dly k]
  | .dsymAt k i => .dly k :: srcAtoms i

/-- Forget which delay input an atom names. -/
def norm : Atom → Atom
  | .dly _ => .dly 0
  | .loopIdx _ => .loopIdx ""
  | a => a

theorem disallowed_norm (c : Cats) (a : Atom) : disallowed c (norm a) = disallowed c a := by
  cases a <;> rfl

theorem any_disallowed_of_norm_eq (c : Cats) {l₁ l₂ : List Atom} (h : l₁.map norm = l₂.map norm) :
    l₁.any (disallowed c) = l₂.any (disallowed c) := by
  have e : ∀ l : List Atom, l.any (disallowed c) = (l.map norm).any (disallowed c) := by
    intro l; induction l with
    | nil => rfl
    | cons a t ih => simp [List.any_cons, disallowed_norm, ih]
  rw [e l₁, e l₂, h]

theorem range'_add (s m n : Nat) : List.range' s m ++ List.range' (s + m) n = List.range' s (m + n) := by
  have := @List.range'_append s m n 1
  simpa using this

/-- The state after translating `e`: counter advanced by the number of delay nodes, `new`
    arguments appended, numbered consecutively, carrying the nodes' ids in post-order. -/
structure Step (lp : Option (String × Nat)) (s s' : St) (nodes : List DNode) (new : List DArg) : Prop where
  next : s'.next = s.next + nodes.length
  args : s'.args = s.args ++ new
  ok : s'.ok = s.ok
  ks : new.map (·.k) = List.range' s.next nodes.length
  ids : new.map (·.id) = nodes.map (·.1)
  lvs : ∀ a ∈ new, a.lv = lp.map (·.1)

theorem Step.refl (lp : Option (String × Nat)) (s : St) : Step lp s s [] [] :=
  ⟨by simp, by simp, rfl, by simp, by simp, by simp⟩

theorem Step.trans {lp : Option (String × Nat)} {s₁ s₂ s₃ : St} {n₁ n₂ : List DNode} {a₁ a₂ : List DArg}
    (h₁ : Step lp s₁ s₂ n₁ a₁) (h₂ : Step lp s₂ s₃ n₂ a₂) : Step lp s₁ s₃ (n₁ ++ n₂) (a₁ ++ a₂) := by
  refine ⟨?_, ?_, ?_, ?_, ?_, ?_⟩
  · rw [h₂.next, h₁.next, List.length_append]; omega
  · rw [h₂.args, h₁.args, List.append_assoc]
  · rw [h₂.ok, h₁.ok]
  · rw [List.map_append, h₁.ks, h₂.ks, h₁.next, List.length_append, range'_add]
  · rw [List.map_append, List.map_append, h₁.ids, h₂.ids]
  · intro a ha
    rcases List.mem_append.mp ha with h | h
    · exact h₁.lvs a h
    · exact h₂.lvs a h

theorem newArg_k (lp : Option (String × Nat)) (k id : Nat) (a d : Expr) : (newArg lp k id a d).k = k := by
  cases lp with
  | none => rfl
  | some p => obtain ⟨v, n⟩ := p; simp only [newArg]; split <;> rfl

theorem newArg_id (lp : Option (String × Nat)) (k id : Nat) (a d : Expr) : (newArg lp k id a d).id = id := by
  cases lp with
  | none => rfl
  | some p => obtain ⟨v, n⟩ := p; simp only [newArg]; split <;> rfl

theorem newArg_lv (lp : Option (String × Nat)) (k id : Nat) (a d : Expr) :
    (newArg lp k id a d).lv = lp.map (·.1) := by
  cases lp with
  | none => rfl
  | some p => obtain ⟨v, n⟩ := p; simp only [newArg]; split <;> rfl

theorem newArg_dur (lp : Option (String × Nat)) (k id : Nat) (a d : Expr) : (newArg lp k id a d).dur = d := by
  cases lp with
  | none => rfl
  | some p => obtain ⟨v, n⟩ := p; simp only [newArg]; split <;> rfl

/-- One argument per delay node of `e`, allocated in post-order. -/
theorem tr_step (lp : Option (String × Nat)) : ∀ (e : Expr) (s : St),
    ∃ new, Step lp s (tr lp e s).2 (delayNodes e) new
  | .lit _, s => ⟨[], by simpa [tr, delayNodes] using Step.refl lp s⟩
  | .time, s => ⟨[], by simpa [tr, delayNodes] using Step.refl lp s⟩
  | .ref _, s => ⟨[], by simpa [tr, delayNodes] using Step.refl lp s⟩
  | .dsym _, s => ⟨[], by simpa [tr, delayNodes] using Step.refl lp s⟩
  | .dsymAt _ i, s => by simpa [tr, delayNodes] using tr_step lp i s
  | .idx _ i, s => by simpa [tr, delayNodes] using tr_step lp i s
  | .der _, s => ⟨[], by simpa [tr, delayNodes] using Step.refl lp s⟩
  | .derAt _ i, s => by simpa [tr, delayNodes] using tr_step lp i s
  | .un _ e, s => by simpa [tr, delayNodes] using tr_step lp e s
  | .ite c t e, s => by
    obtain ⟨nc, hc⟩ := tr_step lp c s
    obtain ⟨nt, ht⟩ := tr_step lp t (tr lp c s).2
    obtain ⟨ne, he⟩ := tr_step lp e (tr lp t (tr lp c s).2).2
    exact ⟨nc ++ nt ++ ne, by simpa [tr, delayNodes] using (hc.trans ht).trans he⟩
  | .bin _ a b, s => by
    obtain ⟨na, ha⟩ := tr_step lp a s
    obtain ⟨nb, hb⟩ := tr_step lp b (tr lp a s).2
    exact ⟨na ++ nb, by simpa [tr, delayNodes] using ha.trans hb⟩
  | .delay id a d, s => by
    obtain ⟨na, ha⟩ := tr_step lp a s
    obtain ⟨nd, hd⟩ := tr_step lp d (tr lp a s).2
    have had := ha.trans hd
    refine ⟨na ++ nd ++ [newArg lp (tr lp d (tr lp a s).2).2.next id (tr lp a s).1 (tr lp d (tr lp a s).2).1], ?_⟩
    have hself : Step lp (tr lp d (tr lp a s).2).2 (tr lp (.delay id a d) s).2 [(id, a, d)]
        [newArg lp (tr lp d (tr lp a s).2).2.next id (tr lp a s).1 (tr lp d (tr lp a s).2).1] := by
      refine ⟨by simp [tr], by simp [tr], by simp [tr], by simp [newArg_k, List.range'], by simp [newArg_id], ?_⟩
      intro x hx
      rw [List.mem_singleton.mp hx, newArg_lv]
    simpa [delayNodes] using had.trans hself

theorem trPairs_step (lp : Option (String × Nat)) : ∀ (body : List (Expr × Expr)) (s : St),
    ∃ new, Step lp s (trPairs lp body s).2 (pairNodes body) new
  | [], s => ⟨[], by simpa [trPairs, pairNodes] using Step.refl lp s⟩
  | (l, r) :: rest, s => by
    obtain ⟨nl, hl⟩ := tr_step lp l s
    obtain ⟨nr, hr⟩ := tr_step lp r (tr lp l s).2
    obtain ⟨ns, hs⟩ := trPairs_step lp rest (tr lp r (tr lp l s).2).2
    refine ⟨nl ++ nr ++ ns, ?_⟩
    have := (hl.trans hr).trans hs
    simpa [trPairs, pairNodes, List.flatMap_cons] using this

/-- Forgetting the loop context of a step (only the `lv` bookkeeping depends on it). -/
structure Step' (s s' : St) (nodes : List DNode) (new : List DArg) : Prop where
  next : s'.next = s.next + nodes.length
  args : s'.args = s.args ++ new
  ks : new.map (·.k) = List.range' s.next nodes.length
  ids : new.map (·.id) = nodes.map (·.1)

theorem Step.weaken {lp : Option (String × Nat)} {s s' : St} {n : List DNode} {a : List DArg}
    (h : Step lp s s' n a) : Step' s s' n a := ⟨h.next, h.args, h.ks, h.ids⟩

theorem Step'.refl (s : St) : Step' s s [] [] := ⟨by simp, by simp, by simp, by simp⟩

theorem Step'.trans {s₁ s₂ s₃ : St} {n₁ n₂ : List DNode} {a₁ a₂ : List DArg}
    (h₁ : Step' s₁ s₂ n₁ a₁) (h₂ : Step' s₂ s₃ n₂ a₂) : Step' s₁ s₃ (n₁ ++ n₂) (a₁ ++ a₂) := by
  refine ⟨?_, ?_, ?_, ?_⟩
  · rw [h₂.next, h₁.next, List.length_append]; omega
  · rw [h₂.args, h₁.args, List.append_assoc]
  · rw [List.map_append, h₁.ks, h₂.ks, h₁.next, List.length_append, range'_add]
  · rw [List.map_append, List.map_append, h₁.ids, h₂.ids]

theorem trEq_step : ∀ (q : Equation) (s : St), ∃ new, Step' s (trEq q s).2 (eqNodes q) new
  | .eq l r, s => by
    obtain ⟨nl, hl⟩ := tr_step none l s
    obtain ⟨nr, hr⟩ := tr_step none r (tr none l s).2
    exact ⟨nl ++ nr, by simpa [trEq, eqNodes] using (hl.trans hr).weaken⟩
  | .forEq v n body, s => by
    obtain ⟨nb, hb⟩ := trPairs_step (some (v, n)) body s
    refine ⟨nb, ?_⟩
    have := hb.weaken
    exact ⟨by simpa [trEq, eqNodes] using this.next, by simpa [trEq, eqNodes] using this.args,
      by simpa [eqNodes] using this.ks, by simpa [eqNodes] using this.ids⟩

theorem trEqs_step : ∀ (qs : List Equation) (s : St), ∃ new, Step' s (trEqs qs s).2 (qs.flatMap eqNodes) new
  | [], s => ⟨[], by simpa [trEqs] using Step'.refl s⟩
  | q :: qs, s => by
    obtain ⟨n1, h1⟩ := trEq_step q s
    obtain ⟨n2, h2⟩ := trEqs_step qs (trEq q s).2
    exact ⟨n1 ++ n2, by simpa [trEqs, List.flatMap_cons] using h1.trans h2⟩

/-! ## The arguments a translation appends, explicitly -/

def newArgs (lp : Option (String × Nat)) (e : Expr) (s : St) : List DArg :=
  (tr lp e s).2.args.drop s.args.length

theorem tr_args (lp : Option (String × Nat)) (e : Expr) (s : St) :
    (tr lp e s).2.args = s.args ++ newArgs lp e s := by
  obtain ⟨new, h⟩ := tr_step lp e s
  simp [newArgs, h.args]

theorem newArgs_eq {lp : Option (String × Nat)} {e : Expr} {s : St} {l : List DArg}
    (h : (tr lp e s).2.args = s.args ++ l) : newArgs lp e s = l := by
  simp [newArgs, h]

theorem newArgs_delay (lp : Option (String × Nat)) (id : Nat) (a d : Expr) (s : St) :
    newArgs lp (.delay id a d) s =
      newArgs lp a s ++ newArgs lp d (tr lp a s).2 ++
        [newArg lp (tr lp d (tr lp a s).2).2.next id (tr lp a s).1 (tr lp d (tr lp a s).2).1] := by
  apply newArgs_eq
  simp [tr, tr_args lp d, tr_args lp a]

theorem newArgs_bin (lp : Option (String × Nat)) (o : BinOp) (a b : Expr) (s : St) :
    newArgs lp (.bin o a b) s = newArgs lp a s ++ newArgs lp b (tr lp a s).2 := by
  apply newArgs_eq
  simp [tr, tr_args lp b, tr_args lp a]

theorem newArgs_ite (lp : Option (String × Nat)) (c t e : Expr) (s : St) :
    newArgs lp (.ite c t e) s =
      newArgs lp c s ++ newArgs lp t (tr lp c s).2 ++ newArgs lp e (tr lp t (tr lp c s).2).2 := by
  apply newArgs_eq
  simp [tr, tr_args lp e, tr_args lp t, tr_args lp c]

/-! ## Durations: the translated duration depends on a disallowed symbol iff the source one does -/

/-- The expression does not mention the variable of the enclosing loop (vacuous outside loops). -/
def LoopFree (lp : Option (String × Nat)) (x : Expr) : Prop :=
  ∀ v n, lp = some (v, n) → mentionsVar v x = false

theorem indexed_imp_var (v : String) : ∀ e : Expr, mentionsIndexed v e = true → mentionsVar v e = true
  | .lit _, h => by simp [mentionsIndexed] at h
  | .time, h => by simp [mentionsIndexed] at h
  | .ref _, h => by simp [mentionsIndexed] at h
  | .dsym _, h => by simp [mentionsIndexed] at h
  | .idx _ i, h => by simpa [mentionsIndexed, mentionsVar] using h
  | .dsymAt _ i, h => by simpa [mentionsIndexed, mentionsVar] using h
  | .der _, h => by simp [mentionsIndexed] at h
  | .derAt _ i, h => by simpa [mentionsIndexed, mentionsVar] using h
  | .un _ e, h => by simpa [mentionsIndexed, mentionsVar] using indexed_imp_var v e (by simpa [mentionsIndexed] using h)
  | .ite c t e, h => by
    simp only [mentionsIndexed, Bool.or_eq_true] at h
    simp only [mentionsVar, Bool.or_eq_true]
    exact h.imp (fun h' => h'.imp (indexed_imp_var v c) (indexed_imp_var v t)) (indexed_imp_var v e)
  | .bin _ a b, h => by
    simp only [mentionsIndexed, Bool.or_eq_true] at h
    simp only [mentionsVar, Bool.or_eq_true]
    exact h.imp (indexed_imp_var v a) (indexed_imp_var v b)
  | .delay _ a d, h => by
    simp only [mentionsIndexed, Bool.or_eq_true] at h
    simp only [mentionsVar, Bool.or_eq_true]
    exact h.imp (indexed_imp_var v a) (indexed_imp_var v d)

theorem newSym_of_not_indexed (v : String) (n k : Nat) (a : Expr) (h : mentionsIndexed v a = false) :
    newSym (some (v, n)) k a = .dsym k := by simp [newSym, h]

/-- Translating a loop-variable-free expression yields a loop-variable-free expression. -/
theorem tr_mentionsVar (v : String) (n : Nat) : ∀ (e : Expr) (s : St), mentionsVar v e = false →
    mentionsVar v (tr (some (v, n)) e s).1 = false
  | .lit _, s, _ => by simp [tr, mentionsVar]
  | .time, s, _ => by simp [tr, mentionsVar]
  | .ref _, s, h => by simpa [tr] using h
  | .dsym _, s, _ => by simp [tr, mentionsVar]
  | .idx _ i, s, h => by simpa [tr, mentionsVar] using tr_mentionsVar v n i s (by simpa [mentionsVar] using h)
  | .dsymAt _ i, s, h => by simpa [tr, mentionsVar] using tr_mentionsVar v n i s (by simpa [mentionsVar] using h)
  | .der _, s, _ => by simp [tr, mentionsVar]
  | .derAt _ i, s, h => by simpa [tr, mentionsVar] using tr_mentionsVar v n i s (by simpa [mentionsVar] using h)
  | .un _ e, s, h => by simpa [tr, mentionsVar] using tr_mentionsVar v n e s (by simpa [mentionsVar] using h)
  | .ite c t e, s, h => by
    simp only [mentionsVar, Bool.or_eq_false_iff] at h
    simp [tr, mentionsVar, tr_mentionsVar v n c s h.1.1, tr_mentionsVar v n t _ h.1.2, tr_mentionsVar v n e _ h.2]
  | .bin _ a b, s, h => by
    simp only [mentionsVar, Bool.or_eq_false_iff] at h
    simp [tr, mentionsVar, tr_mentionsVar v n a s h.1, tr_mentionsVar v n b _ h.2]
  | .delay _ a d, s, h => by
    simp only [mentionsVar, Bool.or_eq_false_iff] at h
    have ha := tr_mentionsVar v n a s h.1
    have hi : mentionsIndexed v (tr (some (v, n)) a s).1 = false := by
      cases hc : mentionsIndexed v (tr (some (v, n)) a s).1 with
      | false => rfl
      | true => rw [indexed_imp_var v _ hc] at ha; exact absurd ha (by decide)
    simp [tr, newSym_of_not_indexed v n _ _ hi, mentionsVar]

theorem loopVar_not_mem_srcAtoms : ∀ e : Expr, Atom.loopVar ∉ srcAtoms e
  | .lit _ => by simp [srcAtoms]
  | .time => by simp [srcAtoms]
  | .ref _ => by simp [srcAtoms]
  | .dsym _ => by simp [srcAtoms]
  | .delay _ _ _ => by simp [srcAtoms]
  | .idx _ i => by simpa [srcAtoms] using loopVar_not_mem_srcAtoms i
  | .dsymAt _ i => by simpa [srcAtoms] using loopVar_not_mem_srcAtoms i
  | .un _ e => by simpa [srcAtoms] using loopVar_not_mem_srcAtoms e
  | .ite c t e => by
    simp only [srcAtoms, List.mem_append, not_or]
    exact ⟨⟨loopVar_not_mem_srcAtoms c, loopVar_not_mem_srcAtoms t⟩, loopVar_not_mem_srcAtoms e⟩
  | .der _ => by simp [srcAtoms]
  | .derAt _ i => by simpa [srcAtoms] using loopVar_not_mem_srcAtoms i
  | .bin _ a b => by
    simp only [srcAtoms, List.mem_append, not_or]
    exact ⟨loopVar_not_mem_srcAtoms a, loopVar_not_mem_srcAtoms b⟩

theorem loopVar_not_mem_of_norm_eq {l : List Atom} {e : Expr} (h : l.map norm = (srcAtoms e).map norm) :
    Atom.loopVar ∉ l := by
  intro hm
  have : norm .loopVar ∈ l.map norm := List.mem_map_of_mem hm
  rw [h] at this
  obtain ⟨y, hy, hn⟩ := List.mem_map.mp this
  cases y <;> simp [norm] at hn
  exact loopVar_not_mem_srcAtoms e hy

/-- Up to the numbering of delay inputs, the symbols of a translated loop-variable-free
    expression are the symbols of its source. -/
theorem atoms_tr (lp : Option (String × Nat)) : ∀ (e : Expr) (s : St), LoopFree lp e →
    (atoms (lp.map (·.1)) (tr lp e s).1).map norm = (srcAtoms e).map norm
  | .lit _, s, _ => by simp [tr, atoms, srcAtoms]
  | .time, s, _ => by simp [tr, atoms, srcAtoms]
  | .dsym _, s, _ => by simp [tr, atoms, srcAtoms]
  | .ref m, s, h => by
    have : lp.map (·.1) ≠ some m := by
      intro hc
      cases lp with
      | none => simp at hc
      | some p =>
        obtain ⟨v, n⟩ := p
        have := h v n rfl
        simp [mentionsVar] at this hc
        exact this hc.symm
    simp [tr, atoms, srcAtoms, this]
  | .idx m i, s, h => by
    have hi : LoopFree lp i := fun v n hv => by simpa [mentionsVar] using h v n hv
    have ih := atoms_tr lp i s hi
    have hl := loopVar_not_mem_of_norm_eq ih
    simp [tr, atoms, srcAtoms, hl, ih, norm]
  | .dsymAt k i, s, h => by
    have hi : LoopFree lp i := fun v n hv => by simpa [mentionsVar] using h v n hv
    have ih := atoms_tr lp i s hi
    have hl := loopVar_not_mem_of_norm_eq ih
    simp [tr, atoms, srcAtoms, hl, ih, norm]
  | .der _, s, _ => by simp [tr, atoms, srcAtoms]
  | .derAt m i, s, h => by
    have hi : LoopFree lp i := fun v n hv => by simpa [mentionsVar] using h v n hv
    have ih := atoms_tr lp i s hi
    have hl := loopVar_not_mem_of_norm_eq ih
    simp [tr, atoms, srcAtoms, hl, ih, norm]
  | .un _ e, s, h => by
    have he : LoopFree lp e := fun v n hv => by simpa [mentionsVar] using h v n hv
    simpa [tr, atoms, srcAtoms] using atoms_tr lp e s he
  | .ite c t e, s, h => by
    have hc : LoopFree lp c := fun v n hv => by
      have := h v n hv; simp only [mentionsVar, Bool.or_eq_false_iff] at this; exact this.1.1
    have ht : LoopFree lp t := fun v n hv => by
      have := h v n hv; simp only [mentionsVar, Bool.or_eq_false_iff] at this; exact this.1.2
    have he : LoopFree lp e := fun v n hv => by
      have := h v n hv; simp only [mentionsVar, Bool.or_eq_false_iff] at this; exact this.2
    simp [tr, atoms, srcAtoms, atoms_tr lp c s hc, atoms_tr lp t _ ht, atoms_tr lp e _ he]
  | .bin _ a b, s, h => by
    have ha : LoopFree lp a := fun v n hv => by
      have := h v n hv; simp only [mentionsVar, Bool.or_eq_false_iff] at this; exact this.1
    have hb : LoopFree lp b := fun v n hv => by
      have := h v n hv; simp only [mentionsVar, Bool.or_eq_false_iff] at this; exact this.2
    simp [tr, atoms, srcAtoms, atoms_tr lp a s ha, atoms_tr lp b _ hb]
  | .delay id a d, s, h => by
    cases lp with
    | none => simp [tr, newSym, atoms, srcAtoms, norm]
    | some p =>
      obtain ⟨v, n⟩ := p
      have hv := h v n rfl
      simp only [mentionsVar, Bool.or_eq_false_iff] at hv
      have ha := tr_mentionsVar v n a s hv.1
      have hi : mentionsIndexed v (tr (some (v, n)) a s).1 = false := by
        cases hc : mentionsIndexed v (tr (some (v, n)) a s).1 with
        | false => rfl
        | true => rw [indexed_imp_var v _ hc] at ha; exact absurd ha (by decide)
      simp [tr, newSym_of_not_indexed v n _ _ hi, atoms, srcAtoms, norm]

/-- "this duration depends on a disallowed symbol", for a recorded argument / for a source node -/
def durKey (c : Cats) (a : DArg) : Bool := (atoms a.lv a.dur).any (disallowed c)
def srcKey (c : Cats) (nd : DNode) : Bool := (srcAtoms nd.2.2).any (disallowed c)

theorem durKey_newArg (c : Cats) (lp : Option (String × Nat)) (k id : Nat) (a' : Expr) (d : Expr) (s : St)
    (h : LoopFree lp d) : durKey c (newArg lp k id a' (tr lp d s).1) = srcKey c (id, a', d) := by
  simp only [durKey, srcKey, newArg_lv, newArg_dur]
  exact any_disallowed_of_norm_eq c (atoms_tr lp d s h)

theorem srcKey_irrel (c : Cats) (id : Nat) (a a' d : Expr) : srcKey c (id, a, d) = srcKey c (id, a', d) := rfl

theorem durs_tr (c : Cats) (lp : Option (String × Nat)) : ∀ (e : Expr) (s : St),
    (∀ nd ∈ delayNodes e, LoopFree lp nd.2.2) →
    (newArgs lp e s).map (durKey c) = (delayNodes e).map (srcKey c)
  | .lit _, s, _ => by simp [newArgs, tr, delayNodes]
  | .time, s, _ => by simp [newArgs, tr, delayNodes]
  | .ref _, s, _ => by simp [newArgs, tr, delayNodes]
  | .dsym _, s, _ => by simp [newArgs, tr, delayNodes]
  | .idx _ i, s, h => by simpa [newArgs, tr, delayNodes] using durs_tr c lp i s (by simpa [delayNodes] using h)
  | .dsymAt _ i, s, h => by simpa [newArgs, tr, delayNodes] using durs_tr c lp i s (by simpa [delayNodes] using h)
  | .der _, s, _ => by simp [newArgs, tr, delayNodes]
  | .derAt _ i, s, h => by simpa [newArgs, tr, delayNodes] using durs_tr c lp i s (by simpa [delayNodes] using h)
  | .un _ e, s, h => by simpa [newArgs, tr, delayNodes] using durs_tr c lp e s (by simpa [delayNodes] using h)
  | .ite x t e, s, h => by
    have hx := durs_tr c lp x s (fun nd hnd => h nd (by simp [delayNodes, hnd]))
    have ht := durs_tr c lp t (tr lp x s).2 (fun nd hnd => h nd (by simp [delayNodes, hnd]))
    have he := durs_tr c lp e (tr lp t (tr lp x s).2).2 (fun nd hnd => h nd (by simp [delayNodes, hnd]))
    simp [newArgs_ite, delayNodes, hx, ht, he]
  | .bin o a b, s, h => by
    have ha := durs_tr c lp a s (fun nd hnd => h nd (by simp [delayNodes, hnd]))
    have hb := durs_tr c lp b (tr lp a s).2 (fun nd hnd => h nd (by simp [delayNodes, hnd]))
    simp [newArgs_bin, delayNodes, ha, hb]
  | .delay id a d, s, h => by
    have ha := durs_tr c lp a s (fun nd hnd => h nd (by simp [delayNodes, hnd]))
    have hd := durs_tr c lp d (tr lp a s).2 (fun nd hnd => h nd (by simp [delayNodes, hnd]))
    have hself : LoopFree lp d := h (id, a, d) (by simp [delayNodes])
    simp only [newArgs_delay, delayNodes, List.map_append, ha, hd, List.map_cons, List.map_nil]
    rw [durKey_newArg c lp _ id _ d _ hself]
    rfl

/-! ## Lifting to equations -/

def pairArgs (lp : Option (String × Nat)) (body : List (Expr × Expr)) (s : St) : List DArg :=
  (trPairs lp body s).2.args.drop s.args.length

theorem pairs_args (lp : Option (String × Nat)) (body : List (Expr × Expr)) (s : St) :
    (trPairs lp body s).2.args = s.args ++ pairArgs lp body s := by
  obtain ⟨new, h⟩ := trPairs_step lp body s
  simp [pairArgs, h.args]

theorem pairArgs_cons (lp : Option (String × Nat)) (l r : Expr) (rest : List (Expr × Expr)) (s : St) :
    pairArgs lp ((l, r) :: rest) s =
      newArgs lp l s ++ newArgs lp r (tr lp l s).2 ++ pairArgs lp rest (tr lp r (tr lp l s).2).2 := by
  have : (trPairs lp ((l, r) :: rest) s).2.args =
      s.args ++ (newArgs lp l s ++ newArgs lp r (tr lp l s).2 ++ pairArgs lp rest (tr lp r (tr lp l s).2).2) := by
    simp [trPairs, pairs_args lp rest, tr_args lp r, tr_args lp l]
  simp [pairArgs, this]

theorem durs_pairs (c : Cats) (lp : Option (String × Nat)) : ∀ (body : List (Expr × Expr)) (s : St),
    (∀ nd ∈ pairNodes body, LoopFree lp nd.2.2) →
    (pairArgs lp body s).map (durKey c) = (pairNodes body).map (srcKey c)
  | [], s, _ => by simp [pairArgs, trPairs, pairNodes]
  | (l, r) :: rest, s, h => by
    have hl := durs_tr c lp l s (fun nd hnd => h nd (by simp [pairNodes, hnd]))
    have hr := durs_tr c lp r (tr lp l s).2 (fun nd hnd => h nd (by simp [pairNodes, hnd]))
    have hs := durs_pairs c lp rest (tr lp r (tr lp l s).2).2 (fun nd hnd => h nd (by
      simp only [pairNodes, List.flatMap_cons, List.mem_append]
      exact Or.inr hnd))
    simp only [pairArgs_cons, List.map_append, hl, hr, hs]
    simp [pairNodes, List.flatMap_cons]

/-- Durations of delays inside a for-loop do not mention the loop variable (violated exactly by
    the inputs of the open finding C22-F1). -/
def DursLoopFree : Equation → Prop
  | .eq _ _ => True
  | .forEq v _ body => ∀ nd ∈ pairNodes body, mentionsVar v nd.2.2 = false

def eqArgs (q : Equation) (s : St) : List DArg := (trEq q s).2.args.drop s.args.length

theorem eq_args (q : Equation) (s : St) : (trEq q s).2.args = s.args ++ eqArgs q s := by
  obtain ⟨new, h⟩ := trEq_step q s
  simp [eqArgs, h.args]

theorem loopFree_none (x : Expr) : LoopFree none x := by intro v n h; simp at h

theorem durs_eq (c : Cats) : ∀ (q : Equation) (s : St), DursLoopFree q →
    (eqArgs q s).map (durKey c) = (eqNodes q).map (srcKey c)
  | .eq l r, s, _ => by
    have hl := durs_tr c none l s (fun nd _ => loopFree_none _)
    have hr := durs_tr c none r (tr none l s).2 (fun nd _ => loopFree_none _)
    have : eqArgs (.eq l r) s = newArgs none l s ++ newArgs none r (tr none l s).2 := by
      have : (trEq (.eq l r) s).2.args = s.args ++ (newArgs none l s ++ newArgs none r (tr none l s).2) := by
        simp [trEq, tr_args none r, tr_args none l]
      simp [eqArgs, this]
    simp [this, hl, hr, eqNodes]
  | .forEq v n body, s, h => by
    have hb := durs_pairs c (some (v, n)) body s (fun nd hnd w m hw => by
      simp only [Option.some.injEq, Prod.mk.injEq] at hw
      rw [← hw.1]; exact h nd hnd)
    have : eqArgs (.forEq v n body) s = pairArgs (some (v, n)) body s := by
      simp [eqArgs, pairArgs, trEq]
    simp [this, hb, eqNodes]

def eqsArgs (qs : List Equation) (s : St) : List DArg := (trEqs qs s).2.args.drop s.args.length

theorem eqs_args (qs : List Equation) (s : St) : (trEqs qs s).2.args = s.args ++ eqsArgs qs s := by
  obtain ⟨new, h⟩ := trEqs_step qs s
  simp [eqsArgs, h.args]

theorem eqsArgs_cons (q : Equation) (qs : List Equation) (s : St) :
    eqsArgs (q :: qs) s = eqArgs q s ++ eqsArgs qs (trEq q s).2 := by
  have : (trEqs (q :: qs) s).2.args = s.args ++ (eqArgs q s ++ eqsArgs qs (trEq q s).2) := by
    simp [trEqs, eqs_args qs, eq_args q]
  simp [eqsArgs, this]

theorem durs_eqs (c : Cats) : ∀ (qs : List Equation) (s : St), (∀ q ∈ qs, DursLoopFree q) →
    (eqsArgs qs s).map (durKey c) = (qs.flatMap eqNodes).map (srcKey c)
  | [], s, _ => by simp [eqsArgs, trEqs]
  | q :: qs, s, h => by
    have h1 := durs_eq c q s (h q (by simp))
    have h2 := durs_eqs c qs (trEq q s).2 (fun q' hq' => h q' (by simp [hq']))
    simp [eqsArgs_cons, h1, h2, List.flatMap_cons]

theorem translate_args (ieqs eqs : List Equation) :
    (translate ieqs eqs).args = eqsArgs ieqs ⟨0, [], true⟩ ++ eqsArgs eqs (trEqs ieqs ⟨0, [], true⟩).2 := by
  simp [translate, eqs_args eqs, eqs_args ieqs]

theorem durs_translate (c : Cats) (ieqs eqs : List Equation)
    (hi : ∀ q ∈ ieqs, DursLoopFree q) (he : ∀ q ∈ eqs, DursLoopFree q) :
    (translate ieqs eqs).args.map (durKey c) = (allNodes ieqs eqs).map (srcKey c) := by
  rw [translate_args, List.map_append, durs_eqs c ieqs _ hi, durs_eqs c eqs _ he, allNodes, List.map_append]

theorem translate_step (ieqs eqs : List Equation) :
    (translate ieqs eqs).args.map (·.k) = List.range (allNodes ieqs eqs).length ∧
    (translate ieqs eqs).args.map (·.id) = (allNodes ieqs eqs).map (·.1) := by
  obtain ⟨n1, h1⟩ := trEqs_step ieqs ⟨0, [], true⟩
  obtain ⟨n2, h2⟩ := trEqs_step eqs (trEqs ieqs ⟨0, [], true⟩).2
  have h := h1.trans h2
  have ha : (translate ieqs eqs).args = n1 ++ n2 := by simp [translate, h.args]
  rw [ha]
  exact ⟨by simpa [allNodes, List.range_eq_range'] using h.ks, by simpa [allNodes] using h.ids⟩

/-! ## Evaluation: every delayed expression and duration is preserved (outside for-loops) -/

/-- Meaning of a *source* expression when the value of every delayed quantity is given by `τ`
    (keyed by the identity of the `delay` node). -/
def evalS (ρ : Env) (τ : Nat → Option Rat) : Expr → Option Rat
  | .lit q => some q
  | .time => some ρ.time
  | .ref n => ρ.val n 0
  | .idx n i => (evalS ρ τ i).bind fun q => (toIndex q).bind fun j => ρ.val n j
  | .der n => ρ.val (derName n) 0
  | .derAt n i => (evalS ρ τ i).bind fun q => (toIndex q).bind fun j => ρ.val (derName n) j
  | .un f e => (evalS ρ τ e).map (applyUn f)
  | .ite c t e => (evalS ρ τ c).bind fun x => if x = 0 then evalS ρ τ e else evalS ρ τ t
  | .bin o a b => (evalS ρ τ a).bind fun x => (evalS ρ τ b).bind fun y => applyBin o x y
  | .delay id _ _ => τ id
  | .dsym k => ρ.val (delayName k) 0
  | .dsymAt k i => (evalS ρ τ i).bind fun q => (toIndex q).bind fun j => ρ.val (delayName k) j

/-- What is recorded for one source node: a scalar argument whose expression and duration
    evaluate like the node's operands. -/
def Preserved (ρ : Env) (τ : Nat → Option Rat) (a : DArg) (nd : DNode) : Prop :=
  a.id = nd.1 ∧ a.vec = false ∧ a.exprs.map (eval ρ) = [evalS ρ τ nd.2.1] ∧ eval ρ a.dur = evalS ρ τ nd.2.2

theorem tr_sem (ρ : Env) (τ : Nat → Option Rat) : ∀ (e : Expr) (s : St),
    (∀ a ∈ newArgs none e s, ρ.val (delayName a.k) 0 = τ a.id) →
    eval ρ (tr none e s).1 = evalS ρ τ e ∧
      ∀ a ∈ newArgs none e s, ∃ nd ∈ delayNodes e, Preserved ρ τ a nd
  | .lit _, s, _ => by simp [tr, eval, evalS, newArgs]
  | .time, s, _ => by simp [tr, eval, evalS, newArgs]
  | .ref _, s, _ => by simp [tr, eval, evalS, newArgs]
  | .der _, s, _ => by simp [tr, eval, evalS, newArgs]
  | .dsym _, s, _ => by simp [tr, eval, evalS, newArgs]
  | .idx m i, s, h => by
    have hn : newArgs none (.idx m i) s = newArgs none i s := by simp [newArgs, tr]
    obtain ⟨h1, h2⟩ := tr_sem ρ τ i s (by simpa [hn] using h)
    exact ⟨by simp [tr, eval, evalS, h1], by simpa [hn, delayNodes] using h2⟩
  | .derAt m i, s, h => by
    have hn : newArgs none (.derAt m i) s = newArgs none i s := by simp [newArgs, tr]
    obtain ⟨h1, h2⟩ := tr_sem ρ τ i s (by simpa [hn] using h)
    exact ⟨by simp [tr, eval, evalS, h1], by simpa [hn, delayNodes] using h2⟩
  | .dsymAt m i, s, h => by
    have hn : newArgs none (.dsymAt m i) s = newArgs none i s := by simp [newArgs, tr]
    obtain ⟨h1, h2⟩ := tr_sem ρ τ i s (by simpa [hn] using h)
    exact ⟨by simp [tr, eval, evalS, h1], by simpa [hn, delayNodes] using h2⟩
  | .un f e, s, h => by
    have hn : newArgs none (.un f e) s = newArgs none e s := by simp [newArgs, tr]
    obtain ⟨h1, h2⟩ := tr_sem ρ τ e s (by simpa [hn] using h)
    exact ⟨by simp [tr, eval, evalS, h1], by simpa [hn, delayNodes] using h2⟩
  | .ite x t e, s, h => by
    rw [newArgs_ite] at h
    obtain ⟨x1, x2⟩ := tr_sem ρ τ x s (fun y hy => h y (by simp [hy]))
    obtain ⟨t1, t2⟩ := tr_sem ρ τ t (tr none x s).2 (fun y hy => h y (by simp [hy]))
    obtain ⟨e1, e2⟩ := tr_sem ρ τ e (tr none t (tr none x s).2).2 (fun y hy => h y (by simp [hy]))
    refine ⟨by simp [tr, eval, evalS, x1, t1, e1], ?_⟩
    intro y hy
    rw [newArgs_ite] at hy
    rcases List.mem_append.mp hy with hy | hy
    · rcases List.mem_append.mp hy with hy | hy
      · obtain ⟨nd, hnd, hp⟩ := x2 y hy
        exact ⟨nd, by simp [delayNodes, hnd], hp⟩
      · obtain ⟨nd, hnd, hp⟩ := t2 y hy
        exact ⟨nd, by simp [delayNodes, hnd], hp⟩
    · obtain ⟨nd, hnd, hp⟩ := e2 y hy
      exact ⟨nd, by simp [delayNodes, hnd], hp⟩
  | .bin o a b, s, h => by
    rw [newArgs_bin] at h
    obtain ⟨a1, a2⟩ := tr_sem ρ τ a s (fun x hx => h x (List.mem_append_left _ hx))
    obtain ⟨b1, b2⟩ := tr_sem ρ τ b (tr none a s).2 (fun x hx => h x (List.mem_append_right _ hx))
    refine ⟨by simp [tr, eval, evalS, a1, b1], ?_⟩
    intro x hx
    rw [newArgs_bin] at hx
    rcases List.mem_append.mp hx with hx | hx
    · obtain ⟨nd, hnd, hp⟩ := a2 x hx
      exact ⟨nd, by simp [delayNodes, hnd], hp⟩
    · obtain ⟨nd, hnd, hp⟩ := b2 x hx
      exact ⟨nd, by simp [delayNodes, hnd], hp⟩
  | .delay id a d, s, h => by
    rw [newArgs_delay] at h
    obtain ⟨a1, a2⟩ := tr_sem ρ τ a s (fun x hx => h x (by simp [hx]))
    obtain ⟨d1, d2⟩ := tr_sem ρ τ d (tr none a s).2 (fun x hx => h x (by simp [hx]))
    have hself := h (newArg none (tr none d (tr none a s).2).2.next id (tr none a s).1 (tr none d (tr none a s).2).1)
      (by simp)
    refine ⟨?_, ?_⟩
    · simpa [tr, newSym, eval, evalS, newArg] using hself
    · intro x hx
      rw [newArgs_delay] at hx
      rcases List.mem_append.mp hx with hx | hx
      · rcases List.mem_append.mp hx with hx | hx
        · obtain ⟨nd, hnd, hp⟩ := a2 x hx
          exact ⟨nd, by simp [delayNodes, hnd], hp⟩
        · obtain ⟨nd, hnd, hp⟩ := d2 x hx
          exact ⟨nd, by simp [delayNodes, hnd], hp⟩
      · rw [List.mem_singleton.mp hx]
        exact ⟨(id, a, d), by simp [delayNodes], by simp [Preserved, newArg, a1, d1]⟩

/-! ## Equation level semantics (equations outside for-loops) -/

def evalEq (ρ : Env) : Equation → Option (Option Rat × Option Rat)
  | .eq l r => some (eval ρ l, eval ρ r)
  | .forEq _ _ _ => none

def evalSEq (ρ : Env) (τ : Nat → Option Rat) : Equation → Option (Option Rat × Option Rat)
  | .eq l r => some (evalS ρ τ l, evalS ρ τ r)
  | .forEq _ _ _ => none

def Plain : Equation → Prop
  | .eq _ _ => True
  | .forEq _ _ _ => False

theorem eq_sem (ρ : Env) (τ : Nat → Option Rat) : ∀ (q : Equation) (s : St), Plain q →
    (∀ a ∈ eqArgs q s, ρ.val (delayName a.k) 0 = τ a.id) →
    evalEq ρ (trEq q s).1 = evalSEq ρ τ q ∧ ∀ a ∈ eqArgs q s, ∃ nd ∈ eqNodes q, Preserved ρ τ a nd
  | .forEq _ _ _, _, hp, _ => absurd hp (by simp [Plain])
  | .eq l r, s, _, h => by
    have hargs : eqArgs (.eq l r) s = newArgs none l s ++ newArgs none r (tr none l s).2 := by
      have : (trEq (.eq l r) s).2.args = s.args ++ (newArgs none l s ++ newArgs none r (tr none l s).2) := by
        simp [trEq, tr_args none r, tr_args none l]
      simp [eqArgs, this]
    rw [hargs] at h
    obtain ⟨l1, l2⟩ := tr_sem ρ τ l s (fun x hx => h x (List.mem_append_left _ hx))
    obtain ⟨r1, r2⟩ := tr_sem ρ τ r (tr none l s).2 (fun x hx => h x (List.mem_append_right _ hx))
    refine ⟨by simp [trEq, evalEq, evalSEq, l1, r1], ?_⟩
    intro x hx
    rw [hargs] at hx
    rcases List.mem_append.mp hx with hx | hx
    · obtain ⟨nd, hnd, hp⟩ := l2 x hx
      exact ⟨nd, by simp [eqNodes, hnd], hp⟩
    · obtain ⟨nd, hnd, hp⟩ := r2 x hx
      exact ⟨nd, by simp [eqNodes, hnd], hp⟩

theorem eqs_sem (ρ : Env) (τ : Nat → Option Rat) : ∀ (qs : List Equation) (s : St), (∀ q ∈ qs, Plain q) →
    (∀ a ∈ eqsArgs qs s, ρ.val (delayName a.k) 0 = τ a.id) →
    (trEqs qs s).1.map (evalEq ρ) = qs.map (evalSEq ρ τ) ∧
      ∀ a ∈ eqsArgs qs s, ∃ nd ∈ qs.flatMap eqNodes, Preserved ρ τ a nd
  | [], s, _, _ => by simp [trEqs, eqsArgs]
  | q :: qs, s, hp, h => by
    rw [eqsArgs_cons] at h
    obtain ⟨q1, q2⟩ := eq_sem ρ τ q s (hp q (by simp)) (fun x hx => h x (List.mem_append_left _ hx))
    obtain ⟨r1, r2⟩ := eqs_sem ρ τ qs (trEq q s).2 (fun q' hq' => hp q' (by simp [hq']))
      (fun x hx => h x (List.mem_append_right _ hx))
    refine ⟨by simp [trEqs, q1, r1], ?_⟩
    intro x hx
    rw [eqsArgs_cons] at hx
    rcases List.mem_append.mp hx with hx | hx
    · obtain ⟨nd, hnd, hpr⟩ := q2 x hx
      exact ⟨nd, by simp [List.flatMap_cons, hnd], hpr⟩
    · obtain ⟨nd, hnd, hpr⟩ := r2 x hx
      exact ⟨nd, by
        simp only [List.flatMap_cons, List.mem_append]
        exact Or.inr hnd, hpr⟩

/-! ## Loop-indexed delays: the argument is the expression over the loop values -/

/-- Evaluation inside iteration `c` of a loop over `v`. -/
def evalL (ρ : Env) (v : String) (c : Nat) : Expr → Option Rat
  | .lit q => some q
  | .time => some ρ.time
  | .ref n => if n = v then some ((c : Int) : Rat) else ρ.val n 0
  | .idx n i => (evalL ρ v c i).bind fun q => (toIndex q).bind fun j => ρ.val n j
  | .der n => ρ.val (derName n) 0
  | .derAt n i => (evalL ρ v c i).bind fun q => (toIndex q).bind fun j => ρ.val (derName n) j
  | .un f e => (evalL ρ v c e).map (applyUn f)
  | .ite x t e => (evalL ρ v c x).bind fun y => if y = 0 then evalL ρ v c e else evalL ρ v c t
  | .bin o a b => (evalL ρ v c a).bind fun x => (evalL ρ v c b).bind fun y => applyBin o x y
  | .delay _ _ _ => none
  | .dsym k => ρ.val (delayName k) 0
  | .dsymAt k i => (evalL ρ v c i).bind fun q => (toIndex q).bind fun j => ρ.val (delayName k) j

theorem eval_substVar (ρ : Env) (v : String) (c : Nat) : ∀ e : Expr, eval ρ (substVar v c e) = evalL ρ v c e
  | .lit _ => by simp [substVar, eval, evalL]
  | .time => by simp [substVar, eval, evalL]
  | .der _ => by simp [substVar, eval, evalL]
  | .dsym _ => by simp [substVar, eval, evalL]
  | .delay _ _ _ => by simp [substVar, eval, evalL]
  | .ref n => by
    by_cases h : n = v <;> simp [substVar, eval, evalL, h]
  | .idx _ i => by simp [substVar, eval, evalL, eval_substVar ρ v c i]
  | .derAt _ i => by simp [substVar, eval, evalL, eval_substVar ρ v c i]
  | .dsymAt _ i => by simp [substVar, eval, evalL, eval_substVar ρ v c i]
  | .un _ e => by simp [substVar, eval, evalL, eval_substVar ρ v c e]
  | .ite x t e => by simp [substVar, eval, evalL, eval_substVar ρ v c x, eval_substVar ρ v c t, eval_substVar ρ v c e]
  | .bin _ a b => by simp [substVar, eval, evalL, eval_substVar ρ v c a, eval_substVar ρ v c b]

/-! ## Inside for-loops: every iteration of every (nested) delay is preserved -/

/-- Meaning of a *source* expression in iteration `c` of a loop over `v`; `τ id c` is the value of
    the delayed quantity of node `id` in that iteration. -/
def evalSL (ρ : Env) (τ : Nat → Nat → Option Rat) (v : String) (c : Nat) : Expr → Option Rat
  | .lit q => some q
  | .time => some ρ.time
  | .ref n => if n = v then some ((c : Int) : Rat) else ρ.val n 0
  | .idx n i => (evalSL ρ τ v c i).bind fun q => (toIndex q).bind fun j => ρ.val n j
  | .der n => ρ.val (derName n) 0
  | .derAt n i => (evalSL ρ τ v c i).bind fun q => (toIndex q).bind fun j => ρ.val (derName n) j
  | .un f e => (evalSL ρ τ v c e).map (applyUn f)
  | .ite x t e => (evalSL ρ τ v c x).bind fun y => if y = 0 then evalSL ρ τ v c e else evalSL ρ τ v c t
  | .bin o a b => (evalSL ρ τ v c a).bind fun x => (evalSL ρ τ v c b).bind fun y => applyBin o x y
  | .delay id _ _ => τ id c
  | .dsym k => ρ.val (delayName k) 0
  | .dsymAt k i => (evalSL ρ τ v c i).bind fun q => (toIndex q).bind fun j => ρ.val (delayName k) j

theorem toIndex_natCast (c : Nat) (h : 1 ≤ c) : toIndex ((c : Int) : Rat) = some c := by
  unfold toIndex
  have h1 : ((c : Int) : Rat).den = 1 := Rat.den_intCast _
  have h2 : ((c : Int) : Rat).num = (c : Int) := Rat.num_intCast _
  rw [h1, h2]
  have hp : (c : Int) > 0 := by omega
  rw [if_pos ⟨rfl, hp⟩]
  simp

/-- The input of a recorded argument carries the node's value in every iteration: element `c` of
    the vector input for a loop-indexed delay, the scalar input otherwise. -/
def LoopCons (ρ : Env) (τ : Nat → Nat → Option Rat) (n : Nat) (a : DArg) : Prop :=
  ∀ c, 1 ≤ c → c ≤ n →
    (if a.vec then ρ.val (delayName a.k) c = τ a.id c else ρ.val (delayName a.k) 0 = τ a.id c)

/-- What is recorded for one source node of a loop body. -/
def PreservedL (ρ : Env) (τ : Nat → Nat → Option Rat) (v : String) (n : Nat) (a : DArg) (nd : DNode) : Prop :=
  a.id = nd.1 ∧
  (∀ c, 1 ≤ c → c ≤ n → evalL ρ v c a.dur = evalSL ρ τ v c nd.2.2) ∧
  (if a.vec then a.exprs.map (eval ρ) = (List.range n).map (fun j => evalSL ρ τ v (j + 1) nd.2.1)
   else ∃ x, a.exprs = [x] ∧ ∀ c, 1 ≤ c → c ≤ n → evalL ρ v c x = evalSL ρ τ v c nd.2.1)

theorem tr_semL (ρ : Env) (τ : Nat → Nat → Option Rat) (v : String) (n : Nat) : ∀ (e : Expr) (s : St),
    (∀ a ∈ newArgs (some (v, n)) e s, LoopCons ρ τ n a) →
    (∀ c, 1 ≤ c → c ≤ n → evalL ρ v c (tr (some (v, n)) e s).1 = evalSL ρ τ v c e) ∧
      ∀ a ∈ newArgs (some (v, n)) e s, ∃ nd ∈ delayNodes e, PreservedL ρ τ v n a nd
  | .lit _, s, _ => by simp [tr, evalL, evalSL, newArgs]
  | .time, s, _ => by simp [tr, evalL, evalSL, newArgs]
  | .ref _, s, _ => by simp [tr, evalL, evalSL, newArgs]
  | .der _, s, _ => by simp [tr, evalL, evalSL, newArgs]
  | .dsym _, s, _ => by simp [tr, evalL, evalSL, newArgs]
  | .idx m i, s, h => by
    have hn : newArgs (some (v, n)) (.idx m i) s = newArgs (some (v, n)) i s := by simp [newArgs, tr]
    obtain ⟨h1, h2⟩ := tr_semL ρ τ v n i s (by simpa [hn] using h)
    exact ⟨fun c hc1 hc2 => by simp [tr, evalL, evalSL, h1 c hc1 hc2], by simpa [hn, delayNodes] using h2⟩
  | .derAt m i, s, h => by
    have hn : newArgs (some (v, n)) (.derAt m i) s = newArgs (some (v, n)) i s := by simp [newArgs, tr]
    obtain ⟨h1, h2⟩ := tr_semL ρ τ v n i s (by simpa [hn] using h)
    exact ⟨fun c hc1 hc2 => by simp [tr, evalL, evalSL, h1 c hc1 hc2], by simpa [hn, delayNodes] using h2⟩
  | .dsymAt m i, s, h => by
    have hn : newArgs (some (v, n)) (.dsymAt m i) s = newArgs (some (v, n)) i s := by simp [newArgs, tr]
    obtain ⟨h1, h2⟩ := tr_semL ρ τ v n i s (by simpa [hn] using h)
    exact ⟨fun c hc1 hc2 => by simp [tr, evalL, evalSL, h1 c hc1 hc2], by simpa [hn, delayNodes] using h2⟩
  | .un f e, s, h => by
    have hn : newArgs (some (v, n)) (.un f e) s = newArgs (some (v, n)) e s := by simp [newArgs, tr]
    obtain ⟨h1, h2⟩ := tr_semL ρ τ v n e s (by simpa [hn] using h)
    exact ⟨fun c hc1 hc2 => by simp [tr, evalL, evalSL, h1 c hc1 hc2], by simpa [hn, delayNodes] using h2⟩
  | .ite x t e, s, h => by
    rw [newArgs_ite] at h
    obtain ⟨x1, x2⟩ := tr_semL ρ τ v n x s (fun y hy => h y (by simp [hy]))
    obtain ⟨t1, t2⟩ := tr_semL ρ τ v n t (tr (some (v, n)) x s).2 (fun y hy => h y (by simp [hy]))
    obtain ⟨e1, e2⟩ := tr_semL ρ τ v n e (tr (some (v, n)) t (tr (some (v, n)) x s).2).2
      (fun y hy => h y (by simp [hy]))
    refine ⟨fun c hc1 hc2 => by simp [tr, evalL, evalSL, x1 c hc1 hc2, t1 c hc1 hc2, e1 c hc1 hc2], ?_⟩
    intro y hy
    rw [newArgs_ite] at hy
    rcases List.mem_append.mp hy with hy | hy
    · rcases List.mem_append.mp hy with hy | hy
      · obtain ⟨nd, hnd, hp⟩ := x2 y hy
        exact ⟨nd, by simp [delayNodes, hnd], hp⟩
      · obtain ⟨nd, hnd, hp⟩ := t2 y hy
        exact ⟨nd, by simp [delayNodes, hnd], hp⟩
    · obtain ⟨nd, hnd, hp⟩ := e2 y hy
      exact ⟨nd, by simp [delayNodes, hnd], hp⟩
  | .bin o a b, s, h => by
    rw [newArgs_bin] at h
    obtain ⟨a1, a2⟩ := tr_semL ρ τ v n a s (fun x hx => h x (List.mem_append_left _ hx))
    obtain ⟨b1, b2⟩ := tr_semL ρ τ v n b (tr (some (v, n)) a s).2 (fun x hx => h x (List.mem_append_right _ hx))
    refine ⟨fun c hc1 hc2 => by simp [tr, evalL, evalSL, a1 c hc1 hc2, b1 c hc1 hc2], ?_⟩
    intro x hx
    rw [newArgs_bin] at hx
    rcases List.mem_append.mp hx with hx | hx
    · obtain ⟨nd, hnd, hp⟩ := a2 x hx
      exact ⟨nd, by simp [delayNodes, hnd], hp⟩
    · obtain ⟨nd, hnd, hp⟩ := b2 x hx
      exact ⟨nd, by simp [delayNodes, hnd], hp⟩
  | .delay id a d, s, h => by
    rw [newArgs_delay] at h
    obtain ⟨a1, a2⟩ := tr_semL ρ τ v n a s (fun x hx => h x (by simp [hx]))
    obtain ⟨d1, d2⟩ := tr_semL ρ τ v n d (tr (some (v, n)) a s).2 (fun x hx => h x (by simp [hx]))
    have hself := h (newArg (some (v, n)) (tr (some (v, n)) d (tr (some (v, n)) a s).2).2.next id
      (tr (some (v, n)) a s).1 (tr (some (v, n)) d (tr (some (v, n)) a s).2).1) (by simp)
    cases hc : mentionsIndexed v (tr (some (v, n)) a s).1 with
    | true =>
      have hs : ∀ c, 1 ≤ c → c ≤ n →
          ρ.val (delayName (tr (some (v, n)) d (tr (some (v, n)) a s).2).2.next) c = τ id c := by
        intro c h1 h2; simpa [LoopCons, newArg, hc] using hself c h1 h2
      refine ⟨fun c hc1 hc2 => ?_, ?_⟩
      · simp [tr, newSym, hc, evalL, evalSL, toIndex_natCast c hc1, hs c hc1 hc2]
      · intro x hx
        rw [newArgs_delay] at hx
        rcases List.mem_append.mp hx with hx | hx
        · rcases List.mem_append.mp hx with hx | hx
          · obtain ⟨nd, hnd, hp⟩ := a2 x hx
            exact ⟨nd, by simp [delayNodes, hnd], hp⟩
          · obtain ⟨nd, hnd, hp⟩ := d2 x hx
            exact ⟨nd, by simp [delayNodes, hnd], hp⟩
        · rw [List.mem_singleton.mp hx]
          refine ⟨(id, a, d), by simp [delayNodes], ?_⟩
          refine ⟨by simp [newArg, hc], fun c h1 h2 => by simpa [newArg, hc] using d1 c h1 h2, ?_⟩
          simp only [newArg, hc, if_true, List.map_map]
          apply List.map_congr_left
          intro j hj
          have hj' : j < n := List.mem_range.mp hj
          simp only [Function.comp_apply, eval_substVar]
          exact a1 (j + 1) (by omega) (by omega)
    | false =>
      have hs : ∀ c, 1 ≤ c → c ≤ n →
          ρ.val (delayName (tr (some (v, n)) d (tr (some (v, n)) a s).2).2.next) 0 = τ id c := by
        intro c h1 h2; simpa [LoopCons, newArg, hc] using hself c h1 h2
      refine ⟨fun c hc1 hc2 => ?_, ?_⟩
      · simp [tr, newSym, hc, evalL, evalSL, hs c hc1 hc2]
      · intro x hx
        rw [newArgs_delay] at hx
        rcases List.mem_append.mp hx with hx | hx
        · rcases List.mem_append.mp hx with hx | hx
          · obtain ⟨nd, hnd, hp⟩ := a2 x hx
            exact ⟨nd, by simp [delayNodes, hnd], hp⟩
          · obtain ⟨nd, hnd, hp⟩ := d2 x hx
            exact ⟨nd, by simp [delayNodes, hnd], hp⟩
        · rw [List.mem_singleton.mp hx]
          refine ⟨(id, a, d), by simp [delayNodes], ?_⟩
          refine ⟨by simp [newArg, hc], fun c h1 h2 => by simpa [newArg, hc] using d1 c h1 h2, ?_⟩
          simp only [newArg, hc]
          exact ⟨_, rfl, a1⟩

/-- The same for the equations of a loop body. -/
theorem pairs_semL (ρ : Env) (τ : Nat → Nat → Option Rat) (v : String) (n : Nat) :
    ∀ (body : List (Expr × Expr)) (s : St),
    (∀ a ∈ pairArgs (some (v, n)) body s, LoopCons ρ τ n a) →
    (∀ c, 1 ≤ c → c ≤ n →
      (trPairs (some (v, n)) body s).1.map (fun p => (evalL ρ v c p.1, evalL ρ v c p.2)) =
        body.map (fun p => (evalSL ρ τ v c p.1, evalSL ρ τ v c p.2))) ∧
      ∀ a ∈ pairArgs (some (v, n)) body s, ∃ nd ∈ pairNodes body, PreservedL ρ τ v n a nd
  | [], s, _ => by simp [trPairs, pairArgs]
  | (l, r) :: rest, s, h => by
    rw [pairArgs_cons] at h
    obtain ⟨l1, l2⟩ := tr_semL ρ τ v n l s (fun x hx => h x (by simp [hx]))
    obtain ⟨r1, r2⟩ := tr_semL ρ τ v n r (tr (some (v, n)) l s).2 (fun x hx => h x (by simp [hx]))
    obtain ⟨s1, s2⟩ := pairs_semL ρ τ v n rest (tr (some (v, n)) r (tr (some (v, n)) l s).2).2
      (fun x hx => h x (by simp [hx]))
    refine ⟨fun c hc1 hc2 => by simp [trPairs, l1 c hc1 hc2, r1 c hc1 hc2, s1 c hc1 hc2], ?_⟩
    intro x hx
    rw [pairArgs_cons] at hx
    rcases List.mem_append.mp hx with hx | hx
    · rcases List.mem_append.mp hx with hx | hx
      · obtain ⟨nd, hnd, hp⟩ := l2 x hx
        exact ⟨nd, by simp [pairNodes, hnd], hp⟩
      · obtain ⟨nd, hnd, hp⟩ := r2 x hx
        exact ⟨nd, by simp [pairNodes, hnd], hp⟩
    · obtain ⟨nd, hnd, hp⟩ := s2 x hx
      exact ⟨nd, by
        simp only [pairNodes, List.flatMap_cons, List.mem_append]
        exact Or.inr hnd, hp⟩

/-- An expression without delay nodes is translated to itself. -/
theorem tr_id (lp : Option (String × Nat)) : ∀ (e : Expr) (s : St), delayNodes e = [] → tr lp e s = (e, s)
  | .lit _, s, _ => by simp [tr]
  | .time, s, _ => by simp [tr]
  | .ref _, s, _ => by simp [tr]
  | .der _, s, _ => by simp [tr]
  | .dsym _, s, _ => by simp [tr]
  | .idx _ i, s, h => by simp [tr, tr_id lp i s (by simpa [delayNodes] using h)]
  | .derAt _ i, s, h => by simp [tr, tr_id lp i s (by simpa [delayNodes] using h)]
  | .dsymAt _ i, s, h => by simp [tr, tr_id lp i s (by simpa [delayNodes] using h)]
  | .un _ e, s, h => by simp [tr, tr_id lp e s (by simpa [delayNodes] using h)]
  | .ite c t e, s, h => by
    simp only [delayNodes, List.append_eq_nil_iff] at h
    simp [tr, tr_id lp c s h.1.1, tr_id lp t s h.1.2, tr_id lp e s h.2]
  | .bin _ a b, s, h => by
    simp only [delayNodes, List.append_eq_nil_iff] at h
    simp [tr, tr_id lp a s h.1, tr_id lp b s h.2]
  | .delay _ _ _, s, h => by simp [delayNodes] at h

/-! ## The duration check as implemented, for every source (loop variables included) -/

mutual
/-- Source-level: will the translated expression contain a symbol registered as loop-indexed? -/
def vecS (v : String) : Expr → Bool
  | .lit _ => false
  | .time => false
  | .ref _ => false
  | .idx _ i => mvS v i
  | .der _ => false
  | .derAt _ i => mvS v i
  | .un _ e => vecS v e
  | .ite c t e => vecS v c || vecS v t || vecS v e
  | .bin _ a b => vecS v a || vecS v b
  | .delay _ a _ => vecS v a
  | .dsym _ => false
  | .dsymAt _ i => mvS v i
/-- Source-level: will the translated expression mention the loop variable? -/
def mvS (v : String) : Expr → Bool
  | .lit _ => false
  | .time => false
  | .ref n => n = v
  | .idx _ i => mvS v i
  | .der _ => false
  | .derAt _ i => mvS v i
  | .un _ e => mvS v e
  | .ite c t e => mvS v c || mvS v t || mvS v e
  | .bin _ a b => mvS v a || mvS v b
  | .delay _ a _ => vecS v a
  | .dsym _ => false
  | .dsymAt _ i => mvS v i
end

theorem tr_flags (v : String) (n : Nat) : ∀ (e : Expr) (s : St),
    mentionsIndexed v (tr (some (v, n)) e s).1 = vecS v e ∧ mentionsVar v (tr (some (v, n)) e s).1 = mvS v e
  | .lit _, s => by simp [tr, mentionsIndexed, mentionsVar, vecS, mvS]
  | .time, s => by simp [tr, mentionsIndexed, mentionsVar, vecS, mvS]
  | .ref _, s => by simp [tr, mentionsIndexed, mentionsVar, vecS, mvS]
  | .der _, s => by simp [tr, mentionsIndexed, mentionsVar, vecS, mvS]
  | .dsym _, s => by simp [tr, mentionsIndexed, mentionsVar, vecS, mvS]
  | .idx _ i, s => by simp [tr, mentionsIndexed, mentionsVar, vecS, mvS, (tr_flags v n i s).2]
  | .derAt _ i, s => by simp [tr, mentionsIndexed, mentionsVar, vecS, mvS, (tr_flags v n i s).2]
  | .dsymAt _ i, s => by simp [tr, mentionsIndexed, mentionsVar, vecS, mvS, (tr_flags v n i s).2]
  | .un _ e, s => by simp [tr, mentionsIndexed, mentionsVar, vecS, mvS, (tr_flags v n e s).1, (tr_flags v n e s).2]
  | .ite c t e, s => by
    simp [tr, mentionsIndexed, mentionsVar, vecS, mvS, (tr_flags v n c s).1, (tr_flags v n c s).2,
      (tr_flags v n t (tr (some (v, n)) c s).2).1, (tr_flags v n t (tr (some (v, n)) c s).2).2,
      (tr_flags v n e (tr (some (v, n)) t (tr (some (v, n)) c s).2).2).1,
      (tr_flags v n e (tr (some (v, n)) t (tr (some (v, n)) c s).2).2).2]
  | .bin _ a b, s => by
    simp [tr, mentionsIndexed, mentionsVar, vecS, mvS, (tr_flags v n a s).1, (tr_flags v n a s).2,
      (tr_flags v n b (tr (some (v, n)) a s).2).1, (tr_flags v n b (tr (some (v, n)) a s).2).2]
  | .delay _ a d, s => by
    have ha := (tr_flags v n a s).1
    cases hc : vecS v a with
    | true => rw [hc] at ha; simp [tr, newSym, ha, mentionsIndexed, mentionsVar, vecS, mvS, hc]
    | false => rw [hc] at ha; simp [tr, newSym, ha, mentionsIndexed, mentionsVar, vecS, mvS, hc]

/-- What the duration check sees of a *source* duration in loop context `lv`: references through
    the loop variable are loop-local placeholders, a nested `delay` is a delay input — or a
    placeholder when it is loop-indexed. -/
def srcAtomsL (lv : Option String) : Expr → List Atom
  | .lit _ => []
  | .time => [.time]
  | .ref n => if lv = some n then [.loopVar] else [.var n]
  | .idx n i =>
    let ai := srcAtomsL lv i
    if .loopVar ∈ ai then [.loopIdx n] else .var n :: ai
  | .der n => [.der n]
  | .derAt n i =>
    let ai := srcAtomsL lv i
    if .loopVar ∈ ai then [.loopIdx (derName n)] else .der n :: ai
  | .un _ e => srcAtomsL lv e
  | .ite c t e => srcAtomsL lv c ++ srcAtomsL lv t ++ srcAtomsL lv e
  | .bin _ a b => srcAtomsL lv a ++ srcAtomsL lv b
  | .delay id a _ =>
    match lv with
    | some v => if vecS v a then [.loopIdx ""] else [.dly id]
    | none => [.dly id]
  | .dsym k => [.dly k]
  | .dsymAt k i =>
    let ai := srcAtomsL lv i
    if .loopVar ∈ ai then [.loopIdx (delayName k)] else .dly k :: ai

theorem loopVar_mem_iff_of_norm_eq {l₁ l₂ : List Atom} (h : l₁.map norm = l₂.map norm) :
    Atom.loopVar ∈ l₁ ↔ Atom.loopVar ∈ l₂ := by
  have e : ∀ l : List Atom, Atom.loopVar ∈ l ↔ Atom.loopVar ∈ l.map norm := by
    intro l
    constructor
    · intro hm; exact List.mem_map.mpr ⟨_, hm, rfl⟩
    · intro hm
      obtain ⟨y, hy, hn⟩ := List.mem_map.mp hm
      cases y <;> simp [norm] at hn
      exact hy
  rw [e l₁, e l₂, h]

theorem atoms_trL (lp : Option (String × Nat)) : ∀ (e : Expr) (s : St),
    (atoms (lp.map (·.1)) (tr lp e s).1).map norm = (srcAtomsL (lp.map (·.1)) e).map norm
  | .lit _, s => by simp [tr, atoms, srcAtomsL]
  | .time, s => by simp [tr, atoms, srcAtomsL]
  | .dsym _, s => by simp [tr, atoms, srcAtomsL]
  | .der _, s => by simp [tr, atoms, srcAtomsL]
  | .ref m, s => by simp [tr, atoms, srcAtomsL]
  | .idx m i, s => by
    have ih := atoms_trL lp i s
    have hl := loopVar_mem_iff_of_norm_eq ih
    by_cases hc : Atom.loopVar ∈ srcAtomsL (lp.map (·.1)) i
    · simp [tr, atoms, srcAtomsL, hc, hl.mpr hc, norm]
    · have hc' : Atom.loopVar ∉ atoms (lp.map (·.1)) (tr lp i s).1 := fun h => hc (hl.mp h)
      simp [tr, atoms, srcAtomsL, hc, hc', ih, norm]
  | .derAt m i, s => by
    have ih := atoms_trL lp i s
    have hl := loopVar_mem_iff_of_norm_eq ih
    by_cases hc : Atom.loopVar ∈ srcAtomsL (lp.map (·.1)) i
    · simp [tr, atoms, srcAtomsL, hc, hl.mpr hc, norm]
    · have hc' : Atom.loopVar ∉ atoms (lp.map (·.1)) (tr lp i s).1 := fun h => hc (hl.mp h)
      simp [tr, atoms, srcAtomsL, hc, hc', ih, norm]
  | .dsymAt k i, s => by
    have ih := atoms_trL lp i s
    have hl := loopVar_mem_iff_of_norm_eq ih
    by_cases hc : Atom.loopVar ∈ srcAtomsL (lp.map (·.1)) i
    · simp [tr, atoms, srcAtomsL, hc, hl.mpr hc, norm]
    · have hc' : Atom.loopVar ∉ atoms (lp.map (·.1)) (tr lp i s).1 := fun h => hc (hl.mp h)
      simp [tr, atoms, srcAtomsL, hc, hc', ih, norm]
  | .un _ e, s => by simpa [tr, atoms, srcAtomsL] using atoms_trL lp e s
  | .ite c t e, s => by
    simp [tr, atoms, srcAtomsL, atoms_trL lp c s, atoms_trL lp t (tr lp c s).2,
      atoms_trL lp e (tr lp t (tr lp c s).2).2]
  | .bin _ a b, s => by simp [tr, atoms, srcAtomsL, atoms_trL lp a s, atoms_trL lp b (tr lp a s).2]
  | .delay id a d, s => by
    cases lp with
    | none => simp [tr, newSym, atoms, srcAtomsL, norm]
    | some p =>
      obtain ⟨v, n⟩ := p
      have ha := (tr_flags v n a s).1
      cases hc : vecS v a with
      | true => rw [hc] at ha; simp [tr, newSym, ha, atoms, srcAtomsL, hc, norm]
      | false => rw [hc] at ha; simp [tr, newSym, ha, atoms, srcAtomsL, hc, norm]

/-- A delay node together with the loop variable of the for-loop it stands in. -/
abbrev LNode := Option String × DNode

def srcKeyL (c : Cats) (p : LNode) : Bool := (srcAtomsL p.1 p.2.2.2).any (disallowed c)

def eqNodesL : Equation → List LNode
  | .eq l r => (delayNodes l ++ delayNodes r).map (fun nd => (none, nd))
  | .forEq v _ body => (pairNodes body).map (fun nd => (some v, nd))

def allNodesL (ieqs eqs : List Equation) : List LNode := ieqs.flatMap eqNodesL ++ eqs.flatMap eqNodesL

theorem durKey_newArgL (c : Cats) (lp : Option (String × Nat)) (k id : Nat) (a' : Expr) (d : Expr) (s : St) :
    durKey c (newArg lp k id a' (tr lp d s).1) = srcKeyL c (lp.map (·.1), (id, a', d)) := by
  simp only [durKey, srcKeyL, newArg_lv, newArg_dur]
  exact any_disallowed_of_norm_eq c (atoms_trL lp d s)

theorem durs_trL (c : Cats) (lp : Option (String × Nat)) : ∀ (e : Expr) (s : St),
    (newArgs lp e s).map (durKey c) = (delayNodes e).map (fun nd => srcKeyL c (lp.map (·.1), nd))
  | .lit _, s => by simp [newArgs, tr, delayNodes]
  | .time, s => by simp [newArgs, tr, delayNodes]
  | .ref _, s => by simp [newArgs, tr, delayNodes]
  | .dsym _, s => by simp [newArgs, tr, delayNodes]
  | .der _, s => by simp [newArgs, tr, delayNodes]
  | .idx _ i, s => by simpa [newArgs, tr, delayNodes] using durs_trL c lp i s
  | .dsymAt _ i, s => by simpa [newArgs, tr, delayNodes] using durs_trL c lp i s
  | .derAt _ i, s => by simpa [newArgs, tr, delayNodes] using durs_trL c lp i s
  | .un _ e, s => by simpa [newArgs, tr, delayNodes] using durs_trL c lp e s
  | .ite x t e, s => by
    simp [newArgs_ite, delayNodes, durs_trL c lp x s, durs_trL c lp t (tr lp x s).2,
      durs_trL c lp e (tr lp t (tr lp x s).2).2]
  | .bin o a b, s => by simp [newArgs_bin, delayNodes, durs_trL c lp a s, durs_trL c lp b (tr lp a s).2]
  | .delay id a d, s => by
    simp only [newArgs_delay, delayNodes, List.map_append, durs_trL c lp a s, durs_trL c lp d (tr lp a s).2,
      List.map_cons, List.map_nil]
    rw [durKey_newArgL c lp _ id _ d _]
    rfl

theorem durs_pairsL (c : Cats) (lp : Option (String × Nat)) : ∀ (body : List (Expr × Expr)) (s : St),
    (pairArgs lp body s).map (durKey c) = (pairNodes body).map (fun nd => srcKeyL c (lp.map (·.1), nd))
  | [], s => by simp [pairArgs, trPairs, pairNodes]
  | (l, r) :: rest, s => by
    simp only [pairArgs_cons, List.map_append, durs_trL c lp l s, durs_trL c lp r (tr lp l s).2,
      durs_pairsL c lp rest (tr lp r (tr lp l s).2).2]
    simp [pairNodes, List.flatMap_cons]

theorem durs_eqL (c : Cats) : ∀ (q : Equation) (s : St),
    (eqArgs q s).map (durKey c) = (eqNodesL q).map (srcKeyL c)
  | .eq l r, s => by
    have : eqArgs (.eq l r) s = newArgs none l s ++ newArgs none r (tr none l s).2 := by
      have : (trEq (.eq l r) s).2.args = s.args ++ (newArgs none l s ++ newArgs none r (tr none l s).2) := by
        simp [trEq, tr_args none r, tr_args none l]
      simp [eqArgs, this]
    simp [this, durs_trL c none l s, durs_trL c none r (tr none l s).2, eqNodesL, Function.comp_def]
  | .forEq v n body, s => by
    have : eqArgs (.forEq v n body) s = pairArgs (some (v, n)) body s := by
      simp [eqArgs, pairArgs, trEq]
    simp [this, durs_pairsL c (some (v, n)) body s, eqNodesL, Function.comp_def]

theorem durs_eqsL (c : Cats) : ∀ (qs : List Equation) (s : St),
    (eqsArgs qs s).map (durKey c) = (qs.flatMap eqNodesL).map (srcKeyL c)
  | [], s => by simp [eqsArgs, trEqs]
  | q :: qs, s => by simp [eqsArgs_cons, durs_eqL c q s, durs_eqsL c qs (trEq q s).2, List.flatMap_cons]

theorem durs_translateL (c : Cats) (ieqs eqs : List Equation) :
    (translate ieqs eqs).args.map (durKey c) = (allNodesL ieqs eqs).map (srcKeyL c) := by
  rw [translate_args, List.map_append, durs_eqsL c ieqs _, durs_eqsL c eqs _, allNodesL, List.map_append]

/-! ## Substituting simplification passes keep the verdict of the duration check -/

/-- Names used with a subscript. -/
def idxNames : Expr → List String
  | .lit _ => []
  | .time => []
  | .ref _ => []
  | .idx n i => n :: idxNames i
  | .der _ => []
  | .derAt _ i => idxNames i
  | .un _ e => idxNames e
  | .ite c t e => idxNames c ++ idxNames t ++ idxNames e
  | .bin _ a b => idxNames a ++ idxNames b
  | .delay _ a d => idxNames a ++ idxNames d
  | .dsym _ => []
  | .dsymAt _ i => idxNames i

/-- A substitution `σ` (with `gone` = its domain, removed from the variable lists) that a
    simplification pass may perform without changing what the duration check sees: every
    replacement mentions a disallowed symbol iff the replaced variable was disallowed, no state
    is eliminated, and loop-local symbols are not involved. -/
structure SubstOk (c : Cats) (lv : Option String) (σ : String → Option Expr) (gone : String → Bool) : Prop where
  gone_iff : ∀ n, gone n = (σ n).isSome
  keep : ∀ n e, σ n = some e → (atoms lv e).any (disallowed (c.remove gone)) = disallowed c (.var n)
  noLoop : ∀ n e, σ n = some e → lv ≠ some n ∧ Atom.loopVar ∉ atoms lv e
  noState : ∀ n, gone n = true → c.cat n ≠ some .state

theorem disallowed_remove_var (c : Cats) (gone : String → Bool) (n : String) (h : gone n = false) :
    disallowed (c.remove gone) (.var n) = disallowed c (.var n) := by
  simp [disallowed, Cats.remove, h]

theorem disallowed_remove_der (c : Cats) (gone : String → Bool) (n : String)
    (h : gone n = true → c.cat n ≠ some .state) :
    disallowed (c.remove gone) (.der n) = disallowed c (.der n) := by
  cases hg : gone n with
  | false => simp [disallowed, Cats.remove, hg]
  | true =>
    have := h hg
    simp [disallowed, Cats.remove, hg, this]

theorem subst_atoms {c : Cats} {lv : Option String} {σ : String → Option Expr} {gone : String → Bool}
    (ok : SubstOk c lv σ gone) : ∀ (d : Expr), (∀ n ∈ idxNames d, gone n = false) →
    (Atom.loopVar ∈ atoms lv (substRef σ d) ↔ Atom.loopVar ∈ atoms lv d) ∧
    (atoms lv (substRef σ d)).any (disallowed (c.remove gone)) = (atoms lv d).any (disallowed c)
  | .lit _, _ => by simp [substRef, atoms]
  | .time, _ => by simp [substRef, atoms, disallowed]
  | .dsym _, _ => by simp [substRef, atoms, disallowed]
  | .der n, _ => by
    simp only [substRef, atoms, List.any_cons, List.any_nil, Bool.or_false, true_and]
    exact disallowed_remove_der c gone n (ok.noState n)
  | .ref n, _ => by
    cases hs : σ n with
    | none =>
      have hg : gone n = false := by rw [ok.gone_iff, hs]; rfl
      simp only [substRef, hs, Option.getD_none, true_and]
      by_cases hl : lv = some n
      · simp [atoms, hl, disallowed]
      · simp [atoms, hl, disallowed_remove_var c gone n hg]
    | some e =>
      obtain ⟨h1, h2⟩ := ok.noLoop n e hs
      simp only [substRef, hs, Option.getD_some]
      refine ⟨?_, ?_⟩
      · simp [atoms, h1, h2]
      · rw [ok.keep n e hs]; simp [atoms, h1]
  | .idx n i, h => by
    have hn : gone n = false := h n (by simp [idxNames])
    obtain ⟨i1, i2⟩ := subst_atoms ok i (fun m hm => h m (by simp [idxNames, hm]))
    simp only [substRef, atoms]
    by_cases hl : Atom.loopVar ∈ atoms lv i
    · have hl' := i1.mpr hl
      simp [hl, hl', disallowed]
    · have hl' : Atom.loopVar ∉ atoms lv (substRef σ i) := fun hh => hl (i1.mp hh)
      simp [hl, hl', i2, disallowed_remove_var c gone n hn]
  | .derAt n i, h => by
    obtain ⟨i1, i2⟩ := subst_atoms ok i (fun m hm => h m (by simpa [idxNames] using hm))
    simp only [substRef, atoms]
    by_cases hl : Atom.loopVar ∈ atoms lv i
    · have hl' := i1.mpr hl
      simp [hl, hl', disallowed]
    · have hl' : Atom.loopVar ∉ atoms lv (substRef σ i) := fun hh => hl (i1.mp hh)
      simp [hl, hl', i2, disallowed_remove_der c gone n (ok.noState n)]
  | .dsymAt k i, h => by
    obtain ⟨i1, i2⟩ := subst_atoms ok i (fun m hm => h m (by simpa [idxNames] using hm))
    simp only [substRef, atoms]
    by_cases hl : Atom.loopVar ∈ atoms lv i
    · have hl' := i1.mpr hl
      simp [hl, hl', disallowed]
    · have hl' : Atom.loopVar ∉ atoms lv (substRef σ i) := fun hh => hl (i1.mp hh)
      simp [hl, hl', i2, disallowed]
  | .un _ e, h => by simpa [substRef, atoms, idxNames] using subst_atoms ok e (by simpa [idxNames] using h)
  | .ite x t e, h => by
    obtain ⟨x1, x2⟩ := subst_atoms ok x (fun m hm => h m (by simp [idxNames, hm]))
    obtain ⟨t1, t2⟩ := subst_atoms ok t (fun m hm => h m (by simp [idxNames, hm]))
    obtain ⟨e1, e2⟩ := subst_atoms ok e (fun m hm => h m (by simp [idxNames, hm]))
    simp [substRef, atoms, x1, t1, e1, x2, t2, e2]
  | .bin _ a b, h => by
    obtain ⟨a1, a2⟩ := subst_atoms ok a (fun m hm => h m (by simp [idxNames, hm]))
    obtain ⟨b1, b2⟩ := subst_atoms ok b (fun m hm => h m (by simp [idxNames, hm]))
    simp [substRef, atoms, a1, b1, a2, b2]
  | .delay _ a d, h => by
    obtain ⟨a1, a2⟩ := subst_atoms ok a (fun m hm => h m (by simp [idxNames, hm]))
    obtain ⟨d1, d2⟩ := subst_atoms ok d (fun m hm => h m (by simp [idxNames, hm]))
    simp [substRef, atoms, a1, d1, a2, d2]

/-! ## Expansion of array variables keeps the verdict of the duration check -/

/-- The category table after expansion: scalars keep their entry, the element `x[k]` has the
    category (and fixedness) of the array `x`. -/
structure ExpandsTo (c c' : Cats) : Prop where
  scalar : ∀ n, c'.cat n = c.cat n ∧ c'.fixed n = c.fixed n
  element : ∀ n k, c'.cat (elemName n k) = c.cat n ∧ c'.fixed (elemName n k) = c.fixed n

theorem disallowed_var_scalar {c c' : Cats} (h : ExpandsTo c c') (n : String) :
    disallowed c' (.var n) = disallowed c (.var n) := by
  simp [disallowed, (h.scalar n).1, (h.scalar n).2]

theorem disallowed_var_elem {c c' : Cats} (h : ExpandsTo c c') (n : String) (k : Nat) :
    disallowed c' (.var (elemName n k)) = disallowed c (.var n) := by
  simp [disallowed, (h.element n k).1, (h.element n k).2]

theorem disallowed_der_scalar {c c' : Cats} (h : ExpandsTo c c') (n : String) :
    disallowed c' (.der n) = disallowed c (.der n) := by
  simp [disallowed, (h.scalar n).1]

theorem disallowed_der_elem {c c' : Cats} (h : ExpandsTo c c') (n : String) (k : Nat) :
    disallowed c' (.der (elemName n k)) = disallowed c (.der n) := by
  simp [disallowed, (h.element n k).1]

theorem atoms_of_litIndex {lv : Option String} {i : Expr} {k : Nat} (h : litIndex i = some k) : atoms lv i = [] := by
  cases i <;> simp [litIndex] at h
  simp [atoms]

theorem expand_atoms {c c' : Cats} (h : ExpandsTo c c') (lv : Option String)
    (hlv : ∀ n k, lv ≠ some (elemName n k)) : ∀ (d : Expr),
    (Atom.loopVar ∈ atoms lv (expandRef d) ↔ Atom.loopVar ∈ atoms lv d) ∧
    (atoms lv (expandRef d)).any (disallowed c') = (atoms lv d).any (disallowed c)
  | .lit _ => by simp [expandRef, atoms]
  | .time => by simp [expandRef, atoms, disallowed]
  | .dsym _ => by simp [expandRef, atoms, disallowed]
  | .der n => by simp [expandRef, atoms, disallowed_der_scalar h n]
  | .ref n => by
    by_cases hl : lv = some n
    · simp [expandRef, atoms, hl, disallowed]
    · simp [expandRef, atoms, hl, disallowed_var_scalar h n]
  | .idx n i => by
    cases hq : litIndex i with
    | some k =>
      have ha := atoms_of_litIndex (lv := lv) hq
      have hl := hlv n k
      simp [expandRef, hq, atoms, ha, hl, disallowed_var_elem h n k]
    | none =>
      obtain ⟨i1, i2⟩ := expand_atoms h lv hlv i
      by_cases hl : Atom.loopVar ∈ atoms lv i
      · simp [expandRef, hq, atoms, hl, i1.mpr hl, disallowed]
      · have hl' : Atom.loopVar ∉ atoms lv (expandRef i) := fun hh => hl (i1.mp hh)
        simp [expandRef, hq, atoms, hl, hl', i2, disallowed_var_scalar h n]
  | .derAt n i => by
    cases hq : litIndex i with
    | some k =>
      have ha := atoms_of_litIndex (lv := lv) hq
      simp [expandRef, hq, atoms, ha, disallowed_der_elem h n k]
    | none =>
      obtain ⟨i1, i2⟩ := expand_atoms h lv hlv i
      by_cases hl : Atom.loopVar ∈ atoms lv i
      · simp [expandRef, hq, atoms, hl, i1.mpr hl, disallowed]
      · have hl' : Atom.loopVar ∉ atoms lv (expandRef i) := fun hh => hl (i1.mp hh)
        simp [expandRef, hq, atoms, hl, hl', i2, disallowed_der_scalar h n]
  | .dsymAt k i => by
    obtain ⟨i1, i2⟩ := expand_atoms h lv hlv i
    by_cases hl : Atom.loopVar ∈ atoms lv i
    · simp [expandRef, atoms, hl, i1.mpr hl, disallowed]
    · have hl' : Atom.loopVar ∉ atoms lv (expandRef i) := fun hh => hl (i1.mp hh)
      simp [expandRef, atoms, hl, hl', i2, disallowed]
  | .un _ e => by simpa [expandRef, atoms] using expand_atoms h lv hlv e
  | .bin _ a b => by
    obtain ⟨a1, a2⟩ := expand_atoms h lv hlv a
    obtain ⟨b1, b2⟩ := expand_atoms h lv hlv b
    simp [expandRef, atoms, a1, b1, a2, b2]
  | .ite x t e => by
    obtain ⟨x1, x2⟩ := expand_atoms h lv hlv x
    obtain ⟨t1, t2⟩ := expand_atoms h lv hlv t
    obtain ⟨e1, e2⟩ := expand_atoms h lv hlv e
    simp [expandRef, atoms, x1, t1, e1, x2, t2, e2]
  | .delay _ a d => by
    obtain ⟨a1, a2⟩ := expand_atoms h lv hlv a
    obtain ⟨d1, d2⟩ := expand_atoms h lv hlv d
    simp [expandRef, atoms, a1, d1, a2, d2]

/-! ## The cache state machine -/

theorem transferCalls_agree (compile : CallResult) : ∀ (n : Nat) (f : Bool), (f = true → compile = .returned) →
    ∀ r ∈ transferCalls compile n f, r = compile
  | 0, _, _ => by simp [transferCalls]
  | n + 1, f, hf => by
    intro r hr
    simp only [transferCalls, List.mem_cons] at hr
    have hinv : (transferCall compile f).2 = true → compile = .returned := by
      cases f with
      | true => intro _; exact hf rfl
      | false => cases compile <;> simp [transferCall]
    rcases hr with hr | hr
    · rw [hr]
      cases f with
      | true => simp [transferCall, hf rfl]
      | false => cases compile <;> simp [transferCall]
    · exact transferCalls_agree compile n _ hinv r hr

end PymocaVerif.Delay
