import sys, tempfile, threading, multiprocessing as mp, time, os
from pathlib import Path
def worker(d, barrier, q, i):
    import pymoca
    pymoca.__version__ = "1.0"
    from pymoca import parser
    txt = "model A Real x; equation x = %d; end A;" % (i % 3)
    barrier.wait()
    try:
        t = parser.parse(txt, model_cache_folder=Path(d))
        q.put((i, "ok" if t is not None else "none"))
    except Exception as e:
        q.put((i, "EXC %s %s" % (type(e).__name__, e)))
if __name__ == "__main__":
    N = int(sys.argv[1]); rounds = int(sys.argv[2])
    bad = 0
    for r in range(rounds):
        with tempfile.TemporaryDirectory() as d:
            b = mp.Barrier(N); q = mp.Queue()
            ps = [mp.Process(target=worker, args=(d, b, q, i)) for i in range(N)]
            [p.start() for p in ps]; res = [q.get() for _ in ps]; [p.join() for p in ps]
            errs = [x for x in res if x[1] != "ok"]
            if errs: bad += 1; print(r, errs[:3])
    print("rounds with errors:", bad, "/", rounds)
