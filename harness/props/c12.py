"""C12 — the representation options unroll_loops / inline_functions / expand_mx do not change the model.

Direct oracle (the property statement itself): every generated model (with for-loops, function calls,
parameter-dependent attributes and a delay operator) is translated by the real code under all 8
combinations of the three options (`generator.generate` + `Model.simplify`, as `transfer_model` does);
the variable lists (names, shapes, order), outputs, delay states and the Python-side metadata must be
identical, and the four output functions (DAE residual, initial residual, variable metadata, delay
arguments) must return identical values at exact points.
Tie: the Lean model `Gen` carries the options only as tags on `map` / `call` nodes and on the final
function, `evalC` ignores tags (theorems in Props/C12.lean); the driver `drv_c12` is asked for the residual
values under each combination (fed with the real flat AST) and these are compared with the real values
of that combination.
"""
import itertools

from harness.common import HarnessError
from harness.gen import a08

DRIVERS = ["drv_c12"]
RULE = ("a case = one generated model x all 8 option combinations x its exact points x three phases of use of one model "
        "object (after generate+simplify, after editing attributes/equations, after a further simplify); non-trivial = the model has at "
        "least one for-equation and one user-function call, all 8 translations succeeded and at least one point was "
        "exact with a non-empty residual; distinct = distinct (model text, points)")
TRUSTED = ["CasADi's `Function.map` (inline / serial), `Function.call(inline flags)` and `Function.expand` preserve "
           "values (their contract; the 8-way differential run is the check of it)"]
ASSUMPTIONS = ["the other compiler options are at their defaults (no simplification passes), as in `_merge_default_options`",
               "evaluation at exact points only (C11's domain)"]

COMBOS = [dict(zip(a08.OPTION_NAMES, c)) for c in itertools.product([True, False], repeat=3)]
BASE = {"unroll_loops": True, "inline_functions": True, "expand_mx": False}


def tag(o):
    return "".join("1" if o[k] else "0" for k in a08.OPTION_NAMES)


def values_of(rm, points):
    out = []
    for pt in points:
        v = {}
        for name, fn in (("dae", lambda: rm.residual(pt, "dae")), ("initial", lambda: rm.residual(pt, "initial")),
                         ("metadata", lambda: rm.metadata(pt)), ("delay", lambda: rm.delay_arguments(pt))):
            try:
                v[name] = fn()
            except Exception as e:
                v[name] = "raised " + type(e).__name__
        out.append(v)
    return out


def mutate(rm):
    """Phase 2: the user edits the model object: a start value, a nominal value, and drops the last equation."""
    m = rm.model
    ov = {}
    for v in m.alg_states:
        if v.python_type is float and int(v.symbol.numel()) == 1:
            v.start = 7.0
            ov[(v.symbol.name(), "start")] = 7
            break
    for v in m.states:
        if int(v.symbol.numel()) == 1:
            v.nominal = 2.0
            ov[(v.symbol.name(), "nominal")] = 2
            break
    if len(m.equations) > 1:
        m.equations = list(m.equations[:-1])
    return ov


def observe(rm, points, opts):
    """Everything the property talks about, canonical, over a three-step use of ONE model object:
    (1) after generate + simplify, (2) after editing attributes / equations of the object, (3) after a
    further simplify() with one more option (replace_constant_values)."""
    obs = {"vars": rm.var_lists(), "attributes": rm.attributes()}
    obs["eq_sizes"] = [rm.equation_sizes("dae"), rm.equation_sizes("initial")]
    obs["values"] = values_of(rm, points)
    obs["sx"] = bool(rm.model.dae_residual_function.is_a("SXFunction"))
    ov = mutate(rm)
    obs["overrides"] = sorted([k[0], k[1], v] for k, v in ov.items())
    obs["eq_sizes2"] = [rm.equation_sizes("dae"), rm.equation_sizes("initial")]
    obs["values2"] = values_of(rm, points)
    try:
        rm.model.simplify(dict(opts, replace_constant_values=True))
        obs["vars3"] = rm.var_lists()
        obs["values3"] = values_of(rm, points)
    except Exception as e:
        obs["vars3"] = "raised " + type(e).__name__
        obs["values3"] = [{"dae": "-", "initial": "-", "metadata": "-", "delay": "-"} for _ in points]
    return obs


PHASES = (("values", "after generate+simplify"), ("values2", "after editing the model object"),
          ("values3", "after a further simplify(replace_constant_values)"))


def check_case(ctx, case, drv):
    points = [a08.point_from_json(p) if _is_json(p) else p for p in case["points"]]
    jcase = {"text": case["text"], "name": "M", "points": [a08.point_to_json(p) for p in points],
             "ranges": case.get("ranges") or {}}
    ranges = {k: tuple(v) for k, v in (case.get("ranges") or {}).items()}
    try:
        base = a08.RealModel(case["text"], "M", None, None)
    except Exception as e:
        raise HarnessError("cannot parse a generated model: %s\n%s" % (e, case["text"]))
    js = None
    obs = {}
    for o in COMBOS:
        try:
            rm = a08.RealModel(case["text"], "M", dict(o), True, tree=base.tree)
            if js is None:
                js = rm.flat_json()
            obs[tag(o)] = observe(rm, points, o)
        except Exception as e:
            obs[tag(o)] = {"raised": type(e).__name__ + ": " + str(e)[:150]}
    b = obs[tag(BASE)]
    status = "ok"
    if "raised" in b:
        ctx.count("baseline-translation-raised")
        status = "raised"
    for o in COMBOS:
        t = tag(o)
        ctx.count("combination")
        ob = obs[t]
        if ("raised" in ob) != ("raised" in b):
            ctx.violation("translation succeeds under one option combination and raises under another",
                          dict(jcase, options=o), expected=b.get("raised", "translated"),
                          observed=ob.get("raised", "translated"), kind="configuration")
            status = "violation"
            continue
        if "raised" in ob:
            continue
        for key in ("vars", "attributes", "eq_sizes", "overrides", "eq_sizes2", "vars3"):
            if ob[key] != b[key]:
                ctx.violation("%s differ between option combinations" % key, dict(jcase, options=o, base=BASE),
                              expected=b[key], observed=ob[key], kind="configuration")
                status = "violation"
        if ob["sx"] != bool(o["expand_mx"]):
            ctx.count("expand_mx-flag-without-effect")
        for phase, label in PHASES:
            for pi, (vb, vo) in enumerate(zip(b[phase], ob[phase])):
                for fn in ("dae", "initial", "metadata", "delay"):
                    if vb[fn] != vo[fn]:
                        ctx.violation("%s function values differ between option combinations (%s)" % (fn, label),
                                      dict(jcase, options=o, base=BASE, point=pi, phase=phase), expected=vb[fn],
                                      observed=vo[fn], kind="history" if phase != "values" else "configuration")
                        status = "violation"
    if "raised" in b:
        return status
    # ---- every combination against the exact evaluator (only exact points are compared with the model too)
    consts = {}
    exact = []
    ov = {(x[0], x[1]): x[2] for x in b["overrides"]}
    for pi, pt in enumerate(points):
        try:
            orc = a08.Oracle(js, pt, ranges)
            want = {"dae": [a08.qs(x) for eq in orc.residuals("equations") for x in eq],
                    "initial": [a08.qs(x) for eq in a08.Oracle(js, pt, ranges).residuals("initial_equations") for x in eq],
                    "metadata": a08.Oracle(js, pt, ranges).metadata(b["vars"])}
            want2 = {"dae": want["dae"][:sum(b["eq_sizes2"][0])], "initial": want["initial"],
                     "metadata": a08.Oracle(js, pt, ranges).metadata(b["vars"], ov)}
            want3 = None
            if isinstance(b["vars3"], dict):
                # constants now stand for their declared values
                pt3 = dict(pt)
                o3 = a08.Oracle(js, pt, ranges)
                for s_ in js["model"]["symbols"]:
                    if "constant" in s_["prefixes"] and s_["value"]["k"] != "none":
                        v = o3.ev(s_["value"], {}, o3.syms)
                        pt3[s_["name"]] = v if isinstance(v, list) else [v] * max(1, len(pt.get(s_["name"], [0])))
                want3 = {"dae": [a08.qs(x) for eq in a08.Oracle(js, pt3, ranges).residuals("equations") for x in eq][:sum(b["eq_sizes2"][0])],
                         "initial": [a08.qs(x) for eq in a08.Oracle(js, pt3, ranges).residuals("initial_equations") for x in eq],
                         "metadata": a08.Oracle(js, pt3, ranges).metadata(b["vars3"], ov)}
            exact.append(True)
            for o in COMBOS:
                ob = obs[tag(o)]
                if "raised" in ob:
                    continue
                for phase, w in (("values", want), ("values2", want2), ("values3", want3)):
                    if w is None:
                        continue
                    for which in ("dae", "initial", "metadata"):
                        if ob[phase][pi][which] != w[which]:
                            ctx.violation("%s function under an option combination differs from the exact evaluation of "
                                          "the flat model (%s)" % (which, dict(PHASES)[phase]),
                                          dict(jcase, options=o, point=pi, phase=phase), expected=w[which],
                                          observed=ob[phase][pi][which], kind="configuration")
                            status = "violation"
        except a08.Inexact:
            exact.append(False)
        except a08.Unsupported as e:
            raise HarnessError("oracle cannot evaluate a generated model (%s):\n%s" % (e, case["text"]))
    ctx.count("exact-points", sum(exact))
    if drv is not None:
        for o in COMBOS:
            if "raised" in obs[tag(o)]:
                continue        # already reported above (translation raises under this combination only)
            for which in ("dae", "initial"):
                a = drv.ask({"op": "residual", "model": js, "points": jcase["points"], "which": which, "opts": o})
                if not a.get("ok"):
                    raise HarnessError("model driver rejected a generated model: %s\n%s" % (a, case["text"]))
                if not a["gen"]["ok"]:
                    ctx.disagreement("translation", dict(jcase, options=o, which=which), a["gen"], "real code translates it")
                    continue
                if a["gen"].get("expand") != bool(o["expand_mx"]):
                    ctx.disagreement("expand-tag", dict(jcase, options=o), a["gen"].get("expand"), o["expand_mx"])
                for pi, pa in enumerate(a["points"]):
                    if not exact[pi]:
                        continue
                    mv = None if pa["c"] is None else [x for eq in pa["c"] for x in eq]
                    rv = obs[tag(o)]["values"][pi][which]
                    if mv != rv:
                        ctx.disagreement("residual-under-options", dict(jcase, options=o, which=which, point=pi), mv, rv)
                    if which == "dae":
                        dv = a["delay"][pi]["c"]
                        rd = obs[tag(o)]["values"][pi]["delay"]
                        if dv != rd:
                            ctx.disagreement("delay-arguments-under-options", dict(jcase, options=o, point=pi), dv, rd)
    n = sum(len(v["dae"]) if isinstance(v["dae"], list) else 0 for v in b["values"])
    return status if (status != "ok" or (any(exact) and n)) else "trivial"


def _is_json(p):
    for v in p.values():
        if v:
            return isinstance(v[0], str)
    return True


def fixed_cases():
    from fractions import Fraction as F
    txt = ("function f\n  input Real a;\n  output Real b;\nalgorithm\n  b := 2 * a + 1;\n  for k in 1:2 loop\n    b := b + k * a;\n  end for;\nend f;\n"
           "model M\n  Real x[3];\n  Real y(start = p, max = 2 * p + 1);\n  parameter Real p = 2;\n  Real z;\ninitial equation\n  y = p;\n"
           "equation\n  for i in 1:3 loop\n    x[i] = f(i * p) + y;\n  end for;\n  der(y) = f(y);\n  z = delay(y + x[1], p);\nend M;\n")
    pts = [{"time": [F(1, 2)], "x": [F(1), F(3), F(-2)], "y": [F(2)], "der(y)": [F(1, 4)], "p": [F(4)], "z": [F(1)],
            "_pymoca_delay_0": [F(3)]},
           {"time": [F(0)], "x": [F(0), F(1), F(2)], "y": [F(-1)], "der(y)": [F(2)], "p": [F(1, 2)], "z": [F(0)],
            "_pymoca_delay_0": [F(-1)]}]
    txt2 = ("function f\n  input Real a;\n  input Real c;\n  output Real b;\nalgorithm\n  b := a * a + c;\nend f;\n"
            "model M\n  Real x[4];\n  Real y[4];\n  parameter Real p = 2;\nequation\n  for i in 2:3 loop\n"
            "    y[i] = f(x[i], p) - 3 * f(x[i+1], p) + 5 * f(x[i-1], p) + i * p;\n  end for;\n  y[1] = f(x[1], 1) - f(x[2], 1);\n  y[4] = 0;\n"
            "  for j in 1:4 loop\n    x[j] = f(y[5-j], j) + 2 * f(y[j], j);\n  end for;\nend M;\n")
    pts2 = [{"time": [F(0)], "x": [F(1), F(2), F(3), F(-1)], "y": [F(0), F(1, 2), F(4), F(-2)], "p": [F(2)]},
            {"time": [F(1)], "x": [F(-3), F(1, 2), F(0), F(2)], "y": [F(1), F(1), F(-1), F(3)], "p": [F(-1)]}]
    txt3 = ("function g\n  input Real a;\n  input Real c;\n  output Real b;\nalgorithm\n  b := a * c + 2 * a - c / 2;\nend g;\n"
            "model M\n  parameter Real p0 = 2;\n  parameter Real p1 = 3;\n  constant Real c0 = 4;\n"
            "  Real x0(start = g(p0, p1), min = -p0 * p1);\n  Real y0(max = g(p1, p0) + 1, nominal = 2 * p0);\n  Real v[2](each start = p0);\n"
            "equation\n  der(x0) = g(y0, p0);\n  y0 = x0 + c0;\n  for i in 1:2 loop\n    v[i] = g(x0, i) * c0;\n  end for;\nend M;\n")
    pts3 = [{"time": [F(0)], "p0": [F(3)], "p1": [F(-2)], "c0": [F(5)], "x0": [F(1)], "der(x0)": [F(0)], "y0": [F(2)], "v": [F(1), F(1)]},
            {"time": [F(0)], "p0": [F(1, 2)], "p1": [F(4)], "c0": [F(-1)], "x0": [F(2)], "der(x0)": [F(1)], "y0": [F(0)], "v": [F(0), F(3)]}]
    txt4 = ("function mesh\n  input Real a;\n  input Real ratio;\n  output Real b;\nalgorithm\n  b := a * ratio + 1;\nend mesh;\n"
            "model M\n  parameter Integer n = 3;\n  parameter Integer teeth = 4;\n  parameter Real p = 2;\n  Real w[n];\n  Real x;\n"
            "initial equation\n  x = teeth * p;\nequation\n  w[1] = x * n;\n  for i in 2:n loop\n    w[i] = mesh(w[i-1], teeth / 2) + n;\n  end for;\n"
            "  der(x) = delay(x + teeth, p) - n;\nend M;\n")
    pts4 = [{"time": [F(0)], "n": [F(5)], "teeth": [F(8)], "p": [F(1)], "w": [F(1), F(2), F(-1)], "x": [F(2)], "der(x)": [F(1)],
             "_pymoca_delay_0": [F(3)]},
            {"time": [F(1)], "n": [F(3)], "teeth": [F(2)], "p": [F(4)], "w": [F(0), F(1), F(2)], "x": [F(-1)], "der(x)": [F(0)],
             "_pymoca_delay_0": [F(1)]}]
    txt5 = ("function horner\n  input Real t;\n  input Real c;\n  output Real p;\n  output Real dp;\nalgorithm\n  p := c;\n  dp := 0;\n"
            "  for i in 1:3 loop\n    dp := dp * t + p;\n    p := p * t + c * i;\n  end for;\nend horner;\n"
            "model M\n  Real x[3];\n  Real y;\n  Real z;\n  parameter Real q = 2;\nequation\n  (y, z) = horner(x[1], q);\n"
            "  for i in 1:3 loop\n    x[i] = horner(y * i, q);\n  end for;\nend M;\n")
    pts5 = [{"time": [F(0)], "x": [F(2), F(1), F(-1)], "y": [F(3)], "z": [F(1)], "q": [F(3)]},
            {"time": [F(0)], "x": [F(1, 2), F(0), F(4)], "y": [F(-2)], "z": [F(0)], "q": [F(-1)]}]
    txt6 = ("package Valve\n  function curve\n    input Real dp;\n    input Real k;\n    output Real q;\n  algorithm\n    q := k * dp + 1;\n  end curve;\nend Valve;\n"
            "package Pump\n  function curve\n    input Real dp;\n    input Real k;\n    output Real q;\n  algorithm\n    q := k - 2 * dp * dp;\n  end curve;\nend Pump;\n"
            "model M\n  parameter Integer n = 17;\n  Real a[9];\n  Real b[n];\n  Real c[26];\n  Real x;\n  parameter Real p = 2;\nequation\n"
            "  x = Valve.curve(a[1], p) - 3 * Pump.curve(a[2], p);\n"
            "  for i in 1:9 loop\n    a[i] = Pump.curve(x, i) + Valve.curve(i, p);\n  end for;\n"
            "  for j in 1:n loop\n    b[j] = j * x - b[j];\n  end for;\n"
            "  for k in 2:26 loop\n    c[k] = c[k-1] + k * p;\n  end for;\n  c[1] = x;\nend M;\n")
    pts6 = [{"time": [F(0)], "n": [F(17)], "a": [F(k % 4 - 1) for k in range(9)], "b": [F(k % 5) / 2 for k in range(17)],
             "c": [F(3 - k % 7) for k in range(26)], "x": [F(2)], "p": [F(3)]}]
    return [{"text": txt6, "name": "M", "points": pts6, "ranges": {}, "features": ["for-equation", "function"]},
            {"text": txt5, "name": "M", "points": pts5, "ranges": {}, "features": ["for-equation", "function"]},
            {"text": txt4, "name": "M", "points": pts4, "ranges": {}, "features": ["for-equation", "function"]},
            {"text": txt3, "name": "M", "points": pts3, "ranges": {}, "features": ["for-equation", "function"]},
            {"text": txt, "name": "M", "points": pts, "ranges": {}, "features": ["for-equation", "function"]},
            {"text": txt2, "name": "M", "points": pts2, "ranges": {}, "features": ["for-equation", "function"]}]


# Where the three options (and the attributes derived from them) are read in the current sources.  This is
# *information for the evidence file only* (`option_read_sites`, plus a note when it differs from the
# list below): a new read site may be a log message or a name and is no reason for an alarm; whether an
# option leaks into the generated terms is decided behaviourally by the 8-combination comparison.
EXPECTED_SITES = {
    "generator.py:Generator.__init__:option:unroll_loops": 1,
    "generator.py:Generator.__init__:option:inline_functions": 1,
    "generator.py:ForLoop.register_indexed_symbol:attr:map_mode": 1,
    "generator.py:Generator.exitForEquation:attr:map_mode": 2,
    "generator.py:Generator.exitForStatement:attr:map_mode": 1,
    "generator.py:Generator.exitExpression:attr:function_mode": 1,
    "generator.py:Generator.get_integer:attr:function_mode": 1,
    "model.py:Model._simplify_once:option:expand_mx": 5,
    "model.py:Model.dae_residual_function:attr:_expand_mx_func": 2,
    "model.py:Model.initial_residual_function:attr:_expand_mx_func": 2,
    "model.py:Model.variable_metadata_function:attr:_expand_mx_func": 1,
    "model.py:Model.delay_arguments_function:attr:_expand_mx_func": 2,
    "api.py:transfer_model:option:expand_mx": 1,
}


def option_sites():
    import ast as pyast
    import os
    from pymoca.backends.casadi import generator, model, api
    out = {}

    def visit(node, scope, fname):
        for child in pyast.iter_child_nodes(node):
            sc = scope
            if isinstance(child, (pyast.FunctionDef, pyast.ClassDef)):
                sc = scope + [child.name]
            if isinstance(child, pyast.Subscript) and isinstance(child.ctx, pyast.Load):
                k = child.slice
                if isinstance(k, pyast.Constant) and k.value in a08.OPTION_NAMES:
                    key = "%s:%s:option:%s" % (fname, ".".join(scope), k.value)
                    out[key] = out.get(key, 0) + 1
            if isinstance(child, pyast.Call) and isinstance(child.func, pyast.Attribute) and child.func.attr == "get" \
                    and child.args and isinstance(child.args[0], pyast.Constant) and child.args[0].value in a08.OPTION_NAMES:
                key = "%s:%s:option:%s" % (fname, ".".join(scope), child.args[0].value)
                out[key] = out.get(key, 0) + 1
            if isinstance(child, pyast.Attribute) and isinstance(child.ctx, pyast.Load) \
                    and child.attr in ("map_mode", "function_mode", "_expand_mx_func"):
                key = "%s:%s:attr:%s" % (fname, ".".join(scope), child.attr)
                out[key] = out.get(key, 0) + 1
            visit(child, sc, fname)
    for mod in (generator, model, api):
        with open(mod.__file__) as f:
            visit(pyast.parse(f.read()), [], os.path.basename(mod.__file__))
    return out


def check_option_sites(ctx):
    try:
        got = option_sites()
    except Exception as e:      # never a verdict
        ctx.notes.append("option read sites could not be scanned: %s" % e)
        return
    ctx.extra["option_read_sites"] = got
    if got != EXPECTED_SITES:
        diff = {k: [EXPECTED_SITES.get(k), got.get(k)] for k in set(got) | set(EXPECTED_SITES) if got.get(k) != EXPECTED_SITES.get(k)}
        ctx.notes.append("option read sites differ from the recorded list (informational): %s" % sorted(diff.items()))


def run(ctx):
    drv = ctx.driver("drv_c12")
    check_option_sites(ctx)
    quick = ctx.tier == "quick"
    from harness import corpus
    todo = [(c, "corpus") for c in corpus.load("C12")] + [(c, "fixed") for c in fixed_cases()]
    for c, src in todo:
        ctx.count(src)
        st = check_case(ctx, c, drv)
        ctx.case({"text": c["text"], "points": [a08.point_to_json(p) if not _is_json(p) else p for p in c["points"]]},
                 nontrivial=st == "ok")
    n = 120 if quick else 1500
    random_models(ctx, drv, n, 2)


def random_models(ctx, drv, n, npoints):
    for i in range(n):
        if i >= 10 and ctx.time_left() < (15 if ctx.tier == "quick" else 0):
            ctx.notes.append("random models stopped by the time budget after %d" % i)
            break
        g = a08.ModelGen(ctx.rng, npoints, count=lambda k: ctx.count("g:" + k), loops=True,
                         functions=ctx.rng.choice([1, 1, 2]), delay=ctx.rng.random() < 0.4, twin_calls=0.7,
                         bilinear_attr=ctx.rng.random() < 0.6, pkg_funcs=0.5, long_loops=0.25)
        case = g.make()
        st = check_case(ctx, case, drv)
        calls = "call" in " ".join(k for k in ()) or ("f0(" in case["text"].split("model M")[1])
        nontrivial = st == "ok" and "for-equation" in case["features"] and calls
        ctx.case({"text": case["text"], "points": [a08.point_to_json(p) for p in case["points"]]}, nontrivial=nontrivial)
        ctx.count("random-" + st)
        ctx.count("with-call-in-model" if calls else "without-call-in-model")
        for f in case["features"]:
            ctx.count("feature:" + f)


def search(ctx):
    random_models(ctx, None, 100000, 2)


def replay(ctx, payload):
    c = payload["case"]
    check_case(ctx, c, ctx.driver("drv_c12"))


MANIFEST = dict(
    level_text="Lean 4 theorems on the model of the generator: the three representation options only tag `map` / `call` "
               "nodes and the final function, and the evaluation of generated terms never reads a tag, so all option "
               "combinations evaluate alike; tied to the real code on every run by translating every generated model "
               "under all 8 combinations (generate + simplify) and comparing variable lists, metadata and the four output "
               "functions at exact points with each other and with the model.",
    level_note="Trusted: Lean kernel + standard axioms; the harness; CasADi's map / call / expand preserving values (the "
               "8-way differential run is the check).",
    technique="Lean 4 proof (tag-irrelevance of evaluation; corollary of translation correctness) + 8-way differential "
              "run of the real code + model/implementation correspondence",
)
READY = True
