"""Helpers shared by the C13 and C16 checks (exact numbers, Modelica literals, evaluation of
`Variable` attributes and of `variable_metadata_function` at exact parameter vectors)."""
import math
from decimal import Decimal, getcontext
from fractions import Fraction

from harness.common import HarnessError

getcontext().prec = 60

ATTRS = ("value", "min", "max", "start", "fixed", "nominal")   # the order the property / the model uses
LISTS = ("states", "alg_states", "inputs", "parameters", "constants")


# ---- exact numbers <-> JSON -----------------------------------------------------------------
def xj(x):
    """Fraction / 'inf' / '-inf' / 'nan' / bool / int  ->  JSON value understood by the Lean drivers."""
    if isinstance(x, str):
        return x
    if isinstance(x, bool):
        return [int(x), 1]
    x = Fraction(x)
    return [x.numerator, x.denominator]


def jx(j):
    """inverse of xj"""
    if isinstance(j, str):
        return j
    return Fraction(j[0], j[1])


def of_float(v):
    """A Python/numpy number -> exact value ('nan', 'inf', '-inf' or Fraction)."""
    v = float(v)
    if math.isnan(v):
        return "nan"
    if math.isinf(v):
        return "inf" if v > 0 else "-inf"
    return Fraction(v)


def xneg(x):
    if x == "nan":
        return x
    if x == "inf":
        return "-inf"
    if x == "-inf":
        return "inf"
    return -x


def xkey(x):
    """total order key on extended values without nan"""
    if x == "inf":
        return (1, 0)
    if x == "-inf":
        return (-1, 0)
    if x == "nan":
        raise HarnessError("nan has no order")
    return (0, Fraction(x))


def xmax(a, b):
    return a if xkey(a) >= xkey(b) else b


def xmin(a, b):
    return a if xkey(a) <= xkey(b) else b


def show(x):
    return x if isinstance(x, str) else str(Fraction(x))


# ---- Modelica text --------------------------------------------------------------------------
def mo_num(x, real_form=False):
    """Exact Modelica literal of a dyadic rational (unsigned part printed, sign as unary minus)."""
    x = Fraction(x)
    s = "-" if x < 0 else ""
    a = abs(x)
    if a.denominator == 1:
        t = str(a.numerator) + (".0" if real_form else "")
    else:
        d = Decimal(a.numerator) / Decimal(a.denominator)
        t = format(d, "f")
        if Fraction(t) != a:
            raise HarnessError("literal %s is not a finite decimal" % a)
    return s + t


# ---- evaluating what the real code produced -------------------------------------------------
def param_vector_symbol(model):
    import casadi as ca
    return ca.veccat(*[v.symbol for v in model.parameters])


def flat_colmajor(dm):
    """casadi DM -> list of exact values, column-major (the order of `veccat`)."""
    import casadi as ca
    dm = ca.DM(dm)
    full = dm.full()
    out = []
    for j in range(full.shape[1]):
        for i in range(full.shape[0]):
            out.append(of_float(full[i, j]))
    return out


def eval_attr(model, value, pvec):
    """Exact element values (column-major) of one Variable attribute at parameter vector `pvec`.
    MX values are turned into a Function of the model's parameters; anything else goes through DM."""
    import casadi as ca
    if isinstance(value, ca.MX):
        if value.is_constant():
            return flat_colmajor(ca.evalf(value))
        f = ca.Function("attr", [param_vector_symbol(model)], [value])
        return flat_colmajor(f(ca.DM([float(p) for p in pvec])))
    if isinstance(value, (list, tuple)):
        try:
            return flat_colmajor(ca.DM(value))
        except Exception:
            pass
        # a (nested) Python list with symbolic elements: element by element, column-major
        rows = [list(r) for r in value] if value and isinstance(value[0], (list, tuple)) else [[x] for x in value]
        out = []
        for j in range(len(rows[0])):
            for i in range(len(rows)):
                out.extend(eval_attr(model, rows[i][j], pvec))
        return out
    if isinstance(value, ca.DM):
        return flat_colmajor(value)
    return [of_float(value)]


def eval_metadata(model, pvec):
    """variable_metadata_function at `pvec`: five matrices as lists of rows of exact values."""
    import casadi as ca
    f = model.variable_metadata_function
    if f.n_in() != 1 or f.n_out() != 5:
        raise HarnessError("variable_metadata_function has an unexpected signature: %s" % f)
    if f.size1_in(0) * f.size2_in(0) != len(pvec):
        raise HarnessError("parameter vector of length %d for %s" % (len(pvec), f))
    res = f(ca.DM([float(p) for p in pvec]) if pvec else ca.DM(0, 1))
    if not isinstance(res, (list, tuple)):
        res = [res]
    out = []
    for o in res:
        full = ca.DM(o).full()
        out.append([[of_float(full[i, j]) for j in range(full.shape[1])] for i in range(full.shape[0])])
    return out


def tname(v):
    return type(v).__name__
