import PymocaVerif.Model.CacheMeta
/-!
Row bookkeeping of the cached metadata (`Model/CacheMeta.lean`): the rows `load_model` reads
for a variable are the rows `save_model`'s metadata function holds for it.
-/
namespace PymocaVerif.CacheMeta

/-- element-wise relation of two lists of equal length -/
inductive All2 {α β : Type} (R : α → β → Prop) : List α → List β → Prop
  | nil : All2 R [] []
  | cons {a b as bs} : R a b → All2 R as bs → All2 R (a :: as) (b :: bs)

theorem All2.length_eq {α β : Type} {R : α → β → Prop} {as : List α} {bs : List β} (h : All2 R as bs) :
    as.length = bs.length := by
  induction h with
  | nil => rfl
  | cons _ _ ih => simp [ih]

theorem All2.get {α β : Type} {R : α → β → Prop} {as : List α} {bs : List β} (h : All2 R as bs) :
    ∀ (i : Nat) (h1 : i < as.length) (h2 : i < bs.length), R as[i] bs[i] := by
  induction h with
  | nil => intro i h1; simp at h1
  | cons hab _ ih =>
    intro i h1 h2
    cases i with
    | zero => exact hab
    | succ i => exact ih i (by simpa using h1) (by simpa using h2)

variable {P E V : Type} [Inhabited V]

/-- the element values `load_model` must reproduce for an `MX` attribute: one per scalar
    element, a scalar attribute being repeated (`repmat`) -/
def broadcast (n : Nat) (l : List V) : List V := (List.range n).map (pick l)

/-- Agreement of a loaded attribute with the original one. -/
def AttrOk (nanEnv : E) (n : Nat) (a : Attr P E V) (la : LAttr P E V) : Prop :=
  match a with
  | .py p => la = .py (some p)
  | .mx dep f => ∃ g, la = .mx g ∧ ∀ e, (dep = false → f e = f nanEnv) → g e = broadcast n (f e)

/-- `MX_INDEPENDENT` attributes do not change with the parameters (what CasADi's
    `is_constant()` / `depends_on` promise). -/
def AttrWF (nanEnv : E) : Attr P E V → Prop
  | .mx false f => ∀ e, f e = f nanEnv
  | _ => True

structure Matches (nA : Nat) (nanEnv : E) (v : Var P E V) (lv : LVar P E V) : Prop where
  name : lv.name = v.name
  rows : lv.rows = v.rows
  cols : lv.cols = v.cols
  pyType : lv.pyType = v.pyType
  aliases : lv.aliases = v.aliases
  attrs : ∀ j, j < nA → AttrOk nanEnv v.numel (v.attrs j) (lv.attrs j)

theorem length_rowsOf (nA : Nat) (embed : P → List V) (v : Var P E V) (e : E) :
    (rowsOf nA embed v e).length = v.numel := by
  simp [rowsOf]

theorem colSlice_rowsOf (nA : Nat) (embed : P → List V) (v : Var P E V) (e : E)
    (pre post : List (List V)) (j : Nat) (hj : j < nA) :
    colSlice (pre ++ (rowsOf nA embed v e ++ post)) pre.length v.numel j
      = (List.range v.numel).map (fun k => elemOf embed (v.attrs j) e k) := by
  unfold colSlice
  rw [List.drop_left]
  have hlen := length_rowsOf nA embed v e
  rw [List.take_left' hlen]
  simp only [rowsOf, List.map_map]
  apply List.map_congr_left
  intro k _
  simp [Function.comp, List.getD, hj]

/-- Main induction: with `row` rows (`pre`) of earlier variables in front, the loop reads for
    every variable exactly its own rows. -/
theorem loadVars_matches (nA : Nat) (embed : P → List V) (nanEnv : E) (metaFn : E → List (List V)) :
    ∀ (vars : List (Var P E V)) (row : Nat) (pre : E → List (List V)),
      (∀ e, (pre e).length = row) → (∀ e, metaFn e = pre e ++ metaOf nA embed vars e) →
      All2 (Matches nA nanEnv) vars
        (loadVars nanEnv metaFn row (vars.map toDict) (vars.map (fun v j => classify (v.attrs j)))) := by
  intro vars
  induction vars with
  | nil => intro row pre _ _; exact All2.nil
  | cons v rest ih =>
    intro row pre hpre hmeta
    simp only [List.map_cons, loadVars]
    refine All2.cons ?_ ?_
    · refine ⟨rfl, rfl, rfl, rfl, rfl, ?_⟩
      intro j hj
      have hslice : ∀ e, colSlice (metaFn e) row (toDict v).numel j
          = (List.range v.numel).map (fun k => elemOf embed (v.attrs j) e k) := by
        intro e
        rw [hmeta e, ← hpre e]
        simp only [metaOf, List.flatMap_cons]
        exact colSlice_rowsOf nA embed v e (pre e) _ j hj
      cases hattr : v.attrs j with
      | py p => simp [AttrOk, classify, toDict, hattr]
      | mx dep f =>
        cases dep with
        | true =>
          simp only [AttrOk, classify, hattr]
          refine ⟨_, rfl, ?_⟩
          intro e _
          rw [hslice e]
          simp [broadcast, elemOf, hattr]
        | false =>
          simp only [AttrOk, classify, hattr]
          refine ⟨_, rfl, ?_⟩
          intro e hc
          rw [hslice nanEnv, hc trivial]
          simp [broadcast, elemOf, hattr]
    · apply ih (row + (toDict v).numel) (fun e => pre e ++ rowsOf nA embed v e)
      · intro e
        rw [List.length_append, hpre e, length_rowsOf]
        rfl
      · intro e
        rw [hmeta e]
        simp [metaOf, List.flatMap_cons, List.append_assoc]

/-- the running offset at variable `i` is the sum of the element counts before it -/
theorem loadVars_row0 (nanEnv : E) (metaFn : E → List (List V)) :
    ∀ (ds : List (VarDict P)) (ms : List (Nat → Dep)) (row : Nat), ds.length = ms.length →
      (loadVars nanEnv metaFn row ds ms).map (·.row0)
        = (List.range ds.length).map (fun i => row + ((ds.take i).map VarDict.numel).sum) := by
  intro ds
  induction ds with
  | nil => intro ms row _; cases ms <;> simp [loadVars]
  | cons d rest ih =>
    intro ms row hlen
    cases ms with
    | nil => simp at hlen
    | cons m ms =>
      simp only [List.length_cons, Nat.add_right_cancel_iff] at hlen
      simp only [loadVars, List.map_cons, List.length_cons, List.range_succ_eq_map, List.map_map]
      rw [ih ms _ hlen]
      simp only [List.take_zero, List.map_nil, List.sum_nil, Nat.add_zero, List.cons.injEq, true_and]
      apply List.map_congr_left
      intro i _
      simp [Function.comp, Nat.add_assoc]

/-! ### delay durations -/

/-- `f` reads only the symbols in `S`. -/
def DependsOnly (f : (Nat → V) → V) (S : List Nat) : Prop :=
  ∀ env env' : Nat → V, (∀ k, k ∈ S → env k = env' k) → f env = f env'

/-- what `maskSets` promises for one duration: nothing kept only if nothing is needed,
    otherwise everything needed is kept -/
def MaskOk (dd : List Nat) : Option (List Nat) → Prop
  | none => dd = []
  | some T => ∀ k, k ∈ dd → k ∈ T

theorem maskSets_sound (union : List Nat) :
    ∀ (dds : List (List Nat)) (cur : Nat), (∀ dd, dd ∈ dds → ∀ k, k ∈ dd → k ∈ union) →
      All2 MaskOk dds (maskSets union cur dds) := by
  intro dds
  induction dds with
  | nil => intro _ _; exact All2.nil
  | cons dd rest ih =>
    intro cur h
    have hrest : ∀ d, d ∈ rest → ∀ k, k ∈ d → k ∈ union := fun d hd => h d (List.mem_cons_of_mem _ hd)
    unfold maskSets
    split
    · rename_i he
      exact All2.cons (by simpa [MaskOk] using he) (ih cur hrest)
    · split
      · exact All2.cons (by intro k hk; exact hk) (ih _ hrest)
      · exact All2.cons (h dd (List.mem_cons_self ..)) (ih cur hrest)

theorem mem_unionOf (dds : List (List Nat)) (dd : List Nat) (hd : dd ∈ dds) (k : Nat) (hk : k ∈ dd) :
    k ∈ unionOf dds := by
  simp only [unionOf, List.mem_eraseDups, List.mem_flatMap, id]
  exact ⟨dd, hd, hk⟩

/-- the function `loadDurations` maps over the zipped (raw duration, mask) pairs -/
def applyMask (nan : V) (x : ((Nat → V) → V) × Option (List Nat)) : (Nat → V) → V :=
  match x.2 with
  | none => fun _ => x.1 (fun _ => nan)
  | some keep => fun env => x.1 (maskEnv nan keep env)

omit [Inhabited V] in
theorem loadDurations_eq (nan : V) (raw : List ((Nat → V) → V)) (dds : List (List Nat)) :
    loadDurations nan raw dds
      = (raw.zip (maskSets (unionOf dds) (unionOf dds).length dds)).map (applyMask nan) := by
  unfold loadDurations
  apply List.map_congr_left
  intro x _
  cases x with
  | mk f t => cases t <;> rfl

omit [Inhabited V] in
theorem applyMask_ok (nan : V) (f : (Nat → V) → V) (dd : List Nat) (t : Option (List Nat))
    (hdep : DependsOnly f dd) (hok : MaskOk dd t) (env : Nat → V) : applyMask nan (f, t) env = f env := by
  cases t with
  | none =>
    simp only [MaskOk] at hok
    simp only [applyMask]
    apply hdep
    intro k hk
    rw [hok] at hk
    cases hk
  | some T =>
    simp only [MaskOk] at hok
    simp only [applyMask]
    apply hdep
    intro k hk
    simp [maskEnv, hok k hk]

omit [Inhabited V] in
theorem zipMask_ok (nan : V) : ∀ (raw : List ((Nat → V) → V)) (dds : List (List Nat)) (ms : List (Option (List Nat))),
    All2 DependsOnly raw dds → All2 MaskOk dds ms →
      All2 (fun f g => ∀ env, g env = f env) raw ((raw.zip ms).map (applyMask nan)) := by
  intro raw dds ms h1
  induction h1 generalizing ms with
  | nil => intro h2; cases h2; exact All2.nil
  | cons hd _ ih =>
    intro h2
    cases h2 with
    | cons hm hrest =>
      simp only [List.zip_cons_cons, List.map_cons]
      exact All2.cons (fun env => applyMask_ok nan _ _ _ hd hm env) (ih _ hrest)

end PymocaVerif.CacheMeta

namespace PymocaVerif.CacheMeta

theorem PExpr.eval_indep (e : PExpr) (h : e.hasParam = false) (env env' : Nat → Option Int) :
    e.eval env = e.eval env' := by
  induction e with
  | const v => rfl
  | nan => rfl
  | param k => simp [PExpr.hasParam] at h
  | neg a ih => simp only [PExpr.hasParam] at h; simp only [PExpr.eval, ih h]
  | add a b iha ihb =>
    simp only [PExpr.hasParam, Bool.or_eq_false_iff] at h
    simp only [PExpr.eval, iha h.1, ihb h.2]
  | sub a b iha ihb =>
    simp only [PExpr.hasParam, Bool.or_eq_false_iff] at h
    simp only [PExpr.eval, iha h.1, ihb h.2]
  | mul a b iha ihb =>
    simp only [PExpr.hasParam, Bool.or_eq_false_iff] at h
    simp only [PExpr.eval, iha h.1, ihb h.2]

end PymocaVerif.CacheMeta
