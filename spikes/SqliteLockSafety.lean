/-! Design-phase feasibility spike for C02 (see DESIGN.md §10). Not part of the checking machinery.
    SQLite rollback-journal locking for an arbitrary number of connections:
    no statement fails and no deadlock, provided no path upgrades SHARED to RESERVED. -/

inductive Stmt | beginD | beginI | read | write | commit
deriving DecidableEq, Repr

inductive Lock | none | shared | reserved | pending
deriving DecidableEq, Repr

structure Conn where
  pc : Nat
  lock : Lock
  inTxn : Bool
  failed : Bool
deriving DecidableEq, Repr

/-- what a connection does on statement `s`, given three facts about the *other* connections:
    `rp` someone else holds RESERVED or PENDING, `pd` someone else holds PENDING,
    `sh` someone else holds SHARED.  A blocked statement leaves the connection unchanged. -/
def next (c : Conn) (s : Stmt) (rp pd sh : Bool) : Conn :=
  match s with
  | .beginD => { c with pc := c.pc + 1, inTxn := true }
  | .beginI =>
      match c.lock with
      | .none => if rp then c else { c with pc := c.pc + 1, lock := .reserved, inTxn := true }
      | _ => { c with failed := true }           -- BEGIN inside a transaction is an error
  | .read =>
      match c.lock with
      | .none => if pd then c
                 else { c with pc := c.pc + 1, lock := if c.inTxn then .shared else .none }
      | _ => { c with pc := c.pc + 1 }
  | .write =>
      match c.lock with
      | .none => if rp then c
                 else if c.inTxn then { c with pc := c.pc + 1, lock := .reserved }
                 else if sh then c else { c with pc := c.pc + 1 }      -- autocommit write
      | .shared => if rp then { c with failed := true }      -- SQLITE_BUSY without busy handler
                   else { c with pc := c.pc + 1, lock := .reserved }
      | _ => { c with pc := c.pc + 1 }
  | .commit =>
      match c.lock with
      | .reserved => { c with lock := .pending }
      | .pending => if sh then c else { c with pc := c.pc + 1, lock := .none, inTxn := false }
      | _ => { c with pc := c.pc + 1, lock := .none, inTxn := false }

/-- static check of one path, from a given (abstract) lock state: never writes while holding only
    SHARED, never nests BEGIN, never ends inside a transaction. -/
def okFrom : Lock → Bool → List Stmt → Bool
  | l, t, [] => l == .none && !t
  | l, t, .beginD :: r => !t && okFrom l true r
  | l, t, .beginI :: r => !t && l == .none && okFrom .reserved true r
  | l, t, .read :: r => okFrom (if l == .none && t then .shared else l) t r
  | l, t, .write :: r => l != .shared && okFrom (if t then .reserved else l) t r
  | _, _, .commit :: r => okFrom .none false r

def absL : Lock → Lock
  | .pending => .reserved
  | l => l

/-- per-connection invariant: not failed, and the rest of its path is fine from where it stands;
    a held lock implies an open transaction. -/
def ConnOk (p : List Stmt) (c : Conn) : Prop :=
  c.failed = false ∧ okFrom (absL c.lock) c.inTxn (p.drop c.pc) = true ∧
  (c.lock ≠ .none → c.inTxn = true) ∧
  (c.lock = .pending → ∃ r, p.drop c.pc = .commit :: r)

theorem drop_cons {α} {l : List α} {n : Nat} {a : α} {r : List α} (h : l.drop n = a :: r) :
    l.drop (n + 1) = r := by
  have : l.drop (n + 1) = (l.drop n).drop 1 := by simp [List.drop_drop, Nat.add_comm]
  rw [this, h]; rfl

/-- SAFETY (one step, any facts about the others): the invariant is preserved; in particular the
    connection never fails. -/
theorem next_ok (p : List Stmt) (c : Conn) (s : Stmt) (r : List Stmt) (rp pd sh : Bool)
    (hcur : p.drop c.pc = s :: r) (h : ConnOk p c) : ConnOk p (next c s rp pd sh) := by
  obtain ⟨hf, hok, htx, hpend⟩ := h
  have hr := drop_cons hcur
  rw [hcur] at hok
  cases s <;> cases hl : c.lock <;> cases ht : c.inTxn <;>
    simp [hl, ht, okFrom, absL] at hok htx hpend <;>
    (try (cases rp)) <;> (try (cases pd)) <;> (try (cases sh)) <;>
    simp_all [next, ConnOk, okFrom, absL]


/-! ### Any number of connections -/

abbrev State := Nat → Conn

def isW (l : Lock) : Prop := l = .reserved ∨ l = .pending

def rpF (st : State) (i : Nat) : Prop := ∃ j, j ≠ i ∧ isW (st j).lock
def pdF (st : State) (i : Nat) : Prop := ∃ j, j ≠ i ∧ (st j).lock = .pending
def shF (st : State) (i : Nat) : Prop := ∃ j, j ≠ i ∧ (st j).lock = .shared

def upd (st : State) (i : Nat) (c : Conn) : State := fun j => if j = i then c else st j

/-- connection `i` executes (or is blocked on) its current statement -/
def Step (pr : Nat → List Stmt) (st : State) (i : Nat) (st' : State) : Prop :=
  ∃ s r rp pd sh, (pr i).drop (st i).pc = s :: r ∧
    (rp = true ↔ rpF st i) ∧ (pd = true ↔ pdF st i) ∧ (sh = true ↔ shF st i) ∧
    st' = upd st i (next (st i) s rp pd sh)

def AllOk (pr : Nat → List Stmt) (st : State) : Prop := ∀ i, ConnOk (pr i) (st i)

theorem step_allOk {pr st i st'} (h : AllOk pr st) (hs : Step pr st i st') : AllOk pr st' := by
  obtain ⟨s, r, rp, pd, sh, hcur, _, _, _, rfl⟩ := hs
  intro j
  unfold upd
  split
  · next hj => subst hj; exact next_ok _ _ _ _ _ _ _ hcur (h j)
  · exact h j

/-- run a schedule (a list of connection indices); blocked steps are allowed in the schedule -/
inductive Run (pr : Nat → List Stmt) : State → List Nat → State → Prop
  | nil (st) : Run pr st [] st
  | cons {st i st' sched st''} : Step pr st i st' → Run pr st' sched st'' → Run pr st (i :: sched) st''
  | skip {st i sched st''} : Run pr st sched st'' → Run pr st (i :: sched) st''   -- finished connection

def init : State := fun _ => ⟨0, .none, false, false⟩

theorem run_allOk {pr st0 sched st} (h : Run pr st0 sched st) : AllOk pr st0 → AllOk pr st := by
  induction h with
  | nil => exact id
  | cons hs _ ih => exact fun h0 => ih (step_allOk h0 hs)
  | skip _ ih => exact ih

/-- C02 safety: for every number of connections and every interleaving, nobody fails. -/
theorem no_failure (pr : Nat → List Stmt) (hpr : ∀ i, okFrom .none false (pr i) = true)
    (sched : List Nat) (st : State) (h : Run pr init sched st) : ∀ i, (st i).failed = false := by
  have h0 : AllOk pr init := by
    intro i; refine ⟨rfl, ?_, ?_, ?_⟩
    · simpa [init, absL] using hpr i
    · intro h; simp [init] at h
    · intro h; simp [init] at h
  exact fun i => (run_allOk h h0 i).1

/-- at most one writer -/
def OneWriter (st : State) : Prop := ∀ i j, i ≠ j → isW (st i).lock → ¬ isW (st j).lock

theorem next_lock_isW {c s rp pd sh} (hw : isW (next c s rp pd sh).lock) : isW c.lock ∨ rp = false := by
  cases s <;> cases hl : c.lock <;> cases rp <;> cases pd <;> cases sh <;> cases ht : c.inTxn <;>
    simp_all [next, isW]

theorem step_oneWriter {pr st i st'} (h : OneWriter st) (hs : Step pr st i st') : OneWriter st' := by
  obtain ⟨s, r, rp, pd, sh, _, hrp, _, _, rfl⟩ := hs
  intro a b hab ha hb
  unfold upd at ha hb
  by_cases hai : a = i
  · subst hai
    have hbi : ¬ b = a := fun e => hab e.symm
    simp only [if_true, hbi, if_false] at ha hb
    rcases next_lock_isW ha with hw | hrpf
    · exact h a b hab hw hb
    · have : ¬ rpF st a := fun hh => by rw [hrp.2 hh] at hrpf; cases hrpf
      exact this ⟨b, hbi, hb⟩
  · by_cases hbi : b = i
    · subst hbi
      simp only [if_true, hai, if_false] at ha hb
      rcases next_lock_isW hb with hw | hrpf
      · exact h a b hab ha hw
      · have : ¬ rpF st b := fun hh => by rw [hrp.2 hh] at hrpf; cases hrpf
        exact this ⟨a, hai, ha⟩
    · simp only [hai, hbi, if_false] at ha hb
      exact h a b hab ha hb

/-- a connection that holds a lock has not finished its path -/
theorem not_done_of_lock {p c} (h : ConnOk p c) (hl : c.lock ≠ .none) : ∃ s r, p.drop c.pc = s :: r := by
  obtain ⟨_, hok, htx, _⟩ := h
  cases hd : p.drop c.pc with
  | nil =>
    rw [hd] at hok
    cases hl' : c.lock <;> simp_all [okFrom, absL]
  | cons s r => exact ⟨s, r, rfl⟩

/-- holders of SHARED are always able to move -/
theorem shared_enabled {p c} (h : ConnOk p c) (hl : c.lock = .shared) :
    ∃ s r, p.drop c.pc = s :: r ∧ ∀ rp pd sh, next c s rp pd sh ≠ c := by
  obtain ⟨s, r, hcur⟩ := not_done_of_lock h (by rw [hl]; simp)
  refine ⟨s, r, hcur, ?_⟩
  obtain ⟨hf, hok, htx, _⟩ := h
  rw [hcur] at hok
  intro rp pd sh
  cases s <;> cases ht : c.inTxn <;> simp_all [okFrom, absL, next] <;>
    (intro hc; exact absurd (congrArg Conn.pc hc) (by simp))

/-- a RESERVED holder is always able to move -/
theorem reserved_enabled {p c} (h : ConnOk p c) (hl : c.lock = .reserved) :
    ∃ s r, p.drop c.pc = s :: r ∧ ∀ rp pd sh, next c s rp pd sh ≠ c := by
  obtain ⟨s, r, hcur⟩ := not_done_of_lock h (by rw [hl]; simp)
  refine ⟨s, r, hcur, ?_⟩
  obtain ⟨hf, hok, htx, _⟩ := h
  rw [hcur] at hok
  intro rp pd sh
  cases s <;> cases ht : c.inTxn <;> simp_all [okFrom, absL, next] <;>
    (intro hc; first
      | (have hh := congrArg Conn.pc hc; simp at hh; done)
      | (have hh := congrArg Conn.lock hc; rw [hl] at hh; cases hh))


theorem upd_ne {st : State} {i : Nat} {c : Conn} (h : c ≠ st i) : upd st i c ≠ st := by
  intro e
  have := congrFun e i
  simp [upd] at this
  exact h this

open Classical in
/-- a connection whose `next` differs from its state for the true facts can take a real step -/
theorem can_step (pr : Nat → List Stmt) (st : State) (i : Nat) (s : Stmt) (r : List Stmt)
    (hcur : (pr i).drop (st i).pc = s :: r)
    (hmove : next (st i) s (decide (rpF st i)) (decide (pdF st i)) (decide (shF st i)) ≠ st i) :
    ∃ j st', Step pr st j st' ∧ st' ≠ st :=
  ⟨i, _, ⟨s, r, _, _, _, hcur, by simp, by simp, by simp, rfl⟩, upd_ne hmove⟩

/-- why a statement can be blocked -/
theorem blocked_why {p c s r rp pd sh} (h : ConnOk p c) (hcur : p.drop c.pc = s :: r)
    (hb : next c s rp pd sh = c) : rp = true ∨ pd = true ∨ sh = true := by
  obtain ⟨hf, hok, htx, hpend⟩ := h
  rw [hcur] at hok
  cases rp <;> cases pd <;> cases sh <;> simp
  cases s <;> cases hl : c.lock <;> cases ht : c.inTxn <;> simp_all [next, okFrom, absL] <;>
    first
      | (have hh := congrArg Conn.pc hb; simp at hh; done)
      | (have hh := congrArg Conn.lock hb; simp [hl] at hh; done)
      | (have hh := congrArg Conn.failed hb; simp [hf] at hh; done)

open Classical in
/-- C02 progress: in every reachable state with unfinished work some connection can move. -/
theorem no_deadlock (pr : Nat → List Stmt) (st : State) (hok : AllOk pr st)
    (hnd : ∃ i s r, (pr i).drop (st i).pc = s :: r) :
    ∃ j st', Step pr st j st' ∧ st' ≠ st := by
  obtain ⟨i, s, r, hcur⟩ := hnd
  -- a SHARED holder can always move
  have sharedMoves : ∀ k, (st k).lock = .shared → ∃ j st', Step pr st j st' ∧ st' ≠ st := by
    intro k hk
    obtain ⟨s', r', hc', hmv⟩ := shared_enabled (hok k) hk
    exact can_step pr st k s' r' hc' (hmv _ _ _)
  -- a writer can move, or is a committer waiting for a SHARED holder, which can move
  have writerMoves : ∀ j, isW (st j).lock → ∃ j' st', Step pr st j' st' ∧ st' ≠ st := by
    intro j hj
    rcases hj with hres | hpen
    · obtain ⟨s', r', hc', hmv⟩ := reserved_enabled (hok j) hres
      exact can_step pr st j s' r' hc' (hmv _ _ _)
    · obtain ⟨r', hc'⟩ := (hok j).2.2.2 hpen
      by_cases hsh : shF st j
      · obtain ⟨k, _, hk⟩ := hsh
        exact sharedMoves k hk
      · apply can_step pr st j .commit r' hc'
        simp [next, hpen, hsh]
        intro hc
        have hh := congrArg Conn.lock hc
        simp [hpen] at hh
  by_cases hmove : next (st i) s (decide (rpF st i)) (decide (pdF st i)) (decide (shF st i)) = st i
  · rcases blocked_why (hok i) hcur hmove with h1 | h1 | h1
    · obtain ⟨j, _, hj⟩ := of_decide_eq_true h1
      exact writerMoves j hj
    · obtain ⟨j, _, hj⟩ := of_decide_eq_true h1
      exact writerMoves j (Or.inr hj)
    · obtain ⟨k, _, hk⟩ := of_decide_eq_true h1
      exact sharedMoves k hk
  · exact can_step pr st i s r hcur hmove

#print axioms no_failure
#print axioms step_oneWriter
#print axioms no_deadlock
