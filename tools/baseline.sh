#!/bin/bash
# Runs the repository's test suite and compares with the 131 stable-pass tests of BASELINE.json.
cd /repo && /venv/bin/python -m pytest -q -p no:cacheprovider --timeout=900 --continue-on-collection-errors --junitxml=/tmp/verif-baseline.xml >/tmp/verif-baseline.log 2>&1
/venv/bin/python - <<'PY'
import json, xml.etree.ElementTree as ET
base = set(json.load(open('/root/.vp/BASELINE.json'))['stable_pass'])
passed=set(); failed=set()
for tc in ET.parse('/tmp/verif-baseline.xml').getroot().iter('testcase'):
    name = tc.get('classname') + '::' + tc.get('name')
    if any(ch.tag in ('failure','error','skipped') for ch in tc): failed.add(name)
    else: passed.add(name)
missing = sorted(base - passed)
print("passed", len(passed), "failed", len(failed), "baseline missing", len(missing))
for m in missing: print("  MISSING", m)
print("newly passing:", sorted(passed - base))
PY
rm -f /tmp/verif-baseline.xml
