/-! Driver for C06 (stub: not built yet). -/
def main : IO Unit := pure ()
