import os, tempfile, numpy as np, casadi as ca
from pymoca.backends.casadi.api import transfer_model
txt = """model M
 parameter Real p = 2; parameter Real q = 3;
 Real v[2](each min = p); Real y(min = q, max = 2*q); Real z(max = p + q);
equation
 v = {1,2}*y; y = 1; z = 2;
end M;"""
d = tempfile.mkdtemp(); open(os.path.join(d,"M.mo"),"w").write(txt)
def show(m, tag):
    print("==", tag, type(m).__name__)
    ps = ca.veccat(*[v.symbol for v in m.parameters])
    for k in ["alg_states"]:
        for v in getattr(m,k):
            d_ = {}
            for a in ["min","max"]:
                val = getattr(v,a)
                if isinstance(val, ca.MX):
                    f = ca.Function("f",[ps],[val]); val = str(f([10.0, 100.0]))
                d_[a] = str(val)
            print("  ", v.symbol.name(), v.symbol.shape, d_)
m1 = transfer_model(d, "M", {}); show(m1, "fresh")
m3 = transfer_model(d, "M", {"cache": True}); m4 = transfer_model(d, "M", {"cache": True}); show(m4, "cached")
