"""Predicates of the open findings of C10 (see known/C10.json)."""
from harness.common import known_predicate


def _desc(case):
    if case.get("kind") == "text":
        return case["desc"]["vars"]
    if case.get("kind") == "ast":
        return [{"name": s["name"], "type": s["type"], "prefixes": s["prefixes"], "dims": s.get("dims") or [],
                 "nested": False} for s in case["spec"]["symbols"]]
    return []


@known_predicate
def c10_string_output(case, what):
    """C10-F1: a top-level, non-constant, non-parameter, non-input String variable with the `output` prefix makes
    `Generator.exitClass` raise AttributeError while it builds `Model.outputs` (StringVariable has no `.symbol`)."""
    if "AttributeError" not in what:
        return False
    for v in _desc(case):
        p = v["prefixes"]
        if (v["type"] == "String" and "output" in p and not v.get("nested") and 0 not in v["dims"]
                and not ({"constant", "parameter", "input"} & set(p))):
            return True
    return False
