import PymocaVerif.Lemmas.Gen
/-!
# Lemmas for C11: every expression of the supported subset is translatable
-/
namespace PymocaVerif.Gen
open PymocaVerif.ExprSem

def unSupported : UnOp → Bool
  | .elem e => hasMeth (.elem e)
  | _ => true

def callable (T : FTab K) (f : String) : Bool :=
  match T f with
  | some (.ok _) => true
  | _ => false

mutual
/-- The supported subset: every Modelica operator except `<>`, the elementary functions `MX` knows under
    their Modelica name, if-expressions, calls of functions that translate. -/
def supported (T : FTab K) : MExpr K → Bool
  | .num _ => true
  | .ref _ _ => true
  | .idx _ => true
  | .un op a => unSupported op && supported T a
  | .bin op a b => (op != .ne) && supported T a && supported T b
  | .ife bs => supportedBr T bs
  | .call f args => callable T f && supporteds T args
  | .delay _ e d => supported T e && supported T d
def supporteds (T : FTab K) : MExprs K → Bool
  | .nil => true
  | .cons e es => supported T e && supporteds T es
def supportedBr (T : FTab K) : MBranches K → Bool
  | .last e => supported T e
  | .cons c e rest => supported T c && supported T e && supportedBr T rest
end

theorem genUn_total (P : Prims K) (o : Opts) (T : FTab K) (op : UnOp) (h : unSupported op = true)
    (ta : CTerm K) : ∃ c, genUn P o T op ta = .ok c := by
  cases op <;> simp_all [genUn, unSupported]

theorem genBin_total (o : Opts) (T : FTab K) (op : BinOp) (hne : op ≠ .ne) (ta tb : CTerm K) :
    ∃ c, genBin o T op ta tb = .ok c := by
  cases op <;> simp_all [genBin, opMap, hasMeth]

theorem userCall_total (o : Opts) (T : FTab K) (f : String) (h : callable T f = true) (args : List (CTerm K)) :
    ∃ c, userCall o T f args = .ok c := by
  unfold callable at h
  unfold userCall
  split at h <;> simp_all

mutual
theorem gen_total_aux (P : Prims K) (o : Opts) (T : FTab K) : ∀ e : MExpr K, supported T e = true →
    ∃ c, gen P o T e = .ok c
  | .num q, _ => ⟨_, rfl⟩
  | .ref n s, _ => ⟨_, rfl⟩
  | .idx i, _ => ⟨_, rfl⟩
  | .un op a, h => by
    simp only [supported, Bool.and_eq_true] at h
    obtain ⟨ta, hta⟩ := gen_total_aux P o T a h.2
    obtain ⟨c, hc⟩ := genUn_total P o T op h.1 ta
    exact ⟨c, by simp [gen, hta, bind, Except.bind, hc]⟩
  | .bin op a b, h => by
    simp only [supported, Bool.and_eq_true, bne_iff_ne, ne_eq] at h
    obtain ⟨ta, hta⟩ := gen_total_aux P o T a h.1.2
    obtain ⟨tb, htb⟩ := gen_total_aux P o T b h.2
    obtain ⟨c, hc⟩ := genBin_total o T op h.1.1 ta tb
    exact ⟨c, by simp [gen, hta, htb, bind, Except.bind, hc]⟩
  | .ife bs, h => by
    simp only [supported] at h
    obtain ⟨ce, hce⟩ := genBr_total P o T bs h
    exact ⟨foldFromLast ce.1 ce.2, by simp [gen, hce, bind, Except.bind]⟩
  | .call f args, h => by
    simp only [supported, Bool.and_eq_true] at h
    obtain ⟨tas, htas⟩ := gens_total P o T args h.2
    obtain ⟨c, hc⟩ := userCall_total o T f h.1 tas
    exact ⟨c, by simp [gen, htas, bind, Except.bind, hc]⟩
  | .delay k e d, h => by
    simp only [supported, Bool.and_eq_true] at h
    obtain ⟨te, hte⟩ := gen_total_aux P o T e h.1
    obtain ⟨td, htd⟩ := gen_total_aux P o T d h.2
    exact ⟨.ref (delayName k) [], by simp [gen, hte, htd, bind, Except.bind]⟩
theorem gens_total (P : Prims K) (o : Opts) (T : FTab K) : ∀ es : MExprs K, supporteds T es = true →
    ∃ cs, gens P o T es = .ok cs
  | .nil, _ => ⟨_, rfl⟩
  | .cons e es, h => by
    simp only [supporteds, Bool.and_eq_true] at h
    obtain ⟨t, ht⟩ := gen_total_aux P o T e h.1
    obtain ⟨ts, hts⟩ := gens_total P o T es h.2
    exact ⟨t :: ts, by simp [gens, ht, hts, bind, Except.bind]⟩
theorem genBr_total (P : Prims K) (o : Opts) (T : FTab K) : ∀ bs : MBranches K, supportedBr T bs = true →
    ∃ ce, genBr P o T bs = .ok ce
  | .last e, h => by
    simp only [supportedBr] at h
    obtain ⟨t, ht⟩ := gen_total_aux P o T e h
    exact ⟨([], [t]), by simp [genBr, ht, bind, Except.bind]⟩
  | .cons c e rest, h => by
    simp only [supportedBr, Bool.and_eq_true] at h
    obtain ⟨tc, htc⟩ := gen_total_aux P o T c h.1.1
    obtain ⟨te, hte⟩ := gen_total_aux P o T e h.1.2
    obtain ⟨ce, hce⟩ := genBr_total P o T rest h.2
    exact ⟨(tc :: ce.1, te :: ce.2), by simp [genBr, htc, hte, hce, bind, Except.bind]⟩
end

end PymocaVerif.Gen
