import PymocaVerif.Lemmas.Merge
/-!
# C27 — assembling a library from several files is order-independent

Property theorems over `Model/Merge.lean` (`file_to_tree`, `Tree.extend` / `Class._extend`, the
merge loops of `api._compile_model` and `compiler.parse_all`), for any number of files, any
nesting depth and any number of classes.

"Equal up to the order of sibling classes" is `Equiv`: the same payload at every class path
(for trees that satisfy the dictionary invariant `Wf` this determines the tree up to the order
of the keys of each `classes` dictionary; name lookup — `classes[name]` — does not see that order).

* With `fill ph` (the code as it is, since commit 07f5409 = `proposed_fixes/C27-1.diff`) the
  property holds for every split whose class paths have their payload defined at most once
  (`extend_comm_assoc`, `defined_payload_survives`).
* With `keepFirst` (the code before that commit) it holds only when no `within` placeholder
  meets a definition (`extend_order_independent_old_partial`); `old_first_file_wins` and
  `old_within_before_package_loses_payload` are finding C27-F1 (fixed) on the model: the commit
  is necessary.
* `flatten_order_independent` needs the observation to respect `Equiv`.  Name lookup does
  (`lookup_order_independent`); `tree.flatten` of a class that *contains* nested classes does not
  always (open finding C27-F2, found by the direct oracle: it visits the nested classes in
  dictionary order and one that fails on its own makes the outcome depend on that order).
-/
namespace PymocaVerif.Merge

variable {α : Type}

/-- After `self.extend(other)` the payload at every class path is the combination of the two
    payloads at that path (nothing is lost, nothing appears), at any depth. -/
theorem payload_after_extend (mp : α → α → α) (self other : Forest α) (hw : Wf other)
    (path : List String) :
    get (extend mp self other) path = omerge mp (get self path) (get other path) :=
  get_extend mp self other hw path

example : Wf (Forest.cons "P" 1 (.cons "M" 2 .nil .nil) .nil) := by simp [Wf, names]

/-- `extend` keeps the dictionary invariant (distinct sibling names at every level), so the
    theorems apply to every intermediate tree of a merge of any length. -/
theorem extend_keeps_wf (mp : α → α → α) (self other : Forest α) (hs : Wf self) (ho : Wf other) :
    Wf (extend mp self other) :=
  wf_extendBy mp other ho self hs

/-- Starting from the first file's tree (`api._compile_model`) or from an empty tree
    (`compiler.parse_all`) gives the same library. -/
theorem both_walks_agree (mp : α → α → α) (fs : List (Forest α)) (hw : ∀ f ∈ fs, Wf f) :
    mergeAllFromEmpty mp fs = mergeAll mp fs := by
  cases fs with
  | nil => rfl
  | cons f fs =>
    simp only [mergeAllFromEmpty, mergeAll, List.foldl_cons]
    rw [extend_nil mp f (hw f (by simp))]

/-- **Order independence** (the code as it is): if every class path has its payload
    defined at most once among the files (placeholders of `within` clauses and empty packages
    do not count), merging the files in any two orders gives trees that are equal up to the
    order of sibling classes. -/
theorem extend_comm_assoc [DecidableEq α] (ph : α) (fs fs' : List (Forest α)) (hp : fs.Perm fs')
    (hw : ∀ f ∈ fs, Wf f)
    (hd : ∀ path, DefinedOnce ph (fs.map (fun f => get f path))) :
    Equiv (mergeAll (fill ph) fs) (mergeAll (fill ph) fs') := by
  intro path
  have hw' : ∀ f ∈ fs', Wf f := fun f hf => hw f (hp.mem_iff.mpr hf)
  rw [get_mergeAll _ path fs hw, get_mergeAll _ path fs' hw']
  apply combine_fill_congr ph _ _ _ (hd path)
  intro x
  exact (hp.map (fun f => get f path)).mem_iff

/-- The case that decides whether payload survives: a definition of a class
    (for instance a package's own file with its constants) wins over any number of `within`
    placeholders for the same path, wherever it stands in the merge order. -/
theorem defined_payload_survives [DecidableEq α] (ph : α) (fs : List (Forest α))
    (hw : ∀ f ∈ fs, Wf f) (path : List String)
    (hd : DefinedOnce ph (fs.map (fun f => get f path)))
    (f : Forest α) (hf : f ∈ fs) (v : α) (hv : get f path = some v) (hne : v ≠ ph) :
    get (mergeAll (fill ph) fs) path = some v := by
  rw [get_mergeAll _ path fs hw]
  exact (combine_fill_spec ph _ hd).1 v hne (List.mem_map.mpr ⟨f, hf, hv⟩)

/-- Anything computed from the merged tree by name lookup only (it respects `Equiv`) — the
    flattened model of each class — is the same for every file order. -/
theorem flatten_order_independent [DecidableEq α] {β : Type} (ph : α) (obs : Forest α → β)
    (hobs : ∀ a b, Equiv a b → obs a = obs b)
    (fs fs' : List (Forest α)) (hp : fs.Perm fs') (hw : ∀ f ∈ fs, Wf f)
    (hd : ∀ path, DefinedOnce ph (fs.map (fun f => get f path))) :
    obs (mergeAll (fill ph) fs) = obs (mergeAll (fill ph) fs') :=
  hobs _ _ (extend_comm_assoc ph fs fs' hp hw hd)

-- non-vacuity: a package with a constant in its own file, and a `within P;` file with a model
example : let own : Forest Nat := .cons "P" 7 (.cons "Base" 3 .nil .nil) .nil
    let wth : Forest Nat := fileToTree 0 ["P"] (.cons "M1" 4 .nil .nil)
    Wf own ∧ Wf wth ∧ get (mergeAll (fill 0) [wth, own]) ["P"] = some 7
      ∧ get (mergeAll (fill 0) [own, wth]) ["P"] = some 7
      ∧ get (mergeAll (fill 0) [wth, own]) ["P", "M1"] = some 4 := by
  simp [Wf, names, fileToTree, mergeAll, extend, extendBy, iom, get, find, fill]

/-- **The code before 07f5409**: the payload at a path is the one of the *first* file, in merge
    order, that contains the path at all — definition or placeholder. -/
theorem old_first_file_wins (fs : List (Forest α)) (hw : ∀ f ∈ fs, Wf f) (path : List String) :
    get (mergeAll keepFirst fs) path = (fs.map (fun f => get f path)).findSome? id := by
  rw [get_mergeAll _ path fs hw, combine_keepFirst]

/-- Before 07f5409 order independence held when all files that contain a path agree on its payload,
    placeholders included.  *Missing for the full property:* a path that is a `within`
    placeholder in one file and defined in another (C27-F1); see
    `old_within_before_package_loses_payload`. -/
theorem extend_order_independent_old_partial (fs fs' : List (Forest α)) (hp : fs.Perm fs')
    (hw : ∀ f ∈ fs, Wf f)
    (ha : ∀ path v w, some v ∈ fs.map (fun f => get f path) →
            some w ∈ fs.map (fun f => get f path) → v = w) :
    Equiv (mergeAll keepFirst fs) (mergeAll keepFirst fs') := by
  intro path
  have hw' : ∀ f ∈ fs', Wf f := fun f hf => hw f (hp.mem_iff.mpr hf)
  rw [get_mergeAll _ path fs hw, get_mergeAll _ path fs' hw']
  apply combine_keepFirst_congr _ _ _ (ha path)
  intro x
  exact (hp.map (fun f => get f path)).mem_iff

example : (∀ f ∈ [Forest.cons "P" 0 (.cons "A" 1 .nil .nil) .nil, Forest.cons "P" 0 (.cons "B" 2 .nil .nil) .nil],
    Wf f) := by simp [Wf, names]

/-- C27-F1 on the model: before 07f5409, a `within P;` file merged before `P`'s own file leaves `P`
    with the placeholder's payload; merged after it, `P` keeps its own payload. -/
theorem old_within_before_package_loses_payload (ph v : α) (P : String) (cs ks : Forest α) :
    get (mergeAll keepFirst [fileToTree ph [P] cs, .cons P v ks .nil]) [P] = some ph ∧
    get (mergeAll keepFirst [.cons P v ks .nil, fileToTree ph [P] cs]) [P] = some v := by
  simp [mergeAll, extend, extendBy, iom, fileToTree, get, find, keepFirst]

/-- Name lookup (`_find_class` without imports: own classes, then the enclosing classes outwards)
    gives the same class for trees that are equal up to sibling order — the lookups flattening is
    built on do not see the merge order. -/
theorem lookup_order_independent (a b : Forest α) (h : Equiv a b) (ref scopeRev : List String) :
    findClass a ref scopeRev = findClass b ref scopeRev := by
  induction scopeRev with
  | nil => simp only [findClass, h ref]
  | cons n up ih => simp only [findClass, ih, h _]

example : findClass (Forest.cons "P" 1 (.cons "Q" 2 (.cons "M" 3 .nil .nil) (.cons "B" 4 .nil .nil)) .nil)
    ["B"] ["Q", "P"] = some ["P", "B"] := by
  simp [findClass, get, find]

/-- `file_to_tree`: below the `within` path the file's own classes are found unchanged. -/
theorem get_fileToTree_below (ph : α) (w : List String) (cs : Forest α) (q : List String)
    (hq : q ≠ []) : get (fileToTree ph w cs) (w ++ q) = get cs q := by
  induction w with
  | nil => rfl
  | cons n w ih =>
    have hne : w ++ q ≠ [] := by simp [hq]
    have hstep : fileToTree ph (n :: w) cs = .cons n ph (fileToTree ph w cs) .nil := rfl
    rw [hstep, List.cons_append, get_cons_self n ph _ .nil (w ++ q) hne]
    exact ih

/-- `file_to_tree`: every non-empty prefix of the `within` path is a placeholder package. -/
theorem get_fileToTree_prefix (ph : α) (w1 w2 : List String) (cs : Forest α) (h1 : w1 ≠ []) :
    get (fileToTree ph (w1 ++ w2) cs) w1 = some ph := by
  induction w1 with
  | nil => exact absurd rfl h1
  | cons n w ih =>
    have hstep : fileToTree ph (n :: w ++ w2) cs = .cons n ph (fileToTree ph (w ++ w2) cs) .nil := rfl
    rw [hstep]
    by_cases hw : w = []
    · subst hw; simp [get, find]
    · rw [get_cons_self n ph _ .nil w hw]
      exact ih hw

example : get (fileToTree 0 ["P", "Q"] (Forest.cons "M" 5 .nil .nil)) ["P", "Q", "M"] = some 5 := by
  simp [fileToTree, get, find]

end PymocaVerif.Merge
