import PymocaVerif.Model.Simplify
/-!
# Simplify: solutions, the substitution lemma, what is assumed of the engine
Helper lemmas for C14/C15 (`Props/C14.lean`, `Props/C15.lean`).  Core Lean only; the field is
`Lean.Grind.Field`.
-/
namespace PymocaVerif.Simplify
open PymocaVerif.AliasRel Lean.Grind

variable {K : Type} [Field K] [DecidableEq K]

abbrev Env (K : Type) := String → K

/-- environment in which the symbols bound by `l` take the value of their expressions -/
def upd (I : Interp K) (σ : Env K) (l : List (String × Ex K)) : Env K :=
  fun n => match l.lookup n with
    | some t => t.eval I σ
    | none => σ n

theorem eval_subst (I : Interp K) (σ : Env K) (l : List (String × Ex K)) (e : Ex K) :
    (e.subst l).eval I σ = e.eval I (upd I σ l) := by
  induction e with
  | sym n =>
    cases h : l.lookup n <;> simp [Ex.subst, Ex.eval, upd, h]
  | const c => simp [Ex.subst, Ex.eval]
  | un o a ih =>
    cases o <;> simp [Ex.subst, Ex.eval, ih]
  | bin o a b iha ihb =>
    cases o <;> simp [Ex.subst, Ex.eval, iha, ihb]

/-- every binding of `l` holds in `σ` -/
def HoldsL (I : Interp K) (σ : Env K) (l : List (String × Ex K)) : Prop :=
  ∀ p ∈ l, σ p.1 = p.2.eval I σ

theorem lookup_mem {α} (l : List (String × α)) (n : String) (t : α) (h : l.lookup n = some t) : (n, t) ∈ l := by
  induction l with
  | nil => simp [List.lookup] at h
  | cons p ps ih =>
    obtain ⟨k, v⟩ := p
    simp only [List.lookup] at h
    split at h
    · rename_i heq
      simp at h; subst h
      have : n = k := by simpa using heq
      subst this; simp
    · exact List.mem_cons_of_mem _ (ih h)

theorem upd_of_holds (I : Interp K) (σ : Env K) (l : List (String × Ex K)) (h : HoldsL I σ l) :
    upd I σ l = σ := by
  funext n
  unfold upd
  cases hl : l.lookup n with
  | none => rfl
  | some t => exact (h (n, t) (lookup_mem l n t hl)).symm

theorem eval_subst_of_holds (I : Interp K) (σ : Env K) (l : List (String × Ex K)) (h : HoldsL I σ l) (e : Ex K) :
    (e.subst l).eval I σ = e.eval I σ := by
  rw [eval_subst, upd_of_holds I σ l h]

/-! ## what a solution is -/

/-- all equations of a list hold in `σ` -/
def EqOk (I : Interp K) (σ : Env K) (es : List (Ex K)) : Prop := ∀ e ∈ es, e.eval I σ = 0

/-- parameters / constants are fixed at their values (`none` = no value, not constrained) -/
def ValOk (I : Interp K) (σ : Env K) (vs : List (Var K)) : Prop :=
  ∀ v ∈ vs, ∀ t, v.value = some t → σ v.name = t.eval I σ

/-- value of a signed name -/
def sval (σ : Env K) (a : SName) : K := if a.1 then - σ a.2 else σ a.2

/-- every fact stored in the alias relation holds: members of a stored set are equal (with their
    signs), and a name equals its recorded canonical variable with the recorded sign -/
def AliasOk (σ : Env K) (ar : AR) : Prop :=
  (∀ x A, ar.al x = some A → ∀ y ∈ A, sval σ y = sval σ x) ∧
  (∀ x c, ar.cmap x = some c → sval σ x = sval σ (c.2, c.1))

/-- `σ` solves the model: its equations hold, parameters and constants (including the recorded
    constant assignments) have their values, the recorded aliases hold -/
structure Sat (I : Interp K) (σ : Env K) (m : Model K) : Prop where
  eqs : EqOk I σ m.eqs
  params : ValOk I σ m.params
  consts : ValOk I σ m.consts
  alias : AliasOk σ m.ar

/-- the assumptions on what is observed of CasADi -/
structure EngineOk (I : Interp K) (E : Engine K) : Prop where
  norm_eval : ∀ σ e, (E.norm e).eval I σ = e.eval I σ
  norm_syms : ∀ e n, n ∈ (E.norm e).syms → n ∈ e.syms
  view_eval : ∀ i σ e, (E.view i e).eval I σ = e.eval I σ

theorem sub_eval {I : Interp K} {E : Engine K} (hE : EngineOk I E) {σ : Env K} {l : List (String × Ex K)}
    (h : HoldsL I σ l) (e : Ex K) : (E.sub l e).eval I σ = e.eval I σ := by
  unfold Engine.sub
  rw [hE.norm_eval, eval_subst_of_holds I σ l h]

theorem eqok_map {I : Interp K} {σ : Env K} {f : Ex K → Ex K} (hf : ∀ e, (f e).eval I σ = e.eval I σ)
    {es : List (Ex K)} : EqOk I σ (es.map f) ↔ EqOk I σ es := by
  unfold EqOk
  constructor
  · intro h e he
    rw [← hf e]; exact h _ (List.mem_map_of_mem he)
  · intro h e he
    obtain ⟨e0, he0, rfl⟩ := List.mem_map.1 he
    rw [hf e0]; exact h _ he0

theorem valok_map {I : Interp K} {σ : Env K} {f : Ex K → Ex K} (hf : ∀ e, (f e).eval I σ = e.eval I σ)
    {vs : List (Var K)} : ValOk I σ (vs.map (Var.mapValue f)) ↔ ValOk I σ vs := by
  unfold ValOk
  constructor
  · intro h v hv t ht
    have := h (Var.mapValue f v) (List.mem_map_of_mem hv) (f t) (by simp [Var.mapValue, ht])
    simpa [Var.mapValue, hf] using this
  · intro h v hv t ht
    obtain ⟨v0, hv0, rfl⟩ := List.mem_map.1 hv
    simp only [Var.mapValue, Option.map_eq_some_iff] at ht
    obtain ⟨t0, ht0, rfl⟩ := ht
    simpa [Var.mapValue, hf] using h v0 hv0 t0 ht0

theorem valok_filter {I : Interp K} {σ : Env K} {vs : List (Var K)} (p : Var K → Bool) (h : ValOk I σ vs) :
    ValOk I σ (vs.filter p) := fun v hv => h v (List.mem_filter.1 hv).1

theorem valok_append {I : Interp K} {σ : Env K} {vs ws : List (Var K)} :
    ValOk I σ (vs ++ ws) ↔ ValOk I σ vs ∧ ValOk I σ ws := by
  unfold ValOk
  constructor
  · intro h; exact ⟨fun v hv => h v (List.mem_append_left _ hv), fun v hv => h v (List.mem_append_right _ hv)⟩
  · rintro ⟨h1, h2⟩ v hv
    rcases List.mem_append.1 hv with h | h
    · exact h1 v h
    · exact h2 v h

/-- `_substitute_metadata` with bindings that hold does not change what the values say -/
theorem sat_substMeta {I : Interp K} {E : Engine K} (hE : EngineOk I E) {σ : Env K} {l : List (String × Ex K)}
    (hl : HoldsL I σ l) (m : Model K) : Sat I σ (substMeta E l m) ↔ Sat I σ m := by
  have hf := fun e => sub_eval hE hl e
  constructor
  · intro h
    exact ⟨h.eqs, (valok_map hf).1 h.params, (valok_map hf).1 h.consts, h.alias⟩
  · intro h
    exact ⟨h.eqs, (valok_map hf).2 h.params, (valok_map hf).2 h.consts, h.alias⟩

end PymocaVerif.Simplify
