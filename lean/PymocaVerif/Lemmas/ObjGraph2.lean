import PymocaVerif.Lemmas.ObjGraph
/-!
Consequences of `copy_spec` used by the property files: regions survive heap growth, the copy
together with the region it came from is closed, `find_class` sequences (`lookupAll`), the frame
and the result of `flattenImpl`, edits confined to a region.
-/
namespace PymocaVerif.ObjGraph

/-! ### regions and heap growth -/

theorem Region.get_append {H : Heap} {R : Nat → Prop} (hR : Region H R) (e : Heap) {a : Nat} (ha : R a) :
    (H ++ e)[a]? = H[a]? := List.getElem?_append_left (hR.lt ha)

theorem Region.append {H : Heap} {R : Nat → Prop} (hR : Region H R) (e : Heap) : Region (H ++ e) R :=
  { valid := fun a ha => by rw [hR.get_append e ha]; exact hR.valid a ha
    hooks := fun a o ha ho => by rw [hR.get_append e ha] at ho; exact hR.hooks a o ha ho
    closed := fun a o f ha ho hf => by rw [hR.get_append e ha] at ho; exact hR.closed a o f ha ho hf
    parU := fun a o i ha ho hi => by rw [hR.get_append e ha] at ho; exact hR.parU a o i ha ho hi }

theorem TreeShaped.append {H : Heap} {R : Nat → Prop} (hts : TreeShaped H R) (hR : Region H R) (e : Heap) :
    TreeShaped (H ++ e) R := by
  intro a c oa oc ha hoa hc hoc hk
  rw [hR.get_append e ha] at hoa
  have hRc : R c := hR.closed a oa _ ha hoa hc
  rw [hR.get_append e hRc] at hoc
  exact hts a c oa oc ha hoa hc hoc hk

theorem ownReach_region {H : Heap} {R : Nat → Prop} (hR : Region H R) {x : Nat} (hx : R x) :
    ∀ i, OwnReach H x i → R i := by
  intro i hi
  induction hi with
  | refl => exact hx
  | step _ e ih =>
    obtain ⟨o, ho, hc⟩ := e
    exact hR.closed _ o _ ih ho hc

theorem Detached.append {H : Heap} {R : Nat → Prop} {x : Nat} (hd : Detached H x) (hR : Region H R)
    (hx : R x) (e : Heap) : Detached (H ++ e) x := by
  intro o p ho hp
  rw [hR.get_append e hx] at ho
  obtain ⟨hne, hno⟩ := hd o p ho hp
  refine ⟨hne, ?_⟩
  intro a ha hedge
  have ha' : OwnReach H x a :=
    ownReach_ext (fun i hi => hR.lt (ownReach_region hR hx i hi)) a ha
  obtain ⟨oa, hoa, hc⟩ := hedge
  rw [hR.get_append e (ownReach_region hR hx a ha')] at hoa
  exact hno a ha' ⟨oa, hoa, hc⟩

theorem view_region_append {H : Heap} {R : Nat → Prop} (hR : Region H R) (e : Heap) :
    ∀ k a, R a → view (H ++ e) k a = view H k a :=
  view_congr (fun a ha => hR.get_append e ha) (fun a o f ha ho hf => hR.closed a o f ha ho hf)

/-! ### the copy together with the region it was taken from is closed -/

theorem renFields_mem {m : Memo} : ∀ {fs gs : List Field} {g : Field}, renFields m fs = some gs → g ∈ gs →
    ∃ f ∈ fs, renField m f = some g := by
  intro fs
  induction fs with
  | nil => intro gs g h hg; simp only [renFields, Option.some.injEq] at h; subst h; cases hg
  | cons f fs ih =>
    intro gs g h hg
    obtain ⟨g0, gs', hgs, hf, hfs⟩ := renFields_cons h
    subst hgs
    rcases List.mem_cons.mp hg with hg | hg
    · subst hg; exact ⟨f, List.mem_cons_self, hf⟩
    · obtain ⟨f', hf', hr⟩ := ih hfs hg
      exact ⟨f', List.mem_cons_of_mem _ hf', hr⟩

/-- objects of the region or copies made by this `deepcopy` -/
def CopySet (R : Nat → Prop) (st' : St) (b : Nat) : Prop := R b ∨ ∃ a, mget st'.memo a = some b

theorem copySet_closed {H : Heap} {R : Nat → Prop} (hR : Region H R) {x y : Nat} {st' : St}
    (out : CopyOut H R x st' y) :
    ∀ b o f, CopySet R st' b → st'.heap[b]? = some o → f ∈ o.fields → CopySet R st' f.id := by
  obtain ⟨ex, hex⟩ := out.frame
  have hold : ∀ b o f, R b → st'.heap[b]? = some o → f ∈ o.fields → CopySet R st' f.id := by
    intro b o f hb ho hf
    rw [hex, hR.get_append ex hb] at ho
    exact Or.inl (hR.closed b o f hb ho hf)
  intro b o f hb ho hf
  rcases hb with hb | ⟨a, hab⟩
  · exact hold b o f hb ho hf
  · rcases out.entries a b hab with h | ⟨_, oa, fs, hoa, hren, hb'⟩
    · subst h; exact hold b o f (out.dom b b hab).1 ho hf
    · rw [hb'] at ho
      cases ho
      simp only at hf
      obtain ⟨f0, hf0, hr⟩ := renFields_mem hren hf
      have hRf0 : R f0.id := hR.closed a oa f0 (out.dom a b hab).1 hoa hf0
      obtain ⟨_, hcase⟩ := renField_inv hr
      rcases hcase with ⟨i, h1, h2⟩ | ⟨h1, _⟩
      · subst h1; subst h2; exact Or.inl hRf0
      · exact Or.inr ⟨f0.id, h1⟩

theorem copySet_lt {H : Heap} {R : Nat → Prop} (hR : Region H R) {x y : Nat} {st' : St}
    (out : CopyOut H R x st' y) : ∀ b, CopySet R st' b → b < st'.heap.length := by
  obtain ⟨ex, hex⟩ := out.frame
  intro b hb
  rcases hb with hb | ⟨a, hab⟩
  · have := hR.lt hb
    rw [hex]; simp; omega
  · exact (out.dom a b hab).2

/-- views of the copy and of the region do not change when the heap grows afterwards -/
theorem view_copySet_append {H : Heap} {R : Nat → Prop} (hR : Region H R) {x y : Nat} {st' : St}
    (out : CopyOut H R x st' y) (e : Heap) :
    ∀ k b, CopySet R st' b → view (st'.heap ++ e) k b = view st'.heap k b :=
  view_congr (fun b hb => List.getElem?_append_left (copySet_lt hR out b hb)) (copySet_closed hR out)

/-! ### `find_class` for a path: reads the region only -/

theorem ownIds_mem_iff {o : Obj} {v : Nat} : v ∈ ownIds o ↔ Field.own v ∈ o.fields := by
  constructor
  · exact ownIds_mem
  · intro h
    unfold ownIds
    exact List.mem_filterMap.mpr ⟨Field.own v, h, rfl⟩

theorem find?_congr' {α : Type} {p q : α → Bool} : ∀ {l : List α}, (∀ x ∈ l, p x = q x) → l.find? p = l.find? q := by
  intro l
  induction l with
  | nil => intro _; rfl
  | cons a l ih =>
    intro h
    simp only [List.find?_cons, h a List.mem_cons_self]
    rw [ih (fun x hx => h x (List.mem_cons_of_mem _ hx))]

theorem childClass_region {H : Heap} {R : Nat → Prop} (hR : Region H R) (e : Heap) {c : Nat} (hc : R c)
    (n : String) : childClass (H ++ e) c n = childClass H c n ∧ ∀ d, childClass H c n = some d → R d := by
  unfold childClass
  rw [hR.get_append e hc]
  cases ho : H[c]? with
  | none => exact ⟨rfl, fun d hd => by cases hd⟩
  | some o =>
    simp only
    constructor
    · apply find?_congr'
      intro i hi
      have hRi : R i := hR.closed c o _ hc ho (ownIds_mem hi)
      unfold isClassNamed
      rw [hR.get_append e hRi]
    · intro d hd
      have := List.mem_of_find?_eq_some hd
      exact hR.closed c o _ hc ho (ownIds_mem this)

theorem lookupPath_region {H : Heap} {R : Nat → Prop} (hR : Region H R) (e : Heap) :
    ∀ (path : List String) (c : Nat), R c →
      lookupPath (H ++ e) c path = lookupPath H c path ∧ ∀ d, lookupPath H c path = some d → R d := by
  intro path
  induction path with
  | nil => intro c hc; exact ⟨rfl, fun d hd => by simp only [lookupPath, Option.some.injEq] at hd; subst hd; exact hc⟩
  | cons n path ih =>
    intro c hc
    obtain ⟨h1, h2⟩ := childClass_region hR e hc n
    simp only [lookupPath, h1]
    cases hd : childClass H c n with
    | none => exact ⟨rfl, fun d hd' => by cases hd'⟩
    | some d => exact ih d (h2 d hd)

/-! ### a sequence of `find_class(copy=True)` -/

structure LookOut (H : Heap) (l : List Nat) (H' : Heap) (ys : List Nat) : Prop where
  frame : ∃ ex, H' = H ++ ex
  fresh : ∀ y ∈ ys, ∀ i, OwnReach H' y i → H.length ≤ i
  views : ∀ k, ys.map (view H' k) = l.map (view H k)

theorem lookupAll_nocopy (cfg : Cfg) : ∀ (l : List Nat) (h : Heap), lookupAll cfg false h l = some (h, l) := by
  intro l
  induction l with
  | nil => intro h; rfl
  | cons i l ih => intro h; simp [lookupAll, ih h]

theorem lookupAll_copy_spec {R : Nat → Prop} {cfg : Cfg} (hg : cfg.Good) :
    ∀ (l : List Nat) (H H' : Heap) (ys : List Nat), Region H R → TreeShaped H R →
      (∀ i ∈ l, R i ∧ Detached H i) → lookupAll cfg true H l = some (H', ys) → LookOut H l H' ys := by
  intro l
  induction l with
  | nil =>
    intro H H' ys _ _ _ h
    simp only [lookupAll, Option.some.injEq, Prod.mk.injEq] at h
    obtain ⟨h1, h2⟩ := h
    subst h1; subst h2
    exact { frame := ⟨[], by simp⟩, fresh := (fun y hy => nomatch hy), views := fun _ => rfl }
  | cons c l ih =>
    intro H H' ys hR hts hl h
    simp only [lookupAll, if_true] at h
    obtain ⟨hRc, hdc⟩ := hl c List.mem_cons_self
    cases hd : deepcopy cfg H c with
    | none => simp [hd] at h
    | some r1 =>
      obtain ⟨H1, y⟩ := r1
      simp only [hd] at h
      cases hrest : lookupAll cfg true H1 l with
      | none => simp [hrest] at h
      | some r2 =>
        obtain ⟨H2, ys'⟩ := r2
        simp only [hrest, Option.some.injEq, Prod.mk.injEq] at h
        obtain ⟨e1, e2⟩ := h
        subst e1; subst e2
        -- the first copy
        unfold deepcopy at hd
        cases hds : deepcopySt cfg H c with
        | none => simp [hds] at hd
        | some r3 =>
          obtain ⟨st', y'⟩ := r3
          simp only [hds, Option.some.injEq, Prod.mk.injEq] at hd
          obtain ⟨e1, e2⟩ := hd
          subst e2
          have out := deepcopySt_spec hR hg hRc hds
          obtain ⟨ex1, hex1⟩ := out.frame
          rw [e1] at hex1
          -- the rest, on the grown heap
          have hR1 : Region H1 R := by rw [hex1]; exact hR.append ex1
          have hts1 : TreeShaped H1 R := by rw [hex1]; exact hts.append hR ex1
          have hl1 : ∀ i ∈ l, R i ∧ Detached H1 i := by
            intro i hi
            obtain ⟨hRi, hdi⟩ := hl i (List.mem_cons_of_mem _ hi)
            exact ⟨hRi, by rw [hex1]; exact hdi.append hR hRi ex1⟩
          have lo := ih H1 H2 ys' hR1 hts1 hl1 hrest
          obtain ⟨ex2, hex2⟩ := lo.frame
          have hlen : H.length ≤ H1.length := by rw [hex1]; simp
          have hfresh1 := copy_ownReach_fresh out hts hdc
          rw [e1] at hfresh1
          refine { frame := ⟨ex1 ++ ex2, by rw [hex2, hex1, List.append_assoc]⟩, fresh := ?_, views := ?_ }
          · intro y0 hy0 i hi
            rcases List.mem_cons.mp hy0 with hy0 | hy0
            · subst hy0
              rw [hex2] at hi
              have := ownReach_ext (fun i hi => (hfresh1 i hi).2.1) i hi
              exact (hfresh1 i this).1
            · have := lo.fresh y0 hy0 i hi
              omega
          · intro k
            simp only [List.map_cons]
            rw [lo.views k]
            congr 1
            · have hv := view_copy hR out k c y' hRc (Or.inr out.res)
              have hs := view_copySet_append hR out ex2 k y' (Or.inr ⟨c, out.res⟩)
              rw [e1] at hv hs
              rw [hex2, hs, hv]
            · apply List.map_congr_left
              intro i hi
              rw [hex1]
              exact view_region_append hR ex1 k i (hl i (List.mem_cons_of_mem _ hi)).1

theorem lookupAll_copy_total {R : Nat → Prop} {cfg : Cfg} (hg : cfg.Good) :
    ∀ (l : List Nat) (H : Heap), Region H R → (∀ i ∈ l, R i) → ∃ r, lookupAll cfg true H l = some r := by
  intro l
  induction l with
  | nil => intro H _ _; exact ⟨_, rfl⟩
  | cons c l ih =>
    intro H hR hl
    simp only [lookupAll, if_true]
    have hRc := hl c List.mem_cons_self
    obtain ⟨⟨st', y⟩, hds⟩ := deepcopySt_total hR hg hRc
    have out := deepcopySt_spec hR hg hRc hds
    obtain ⟨ex1, hex1⟩ := out.frame
    have hd : deepcopy cfg H c = some (st'.heap, y) := by unfold deepcopy; rw [hds]
    rw [hd]
    simp only
    have hR1 : Region st'.heap R := by rw [hex1]; exact hR.append ex1
    obtain ⟨⟨H2, ys⟩, h2⟩ := ih st'.heap hR1 (fun i hi => hl i (List.mem_cons_of_mem _ hi))
    rw [h2]
    exact ⟨_, rfl⟩

theorem lookupAll_append (cfg : Cfg) (cp : Bool) : ∀ (l1 l2 : List Nat) (h : Heap),
    lookupAll cfg cp h (l1 ++ l2) =
      match lookupAll cfg cp h l1 with
      | none => none
      | some (h1, ys1) =>
        match lookupAll cfg cp h1 l2 with
        | none => none
        | some (h2, ys2) => some (h2, ys1 ++ ys2) := by
  intro l1
  induction l1 with
  | nil =>
    intro l2 h
    simp only [List.nil_append, lookupAll]
    cases lookupAll cfg cp h l2 with
    | none => rfl
    | some r => rfl
  | cons i l1 ih =>
    intro l2 h
    simp only [List.cons_append, lookupAll]
    cases cp with
    | true =>
      simp only [if_true]
      cases deepcopy cfg h i with
      | none => rfl
      | some r =>
        obtain ⟨h1, j⟩ := r
        simp only
        rw [ih l2 h1]
        cases lookupAll cfg true h1 l1 with
        | none => rfl
        | some r2 =>
          obtain ⟨h2, ys⟩ := r2
          simp only
          cases lookupAll cfg true h2 l2 with
          | none => rfl
          | some r3 => rfl
    | false =>
      simp only [Bool.false_eq_true, if_false]
      rw [ih l2 h]
      cases lookupAll cfg false h l1 with
      | none => rfl
      | some r2 =>
        obtain ⟨h2, ys⟩ := r2
        simp only
        cases lookupAll cfg false h2 l2 with
        | none => rfl
        | some r3 => rfl

/-! ### `flattenImpl` when every lookup copies -/

def Cfg.AllCopy (cfg : Cfg) : Prop := cfg.rootCopy = true ∧ cfg.innerCopy = true ∧ cfg.constCopy = true

/-- the lookups of a request stay inside the region, and what they find is detached from above -/
structure ReqOk (H : Heap) (R : Nat → Prop) (root : Nat) (r : Req) : Prop where
  target : ∀ c, lookupPath H root r.path = some c → Detached H c
  others : ∀ i ∈ r.inner ++ r.consts, R i ∧ Detached H i

theorem obtain_eq {cfg : Cfg} (hall : cfg.AllCopy) (h : Heap) (root : Nat) (r : Req) :
    obtain cfg h root r =
      match lookupPath h root r.path with
      | none => none
      | some c => lookupAll cfg true h (c :: (r.inner ++ r.consts)) := by
  obtain ⟨h1, h2, h3⟩ := hall
  unfold obtain
  rw [h1, h2, h3]
  cases lookupPath h root r.path with
  | none => rfl
  | some c =>
    simp only
    have e1 : c :: (r.inner ++ r.consts) = [c] ++ (r.inner ++ r.consts) := rfl
    rw [e1, lookupAll_append]
    cases lookupAll cfg true h [c] with
    | none => rfl
    | some r1 =>
      obtain ⟨ha, cs⟩ := r1
      simp only
      rw [lookupAll_append]
      cases lookupAll cfg true ha r.inner with
      | none => rfl
      | some r2 =>
        obtain ⟨hb, is⟩ := r2
        simp only
        cases lookupAll cfg true hb r.consts with
        | none => rfl
        | some r3 => rfl

theorem ReqOk.append {H : Heap} {R : Nat → Prop} {root : Nat} {r : Req} (hok : ReqOk H R root r)
    (hR : Region H R) (hroot : R root) (e : Heap) : ReqOk (H ++ e) R root r := by
  obtain ⟨hp1, hp2⟩ := lookupPath_region hR e r.path root hroot
  refine { target := ?_, others := ?_ }
  · intro c hc
    rw [hp1] at hc
    exact (hok.target c hc).append hR (hp2 c hc) e
  · intro i hi
    obtain ⟨hRi, hdi⟩ := hok.others i hi
    exact ⟨hRi, hdi.append hR hRi e⟩

/-- what a request obtains on any heap that extends `H` -/
theorem obtain_spec {H : Heap} {R : Nat → Prop} {cfg : Cfg} (hg : cfg.Good) (hall : cfg.AllCopy)
    (hR : Region H R) (hts : TreeShaped H R) {root : Nat} (hroot : R root) {r : Req} (hok : ReqOk H R root r)
    (e : Heap) :
    match lookupPath H root r.path with
    | none => obtain cfg (H ++ e) root r = none
    | some c => ∃ H' got, obtain cfg (H ++ e) root r = some (H', got) ∧
        LookOut (H ++ e) (c :: (r.inner ++ r.consts)) H' got ∧ R c := by
  obtain ⟨hp1, hp2⟩ := lookupPath_region hR e r.path root hroot
  rw [obtain_eq hall, hp1]
  cases hc : lookupPath H root r.path with
  | none => rfl
  | some c =>
    simp only
    have hRc : R c := hp2 c hc
    have hokE := hok.append hR hroot e
    have hRE := hR.append e
    have hl : ∀ i ∈ c :: (r.inner ++ r.consts), R i ∧ Detached (H ++ e) i := by
      intro i hi
      rcases List.mem_cons.mp hi with hi | hi
      · subst hi; exact ⟨hRc, hokE.target i (by rw [hp1]; exact hc)⟩
      · exact hokE.others i hi
    obtain ⟨⟨H', got⟩, htot⟩ := lookupAll_copy_total hg (c :: (r.inner ++ r.consts)) (H ++ e) hRE
      (fun i hi => (hl i hi).1)
    exact ⟨H', got, htot, lookupAll_copy_spec hg _ _ _ _ hRE (hts.append hR e) hl htot, hRc⟩

/-- **frame**: a request leaves every object that existed before it as it was -/
theorem flattenImpl_frame {H : Heap} {R : Nat → Prop} {cfg : Cfg} (hg : cfg.Good) (hall : cfg.AllCopy)
    (hR : Region H R) (hts : TreeShaped H R) {root : Nat} (hroot : R root) {r : Req} (hok : ReqOk H R root r)
    (e : Heap) (junk : Nat → Obj → Obj) {H' : Heap} (h : flattenImpl cfg junk (H ++ e) root r = some H') :
    ∃ ex, H' = (H ++ e) ++ ex := by
  unfold flattenImpl at h
  have sp := obtain_spec hg hall hR hts hroot hok e
  cases hc : lookupPath H root r.path with
  | none =>
    rw [hc] at sp
    simp only at sp
    rw [sp] at h
    cases h
  | some c =>
    rw [hc] at sp
    obtain ⟨H3, got, hob, lo, _⟩ := sp
    rw [hob] at h
    simp only [Option.some.injEq] at h
    obtain ⟨ex, hex⟩ := lo.frame
    have hfp : ∀ v ∈ footprint H3 got, (H ++ e).length ≤ v := by
      intro v hv
      obtain ⟨s, hs, hr⟩ := footprint_sound H3 got v hv
      exact lo.fresh s hs v hr
    rw [hex] at h hfp
    obtain ⟨ex', hex'⟩ := rewrite_prefix junk (H ++ e) (footprint (H ++ e ++ ex) got) ex hfp
    exact ⟨ex', by rw [← h, hex']⟩

/-- **what a request reads** is the initial tree, whatever has been appended to the heap since -/
theorem flattenResult_ext {H : Heap} {R : Nat → Prop} {cfg : Cfg} (hg : cfg.Good) (hall : cfg.AllCopy)
    (hR : Region H R) (hts : TreeShaped H R) {root : Nat} (hroot : R root) {r : Req} (hok : ReqOk H R root r)
    (k : Nat) (e : Heap) :
    flattenResult cfg k (H ++ e) root r =
      (lookupPath H root r.path).map fun c => (c :: (r.inner ++ r.consts)).map (view H k) := by
  unfold flattenResult
  have sp := obtain_spec hg hall hR hts hroot hok e
  cases hc : lookupPath H root r.path with
  | none =>
    rw [hc] at sp
    simp only at sp
    rw [sp]
    rfl
  | some c =>
    rw [hc] at sp
    obtain ⟨H3, got, hob, lo, hRc⟩ := sp
    rw [hob]
    simp only [Option.map_some, Option.some.injEq]
    rw [lo.views k]
    apply List.map_congr_left
    intro i hi
    apply view_region_append hR e k i
    rcases List.mem_cons.mp hi with hi | hi
    · subst hi; exact hRc
    · exact (hok.others i hi).1

end PymocaVerif.ObjGraph
