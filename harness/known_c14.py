"""Predicates of the open findings of C14 (see known/C14.json).  Each recognises one failing input
class by the options that reach the defective branch *and* the symptom the oracle attaches to its
message, so any other violation of C14 is still reported."""
from harness.common import known_predicate


def _opts(case):
    return case.get("options", {}) if isinstance(case, dict) else {}


@known_predicate
def c14_contradictory_alias_cycle(case, what):
    """detect_aliases on alias equations that relate a variable to its own negation (x = y, x = -y):
    both equations are dropped and no variable is eliminated."""
    return bool(_opts(case).get("detect_aliases")) and "to its own negation" in what and (
        what.startswith("simplified system has more solutions than the original")
        or what.startswith("the original solution does not satisfy"))


@known_predicate
def c14_second_pass_negative_alias(case, what):
    """a later detect_aliases pass (iterative_simplification) makes a former canonical variable a
    *negative* alias: its equation is dropped but the variable stays an unknown."""
    o = _opts(case)
    return bool(o.get("detect_aliases")) and bool(o.get("iterative_simplification")) and \
        "is still listed as an unknown" in what and what.startswith("simplified system has more solutions than the original")
