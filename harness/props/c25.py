"""C25 — the ModelicaXML backend mirrors the flat model.

Real code: `pymoca.backends.xml.generator.generate` (parse -> deepcopy -> flatten -> XmlGenerator walk ->
lxml serialisation) on generated models of the backend's subset.

Observation: the XML text, parsed back with lxml (well-formedness = the parse succeeds) into a canonical
tree (tag, sorted attributes, children; any non-blank text is kept so that it cannot hide).

Direct oracle (`oracle`): the flat AST is computed here with `tree.flatten` on a deep copy, exactly as the
backend does, and the XML is walked against it: one `component` per flat symbol, in order, with the symbol's
name, type name, variability and literal start / value (compared as numbers / Booleans, not as text), `fixed`
when true; one child of `<equation>` per flat equation, in order, matching node for node: operator name and
operand count and order, reference names (full dotted name, no subscript lost), literal values, every branch
of a when-equation.

Tie: the Lean model `PymocaVerif.Model.XmlTree` (driver `drv_c25`) encodes the abstraction of the same flat
AST (what the generator reads: operator names, operand order, `str(value)` of literals, flattened names,
prefixes, start / value / fixed); its element tree is compared with the canonical tree of the real XML, and
`raised` with an exception of `generate`.
"""
import copy
import json

DRIVERS = ["drv_c25"]
RULE = ("one case = one generated model text (scalar variables of every variability, Real / Integer / Boolean, literal "
        "start / value / fixed, an optional sub-model instance giving dotted names, optional user functions of 0 / 1 / 3 "
        "arguments, equations over unary, binary (plain and element-wise .+ .- .* ./ .^) and n-ary operators, function calls, literals and references, optional "
        "single-branch when-equation with reinit); non-trivial = the model has at least 2 equations and one operator of "
        "arity 1 and one of arity >= 2; distinct = distinct model text")
TRUSTED = ["lxml parses the serialised text back to the element tree that was serialised (exercised on every case)",
           "tree.flatten as the producer of the flat model: the property is about the backend's image of the flat AST",
           "the abstraction of the flat AST handed to the model (`abstract` below) reads the same fields the generator reads"]
ASSUMPTIONS = ["the backend's subset: scalar variables (arrays are outside the subset the property quantifies over and are never "
               "generated: the generator exports them as scalars, see seeded/C25/NOTES.md), equations built from Expression / "
               "Primary / ComponentRef / function-call / when nodes (an if-expression, array literal or if-/for-equation "
               "makes generate() raise KeyError: generated in a separate stream where raising is the expected outcome)",
               "a when-equation with elsewhen branches has no XML image: the backend raises NotImplementedError on it (commit "
               "8d9d442), which the oracle accepts; dropping the branches is a violation",
               "string literals are not generated (a string and a number with the same text share one encoding)",
               "literal texts are Python's str(value); the oracle compares them by value"]

REAL_FUNS1 = ["sin", "cos", "exp", "sqrt", "abs"]
REAL_FUNS2 = ["max", "min", "atan2", "mod"]
ARITH = ["+", "-", "*", "/", ".+", ".-", ".*", "./"]   # element-wise spellings are operators of their own
REL = ["<", "<=", ">", ">=", "==", "<>"]


# ------------------------------------------------------------------------------------------------
# generator of model texts
# ------------------------------------------------------------------------------------------------
class Gen:
    def __init__(self, rng, stream="main"):
        self.rng = rng
        self.stream = stream
        self.reals = []      # names usable in Real expressions
        self.bools = []
        self.uses = {"g3": False, "f0": False, "P.h": False}
        self.stats = {"unary": 0, "nary": 0, "eqs": 0}

    def lit(self):
        r = self.rng
        k = r.random()
        if k < 0.5:
            return str(r.randint(0, 9))
        return r.choice(["0.5", "2.5", "1e-3", "1.5e3", "100.0", "3.25", "1e-7", "12345.678", "1e10"])

    def real(self, d):
        r = self.rng
        if d <= 0 or r.random() < 0.22:
            k = r.random()
            if k < 0.55 and self.reals:
                return r.choice(self.reals)
            if k < 0.62:
                return "time"
            return self.lit()
        k = r.random()
        if k < 0.14:
            self.stats["unary"] += 1
            return "(-%s)" % self.real(d - 1)
        if k < 0.17:
            self.stats["unary"] += 1
            return "(+%s)" % self.real(d - 1)
        if k < 0.55:
            self.stats["nary"] += 1
            return "(%s %s %s)" % (self.real(d - 1), r.choice(ARITH), self.real(d - 1))
        if k < 0.62:
            self.stats["nary"] += 1
            return "(%s %s %s)" % (self.atom(), self.rng.choice(["^", "^", ".^"]), self.atom())
        if k < 0.76:
            self.stats["unary"] += 1
            return "%s(%s)" % (r.choice(REAL_FUNS1), self.real(d - 1))
        if k < 0.86:
            self.stats["nary"] += 1
            return "%s(%s, %s)" % (r.choice(REAL_FUNS2), self.real(d - 1), self.real(d - 1))
        if k < 0.92:
            self.stats["nary"] += 1
            self.uses["g3"] = True
            return "g3(%s, %s, %s)" % (self.real(d - 1), self.real(d - 1), self.real(d - 1))
        if k < 0.94:
            self.stats["nary"] += 1
            self.uses["f0"] = True
            return "f0()"
        if k < 0.98:
            self.stats["unary"] += 1
            self.uses["P.h"] = True
            return "P.h(%s)" % self.real(d - 1)
        self.stats["unary"] += 1
        return "der(%s)" % r.choice(self.reals) if self.reals else self.lit()

    def atom(self):
        r = self.rng
        return r.choice(self.reals) if self.reals and r.random() < 0.6 else self.lit()

    def boolean(self, d):
        r = self.rng
        if d <= 0 or r.random() < 0.2:
            k = r.random()
            if k < 0.5 and self.bools:
                return r.choice(self.bools)
            if k < 0.7:
                return r.choice(["true", "false"])
            self.stats["nary"] += 1
            return "(%s %s %s)" % (self.real(1), r.choice(REL), self.real(1))
        k = r.random()
        if k < 0.3:
            self.stats["unary"] += 1
            return "(not %s)" % self.boolean(d - 1)
        if k < 0.65:
            self.stats["nary"] += 1
            return "(%s %s %s)" % (self.boolean(d - 1), r.choice(["and", "or"]), self.boolean(d - 1))
        self.stats["nary"] += 1
        return "(%s %s %s)" % (self.real(d - 1), r.choice(REL), self.real(d - 1))

    def model(self, size):
        r = self.rng
        decls, eqs = [], []

        def attrs(kind="Real", allow_start=True):
            mods = []
            if allow_start and r.random() < 0.45:
                if kind == "Boolean":
                    mods.append("start=%s" % r.choice(["true", "false"]))
                elif kind == "Integer":
                    mods.append("start=%d" % r.randint(0, 20))
                else:
                    mods.append("start=%s" % self.start_literal())
                if r.random() < 0.4:
                    mods.append("fixed=%s" % r.choice(["true", "true", "false"]))
            if r.random() < 0.15:
                mods.append("min=0")   # not mirrored by the backend, must not disturb the rest
            return "(%s)" % ", ".join(mods) if mods else ""

        nx = r.randint(1, max(1, size))
        states = ["x%d" % i for i in range(nx)]
        for n in states:
            decls.append("Real %s%s;" % (n, attrs()))
        for i in range(r.randint(0, 2)):
            decls.append("parameter Real p%d%s = %s;" % (i, "(start=%s)" % self.lit() if r.random() < 0.3 else "",
                                                         self.start_literal()))
            self.reals.append("p%d" % i)
        for i in range(r.randint(0, 2)):
            decls.append("constant Real c%d = %s;" % (i, self.lit()))
            self.reals.append("c%d" % i)
        if r.random() < 0.3:
            decls.append("parameter Integer n0 = %d;" % r.randint(0, 5))
            self.reals.append("n0")
        nd = 1 if self.stream == "elsewhen" else r.randint(0, 1)
        for i in range(nd):
            decls.append("discrete Real d%d%s;" % (i, attrs()))
        for i in range(r.randint(0, 2)):
            decls.append("input Real u%d;" % i)
            self.reals.append("u%d" % i)
        outs = ["y%d" % i for i in range(r.randint(0, 2))]
        for n in outs:
            decls.append("output Real %s;" % n)
        ints = ["i%d" % i for i in range(r.randint(0, 1))]
        for n in ints:
            decls.append("Integer %s%s;" % (n, attrs("Integer")))
        bls = ["b%d" % i for i in range(r.randint(0, 2))]
        for n in bls:
            decls.append("Boolean %s%s;" % (n, attrs("Boolean")))
        self.reals += states + outs + ["d%d" % i for i in range(nd)]
        self.bools += bls
        sub = r.random() < 0.4
        if sub:
            decls.append("model S Real b(start=%s); parameter Real k = %s; equation der(b) = (-k) * b; end S;"
                         % (self.lit(), self.lit()))
            decls.append("S a;")
            self.reals += ["a.b", "a.k"]
        depth = r.randint(1, 3)
        for n in states:
            lhs = "der(%s)" % n if r.random() < 0.5 else n
            eqs.append("%s = %s;" % (lhs, self.real(depth)))
        for n in outs:
            eqs.append("%s = %s;" % (n, self.real(depth)))
        for n in ints:
            eqs.append("%s = %d;" % (n, r.randint(0, 9)))
        for n in bls:
            eqs.append("%s = %s;" % (n, self.boolean(depth)))
        if r.random() < 0.15:
            eqs.append("%s = %s;" % (self.real(1), self.real(1)))      # expression on the left
        whens = 0
        if nd and (r.random() < 0.7 or self.stream == "elsewhen"):
            body = ["d0 = %s;" % self.real(2)]
            if r.random() < 0.6:
                body.append("reinit(%s, %s);" % (states[0], self.real(1)))
            w = "when %s then %s" % (self.boolean(1), " ".join(body))
            if self.stream == "elsewhen":
                for _ in range(r.randint(1, 2)):
                    w += " elsewhen %s then d0 = %s;" % (self.boolean(1), self.real(1))
            eqs.append(w + " end when;")
            whens = 1
        elif nd:
            eqs.append("d0 = %s;" % self.real(1))
        if self.stream == "unsupported":
            k = r.random()
            if k < 0.4:
                eqs.append("%s = if %s then %s else %s;" % (states[0], self.boolean(1), self.real(1), self.real(1)))
            elif k < 0.7:
                eqs.append("if %s then %s = 1; else %s = 2; end if;" % (self.boolean(1), states[0], states[0]))
            else:
                eqs.append("%s = sum({%s, %s});" % (states[0], self.real(1), self.real(1)))
        if self.stream == "signed-attr":
            decls.append("Real z0(start=-%s);" % self.lit())
            if r.random() < 0.5:
                decls.append("parameter Real q0 = -%s;" % self.lit())
            if r.random() < 0.3 and any(d.startswith("parameter Real p0") for d in decls):
                decls.append("parameter Real q1 = 2 * p0;")
            eqs.append("z0 = %s;" % self.real(1))
        pre = ""
        if self.uses["g3"]:
            pre += "function g3 input Real a; input Real b; input Real c; output Real y; algorithm y := a + b * c; end g3; "
        if self.uses["f0"]:
            pre += "function f0 output Real y; algorithm y := 1; end f0; "
        if self.uses["P.h"]:
            pre += "package P function h input Real a; output Real y; algorithm y := 2 * a; end h; end P; "
        self.stats["eqs"] = len(eqs)
        self.stats["whens"] = whens
        self.stats["sub"] = int(sub)
        return pre + "model M %s equation %s end M;" % (" ".join(decls), " ".join(eqs))

    def start_literal(self):
        return self.lit()


# ------------------------------------------------------------------------------------------------
# real code, canonical XML tree, flat AST
# ------------------------------------------------------------------------------------------------
def canon_xml(el):
    from lxml import etree
    if not isinstance(el.tag, str):
        return ["#" + type(el).__name__, [], []]
    tag = etree.QName(el).localname if "}" in el.tag else el.tag
    kids = [canon_xml(k) for k in el]
    if tag == "modifier":   # the order of a modifier's items carries no meaning
        kids.sort(key=lambda k: json.dumps(k[1]))
    out = [tag, sorted([str(k), str(v)] for k, v in el.attrib.items()), kids]
    texts = [t for t in [el.text] + [k.tail for k in el] if t and t.strip()]
    if texts:
        out.append(texts)
    return out


def run_real(text):
    """-> dict(raised=cls|None, xml=canonical tree|None, wellformed=bool, flat=<flat ast.Tree>|None, flat_exc=..)"""
    from lxml import etree
    from pymoca import ast, parser
    from pymoca.backends.xml import generator as xg
    from pymoca.tree import flatten
    from harness.common import HarnessError
    try:
        tree = parser.parse(text, bypass_cache=True)
    except Exception as e:  # the parser is not under test here
        raise HarnessError("case text does not parse (%s): %s" % (type(e).__name__, text))
    if tree is None or "M" not in tree.classes:
        raise HarnessError("case text does not parse: " + text)
    out = {"raised": None, "xml": None, "wellformed": None, "flat": None, "flat_exc": None, "xml_text": None}
    try:
        flat = flatten(copy.deepcopy(tree), ast.ComponentRef.from_string("M"))
        out["flat"] = flat
    except Exception as e:
        out["flat_exc"] = type(e).__name__
    try:
        s = xg.generate(tree, "M")
    except Exception as e:
        out["raised"] = type(e).__name__
        return out
    out["xml_text"] = s
    try:
        root = etree.fromstring(s.encode("utf-8"))
        out["wellformed"] = True
        out["xml"] = canon_xml(root)
    except Exception as e:
        out["wellformed"] = False
        out["parse_error"] = str(e)[:200]
    return out


SUPPORTED_EXPR = ("Primary", "ComponentRef", "Expression")


REJECT_ARRAYS = [False]   # arrays are outside the backend's subset and are not generated; kept for replays of such texts


def subscripted(node):
    return any(i is not None for arr in node.indices for i in arr)


def is_array_symbol(sym):
    from pymoca import ast
    return any(not (isinstance(d, ast.Primary) and d.value is None) for arr in sym.dimensions for d in arr)


def abstract_expr(node):
    """What XmlGenerator reads of an expression node."""
    from pymoca import ast
    if isinstance(node, ast.Primary):
        return ["lit", str(node.value)]
    if isinstance(node, ast.ComponentRef):
        if REJECT_ARRAYS[0] and subscripted(node):
            return ["other", "ComponentRef-with-subscripts"]
        return ["ref", node.name]
    if isinstance(node, ast.Expression):
        op = node.operator.name if isinstance(node.operator, ast.ComponentRef) else node.operator
        return ["op", str(op), [abstract_expr(o) for o in node.operands]]
    return ["other", type(node).__name__]


def abstract_eq(node):
    from pymoca import ast
    if isinstance(node, ast.Equation):
        if isinstance(node.left, list) or isinstance(node.right, list):
            return ["other", "Equation-with-list"]
        return ["equal", abstract_expr(node.left), abstract_expr(node.right)]
    if isinstance(node, ast.Function):
        return ["call", node.name, [abstract_expr(a) for a in node.arguments]]
    if isinstance(node, ast.WhenEquation):
        if not node.conditions or not node.blocks:
            return ["other", "WhenEquation-empty"]
        return ["when", abstract_expr(node.conditions[0]), [abstract_eq(e) for e in node.blocks[0]],
                [abstract_expr(c) for c in node.conditions[1:] if c is not True],
                [abstract_eq(e) for b in node.blocks[1:] for e in b]]
    return ["other", type(node).__name__]


def abstract_flat(flat):
    from pymoca import ast
    classes = []
    for c in flat.classes.values():
        vs = []
        for s in c.symbols.values():
            def attr(n):
                if isinstance(n, ast.Primary) and n.value is None:
                    return None
                return abstract_expr(n)
            vs.append({"name": s.name, "type": s.type.name, "prefixes": list(s.prefixes),
                       "start": ["other", "array-symbol"] if REJECT_ARRAYS[0] and is_array_symbol(s) else attr(s.start),
                       "value": attr(s.value), "fixed": bool(s.fixed.value)})
        classes.append({"name": c.name, "vars": vs, "eqs": [abstract_eq(e) for e in c.equations]})
    return classes


def model_canon(x):
    """Model tree [tag, [[k,v]..] in document order, kids] -> canonical (attributes sorted)."""
    kids = [model_canon(k) for k in x[2]]
    if x[0] == "modifier":
        kids.sort(key=lambda k: json.dumps(k[1]))
    return [x[0], sorted(x[1]), kids]


# ------------------------------------------------------------------------------------------------
# direct oracle
# ------------------------------------------------------------------------------------------------
def lit_equal(text, value):
    if isinstance(value, bool):
        return text in ("True", "true") if value else text in ("False", "false")
    if isinstance(value, (int, float)):
        try:
            return float(text) == float(value) and (not isinstance(value, int) or "." not in text and "e" not in text.lower())
        except ValueError:
            return False
    return text == str(value)


def attrs_of(x):
    return dict((k, v) for k, v in x[1])


def match_expr(x, node, path):
    """None if the element mirrors the flat node, else a message."""
    from pymoca import ast
    if len(x) > 3:
        return "%s: unexpected text %r" % (path, x[3])
    tag, at, kids = x[0], attrs_of(x), x[2]
    if isinstance(node, ast.Primary):
        if tag != "real" or set(at) != {"value"} or kids or not lit_equal(at["value"], node.value):
            return "%s: literal %r is rendered as <%s %s>" % (path, node.value, tag, at)
        return None
    if isinstance(node, ast.ComponentRef):
        full = ".".join(node.to_tuple())
        has_idx = any(i is not None for arr in node.indices for i in arr)
        if tag != "local" or set(at) != {"name"} or kids or at["name"] != full or has_idx:
            return "%s: reference %s%s is rendered as <%s %s>" % (path, full, "[..]" if has_idx else "", tag, at)
        return None
    if isinstance(node, ast.Expression):
        op = ".".join(node.operator.to_tuple()) if isinstance(node.operator, ast.ComponentRef) else node.operator
        key = "name" if tag == "operator" else "builtin" if tag == "apply" else None
        if key is None or set(at) != {key} or at[key] != op:
            return "%s: operator %r is rendered as <%s %s>" % (path, op, tag, at)
        if len(kids) != len(node.operands):
            return "%s: operator %r has %d operands, the element has %d children" % (path, op, len(node.operands), len(kids))
        for i, (k, o) in enumerate(zip(kids, node.operands)):
            m = match_expr(k, o, "%s/%s[%d]" % (path, op, i))
            if m:
                return m
        return None
    return "%s: node %s has no XML image" % (path, type(node).__name__)


def match_eq(x, node, path):
    from pymoca import ast
    if len(x) > 3:
        return "%s: unexpected text %r" % (path, x[3])
    tag, at, kids = x[0], attrs_of(x), x[2]
    if isinstance(node, ast.Equation):
        if tag != "equal" or at or len(kids) != 2:
            return "%s: equation rendered as <%s> with %d children" % (path, tag, len(kids))
        return match_expr(kids[0], node.left, path + "/left") or match_expr(kids[1], node.right, path + "/right")
    if isinstance(node, ast.Function):
        if tag != "apply" or set(at) != {"builtin"} or at["builtin"] != node.name or len(kids) != len(node.arguments):
            return "%s: call %s/%d rendered as <%s %s> with %d children" % (path, node.name, len(node.arguments), tag, at, len(kids))
        for i, (k, o) in enumerate(zip(kids, node.arguments)):
            m = match_expr(k, o, "%s/%s[%d]" % (path, node.name, i))
            if m:
                return m
        return None
    if isinstance(node, ast.WhenEquation):
        conds = [c for c in node.conditions if c is not True]
        if tag != "when" or at:
            return "%s: when-equation rendered as <%s>" % (path, tag)
        if len(conds) != 1 or len(node.blocks) != 1:
            if len(kids) == 2:
                return "%s: when-equation with %d branches has one <cond>/<then> pair: elsewhen branches are missing" % (path, len(node.blocks))
        if len(kids) != 2 or kids[0][0] != "cond" or kids[1][0] != "then" or len(kids[0][2]) != 1:
            return "%s: when-equation children %s" % (path, [k[0] for k in kids])
        m = match_expr(kids[0][2][0], node.conditions[0], path + "/cond")
        if m:
            return m
        if len(kids[1][2]) != len(node.blocks[0]):
            return "%s: when body has %d equations, <then> has %d children" % (path, len(node.blocks[0]), len(kids[1][2]))
        for i, (k, e) in enumerate(zip(kids[1][2], node.blocks[0])):
            m = match_eq(k, e, "%s/then[%d]" % (path, i))
            if m:
                return m
        return None
    return "%s: equation node %s has no XML image" % (path, type(node).__name__)


def expected_variability(prefixes):
    for v in ("parameter", "constant", "discrete"):
        if v in prefixes:
            return v
    return None


def oracle(xml, flat):
    from pymoca import ast
    if xml[0] != "modelica" or len(xml[2]) != 1 or xml[2][0][0] != "declarations":
        return "root is <%s>" % xml[0]
    cds = xml[2][0][2]
    classes = list(flat.classes.values())
    if len(cds) != len(classes):
        return "%d classDefinition elements for %d flat classes" % (len(cds), len(classes))
    for cd, c in zip(cds, classes):
        if cd[0] != "classDefinition" or attrs_of(cd).get("name") != c.name or len(cd[2]) != 1 or cd[2][0][0] != "class":
            return "class %s rendered as <%s %s>" % (c.name, cd[0], cd[1])
        body = cd[2][0][2]
        comps = [k for k in body if k[0] == "component"]
        eqel = [k for k in body if k[0] == "equation"]
        rest = [k[0] for k in body if k[0] not in ("component", "equation")]
        syms = list(c.symbols.values())
        if rest or len(eqel) != 1:
            return "class %s: unexpected children %s, %d <equation> elements" % (c.name, rest, len(eqel))
        if len(comps) != len(syms):
            return "class %s: %d component elements for %d flat variables" % (c.name, len(comps), len(syms))
        for k, s in zip(comps, syms):
            at = attrs_of(k)
            if at.get("name") != s.name:
                return "class %s: component %r where variable %r is expected" % (c.name, at.get("name"), s.name)
            if is_array_symbol(s):
                return "array variable %s is rendered as a scalar component: its dimensions are lost" % s.name
            if set(at) - {"name", "variability"}:
                return "component %s: attributes %s" % (s.name, sorted(at))
            if at.get("variability") != expected_variability(s.prefixes):
                return "component %s: variability %r, prefixes %s" % (s.name, at.get("variability"), s.prefixes)
            if len(k[2]) != 2 or k[2][0][0] != "builtin" or attrs_of(k[2][0]).get("name") != s.type.name or k[2][1][0] != "modifier":
                return "component %s: type %s rendered as %s" % (s.name, s.type.name, k[2])
            items = {}
            for it in k[2][1][2]:
                if it[0] != "item" or len(it[2]) != 1 or attrs_of(it).get("name") in items:
                    return "component %s: modifier child %s" % (s.name, it)
                items[attrs_of(it)["name"]] = it[2][0]
            for f in ("start", "value"):
                node = getattr(s, f)
                absent = isinstance(node, ast.Primary) and node.value is None
                if absent != (f not in items):
                    return "component %s: %s %s in the flat model, %s in the XML" % (
                        s.name, f, "absent" if absent else "present", "present" if f in items else "absent")
                if not absent:
                    m = match_expr(items[f], node, "component %s/%s" % (s.name, f))
                    if m:
                        return m
            fixed = bool(s.fixed.value)
            if fixed != ("fixed" in items and items["fixed"][0] == "true"):
                return "component %s: fixed=%s in the flat model, XML items %s" % (s.name, fixed, sorted(items))
            if set(items) - {"start", "value", "fixed"}:
                return "component %s: items %s" % (s.name, sorted(items))
        eqs = eqel[0][2]
        if len(eqs) != len(c.equations):
            return "class %s: %d equation elements for %d flat equations" % (c.name, len(eqs), len(c.equations))
        for i, (k, e) in enumerate(zip(eqs, c.equations)):
            m = match_eq(k, e, "class %s/equation[%d]" % (c.name, i))
            if m:
                return m
    return None


def has_other(a):
    if isinstance(a, list):
        if a and a[0] == "other":
            return True
        return any(has_other(x) for x in a)
    if isinstance(a, dict):
        return any(has_other(x) for x in a.values())
    return False


def has_arrays(flat):
    """Does the flat model hold an array variable or a subscripted reference (anywhere the walker goes)?"""
    from pymoca import ast
    found = [False]

    def visit(n):
        if isinstance(n, ast.ComponentRef) and subscripted(n):
            found[0] = True
        if isinstance(n, ast.Symbol) and is_array_symbol(n):
            found[0] = True
        if isinstance(n, ast.Node):
            for k, v in n.__dict__.items():
                if k not in ("parent", "scope", "__deepcopy__"):
                    visit(v)
        elif isinstance(n, dict):
            for v in n.values():
                visit(v)
        elif isinstance(n, list):
            for v in n:
                visit(v)
    for c in flat.classes.values():
        visit(list(c.symbols.values()))
        visit(c.equations)
    return found[0]


def has_elsewhen(a):
    if isinstance(a, list):
        if a and a[0] == "when" and (a[3] or a[4]):
            return True
        return any(has_elsewhen(x) for x in a)
    if isinstance(a, dict):
        return any(has_elsewhen(x) for x in a.values())
    return False


def nonliteral_attr(classes):
    return any(v[f] is not None and v[f][0] != "lit" for c in classes for v in c["vars"] for f in ("start", "value"))


PROBES = {
    "exprAttrs": "model M Real x(start=-1); equation x = 1; end M;",
    "rejectElse": "model M discrete Real d; Real x; equation x = time; when x > 1 then d = 1; elsewhen x > 2 then d = 2; end when; end M;",
}
FLAG_OF_FINDING = {"C25-F2": "exprAttrs", "C25-F1": "rejectElse"}


def probe_cfg(ctx):
    """The two points on which the tree may differ (proposed fixes C25-1 / C25-2) are read off two probe inputs;
    once a finding is marked fixed in known/C25.json the corresponding behaviour is no longer probed but
    required (the model is asked for the fixed variant whatever the probe says)."""
    probed = {"exprAttrs": run_real(PROBES["exprAttrs"])["raised"] is None,
              "rejectElse": run_real(PROBES["rejectElse"])["raised"] is not None}
    cfg = dict(probed)
    for k in ctx.known:
        if k.get("status") == "fixed" and k["id"] in FLAG_OF_FINDING:
            cfg[FLAG_OF_FINDING[k["id"]]] = True
    ctx.extra["model_cfg_probed"] = probed
    ctx.extra["model_cfg_used"] = cfg
    return cfg


def categorize(msg):
    if "elsewhen branches are missing" in msg:
        return "XML does not mirror the flat model: elsewhen branches of a when-equation are missing"
    if "its dimensions are lost" in msg or "[..]" in msg:
        return "XML does not mirror the flat model: array dimensions / subscripts are lost"
    for key in ("literal", "reference", "operator", "component", "equation elements", "component elements", "variability",
                "classDefinition", "unexpected text", "call", "when"):
        if key in msg:
            return "XML does not mirror the flat model (%s)" % key
    return "XML does not mirror the flat model"


def check_case(ctx, text, cfg, drv, stream="main", stats=None):
    stats = stats or {}
    nontriv = stats.get("eqs", 0) >= 2 and stats.get("unary", 0) >= 1 and stats.get("nary", 0) >= 1
    case = {"text": text, "stream": stream}
    ctx.case(case, nontrivial=nontriv, key=text)
    ctx.count("stream:" + stream)
    r = run_real(text)
    if r["flat"] is None:
        ctx.count("flatten-raised:" + str(r["flat_exc"]))
        if r["raised"] is None:
            ctx.violation("generate() returned XML for a model that tree.flatten rejects", case, expected="exception",
                          observed=r["xml_text"][:300] if r["xml_text"] else None)
        return
    classes = abstract_flat(r["flat"])
    ctx.count("eqs:%d" % min(sum(len(c["eqs"]) for c in classes), 8))
    ctx.count("vars:%d" % min(sum(len(c["vars"]) for c in classes), 12))
    ctx.count("classes:%d" % len(classes))
    arrays = has_arrays(r["flat"])
    case["facts"] = {"elsewhen": has_elsewhen(classes), "nonliteral_attr": nonliteral_attr(classes),
                     "unsupported_node": has_other(classes), "arrays": arrays}
    unsupported = has_other(classes) or (nonliteral_attr(classes) and not cfg["exprAttrs"])
    if r["raised"] is not None:
        ctx.count("real:raised:" + r["raised"])
        if not has_other(classes) and not has_elsewhen(classes) and not arrays:
            ctx.violation("generate() raises on a model whose flat AST holds only nodes the backend handles"
                          + (" (start / value is not a plain literal)" if nonliteral_attr(classes) else ""),
                          case, expected="XML", observed=r["raised"])
    else:
        ctx.count("real:xml")
        if not r["wellformed"]:
            ctx.violation("output is not well-formed XML", case, expected="lxml parses it", observed=r.get("parse_error"))
        else:
            msg = oracle(r["xml"], r["flat"])
            if msg:
                ctx.violation(categorize(msg), case, expected="one element per flat node, mirroring it", observed=msg)
    if drv is not None:
        ans = drv.ask({"op": "xml.encode", "exprAttrs": cfg["exprAttrs"], "rejectElse": cfg["rejectElse"], "classes": classes})
        if not ans.get("ok"):
            from harness.common import HarnessError
            raise HarnessError("model driver rejected %s: %s" % (text, ans))
        if ans["raised"] != (r["raised"] is not None):
            ctx.disagreement("xml.raised", case, "raised" if ans["raised"] else "xml", r["raised"] or "xml")
        elif not ans["raised"] and r["wellformed"]:
            mx = model_canon(ans["xml"])
            if mx != r["xml"]:
                ctx.disagreement("xml.tree", case, first_diff(mx, r["xml"]), None)
            if not ans["decodes_to_kept"]:
                ctx.disagreement("xml.decode", case, "decode (encode m) differs from kept m", None)
    return unsupported


def first_diff(a, b, path=""):
    if a[0] != b[0] or a[1] != b[1] or len(a) != len(b):
        return {"at": path, "model": [a[0], a[1]], "impl": [b[0], b[1]] + b[3:]}
    if len(a[2]) != len(b[2]):
        return {"at": path + "/" + a[0], "model_children": [k[0] for k in a[2]], "impl_children": [k[0] for k in b[2]]}
    for i, (x, y) in enumerate(zip(a[2], b[2])):
        d = first_diff(x, y, "%s/%s[%d]" % (path, a[0], i))
        if d:
            return d
    return None


FIXED_CASES = [
    ("main", "model M Real x; equation x = 1; end M;"),
    ("main", "model M Real x(start=1, fixed=true); Real v; parameter Real g = 9.81; equation der(x) = v; der(v) = (-g); "
             "when x < 0 then reinit(v, (-v)); end when; end M;"),
    ("main", "model M parameter Real p = 2; constant Real c = 3; input Real u; output Real y; Real x(start=1); Real v; "
             "model S Real b; end S; S a; equation der(x) = -(x - u) * p / (c + 1); y = x - (v - u); "
             "v = (x + u) * (x - u) / (p * c); a.b = -x ^ 2 + sin(time); end M;"),
    ("main", "model M Real T1; Real T2; Real T; Real ratio; Real q; equation T1 = 3; T2 = time; T = 2; "
             "ratio = (T1 .- T2) ./ T; q = (T1 .* T2) .+ (T .^ 2) - T1 * T2 / T; end M;"),
    ("main", "model M Boolean b(start=true); Real u; Real w; equation u = time; w = max(u, 2); b = not b and (u > 1 or u <= 0) "
             "or u <> w; end M;"),
]


def run(ctx):
    from harness import corpus
    drv = ctx.driver("drv_c25")
    cfg = probe_cfg(ctx)
    quick = ctx.tier == "quick"
    for c in corpus.load("C25"):
        ctx.count("corpus")
        check_case(ctx, c["case"]["text"] if "case" in c else c["text"], cfg, drv, "corpus")
    for stream, text in FIXED_CASES:
        check_case(ctx, text, cfg, drv, stream, {"eqs": 2, "unary": 1, "nary": 1})
    plan = [("main", 480 if quick else 12000), ("elsewhen", 40 if quick else 600), ("signed-attr", 40 if quick else 600),
            ("unsupported", 30 if quick else 400)]
    for stream, n in plan:
        for i in range(n):
            if ctx.time_left() < 0:
                ctx.notes.append("stream %s stopped by the time budget after %d of %d" % (stream, i, n))
                break
            g = Gen(ctx.rng, stream)
            text = g.model(ctx.rng.randint(1, 4))
            check_case(ctx, text, cfg, drv, stream, g.stats)
            ctx.count("whens", g.stats.get("whens", 0))
            ctx.count("submodel", g.stats.get("sub", 0))


def replay(ctx, payload):
    check_case(ctx, payload["case"]["text"], probe_cfg(ctx), ctx.driver("drv_c25"), payload["case"].get("stream", "replay"),
               {"eqs": 2, "unary": 1, "nary": 1})


def search(ctx):
    cfg = probe_cfg(ctx)
    while ctx.time_left() > 0 and not ctx.violations:
        g = Gen(ctx.rng, "main")
        check_case(ctx, g.model(ctx.rng.randint(1, 5)), cfg, None, "search", g.stats)


MANIFEST = dict(
    level_text="Lean 4 theorems about an executable model of XmlGenerator (one element per AST node, as each exit-handler "
               "builds it): a strict decoder reads back from the encoder's output the flat model — every variable with name, "
               "type, variability, start / value / fixed, every equation operator for operator and operand for operand in "
               "order, for trees of any size (structural induction); hence the encoding is injective on that content. The "
               "only content lost is proved to be the elsewhen branches of when-equations (listed finding). Tied to the real "
               "backend on every run: the real XML, parsed back with lxml, must equal the model's element tree for the "
               "abstraction of the same flat AST; plus a direct oracle that walks the XML against the flat AST.",
    level_note="Trusted: Lean kernel + standard axioms; the harness (abstraction of the flat AST, canonicalisation of the XML); "
               "lxml's serialise/parse round trip. The model, not the Python, is what the theorems are about.",
    technique="Lean 4 proof (mutual structural induction over expression / equation trees: decode after encode) + "
              "model/implementation correspondence on generated models + direct oracle",
)
READY = True
