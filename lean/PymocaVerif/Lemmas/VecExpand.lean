import PymocaVerif.Model.VecExpand
/-!
Helper lemmas for C18 (`_expand_vectors`): index arithmetic, decimal numerals, name parsing.
-/
namespace PymocaVerif.VecExpand

/-! ## Index arithmetic -/

theorem lin_lt {i j r c : Nat} (hi : i < r) (hj : j < c) : i + j * r < c * r := by
  have h1 : (j + 1) * r ≤ c * r := Nat.mul_le_mul_right r hj
  have h2 : (j + 1) * r = j * r + r := Nat.succ_mul j r
  omega

theorem lin_div {i j r : Nat} (hi : i < r) : (i + j * r) / r = j := by
  have hr : 0 < r := by omega
  rw [Nat.add_mul_div_right _ _ hr, Nat.div_eq_of_lt hi]; omega

theorem lin_mod {i j r : Nat} (hi : i < r) : (i + j * r) % r = i := by
  rw [Nat.add_mul_mod_self_right, Nat.mod_eq_of_lt hi]

theorem getD_map_range {α} (f : Nat → α) (n k : Nat) (d : α) (h : k < n) :
    ((List.range n).map f).getD k d = f k := by
  simp [List.getD_eq_getElem?_getD, h]

/-! ## `ndindex` -/

theorem ndindex_length (ds : List Nat) : (ndindex ds).length = prod ds := by
  simp [ndindex]

theorem ndindex_getElem (ds : List Nat) (k : Nat) (h : k < (ndindex ds).length) :
    (ndindex ds)[k] = unravel ds k := by
  simp [ndindex]

theorem unravel_length (ds : List Nat) (k : Nat) : (unravel ds k).length = ds.length := by
  induction ds generalizing k with
  | nil => rfl
  | cons d ds ih => simp [unravel, ih]

theorem prod_pos_of_lt {ds : List Nat} {k : Nat} (h : k < prod ds) : 0 < prod ds := by omega

theorem ravel_unravel (ds : List Nat) (k : Nat) (h : k < prod ds) : ravel ds (unravel ds k) = k := by
  induction ds generalizing k with
  | nil => simp [prod] at h; simp [ravel, h]
  | cons d ds ih =>
    simp only [unravel, ravel]
    have hp : 0 < prod ds := by
      rcases Nat.eq_zero_or_pos (prod ds) with h0 | h0
      · simp [prod, h0] at h
      · exact h0
    rw [ih _ (Nat.mod_lt _ hp)]
    have := Nat.div_add_mod k (prod ds)
    rw [Nat.mul_comm] at this
    exact this

/-- index tuple within the bounds of a shape -/
def InRange : List Nat → List Nat → Prop
  | [], [] => True
  | d :: ds, i :: is => i < d ∧ InRange ds is
  | _, _ => False

theorem ravel_lt (ds idx : List Nat) (h : InRange ds idx) : ravel ds idx < prod ds := by
  induction ds generalizing idx with
  | nil => cases idx <;> simp [InRange] at h <;> simp [ravel, prod]
  | cons d ds ih =>
    cases idx with
    | nil => simp [InRange] at h
    | cons i is =>
      simp only [InRange] at h
      simp only [ravel, prod]
      have h1 := ih is h.2
      have h2 : (i + 1) * prod ds ≤ d * prod ds := Nat.mul_le_mul_right _ h.1
      have h3 : (i + 1) * prod ds = i * prod ds + prod ds := Nat.succ_mul _ _
      omega

theorem unravel_ravel (ds idx : List Nat) (h : InRange ds idx) : unravel ds (ravel ds idx) = idx := by
  induction ds generalizing idx with
  | nil => cases idx <;> simp [InRange] at h <;> simp [unravel]
  | cons d ds ih =>
    cases idx with
    | nil => simp [InRange] at h
    | cons i is =>
      simp only [InRange] at h
      simp only [ravel, unravel]
      have h1 := ravel_lt ds is h.2
      have hp : 0 < prod ds := by omega
      have e1 : (i * prod ds + ravel ds is) / prod ds = i := by
        rw [Nat.add_comm, lin_div h1]
      have e2 : (i * prod ds + ravel ds is) % prod ds = ravel ds is := by
        rw [Nat.add_comm, lin_mod h1]
      rw [e1, e2, ih is h.2]

theorem unravel_inRange (ds : List Nat) (k : Nat) (h : k < prod ds) : InRange ds (unravel ds k) := by
  induction ds generalizing k with
  | nil => simp [unravel, InRange]
  | cons d ds ih =>
    simp only [unravel, InRange]
    have hp : 0 < prod ds := by
      rcases Nat.eq_zero_or_pos (prod ds) with h0 | h0
      · simp [prod, h0] at h
      · exact h0
    refine ⟨?_, ih _ (Nat.mod_lt _ hp)⟩
    simp only [prod] at h
    exact (Nat.div_lt_iff_lt_mul hp).2 h

/-! ## Decimal numerals -/

theorem digitChar_isDigit : ∀ d, d < 10 → (digitChar d).isDigit = true := by decide

theorem digitChar_inj : ∀ d, d < 10 → ∀ e, e < 10 → digitChar d = digitChar e → d = e := by decide

theorem decAux_fuel (f n : Nat) (h : n < f) : decAux f n = decAux (n + 1) n := by
  induction n using Nat.strongRecOn generalizing f with
  | _ n ih =>
    cases f with
    | zero => omega
    | succ f =>
      by_cases hn : n < 10
      · simp [decAux, hn]
      · simp only [decAux, hn, if_false]
        rw [ih (n / 10) (by omega) f (by omega), ih (n / 10) (by omega) n (by omega)]

theorem dec_lt {n : Nat} (h : n < 10) : dec n = [digitChar n] := by
  simp [dec, decAux, h]

theorem dec_ge {n : Nat} (h : ¬ n < 10) : dec n = dec (n / 10) ++ [digitChar (n % 10)] := by
  show decAux (n + 1) n = decAux (n / 10 + 1) (n / 10) ++ _
  rw [decAux, if_neg h, decAux_fuel n (n / 10) (by omega)]

theorem dec_digits (n : Nat) : ∀ c ∈ dec n, c.isDigit = true := by
  induction n using Nat.strongRecOn with
  | _ n ih =>
    intro c hc
    by_cases h : n < 10
    · rw [dec_lt h] at hc; simp at hc; subst hc; exact digitChar_isDigit n h
    · rw [dec_ge h] at hc
      simp only [List.mem_append, List.mem_singleton] at hc
      rcases hc with hc | hc
      · exact ih (n / 10) (by omega) c hc
      · subst hc; exact digitChar_isDigit _ (Nat.mod_lt _ (by omega))

theorem dec_ne_nil (n : Nat) : dec n ≠ [] := by
  by_cases h : n < 10
  · rw [dec_lt h]; simp
  · rw [dec_ge h]; simp

theorem dec_length_ge2 (n : Nat) (h : ¬ n < 10) : 2 ≤ (dec n).length := by
  rw [dec_ge h]; simp only [List.length_append, List.length_singleton]
  have := dec_ne_nil (n / 10)
  have : 0 < (dec (n / 10)).length := List.length_pos_iff.2 this
  omega

theorem dec_inj (a b : Nat) (h : dec a = dec b) : a = b := by
  induction a using Nat.strongRecOn generalizing b with
  | _ a ih =>
    by_cases ha : a < 10 <;> by_cases hb : b < 10
    · rw [dec_lt ha, dec_lt hb] at h; simp at h; exact digitChar_inj a ha b hb h
    · have := dec_length_ge2 b hb
      rw [← h, dec_lt ha] at this; simp at this
    · have := dec_length_ge2 a ha
      rw [h, dec_lt hb] at this; simp at this
    · rw [dec_ge ha, dec_ge hb] at h
      have h' := List.append_inj' h (by simp)
      have e1 := ih (a / 10) (by omega) (b / 10) h'.1
      have e2 : a % 10 = b % 10 :=
        digitChar_inj _ (Nat.mod_lt _ (by omega)) _ (Nat.mod_lt _ (by omega)) (by simpa using h'.2)
      omega

/-- a list that is empty or starts with a character that is not a digit -/
def NDHead (l : List Char) : Prop := ∀ c r, l = c :: r → c.isDigit = false

theorem digits_span (xs ys x y : List Char) (hx : ∀ c ∈ xs, c.isDigit = true) (hy : ∀ c ∈ ys, c.isDigit = true)
    (nx : NDHead x) (ny : NDHead y) (h : xs ++ x = ys ++ y) : xs = ys ∧ x = y := by
  induction xs generalizing ys with
  | nil =>
    cases ys with
    | nil => exact ⟨rfl, by simpa using h⟩
    | cons d ys' =>
      simp at h
      have := nx d (ys' ++ y) h
      have := hy d (by simp)
      simp_all
  | cons c xs ih =>
    cases ys with
    | nil =>
      simp at h
      have := ny c (xs ++ x) h.symm
      have := hx c (by simp)
      simp_all
    | cons d ys' =>
      simp at h
      obtain ⟨e, h⟩ := h
      have := ih ys' (fun c hc => hx c (by simp [hc])) (fun c hc => hy c (by simp [hc])) h
      exact ⟨by rw [e, this.1], this.2⟩

theorem dec_prefix (a b : Nat) (x y : List Char) (nx : NDHead x) (ny : NDHead y)
    (h : dec a ++ x = dec b ++ y) : a = b ∧ x = y := by
  have := digits_span _ _ x y (dec_digits a) (dec_digits b) nx ny h
  exact ⟨dec_inj a b this.1, this.2⟩


/-! ## Names: the index tuple can be read back -/

theorem ndhead_comma (l : List Char) : NDHead (',' :: l) := by
  intro c r h; cases h; decide

theorem ndhead_rbr (l : List Char) : NDHead (']' :: l) := by
  intro c r h; cases h; decide

theorem ndhead_commaTail_rbr (xs : List (List Char)) (l : List Char) : NDHead (commaTail xs ++ ']' :: l) := by
  cases xs with
  | nil => exact ndhead_rbr l
  | cons y r => simp only [commaTail, List.cons_append]; exact ndhead_comma _

theorem commaTail_inj (a b : List Nat) (X1 X2 : List Char) (hl : a.length = b.length)
    (h : commaTail (a.map fun i => dec (i + 1)) ++ ']' :: X1 = commaTail (b.map fun i => dec (i + 1)) ++ ']' :: X2) :
    a = b ∧ X1 = X2 := by
  induction a generalizing b with
  | nil =>
    cases b with
    | nil => simp [commaTail] at h; exact ⟨rfl, h⟩
    | cons y b => simp at hl
  | cons x a ih =>
    cases b with
    | nil => simp at hl
    | cons y b =>
      simp only [List.map_cons, commaTail, List.cons_append, List.cons.injEq, true_and, List.append_assoc] at h
      have := dec_prefix (x + 1) (y + 1) _ _ (ndhead_commaTail_rbr _ X1) (ndhead_commaTail_rbr _ X2) h
      have r := ih b (by simpa using hl) this.2
      exact ⟨by rw [r.1]; congr 1; omega, r.2⟩

theorem idxText_inj (a b : List Nat) (X1 X2 : List Char) (hl : a.length = b.length)
    (h : idxText a ++ X1 = idxText b ++ X2) : a = b ∧ X1 = X2 := by
  cases a with
  | nil =>
    cases b with
    | nil => simp [idxText, commaSep] at h; exact ⟨rfl, h⟩
    | cons y b => simp at hl
  | cons x a =>
    cases b with
    | nil => simp at hl
    | cons y b =>
      simp only [idxText, List.map_cons, commaSep, List.cons_append, List.cons.injEq, true_and,
        List.append_assoc, List.singleton_append] at h
      have := dec_prefix (x + 1) (y + 1) _ _ (ndhead_commaTail_rbr _ X1) (ndhead_commaTail_rbr _ X2) h
      have r := commaTail_inj a b X1 X2 (by simpa using hl) this.2
      exact ⟨by rw [r.1]; congr 1; omega, r.2⟩

/-- number of indices the levels consume -/
def need : List (List Char × Level) → Nat
  | [] => 0
  | (_, none) :: rest => need rest
  | (_, some ds) :: rest => ds.length + need rest

theorem dotTail_nameLevels_inj (L : List (List Char × Level)) (i1 i2 : List Nat) (R1 R2 : List Char)
    (h1 : i1.length = need L) (h2 : i2.length = need L)
    (h : dotTail (nameLevels L i1) ++ R1 = dotTail (nameLevels L i2) ++ R2) : i1 = i2 ∧ R1 = R2 := by
  induction L generalizing i1 i2 with
  | nil =>
    simp only [need] at h1 h2
    simp only [nameLevels, dotTail, List.nil_append] at h
    exact ⟨by rw [List.length_eq_zero_iff.1 h1, List.length_eq_zero_iff.1 h2], h⟩
  | cons pl rest ih =>
    obtain ⟨p, lv⟩ := pl
    cases lv with
    | none =>
      simp only [need] at h1 h2
      simp only [nameLevels, dotTail, List.cons_append, List.cons.injEq, true_and, List.append_assoc] at h
      exact ih i1 i2 h1 h2 (List.append_cancel_left h)
    | some ds =>
      simp only [need] at h1 h2
      simp only [nameLevels, dotTail, List.cons_append, List.cons.injEq, true_and, List.append_assoc] at h
      have h' := List.append_cancel_left h
      have := idxText_inj _ _ _ _ (by simp [List.length_take]; omega) h'
      have r := ih (i1.drop ds.length) (i2.drop ds.length) (by simp; omega) (by simp; omega) this.2
      refine ⟨?_, r.2⟩
      rw [← List.take_append_drop ds.length i1, ← List.take_append_drop ds.length i2, this.1, r.1]

theorem dotJoin_nameLevels_inj (L : List (List Char × Level)) (i1 i2 : List Nat) (R1 R2 : List Char)
    (h1 : i1.length = need L) (h2 : i2.length = need L)
    (h : dotJoin (nameLevels L i1) ++ R1 = dotJoin (nameLevels L i2) ++ R2) : i1 = i2 ∧ R1 = R2 := by
  cases L with
  | nil =>
    simp only [need] at h1 h2
    simp only [nameLevels, dotJoin, List.nil_append] at h
    exact ⟨by rw [List.length_eq_zero_iff.1 h1, List.length_eq_zero_iff.1 h2], h⟩
  | cons pl rest =>
    obtain ⟨p, lv⟩ := pl
    cases lv with
    | none =>
      simp only [need] at h1 h2
      simp only [nameLevels, dotJoin, List.append_assoc] at h
      exact dotTail_nameLevels_inj rest i1 i2 R1 R2 h1 h2 (List.append_cancel_left h)
    | some ds =>
      simp only [need] at h1 h2
      simp only [nameLevels, dotJoin, List.append_assoc] at h
      have h' := List.append_cancel_left h
      have := idxText_inj _ _ _ _ (by simp [List.length_take]; omega) h'
      have r := dotTail_nameLevels_inj rest (i1.drop ds.length) (i2.drop ds.length) R1 R2
        (by simp; omega) (by simp; omega) this.2
      refine ⟨?_, r.2⟩
      rw [← List.take_append_drop ds.length i1, ← List.take_append_drop ds.length i2, this.1, r.1]

theorem need_zip (parts : List (List Char)) (ms : MShape) (h : parts.length = ms.length) :
    need (parts.zip ms) = (iterShape ms).length := by
  induction parts generalizing ms with
  | nil => cases ms <;> simp_all [need, iterShape]
  | cons p parts ih =>
    cases ms with
    | nil => simp at h
    | cons l ms =>
      have := ih ms (by simpa using h)
      cases l <;> simp_all [need, iterShape, List.flatMap_cons]

/-! ## Names: brackets can be stripped to recover the variable -/

/-- remove every `[ … ]` group -/
def unbr : Bool → List Char → List Char
  | _, [] => []
  | false, c :: r => if c = '[' then unbr true r else c :: unbr false r
  | true, c :: r => if c = ']' then unbr false r else unbr true r

def NoBr (l : List Char) : Prop := '[' ∉ l

theorem unbr_append_noBr (l X : List Char) (h : NoBr l) : unbr false (l ++ X) = l ++ unbr false X := by
  induction l with
  | nil => rfl
  | cons c l ih =>
    have hc : c ≠ '[' := fun e => h (by simp [e])
    have hl : NoBr l := fun m => h (by simp [m])
    simp [unbr, hc, ih hl]

theorem unbr_true_skip (l X : List Char) (h : ']' ∉ l) : unbr true (l ++ ']' :: X) = unbr false X := by
  induction l with
  | nil => simp [unbr]
  | cons c l ih =>
    have hc : c ≠ ']' := fun e => h (by simp [e])
    have hl : ']' ∉ l := fun m => h (by simp [m])
    simp [unbr, hc, ih hl]

theorem rbr_not_mem_dec (n : Nat) : ']' ∉ dec n := by
  intro h; have := dec_digits n _ h; revert this; decide

theorem rbr_not_mem_commaTail (a : List Nat) : ']' ∉ commaTail (a.map fun i => dec (i + 1)) := by
  induction a with
  | nil => simp [commaTail]
  | cons x a ih =>
    simp only [List.map_cons, commaTail, List.mem_cons, List.mem_append, not_or]
    exact ⟨by decide, rbr_not_mem_dec _, ih⟩

theorem unbr_idxText (a : List Nat) (X : List Char) : unbr false (idxText a ++ X) = unbr false X := by
  cases a with
  | nil => simp [idxText, commaSep, unbr]
  | cons x a =>
    simp only [idxText, List.map_cons, commaSep, List.cons_append, unbr, if_true, List.append_assoc,
      List.singleton_append]
    rw [← List.append_assoc]
    apply unbr_true_skip
    simp only [List.mem_append, not_or]
    exact ⟨rbr_not_mem_dec _, rbr_not_mem_commaTail a⟩

theorem unbr_dotTail_nameLevels (L : List (List Char × Level)) (idx : List Nat) (X : List Char)
    (hL : ∀ pl ∈ L, NoBr pl.1) :
    unbr false (dotTail (nameLevels L idx) ++ X) = dotTail (L.map (·.1)) ++ unbr false X := by
  induction L generalizing idx with
  | nil => simp [nameLevels, dotTail]
  | cons pl rest ih =>
    obtain ⟨p, lv⟩ := pl
    have hp : NoBr p := hL (p, lv) (by simp)
    have hr : ∀ pl ∈ rest, NoBr pl.1 := fun pl m => hL pl (by simp [m])
    have hdot : ('.' : Char) ≠ '[' := by decide
    cases lv with
    | none =>
      simp only [nameLevels, dotTail, List.cons_append, List.map_cons, unbr, hdot, if_false, List.append_assoc]
      rw [unbr_append_noBr _ _ hp, ih _ hr]
    | some ds =>
      simp only [nameLevels, dotTail, List.cons_append, List.map_cons, unbr, hdot, if_false, List.append_assoc]
      rw [unbr_append_noBr _ _ hp, unbr_idxText, ih _ hr]

theorem unbr_dotJoin_nameLevels (L : List (List Char × Level)) (idx : List Nat) (X : List Char)
    (hL : ∀ pl ∈ L, NoBr pl.1) :
    unbr false (dotJoin (nameLevels L idx) ++ X) = dotJoin (L.map (·.1)) ++ unbr false X := by
  cases L with
  | nil => simp [nameLevels, dotJoin]
  | cons pl rest =>
    obtain ⟨p, lv⟩ := pl
    have hp : NoBr p := hL (p, lv) (by simp)
    have hr : ∀ pl ∈ rest, NoBr pl.1 := fun pl m => hL pl (by simp [m])
    cases lv with
    | none =>
      simp only [nameLevels, dotJoin, List.map_cons, List.append_assoc]
      rw [unbr_append_noBr _ _ hp, unbr_dotTail_nameLevels _ _ _ hr]
    | some ds =>
      simp only [nameLevels, dotJoin, List.map_cons, List.append_assoc]
      rw [unbr_append_noBr _ _ hp, unbr_idxText, unbr_dotTail_nameLevels _ _ _ hr]

theorem map_fst_zip (parts : List (List Char)) (ms : MShape) (h : parts.length = ms.length) :
    (parts.zip ms).map (·.1) = parts := by
  induction parts generalizing ms with
  | nil => simp
  | cons p parts ih =>
    cases ms with
    | nil => simp at h
    | cons l ms => simp [ih ms (by simpa using h)]


/-! ## Storage position of an element -/

theorem prod_mxShape (ds : List Nat) : (mxShape ds).1 * (mxShape ds).2 = prod ds := by
  match ds with
  | [] => simp [mxShape, prod]
  | [n] => simp [mxShape, prod]
  | [n, m] => simp [mxShape, prod]
  | _ :: _ :: _ :: _ => simp [mxShape]

/-- the storage position `k` of element `idx` and its row-major rank: `k / r + (k % r) * c` is what
    `transpose ∘ reshape` reads at position `k` -/
theorem pos_lemma (ds idx : List Nat) (hne : ds ≠ []) (h : InRange ds idx) :
    elemPos ds idx < (mxShape ds).1 * (mxShape ds).2 ∧
    elemPos ds idx / (mxShape ds).1 + (elemPos ds idx % (mxShape ds).1) * (mxShape ds).2 = ravel ds idx := by
  match ds, idx, h with
  | [], _, _ => exact absurd rfl hne
  | [n], [i], h =>
    simp only [InRange, and_true] at h
    simp [mxShape, elemPos, ravel, prod, Nat.div_eq_of_lt h, Nat.mod_eq_of_lt h, h]
  | [n, m], [i, j], h =>
    simp only [InRange, and_true] at h
    obtain ⟨hi, hj⟩ := h
    simp only [mxShape, elemPos, ravel, prod, Nat.mul_one, Nat.add_zero]
    refine ⟨?_, ?_⟩
    · have := lin_lt hi hj; rw [Nat.mul_comm n m]; exact this
    · rw [lin_div hi, lin_mod hi]; omega
  | a :: b :: c :: rest, idx, h =>
    have hlt := ravel_lt _ _ h
    have e : elemPos (a :: b :: c :: rest) idx = ravel (a :: b :: c :: rest) idx := by
      unfold elemPos; split <;> simp_all
    rw [e]
    simp only [mxShape, Nat.mul_one]
    exact ⟨hlt, by rw [Nat.div_eq_of_lt hlt, Nat.mod_eq_of_lt hlt]; omega⟩
  | [_], [], h => simp [InRange] at h
  | [_], _ :: _ :: _, h => simp [InRange] at h
  | [_, _], [], h => simp [InRange] at h
  | [_, _], [_], h => simp [InRange] at h
  | [_, _], _ :: _ :: _ :: _, h => simp [InRange] at h

theorem substValue_data {α} [Inhabited α] (r c : Nat) (elems : List α) :
    (substValue r c elems).data = (List.range (c * r)).map fun k => elems.getD (k / r + (k % r) * c) default := rfl

/-! ## Attribute selection -/

/-- `Shaped v ds`: `v` is a rectangular nested list of shape `ds` -/
def Shaped : NList → List Nat → Prop
  | .leaf _, ds => ds = []
  | .nil, ds => ∃ ds', ds = 0 :: ds'
  | .cons h t, ds => ∃ d ds', ds = (d + 1) :: ds' ∧ Shaped h ds' ∧ Shaped t (d :: ds')

theorem nth_shaped (v : NList) (d : Nat) (ds : List Nat) (i : Nat) (h : Shaped v (d :: ds)) (hi : i < d) :
    ∃ x, v.nth i = .ok x ∧ Shaped x ds := by
  induction v generalizing d i with
  | leaf _ => simp [Shaped] at h
  | nil => simp [Shaped] at h; omega
  | cons hd tl _ iht =>
    simp only [Shaped] at h
    obtain ⟨d', ds', e, hh, ht⟩ := h
    simp only [List.cons.injEq] at e
    obtain ⟨e1, e2⟩ := e
    subst e2
    cases i with
    | zero => exact ⟨hd, rfl, hh⟩
    | succ i => simp only [NList.nth]; exact iht d' i ht (by omega)

theorem sel_shaped (v : NList) (ds idx : List Nat) (h : Shaped v ds) (hr : InRange ds idx) :
    ∃ x, v.sel idx = .ok (.leaf x) := by
  induction idx generalizing v ds with
  | nil =>
    cases ds with
    | nil =>
      cases v with
      | leaf x => exact ⟨x, rfl⟩
      | nil => simp [Shaped] at h
      | cons _ _ => simp [Shaped] at h
    | cons _ _ => simp [InRange] at hr
  | cons i is ih =>
    cases ds with
    | nil => simp [InRange] at hr
    | cons d ds =>
      simp only [InRange] at hr
      obtain ⟨x, hx, hs⟩ := nth_shaped v d ds i h hr.1
      simp only [NList.sel, hx]
      exact ih x ds hs hr.2

theorem depth_shaped (v : NList) (ds : List Nat) (h : Shaped v ds) (hpos : ∀ d ∈ ds, 0 < d) :
    v.depth = ds.length := by
  induction v generalizing ds with
  | leaf _ => simp [Shaped] at h; simp [NList.depth, h]
  | nil => simp [Shaped] at h; obtain ⟨ds', e⟩ := h; subst e; simp at hpos
  | cons hd tl ihh _ =>
    simp only [Shaped] at h
    obtain ⟨d', ds', e, hh, _⟩ := h
    subst e
    simp only [NList.depth, List.length_cons]
    rw [ihh ds' hh (fun d m => hpos d (by simp [m]))]

/-! ## Outputs -/

theorem splice_absent (xs : List (List Char)) (name : List Char) (new : List (List Char)) (h : name ∉ xs) :
    splice xs name new = xs := by
  induction xs with
  | nil => rfl
  | cons x r ih =>
    have hx : x ≠ name := fun e => h (by simp [e])
    simp [splice, hx, ih (fun m => h (by simp [m]))]

theorem splice_at (l1 l2 : List (List Char)) (name : List Char) (new : List (List Char)) (h : name ∉ l1) :
    splice (l1 ++ name :: l2) name new = l1 ++ new ++ l2 := by
  induction l1 with
  | nil => simp [splice]
  | cons x r ih =>
    have hx : x ≠ name := fun e => h (by simp [e])
    simp [splice, hx, ih (fun m => h (by simp [m]))]

end PymocaVerif.VecExpand
