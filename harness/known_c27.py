"""Predicate of the open C27 finding (input class of proposed_fixes/C27-1.diff)."""
from harness.common import known_predicate


def _within_before_own_file(meta, order):
    pos = {f: k for k, f in enumerate(order)}
    for i in order:
        w = meta[i]["within"]
        for n in range(1, len(w) + 1):
            for j in order:
                if j != i and w[:n] in meta[j]["defines"] and pos[j] > pos[i]:
                    return True
    return False


@known_predicate
def c27_within_before_package(case, what):
    """A file with `within P…;` is merged before the file that defines the content-carrying package P
    (or an enclosing one): P keeps the placeholder's empty content, so classes lose P's constants."""
    if what not in ("flattened model differs from the unsplit library's for this file order",
                    "merged tree differs from the unsplit library's (class path -> class content)"):
        return False
    meta, order = case.get("meta"), case.get("order")
    if not meta or order is None or not case.get("shadowed"):
        return False
    return _within_before_own_file(meta, order)
