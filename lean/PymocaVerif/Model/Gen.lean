import PymocaVerif.Model.ExprSem
/-!
# The translation `pymoca.backends.casadi.generator.Generator` performs (`Gen`)

Target language `CTerm`: CasADi-like terms at the level of flat value lists.  A node is what the
generator *builds* (a method call on an `MX` by method name, `if_else`, `vertcat`, a `Function.map`
over the loop values, a `Function.call`), and `evalC` is what CasADi computes for it, with every method
name interpreted by `methPrim2` / `methPrim1` (a name `MX` does not have is not translatable:
`hasMeth`).  The three representation options of C12 only put tags on `map` and `call` nodes
(`MapMode`, `inl`) and on the final function (`expand`); `evalC` never reads a tag.

What is transcribed (generator.py, as of the `fix:` commits listed in the lead's brief):
* `OP_MAP` (`opMap`), the dispatch order of `exitExpression` (`genUn`, `genBin`, `gen`): unary `-`,
  `+`, `not ↦ if_else(x, 0, 1)`, `* ↦ mtimes`, leading `.` stripped, `OP_MAP` with 2 / 1 operands,
  `hasattr(MX, op)`, else `get_function(op)` (`Unknown function`);
* `exitIfExpression` / `exitIfEquation`: fold of `if_else` from the last branch (`foldFromLast`);
* `exitEquation`: `vertcat` of a tuple, truncation of a call's outputs, `lhs - rhs`;
* `ForLoop.__init__`: `np.arange(start, stop ± 1, step)` (`arangeCode`), `exitForEquation`: the body
  mapped over the values and transposed (`bodyMajor` layout), empty loop ↦ no entries (since 8f76abc
  also when the body has computed subscripts: `register_indexed_symbol` skips its index map then);
* `get_function`, `exitAssignmentStatement`, `exitIfStatement`, `exitForStatement`: symbolic execution
  by sequential substitution (`applyAssigns`, `mergeIf`, `mapAt` entries of the mapped right-hand sides).
-/
namespace PymocaVerif.Gen
open PymocaVerif.ExprSem

/-- `MX` attributes the generator can reach by name. -/
inductive Meth
  | add_ | sub_ | mul_ | truediv_ | div_ | pow_ | gt_ | lt_ | le_ | ge_ | ne_ | eq_
  | fmin | fmax | fabs | mtimes | neg_ | sum1 | elem (e : Elem)
  deriving DecidableEq, Repr, Inhabited

/-- `hasattr(casadi.MX, name)` (CasADi 3.8): no `__div__`; the inverse trigonometric functions are
    called `arcsin`… there, so the Modelica names `asin`, `acos`, `atan` are absent. -/
def hasMeth : Meth → Bool
  | .div_ => false
  | .elem .asin | .elem .acos | .elem .atan => false
  | _ => true

def methPrim2 : Meth → Option Prim2
  | .add_ => some .add | .sub_ => some .sub | .mul_ => some .mul | .truediv_ => some .div
  | .pow_ => some .pow | .gt_ => some .gt | .lt_ => some .lt | .le_ => some .le | .ge_ => some .ge
  | .ne_ => some .ne | .eq_ => some .eq | .fmin => some .min | .fmax => some .max
  | .mtimes => some .mul
  | _ => none

def methPrim1 : Meth → Option Prim1
  | .fabs => some .abs | .neg_ => some .neg
  | .elem e => if hasMeth (.elem e) then some (.elem e) else none
  | _ => none

/-- `generator.OP_MAP` after the leading `.` of element-wise operators was stripped.  `*` itself never
    reaches the map (it becomes `mtimes` first); Modelica's `<>` has no entry (the map's `!=` key is
    not Modelica syntax). -/
def opMap : BinOp → Option Meth
  | .add | .eadd => some .add_
  | .sub | .esub => some .sub_
  | .mul | .emul => some .mul_
  | .div | .ediv => some .truediv_
  | .pow | .epow => some .pow_
  | .gt => some .gt_ | .lt => some .lt_ | .le => some .le_ | .ge => some .ge_ | .eq => some .eq_
  | .ne => none
  | .min => some .fmin | .max => some .fmax
  | .and => some .mul_ | .or => some .add_

def binName : BinOp → String
  | .add => "+" | .sub => "-" | .mul => "*" | .div => "/" | .pow => "^"
  | .eadd => ".+" | .esub => ".-" | .emul => ".*" | .ediv => "./" | .epow => ".^"
  | .lt => "<" | .le => "<=" | .gt => ">" | .ge => ">=" | .eq => "==" | .ne => "<>"
  | .and => "and" | .or => "or" | .min => "min" | .max => "max"

def elemName : Elem → String
  | .sin => "sin" | .cos => "cos" | .tan => "tan" | .asin => "asin" | .acos => "acos" | .atan => "atan"
  | .sinh => "sinh" | .cosh => "cosh" | .tanh => "tanh" | .exp => "exp" | .log => "log"
  | .log10 => "log10" | .sqrt => "sqrt" | .sign => "sign" | .floor => "floor" | .ceil => "ceil"

inductive MapMode | inline | serial
  deriving DecidableEq, Repr, Inhabited

/-- The representation options of C12. -/
structure Opts where
  unroll : Bool := true
  inline : Bool := true
  expand : Bool := false
  deriving DecidableEq, Repr, Inhabited

def Opts.mapMode (o : Opts) : MapMode := if o.unroll then .inline else .serial

inductive Op1
  | meth (m : Meth)
  deriving DecidableEq, Repr, Inhabited

inductive Op2
  | meth (m : Meth)
  | truncR                  -- `src_right[0:src_left.size1()]` when the left is shorter
  deriving DecidableEq, Repr, Inhabited

mutual
inductive CTerm (K : Type) where
  | const (q : K)
  | ref (name : String) (subs : List Sub)
  | idx (i : String)
  | op1 (f : Op1) (a : CTerm K)
  | op2 (f : Op2) (a b : CTerm K)
  | ifElse (c t f : CTerm K)
  | vcat (ts : CTerms K)
  /-- `F.map("map", mode, len(vals), …)` of the loop body over the index values; `transposed` = the
      `.T` of `exitForEquation`. -/
  | map (mode : MapMode) (i : String) (vals : List Int) (transposed : Bool) (body : CTerm K)
  /-- One entry `res[0][j, k]` of the mapped right-hand sides of a for-statement: the `j`-th (scalar)
      right-hand side at the `k`-th index value `v`.  CasADi computes the other entries too, but their
      values cannot influence this one (no entry raises), so only this entry is evaluated. -/
  | mapAt (mode : MapMode) (i : String) (v : Int) (body : CTerm K)
  /-- `func.call(args, *function_mode)`; the `Function` carries its own closed body. -/
  | call (inl : Bool) (fn : CFunc K) (args : CTerms K)
inductive CTerms (K : Type) where
  | nil
  | cons (t : CTerm K) (ts : CTerms K)
inductive CFunc (K : Type) where
  | mk (params : List String) (outs : CTerms K)
end

def CTerms.toList : CTerms K → List (CTerm K)
  | .nil => []
  | .cons t ts => t :: ts.toList

def CTerms.ofList : List (CTerm K) → CTerms K
  | [] => .nil
  | t :: ts => .cons t (CTerms.ofList ts)

def evalOp1 (P : Prims K) (f : Op1) (x : List K) : Option (List K) :=
  match f with
  | .meth .sum1 => do let s ← sumList P x; some [s]
  | .meth m => do let p ← methPrim1 m; mapOpt (P.p1 p) x

def evalOp2 (P : Prims K) (f : Op2) (x y : List K) : Option (List K) :=
  match f with
  | .truncR => some (truncTo x y)
  | .meth m => do
    let p ← methPrim2 m
    if m = .mtimes ∧ x.length ≠ 1 ∧ y.length ≠ 1 then none else lift2 (P.p2 p) x y

/-- Environment of a `Function` body: the parameters only. -/
def funcEnv (params : List String) (vs : List (List K)) : Env K :=
  storeEnv (params.zip vs) (fun _ => none)

mutual
def evalC (P : Prims K) (ρ : Env K) : CTerm K → Option (List K)
  | .const q => some [q]
  | .ref n s => ρ.lookup n s
  | .idx i => do let v ← ρ.idx i; some [P.ofInt v]
  | .op1 f a => do let x ← evalC P ρ a; evalOp1 P f x
  | .op2 f a b => do let x ← evalC P ρ a; let y ← evalC P ρ b; evalOp2 P f x y
  | .ifElse c t f => do   -- `if_else(c, t, f, True)`: short-circuit, only the taken branch is evaluated
    let vc ← evalC P ρ c
    let b ← condOf P vc
    if b then evalC P ρ t else evalC P ρ f
  | .vcat ts => do let vs ← evalCs P ρ ts; some vs.flatten
  | .map _ i vals tr body => do
    let rows ← rowsOver (fun v => evalC P (ρ.bind i v) body) vals
    some (if tr then bodyMajor rows else rows.flatten)
  | .mapAt _ i v body => evalC P (ρ.bind i v) body
  | .call _ fn args => do let vs ← evalCs P ρ args; evalCF P fn vs
def evalCs (P : Prims K) (ρ : Env K) : CTerms K → Option (List (List K))
  | .nil => some []
  | .cons t ts => do let v ← evalC P ρ t; let vs ← evalCs P ρ ts; some (v :: vs)
def evalCF (P : Prims K) : CFunc K → List (List K) → Option (List K)
  | .mk params outs, vs =>
    if vs.length = params.length then do
      let os ← evalCs P (funcEnv params vs) outs
      some os.flatten
    else none
end

def evalCL (P : Prims K) (ρ : Env K) : List (CTerm K) → Option (List (List K))
  | [] => some []
  | t :: ts => do let v ← evalC P ρ t; let vs ← evalCL P ρ ts; some (v :: vs)

/-! ## Translation of expressions -/

inductive GenErr
  | unknownFunction (f : String)        -- `Exception("Unknown function …")`
  | attributeError (m : Meth)           -- `getattr(MX, name)` on a missing method
  | assertion (what : String)           -- a failed `assert` / explicit `raise Exception`
  | keyError (x : String)
  | zeroStep                            -- `np.arange(…, 0)`
  deriving DecidableEq, Repr, Inhabited

abbrev G := Except GenErr

/-- `Generator.functions` / `root.classes`: `none` = no such class, `some (error e)` = translating it
    raises `e`. -/
abbrev FTab (K : Type) := String → Option (G (CFunc K))

def userCall (o : Opts) (T : FTab K) (name : String) (args : List (CTerm K)) : G (CTerm K) :=
  match T name with
  | some (.ok fn) => .ok (.call o.inline fn (CTerms.ofList args))
  | some (.error e) => .error e
  | none => .error (.unknownFunction name)

def genUn (P : Prims K) (o : Opts) (T : FTab K) (op : UnOp) (ta : CTerm K) : G (CTerm K) :=
  match op with
  | .neg => .ok (.op1 (.meth .neg_) ta)
  | .pos => .ok ta
  | .not => .ok (.ifElse ta (.const P.zero) (.const P.one))
  | .abs => .ok (.op1 (.meth .fabs) ta)
  | .sum => .ok (.op1 (.meth .sum1) ta)
  | .elem e => if hasMeth (.elem e) then .ok (.op1 (.meth (.elem e)) ta) else userCall o T (elemName e) [ta]

def genBin (o : Opts) (T : FTab K) (op : BinOp) (ta tb : CTerm K) : G (CTerm K) :=
  if op = .mul then .ok (.op2 (.meth .mtimes) ta tb) else
  match opMap op with
  | some m => if hasMeth m then .ok (.op2 (.meth m) ta tb) else .error (.attributeError m)
  | none => userCall o T (binName op) [ta, tb]

/-- The loop of `exitIfExpression` / `exitIfEquation`: start from the last value and wrap
    `if_else(cond, value, src)` walking both lists from the back. -/
def foldFromLast (cs es : List (CTerm K)) : CTerm K :=
  match es.reverse with
  | [] => .vcat .nil
  | last :: restRev => (cs.reverse.zip restRev).foldl (fun acc p => .ifElse p.1 p.2 acc) last

mutual
def gen (P : Prims K) (o : Opts) (T : FTab K) : MExpr K → G (CTerm K)
  | .num q => .ok (.const q)
  | .ref n s => .ok (.ref n s)
  | .idx i => .ok (.idx i)
  | .un op a => do let ta ← gen P o T a; genUn P o T op ta
  | .bin op a b => do let ta ← gen P o T a; let tb ← gen P o T b; genBin o T op ta tb
  | .ife bs => do
    let ce ← genBr P o T bs
    .ok (foldFromLast ce.1 ce.2)
  | .call f args => do let tas ← gens P o T args; userCall o T f tas
  | .delay k e d => do
    -- the operands are translated (errors in them surface), the operator itself is a new input symbol
    let _ ← gen P o T e
    let _ ← gen P o T d
    .ok (.ref (delayName k) [])
def gens (P : Prims K) (o : Opts) (T : FTab K) : MExprs K → G (List (CTerm K))
  | .nil => .ok []
  | .cons e es => do let t ← gen P o T e; let ts ← gens P o T es; .ok (t :: ts)
/-- The translated conditions and the translated expressions (one more) of an if-expression. -/
def genBr (P : Prims K) (o : Opts) (T : FTab K) : MBranches K → G (List (CTerm K) × List (CTerm K))
  | .last e => do let t ← gen P o T e; .ok ([], [t])
  | .cons c e rest => do
    let tc ← gen P o T c
    let te ← gen P o T e
    let ce ← genBr P o T rest
    .ok (tc :: ce.1, te :: ce.2)
end

def genL (P : Prims K) (o : Opts) (T : FTab K) : List (MExpr K) → G (List (CTerm K))
  | [] => .ok []
  | e :: es => do let t ← gen P o T e; let ts ← genL P o T es; .ok (t :: ts)

/-! ## Equations -/

/-- `np.arange(start, stop, step)` on integers. -/
def arange (start stop step : Int) : List Int :=
  if step > 0 then steps start step ((stop - start + step - 1) / step).toNat
  else if step < 0 then steps start step ((start - stop + (-step) - 1) / (-step)).toNat
  else []

/-- `ForLoop.__init__`: `np.arange(start, stop + (1 if step > 0 else -1), step)`. -/
def arangeCode (start step stop : Int) : List Int :=
  arange start (if step > 0 then stop + 1 else stop - 1) step

def knownFn (T : FTab K) (f : String) : Bool := (T f).isSome

/-- Left-hand side: `get_mx(tree.left)`, or `vertcat` of a tuple. -/
def lhsTerm (tl : List (CTerm K)) : CTerm K :=
  match tl with
  | [t] => t
  | _ => .vcat (CTerms.ofList tl)

def genSEq (P : Prims K) (o : Opts) (T : FTab K) (e : SEq K) : G (CTerm K) := do
  let tl ← genL P o T e.ls
  let tr ← gen P o T e.r
  let L := lhsTerm tl
  let R := if rhsIsCall (knownFn T) e.r then .op2 .truncR L tr else tr
  .ok (.op2 (.meth .sub_) L R)

def genBlock (P : Prims K) (o : Opts) (T : FTab K) : List (SEq K) → G (List (CTerm K))
  | [] => .ok []
  | e :: es => do let t ← genSEq P o T e; let ts ← genBlock P o T es; .ok (t :: ts)

def genBlocks (P : Prims K) (o : Opts) (T : FTab K) : List (List (SEq K)) → G (List (CTerm K))
  | [] => .ok []
  | b :: bs => do
    let ts ← genBlock P o T b
    let rest ← genBlocks P o T bs
    .ok (.vcat (CTerms.ofList ts) :: rest)

def sameLengths (xs : List (List α)) : Bool :=
  match xs with
  | [] => true
  | x :: rest => rest.all (fun y => y.length == x.length)

def genMEq (P : Prims K) (o : Opts) (T : FTab K) (ienv : String → Option Int) : MEq K → G (CTerm K)
  | .simple e => genSEq P o T e
  | .ifeq cs bs => do
    let tcs ← genL P o T cs
    let tbs ← genBlocks P o T bs
    if !(sameLengths bs) then .error (.assertion "Every branch in an if-equation needs the same number of equations.")
    else if tcs.length + 1 = tbs.length then .ok (foldFromLast tcs tbs)
    else .error (.assertion "if-equation without else")
  | .foreq i start stop step body => do
    let hi ← match stop.eval ienv with
      | some h => pure h
      | none => .error (.assertion "get_integer")
    if step = 0 then .error .zeroStep else
    let vals := arangeCode start step hi
    let ts ← genBlock P o T body
    if vals.isEmpty then .ok (.vcat .nil)
    else .ok (.map o.mapMode i vals true (.vcat (CTerms.ofList ts)))

def genMEqs (P : Prims K) (o : Opts) (T : FTab K) (ienv : String → Option Int) : List (MEq K) → G (List (CTerm K))
  | [] => .ok []
  | e :: es => do let t ← genMEq P o T ienv e; let ts ← genMEqs P o T ienv es; .ok (t :: ts)

/-! ## Functions: `get_function` -/

/-- `values` of `get_function`: current symbolic value of every assigned variable, latest first. -/
abbrev SymVals (K : Type) := List (String × CTerm K)

def SymVals.get (σ : SymVals K) (x : String) : Option (CTerm K) :=
  match σ with
  | [] => none
  | (y, t) :: rest => if y = x then some t else SymVals.get rest x

mutual
/-- `ca.substitute(expr, keys, values)`: whole-symbol references are replaced simultaneously; the
    body of a called `Function` is closed and untouched. -/
def subst (σ : SymVals K) : CTerm K → CTerm K
  | .const q => .const q
  | .ref n [] => match SymVals.get σ n with
    | some s => s
    | none => .ref n []
  | .ref n (s :: ss) => .ref n (s :: ss)
  | .idx i => .idx i
  | .op1 f a => .op1 f (subst σ a)
  | .op2 f a b => .op2 f (subst σ a) (subst σ b)
  | .ifElse c t f => .ifElse (subst σ c) (subst σ t) (subst σ f)
  | .vcat ts => .vcat (substs σ ts)
  | .map m i vals tr body => .map m i vals tr (subst σ body)
  | .mapAt m i v body => .mapAt m i v (subst σ body)
  | .call inl fn args => .call inl fn (substs σ args)
def substs (σ : SymVals K) : CTerms K → CTerms K
  | .nil => .nil
  | .cons t ts => .cons (subst σ t) (substs σ ts)
end

/-- The loop `for assignment in src: values[left] = substitute(right, keys(values), values(values))`. -/
def applyAssigns (vals : SymVals K) : List (String × CTerm K) → SymVals K
  | [] => vals
  | (x, t) :: rest => applyAssigns ((x, subst vals t) :: vals) rest

def genRhs (P : Prims K) (o : Opts) (T : FTab K) : List (String × MExpr K) → G (List (String × CTerm K))
  | [] => .ok []
  | (x, e) :: rest => do let t ← gen P o T e; let ts ← genRhs P o T rest; .ok ((x, t) :: ts)

def genRhsBlocks (P : Prims K) (o : Opts) (T : FTab K) :
    List (List (String × MExpr K)) → G (List (List (String × CTerm K)))
  | [] => .ok []
  | b :: bs => do let t ← genRhs P o T b; let ts ← genRhsBlocks P o T bs; .ok (t :: ts)

/-- `expanded_blocks.setdefault(left, []).append(right)` in insertion order. -/
def expandInto (acc : List (String × List (CTerm K))) (x : String) (t : CTerm K) : List (String × List (CTerm K)) :=
  match acc with
  | [] => [(x, [t])]
  | (y, ts) :: rest => if y = x then (y, ts ++ [t]) :: rest else (y, ts) :: expandInto rest x t

def expandBlocks (as : List (String × CTerm K)) : List (String × List (CTerm K)) :=
  as.foldl (fun acc p => expandInto acc p.1 p.2) []

/-- `src = values[-1]; for cond, rhs in zip(conditions[-2::-1], values[-2::-1]): src = if_else(cond, rhs, src)`. -/
def mergeIf (tcs : List (CTerm K)) (vals : List (CTerm K)) : CTerm K :=
  match vals.reverse with
  | [] => .vcat .nil
  | last :: restRev => (tcs.reverse.zip restRev).foldl (fun acc p => .ifElse p.1 p.2 acc) last

def genStmt (P : Prims K) (o : Opts) (T : FTab K) : Stmt K → G (List (String × CTerm K))
  | .assign x e => do let t ← gen P o T e; .ok [(x, t)]
  | .ifs cs bs => do
    let tcs ← genL P o T cs
    let tbs ← genRhsBlocks P o T bs
    if !(sameLengths bs) then .error (.assertion "equal number of statements per branch") else
    let ex := expandBlocks tbs.flatten
    if !(sameLengths (ex.map (·.2))) then .error (.assertion "every branch assigns the same variables") else
    .ok (ex.map fun p => (p.1, mergeIf tcs p.2))
  | .for i start stop step body => do
    let hi ← match stop.eval (fun _ => none) with
      | some h => pure h
      | none => .error (.assertion "get_integer")
    if step = 0 then .error .zeroStep else
    let vals := arangeCode start step hi
    let rhs ← genRhs P o T body
    -- `res[0][j, k]` for every index value (outer) and every statement of the body (inner)
    .ok (vals.flatMap fun v => rhs.map fun p => (p.1, .mapAt o.mapMode i v p.2))

def genStmts (P : Prims K) (o : Opts) (T : FTab K) : List (Stmt K) → SymVals K → G (SymVals K)
  | [], vals => .ok vals
  | s :: ss, vals => do
    let as ← genStmt P o T s
    genStmts P o T ss (applyAssigns vals as)

def lookupAll (vals : SymVals K) : List String → G (List (String × CTerm K))
  | [] => .ok []
  | x :: xs =>
    match SymVals.get vals x with
    | none => .error (.keyError x)
    | some t => do let rest ← lookupAll vals xs; .ok ((x, t) :: rest)

def genFunc (P : Prims K) (o : Opts) (T : FTab K) (f : MFunc K) : G (CFunc K) := do
  let init : SymVals K := f.inputs.map (fun x => (x, .ref x []))
  let vals ← genStmts P o T f.body init
  let outs ← lookupAll vals f.outputs
  let tmps ← lookupAll vals f.locals
  .ok (.mk f.inputs (CTerms.ofList (outs.map fun p => subst tmps p.2)))

/-- Functions are declared before use (list kept latest-first, like `funcTable`). -/
def genTable (P : Prims K) (o : Opts) : List (MFunc K) → FTab K
  | [] => fun _ => none
  | f :: rest =>
    let T := genTable P o rest
    fun n => if n = f.name then some (genFunc P o T f) else T n

/-! ## Delay arguments -/

mutual
/-- The delay operators of an expression with their operands, in the order the tree walker meets them
    (operands before the operator). -/
def delaysOf : MExpr K → List (Nat × MExpr K × MExpr K)
  | .num _ => []
  | .ref _ _ => []
  | .idx _ => []
  | .un _ a => delaysOf a
  | .bin _ a b => delaysOf a ++ delaysOf b
  | .ife bs => delaysOfBr bs
  | .call _ args => delaysOfs args
  | .delay k e d => delaysOf e ++ delaysOf d ++ [(k, e, d)]
def delaysOfs : MExprs K → List (Nat × MExpr K × MExpr K)
  | .nil => []
  | .cons e es => delaysOf e ++ delaysOfs es
def delaysOfBr : MBranches K → List (Nat × MExpr K × MExpr K)
  | .last e => delaysOf e
  | .cons c e rest => delaysOf c ++ delaysOf e ++ delaysOfBr rest
end

def delaysOfSEq (e : SEq K) : List (Nat × MExpr K × MExpr K) :=
  e.ls.flatMap delaysOf ++ delaysOf e.r

/-- Delay operators of an equation (for-equations: the harness keeps `delay` out of loops, where the
    generator reshapes the delayed symbol). -/
def delaysOfMEq : MEq K → List (Nat × MExpr K × MExpr K)
  | .simple e => delaysOfSEq e
  | .ifeq cs bs => cs.flatMap delaysOf ++ bs.flatMap (fun b => b.flatMap delaysOfSEq)
  | .foreq _ _ _ _ _ => []

/-- `Model.delay_arguments`: per delay operator the translated expression and duration. -/
def genDelayArgs (P : Prims K) (o : Opts) (T : FTab K) :
    List (Nat × MExpr K × MExpr K) → G (List (CTerm K × CTerm K))
  | [] => .ok []
  | (_, e, d) :: rest => do
    let te ← gen P o T e
    let td ← gen P o T d
    let ts ← genDelayArgs P o T rest
    .ok ((te, td) :: ts)

/-! ## Whole model -/

structure MModel (K : Type) where
  funcs : List (MFunc K)       -- latest declaration first
  eqs : List (MEq K)
  ieqs : List (MEq K)

/-- The generated residual function: one term per flat equation, and the `expand_mx` tag of
    `Model.simplify` (`_expand_mx_func`), which `evalFn` ignores. -/
structure CFunction (K : Type) where
  expand : Bool
  outs : List (CTerm K)

def evalFn (P : Prims K) (ρ : Env K) (f : CFunction K) : Option (List (List K)) := evalCL P ρ f.outs

def genResidual (P : Prims K) (o : Opts) (ienv : String → Option Int) (m : MModel K) (initial : Bool) :
    G (CFunction K) := do
  let ts ← genMEqs P o (genTable P o m.funcs) ienv (if initial then m.ieqs else m.eqs)
  .ok ⟨o.expand, ts⟩

/-- The generated delay-argument function: `[expr₀, duration₀, expr₁, duration₁, …]`. -/
def genDelayFunction (P : Prims K) (o : Opts) (m : MModel K) : G (CFunction K) := do
  let ts ← genDelayArgs P o (genTable P o m.funcs) ((m.ieqs ++ m.eqs).flatMap delaysOfMEq)
  .ok ⟨o.expand, ts.flatMap fun p => [p.1, p.2]⟩

/-- The Modelica side: the values of the operands of every delay operator. -/
def delayArgsOfModel (P : Prims K) (ρ : Env K) (m : MModel K) : Option (List (List K)) :=
  evalML P (funcTable P m.funcs) ρ (((m.ieqs ++ m.eqs).flatMap delaysOfMEq).flatMap fun q => [q.2.1, q.2.2])

def residualsOfModel (P : Prims K) (ρ : Env K) (m : MModel K) (initial : Bool) : Option (List (List K)) :=
  residualsM P (funcTable P m.funcs) ρ (if initial then m.ieqs else m.eqs)

end PymocaVerif.Gen
