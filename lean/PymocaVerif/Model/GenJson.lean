import Lean.Data.Json
import PymocaVerif.Model.Gen
import PymocaVerif.Model.RatPrims
/-!
# JSON front end of the C11 / C12 drivers

Reads the serialisation of pymoca's *real* flat AST produced by `harness/gen/a08.py` (`ser_model`)
into the `MExpr`/`MEq`/`MFunc` types over `Rat`, builds the environment of an evaluation point and
answers with both sides: `evalC ∘ gen` (the model of the code) and `evalM` (the Modelica meaning).
Everything is total (JSON recursion is bounded by fuel).
-/
open Lean
namespace PymocaVerif.GenJson
open PymocaVerif.ExprSem PymocaVerif.Gen PymocaVerif.RatPrims

abbrev E := Except String

def parseRat (s : String) : E Rat :=
  match s.splitOn "/" with
  | [a, b] =>
    match a.toInt?, b.toNat? with
    | some n, some d => if d = 0 then .error s!"bad-rational {s}" else .ok (mkRat n d)
    | _, _ => .error s!"bad-rational {s}"
  | [a] => match a.toInt? with
    | some n => .ok (n : Rat)
    | none => .error s!"bad-rational {s}"
  | _ => .error s!"bad-rational {s}"

def showRat (q : Rat) : String := s!"{q.num}/{q.den}"

def kind (j : Json) : E String := j.getObjValAs? String "k"
def arr (j : Json) (k : String) : E (List Json) := do
  let a ← (← j.getObjVal? k).getArr?
  pure a.toList
def str (j : Json) (k : String) : E String := j.getObjValAs? String k

/-- Integer expressions (subscripts, loop bounds, dimensions). -/
def parseIdx : Nat → Json → E IdxE
  | 0, _ => .error "fuel"
  | fuel + 1, j => do
    match ← kind j with
    | "num" =>
      let q ← parseRat (← str j "v")
      if q.den = 1 then pure (.lit q.num) else .error "non-integer-index"
    | "ref" =>
      if (← arr j "idx").isEmpty then pure (.var (← str j "name")) else .error "subscripted-index"
    | "app" =>
      let op ← str j "op"
      let args ← (← arr j "args").mapM (parseIdx fuel)
      match op, args with
      | "+", [a, b] => pure (.add a b)
      | "-", [a, b] => pure (.sub a b)
      | "*", [a, b] => pure (.mul a b)
      | "-", [a] => pure (.neg a)
      | "+", [a] => pure a
      | _, _ => .error s!"index-operator {op}"
    | k => .error s!"index-kind {k}"

def parseOptIdx (fuel : Nat) (j : Json) : E (Option IdxE) := do
  if (← kind j) = "none" then pure none else pure (some (← parseIdx fuel j))

def parseSub (fuel : Nat) (j : Json) : E Sub := do
  if (← kind j) = "slice" then
    let st ← parseIdx fuel (← j.getObjVal? "step")
    match st with
    | .lit s =>
      pure (.range (← parseOptIdx fuel (← j.getObjVal? "start")) (← parseOptIdx fuel (← j.getObjVal? "stop")) s)
    | _ => .error "subscript-step-not-literal"
  else pure (.at (← parseIdx fuel j))

def elemOf : String → Option Elem
  | "sin" => some .sin | "cos" => some .cos | "tan" => some .tan | "asin" => some .asin
  | "acos" => some .acos | "atan" => some .atan | "sinh" => some .sinh | "cosh" => some .cosh
  | "tanh" => some .tanh | "exp" => some .exp | "log" => some .log | "log10" => some .log10
  | "sqrt" => some .sqrt | "sign" => some .sign | "floor" => some .floor | "ceil" => some .ceil
  | _ => none

def unOf : String → Option UnOp
  | "-" => some .neg | "+" => some .pos | "not" => some .not | "abs" => some .abs | "sum" => some .sum
  | s => (elemOf s).map .elem

def binOf : String → Option BinOp
  | "+" => some .add | "-" => some .sub | "*" => some .mul | "/" => some .div | "^" => some .pow
  | ".+" => some .eadd | ".-" => some .esub | ".*" => some .emul | "./" => some .ediv | ".^" => some .epow
  | "<" => some .lt | "<=" => some .le | ">" => some .gt | ">=" => some .ge | "==" => some .eq
  | "<>" => some .ne | "and" => some .and | "or" => some .or | "min" => some .min | "max" => some .max
  | _ => none

/-- Parsing state: the running number of `delay` operators (they become input symbols). -/
abbrev PM := StateT Nat E

def liftE (x : E α) : PM α := fun s => x.map (fun a => (a, s))

mutual
def parseExpr (loops : List String) : Nat → Json → PM (MExpr Rat)
  | 0, _ => liftE (.error "fuel")
  | fuel + 1, j => do
    match ← liftE (kind j) with
    | "num" => pure (.num (← liftE (do parseRat (← str j "v"))))
    | "ref" =>
      let name ← liftE (str j "name")
      let idx ← liftE (arr j "idx")
      if idx.isEmpty ∧ name ∈ loops then pure (.idx name)
      else pure (.ref name (← liftE (idx.mapM (parseSub fuel))))
    | "ife" =>
      pure (.ife (← parseBranches loops fuel (← liftE (arr j "conds")) (← liftE (arr j "exprs"))))
    | "app" =>
      let op ← liftE (str j "op")
      let args ← liftE (arr j "args")
      if op = "der" then
        match args with
        | [a] =>
          if (← liftE (kind a)) = "ref" then
            let name ← liftE (str a "name")
            let idx ← liftE (arr a "idx")
            pure (.ref ("der(" ++ name ++ ")") (← liftE (idx.mapM (parseSub fuel))))
          else liftE (.error "der-of-expression")
        | _ => liftE (.error "der-arity")
      else if op = "delay" then
        -- operands first (inner delay operators get the smaller numbers), then this operator's number
        if !loops.isEmpty then liftE (.error "delay-in-loop") else
        match args with
        | [a, b] =>
          let ta ← parseExpr loops fuel a
          let tb ← parseExpr loops fuel b
          let n ← get
          set (n + 1)
          pure (.delay n ta tb)
        | _ => liftE (.error "delay-arity")
      else
        let as ← parseExprs loops fuel args
        match as with
        | .cons a .nil =>
          match unOf op with
          | some u => pure (.un u a)
          | none => pure (.call op as)
        | .cons a (.cons b .nil) =>
          match binOf op with
          | some u => pure (.bin u a b)
          | none => pure (.call op as)
        | _ => pure (.call op as)
    | k => liftE (.error s!"expression-kind {k}")
def parseExprs (loops : List String) : Nat → List Json → PM (MExprs Rat)
  | 0, _ => liftE (.error "fuel")
  | _ + 1, [] => pure .nil
  | fuel + 1, j :: js => do
    let e ← parseExpr loops fuel j
    let es ← parseExprs loops fuel js
    pure (.cons e es)
def parseBranches (loops : List String) : Nat → List Json → List Json → PM (MBranches Rat)
  | 0, _, _ => liftE (.error "fuel")
  | fuel + 1, [], [e] => do pure (.last (← parseExpr loops fuel e))
  | fuel + 1, c :: cs, e :: es => do
    let tc ← parseExpr loops fuel c
    let te ← parseExpr loops fuel e
    let rest ← parseBranches loops fuel cs es
    pure (.cons tc te rest)
  | _ + 1, _, _ => liftE (.error "if-expression-arity")   -- `assert len(conditions) + 1 == len(expressions)`
end

def FUEL : Nat := 400

def parseE (loops : List String) (j : Json) : PM (MExpr Rat) := parseExpr loops FUEL j

def parseEL (loops : List String) : List Json → PM (List (MExpr Rat))
  | [] => pure []
  | j :: js => do let e ← parseE loops j; let es ← parseEL loops js; pure (e :: es)

def parseSEq (loops : List String) (j : Json) : PM (SEq Rat) := do
  let ls ← match j.getObjVal? "ls" with
    | .ok _ => parseEL loops (← liftE (arr j "ls"))
    | .error _ => do let l ← parseE loops (← liftE (j.getObjVal? "l")); pure [l]
  let r ← parseE loops (← liftE (j.getObjVal? "r"))
  pure ⟨ls, r⟩

def parseSEqs (loops : List String) : List Json → PM (List (SEq Rat))
  | [] => pure []
  | j :: js => do
    if (← liftE (kind j)) ≠ "eq" then liftE (.error "nested-equation") else
    let e ← parseSEq loops j
    let es ← parseSEqs loops js
    pure (e :: es)

def dropElse (cs : List Json) : E (List Json) :=
  match cs.reverse with
  | last :: restRev => do
    if (← kind last) = "else" then pure restRev.reverse else .error "no-else"
  | [] => .error "no-else"

/-- Loop range `a:b` (stored step 1) or the stored triple of a three-part range. -/
def parseRange (j : Json) : E (Int × IdxE × Int) := do
  if (← kind j) ≠ "slice" then .error "loop-range" else
  let start ← parseIdx FUEL (← j.getObjVal? "start")
  let stop ← parseIdx FUEL (← j.getObjVal? "stop")
  let step ← parseIdx FUEL (← j.getObjVal? "step")
  match start, step with
  | .lit a, .lit s => pure (a, stop, s)
  | _, _ => .error "loop-range-not-literal"   -- `e.start.value` / `e.step.value` need Primary nodes

def parseMEq (j : Json) : PM (MEq Rat) := do
  match ← liftE (kind j) with
  | "eq" => pure (.simple (← parseSEq [] j))
  | "ifeq" =>
    let cs ← parseEL [] (← liftE (do dropElse (← arr j "conds")))
    let bs ← (← liftE (arr j "blocks")).mapM fun b => do
      let eqs ← liftE b.getArr?
      parseSEqs [] eqs.toList
    pure (.ifeq cs bs)
  | "foreq" =>
    let i ← liftE (str j "idx")
    let (a, stop, s) ← liftE (do parseRange (← j.getObjVal? "range"))
    let body ← parseSEqs [i] (← liftE (arr j "eqs"))
    pure (.foreq i a stop s body)
  | k => liftE (.error s!"equation-kind {k}")

def parseAssign (loops : List String) (j : Json) : PM (String × MExpr Rat) := do
  if (← liftE (kind j)) ≠ "assign" then liftE (.error "nested-statement") else
  match ← liftE (arr j "ls") with
  | [l] =>
    if !(← liftE (arr l "idx")).isEmpty then liftE (.error "subscripted-target") else
    let e ← parseE loops (← liftE (j.getObjVal? "r"))
    pure ((← liftE (str l "name")), e)
  | _ => liftE (.error "tuple-assignment")

def parseStmt (j : Json) : PM (Stmt Rat) := do
  match ← liftE (kind j) with
  | "assign" => do let (x, e) ← parseAssign [] j; pure (.assign x e)
  | "ifst" =>
    let cs ← parseEL [] (← liftE (do dropElse (← arr j "conds")))
    let bs ← (← liftE (arr j "blocks")).mapM fun b => do
      let ss ← liftE b.getArr?
      ss.toList.mapM (parseAssign [])
    pure (.ifs cs bs)
  | "forst" =>
    let i ← liftE (str j "idx")
    let (a, stop, s) ← liftE (do parseRange (← j.getObjVal? "range"))
    let body ← (← liftE (arr j "body")).mapM (parseAssign [i])
    pure (.for i a stop s body)
  | k => liftE (.error s!"statement-kind {k}")

structure SymInfo where
  name : String
  prefixes : List String
  type : String
  dims : List IdxE
  value : Option IdxE

def parseSym (j : Json) : E SymInfo := do
  let pre ← (← arr j "prefixes").mapM (·.getStr?)
  let dims ← (← arr j "dims").mapM (parseIdx FUEL)
  let v := match j.getObjVal? "value" with
    | .ok vj => (parseIdx FUEL vj).toOption
    | .error _ => none
  pure ⟨← str j "name", pre, ← str j "type", dims, v⟩

def parseFunc (name : String) (j : Json) : E (MFunc Rat) := do
  let syms ← (← arr j "symbols").mapM parseSym
  let (body, _) ← ((← arr j "statements").mapM parseStmt).run 0
  pure { name := name,
         inputs := (syms.filter (·.prefixes.contains "input")).map (·.name),
         outputs := (syms.filter (fun s => !s.prefixes.contains "input" && s.prefixes.contains "output")).map (·.name),
         locals := (syms.filter (fun s => !s.prefixes.contains "input" && !s.prefixes.contains "output")).map (·.name),
         body := body }

structure Parsed where
  model : MModel Rat
  syms : List SymInfo

def parseModel (j : Json) : E Parsed := do
  let m ← j.getObjVal? "model"
  let syms ← (← arr m "symbols").mapM parseSym
  let fo ← (← j.getObjVal? "functions").getObj?
  -- declaration order = key order of the serialised dict (a list of pairs here)
  let fl ← (← arr j "function_order").mapM (·.getStr?)
  let funcs ← fl.mapM fun n => match fo.get? n with
    | some fj => parseFunc n fj
    | none => .error s!"function {n}"
  -- numbering of delay symbols: equations are visited before initial equations only if they come first in
  -- the walker; the harness never puts `delay` into initial equations
  let (ieqs, n1) ← ((← arr m "initial_equations").mapM parseMEq).run 0
  let (eqs, _) ← ((← arr m "equations").mapM parseMEq).run n1
  pure ⟨{ funcs := funcs.reverse, eqs := eqs, ieqs := ieqs }, syms⟩

/-- Integers visible to subscripts: Integer symbols with a literal (or computable) value. -/
def intEnv (syms : List SymInfo) : String → Option Int := fun x =>
  match syms.find? (fun s => s.name = x ∧ s.type = "Integer") with
  | some s => match s.value with
    | some e => e.eval (fun _ => none)
    | none => none
  | none => none

def stripDer (x : String) : String :=
  if x.startsWith "der(" ∧ x.endsWith ")" then ((x.drop 4).dropEnd 1).toString else x

def shapeEnv (syms : List SymInfo) : String → Option (List Nat) := fun x =>
  match syms.find? (fun s => s.name = stripDer x) with
  | some s => (s.dims.mapM (fun (d : IdxE) => d.eval (intEnv syms))).map (fun ds => ds.map Int.toNat)
  | none => none

def parsePoint (j : Json) : E (List (String × List Rat)) := do
  let o ← j.getObj?
  o.toList.mapM fun (k, v) => do
    let xs ← v.getArr?
    let qs ← xs.toList.mapM fun x => do parseRat (← x.getStr?)
    pure (k, qs)

def mkEnv (syms : List SymInfo) (pt : List (String × List Rat)) : Env Rat :=
  { val := fun x => (pt.find? (fun p => p.1 = x)).map (·.2),
    shape := shapeEnv syms,
    idx := intEnv syms }

def errTag : GenErr → String
  | .unknownFunction f => "UnknownFunction:" ++ f
  | .attributeError _ => "AttributeError"
  | .assertion w => "Assertion:" ++ w
  | .keyError x => "KeyError:" ++ x
  | .zeroStep => "ZeroStep"

def jsonVals (o : Option (List (List Rat))) : Json :=
  match o with
  | none => Json.null
  | some vs => Json.arr (vs.map fun v => Json.arr (v.map fun q => Json.str (showRat q)).toArray).toArray

def parseOpts (j : Json) : Opts :=
  let b (k : String) (d : Bool) := ((j.getObjVal? k).toOption.bind (·.getBool?.toOption)).getD d
  { unroll := b "unroll_loops" true, inline := b "inline_functions" true, expand := b "expand_mx" false }

/-- `{"op":"residual","model":…,"points":[…],"which":"dae"|"initial","opts":{…}}`. -/
def handleResidual (req : Json) : E Json := do
  let p ← parseModel (← req.getObjVal? "model")
  let initial := (← str req "which") = "initial"
  let o := match req.getObjVal? "opts" with
    | .ok oj => parseOpts oj
    | .error _ => {}
  let pts ← (← arr req "points").mapM parsePoint
  let g := genResidual ratPrims o (intEnv p.syms) p.model initial
  let outs := pts.map fun pt =>
    let ρ := mkEnv p.syms pt
    let c := match g with
      | .ok f => jsonVals (evalFn ratPrims ρ f)
      | .error _ => Json.null
    let m := jsonVals (residualsOfModel ratPrims ρ p.model initial)
    Json.mkObj [("c", c), ("m", m)]
  let gd := genDelayFunction ratPrims o p.model
  let delays := pts.map fun pt =>
    let ρ := mkEnv p.syms pt
    let c := match gd with
      | .ok f => jsonVals (evalFn ratPrims ρ f)
      | .error _ => Json.null
    Json.mkObj [("c", c), ("m", jsonVals (delayArgsOfModel ratPrims ρ p.model))]
  let gtag := match g with
    | .ok f => Json.mkObj [("ok", true), ("expand", f.expand)]
    | .error e => Json.mkObj [("ok", false), ("err", Json.str (errTag e))]
  pure (Json.mkObj [("ok", true), ("gen", gtag), ("points", Json.arr outs.toArray),
                    ("delay", Json.arr delays.toArray)])

def allBin : List BinOp :=
  [.add, .sub, .mul, .div, .pow, .eadd, .esub, .emul, .ediv, .epow, .lt, .le, .gt, .ge, .eq, .ne, .and, .or, .min, .max]

def allElem : List Elem :=
  [.sin, .cos, .tan, .asin, .acos, .atan, .sinh, .cosh, .tanh, .exp, .log, .log10, .sqrt, .sign, .floor, .ceil]

def methName : Meth → String
  | .add_ => "__add__" | .sub_ => "__sub__" | .mul_ => "__mul__" | .truediv_ => "__truediv__"
  | .div_ => "__div__" | .pow_ => "__pow__" | .gt_ => "__gt__" | .lt_ => "__lt__" | .le_ => "__le__"
  | .ge_ => "__ge__" | .ne_ => "__ne__" | .eq_ => "__eq__" | .fmin => "fmin" | .fmax => "fmax"
  | .fabs => "fabs" | .mtimes => "mtimes" | .neg_ => "__neg__" | .sum1 => "sum1" | .elem e => elemName e

def allMeth : List Meth :=
  [.add_, .sub_, .mul_, .truediv_, .div_, .pow_, .gt_, .lt_, .le_, .ge_, .ne_, .eq_, .fmin, .fmax, .fabs, .neg_]
    ++ allElem.map .elem

/-- The model's tables, by the names the Python side uses: `OP_MAP` as the model has it, `hasattr`
    facts, and the value of every method on probe points. -/
def handleTables (req : Json) : E Json := do
  let probes ← (← arr req "probes").mapM fun p => do
    let xs ← p.getArr?
    match xs.toList with
    | [a, b] => do pure ((← parseRat (← a.getStr?)), (← parseRat (← b.getStr?)))
    | _ => .error "probe"
  let opmap := allBin.filterMap fun op =>
    if op = .mul then none else
    (opMap op).map fun m =>
      let n := binName op
      ((if n.startsWith "." then (n.drop 1).toString else n), Json.str (methName m))
  let has := allMeth.map fun m => (methName m, Json.bool (hasMeth m))
  let vals := allMeth.map fun m =>
    let r := probes.map fun (a, b) =>
      let v2 := (methPrim2 m).bind fun p => ratPrims.p2 p a b
      let v1 := (methPrim1 m).bind fun p => ratPrims.p1 p a
      Json.arr #[(match v1 with | some q => Json.str (showRat q) | none => Json.null),
                 (match v2 with | some q => Json.str (showRat q) | none => Json.null)]
    (methName m, Json.arr r.toArray)
  pure (Json.mkObj [("ok", true), ("opmap", Json.mkObj opmap), ("hasattr", Json.mkObj has),
                    ("values", Json.mkObj vals), ("mul", Json.str (methName .mtimes))])

def handle (req : Json) : E Json := do
  match ← str req "op" with
  | "residual" => handleResidual req
  | "tables" => handleTables req
  | o => .error s!"unknown-op {o}"

end PymocaVerif.GenJson
