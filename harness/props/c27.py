"""C27 — assembling a library from several files is order-independent.

Real code: `pymoca.parser.parse` (-> `file_to_tree`), `ast.Tree.extend` / `Class._extend`, and the
two directory walks that merge the files of a library: `backends.casadi.api._compile_model`
(os.walk; the tree it hands to the generator is captured by substituting `api.generator` for the
duration of the call) and `tools.compiler.parse_all` (explicit PATH list, and `**/*.mo` glob).

Direct oracle (from the property text): a generated package library (package-level constants,
nested packages, models that extend / instantiate each other and use the constants by relative
and absolute names) is split into 2-4 files with `within` clauses; for every permutation of the
files the flattened model of *every* class must equal the one obtained from the unsplit library
(and therefore be the same for every order); the tree assembled by each directory walk must give
the same flattened models too, and the CasADi model of one class must be the same for two
opposite walk orders.

Tie: each file's tree is compared with the Lean `fileToTree`, name lookups on a merged tree
(`Class._find_class` from random scopes) with `findClass`, and the merged tree (class paths in
dictionary order with a digest of each class's own content) with `mergeAll` / `mergeAllFromEmpty`
of `Model/Merge.lean` (driver `drv_c27`), variant `fixed` (`fill`: the code as it is since commit
07f5409 = proposed_fixes/C27-1.diff, which fixed finding C27-F1; `asis` = `keepFirst`, the code before,
is only consulted to label a disagreement, unless known/C27.json lists C27-F1 as open again).
"""
import contextlib
import hashlib
import io
import itertools
import json
import os
import random
import shutil

from harness.common import HarnessError
from harness.gen import a14_lib as L

DRIVERS = ["drv_c27"]
RULE = ("one case = one generated library (1-2 top-level packages, nesting depth <= 3, 2-20 classes, package constants with "
        "shadowing, extends / components / constants referenced by relative and absolute names, in 40 % of the libraries the "
        "same sub-package and class names repeated below different packages; files on disk named distinctly or all "
        "`package.mo` in nested directories) with one split into 2-4 files "
        "and ALL permutations of the files (plus the three directory walks on two of them); non-trivial = at least one file has a "
        "`within` clause and at least one class uses something defined in another file; distinct = distinct file texts")
TRUSTED = ["the digest of a class's own content (ast.Node.to_json of the class without `classes`) identifies its payload",
           "the tree `_compile_model` assembles is observed by substituting `api.generator` during the call (no change to /repo)"]
ASSUMPTIONS = [
    "each class of the library is defined in exactly one file (the property's domain: a split of one library)",
    "flat models are compared as canonical JSON of the flattened class; against the unsplit library the per-file symbol "
    "counter `order` is left out (it restarts in every file), across permutations it is kept",
    "main stream: no package on a file's `within` path has content of its own besides classes; the stream 'payload' holds the "
    "splits where one has (input class of finding C27-F1, fixed by 07f5409): all orders are required to agree there too, the "
    "orders in which a `within` file precedes the package's own file are counted as `order:shadowed`",
    "every class is flattened on its own fresh copy of the merged tree (flattening writes into the library tree, so results on a "
    "shared tree depend on what was flattened before: C05/C26 territory)",
    "open finding C27-F2: flattening a class that *contains* nested classes visits them in dictionary order and is not "
    "independent of that order when one of them fails to flatten on its own (C07's inherited-component-type lookup); the "
    "merged trees are equal up to sibling order there, the flat model of the enclosing package is not",
]

PH = "PH"
STATE = {"variant": None}


# ------------------------------------------------------------------------------------------
# observing trees
# ------------------------------------------------------------------------------------------
def _digest(cls, keep_name=False):
    from pymoca import ast
    j = ast.Node.to_json(cls)
    j.pop("classes", None)
    if not keep_name:
        j.pop("name", None)
    return hashlib.sha1(json.dumps(j, sort_keys=True, default=str).encode()).hexdigest()[:12]


_PH_DIGEST = []


def payload(cls):
    if not _PH_DIGEST:
        from pymoca import ast
        _PH_DIGEST.append(_digest(ast.Class(name="x", type="package")))
    d = _digest(cls)
    return PH if d == _PH_DIGEST[0] else d


def forest_of(cls):
    return [{"n": n, "p": payload(c), "k": forest_of(c)} for n, c in cls.classes.items()]


def content_map(cls, pre=()):
    """class path -> digest of the class's own content without the per-file symbol counter."""
    from pymoca import ast
    out = {}
    for n, c in cls.classes.items():
        j = ast.Node.to_json(c)
        j.pop("classes", None)
        for sy in j.get("symbols", {}).values():
            sy.pop("order", None)
        out[".".join(pre + (n,))] = hashlib.sha1(json.dumps(j, sort_keys=True, default=str).encode()).hexdigest()[:12]
        out.update(content_map(c, pre + (n,)))
    return out


def multi_star_imports(cls, pre=()):
    """Paths of the classes that have two or more unqualified imports (`import A.*; import B.*;`)."""
    out = []
    for n, c in cls.classes.items():
        star = c.imports.get("*")
        if star is not None and len(getattr(star, "components", [])) >= 2:
            out.append(".".join(pre + (n,)))
        out += multi_star_imports(c, pre + (n,))
    return out


def parents_ok(cls):
    for c in cls.classes.values():
        if c.parent is not cls or not parents_ok(c):
            return False
    return True


def paths_of(forest, pre=()):
    out = []
    for n in forest:
        out.append((pre + (n["n"],), n["p"]))
        out += paths_of(n["k"], pre + (n["n"],))
    return out


def flat(tree_, name):
    from pymoca import ast, tree
    try:
        f = tree.flatten(tree_, ast.ComponentRef.from_string(name))
        return json.dumps(ast.Node.to_json(f.classes[name]), sort_keys=True, default=str)
    except Exception as e:  # noqa: BLE001 - an outcome like any other; must be the same in every order
        return "raised:" + type(e).__name__


def loosen(s):
    """Drop the per-file symbol counter from a canonical flat model."""
    if s.startswith("raised:"):
        return s
    j = json.loads(s)
    for sy in j.get("symbols", {}).values():
        sy.pop("order", None)
    return json.dumps(j, sort_keys=True, default=str)


def flat_each(tree_, classes):
    """Flat model of every class, each on its own fresh copy of the tree: flattening writes into the library tree
    (e.g. the unqualified-import lookup stores what it found in `imports`), so that flattening one class after another
    on one tree would make a class's result depend on which classes were flattened before it — a history effect that
    belongs to C05 / C26, not to the order in which the files were merged."""
    import pickle
    blob = pickle.dumps(tree_)
    return {c: flat(pickle.loads(blob), c) for c in classes}


class Flats:
    """Flat models of all classes of a tree, memoised on the exact (ordered, digested) forest."""

    def __init__(self, classes):
        self.classes, self.memo = classes, {}

    def of(self, tree_, forest):
        key = json.dumps(forest)
        if key not in self.memo:
            strict = flat_each(tree_, self.classes)
            self.memo[key] = (strict, {c: loosen(v) for c, v in strict.items()})
        return self.memo[key]


_PARSED = {}


def parse_text(text):
    """A fresh tree for `text` on every call: parsed once by pymoca.parser.parse, then re-created from its
    pickle (what the parser's own cache does), so the speed does not depend on the state of that cache."""
    import pickle
    if text not in _PARSED:
        from pymoca import parser
        with contextlib.redirect_stderr(io.StringIO()):
            t = parser.parse(text)
        if t is None:
            raise HarnessError("generated file does not parse: " + text[:200])
        if len(_PARSED) > 400:
            _PARSED.clear()
        _PARSED[text] = pickle.dumps(t)
    return pickle.loads(_PARSED[text])


def merge_in_order(files, order):
    t = None
    for i in order:
        ft = parse_text(files[i]["text"])
        if t is None:
            t = ft
        else:
            t.extend(ft)
    return t


def first_diff(a, b):
    if a.startswith("raised:") or b.startswith("raised:"):
        return [a[:60], b[:60]]
    ja, jb = json.loads(a), json.loads(b)
    for k in sorted(set(ja) | set(jb)):
        if ja.get(k) != jb.get(k):
            if isinstance(ja.get(k), dict) and isinstance(jb.get(k), dict):
                for kk in sorted(set(ja[k]) | set(jb[k])):
                    if ja[k].get(kk) != jb[k].get(kk):
                        return [k + "." + kk, json.dumps(ja[k].get(kk), default=str)[:160], json.dumps(jb[k].get(kk), default=str)[:160]]
            return [k, json.dumps(ja.get(k), default=str)[:160], json.dumps(jb.get(k), default=str)[:160]]
    return ["?"]


# ------------------------------------------------------------------------------------------
# the model
# ------------------------------------------------------------------------------------------
def sub_forest(forest, within):
    cur = forest
    for w in within:
        nxt = [n for n in cur if n["n"] == w]
        if len(nxt) != 1:
            return None
        cur = nxt[0]["k"]
    return cur


def ask(drv, req):
    ans = drv.ask(dict(req, ph=PH))
    if not ans.get("ok"):
        raise HarnessError("model driver rejected %s: %s" % (json.dumps(req)[:300], ans))
    return ans["tree"]


def compare_with_model(ctx, drv, small, mfiles, order, start, impl_forest, name):
    """impl must equal the as-is or the fixed model, consistently over the run."""
    res = {v: ask(drv, {"op": "merge.all", "variant": v, "start": start, "order": list(order), "files": mfiles})
           for v in ("asis", "fixed")}
    # once C27-F1 is listed as fixed, only the fixed variant is the code
    accepted = ("fixed",) if any(k["id"] == "C27-F1" and k.get("status") == "fixed" for k in ctx.known) else ("asis", "fixed")
    ok = [v for v in accepted if res[v] == impl_forest]
    if not ok:
        ctx.disagreement(name, dict(small, order=list(order), start=start),
                         model={v: paths_of(res[v]) for v in res}, impl=paths_of(impl_forest))
        return
    if res["asis"] != res["fixed"]:
        v = ok[0]
        ctx.count("impl-follows:" + v)
        if STATE["variant"] is None:
            STATE["variant"] = v
        elif STATE["variant"] != v:
            ctx.disagreement("merge.variant-mixed", dict(small, order=list(order)),
                             model="implementation followed '%s' earlier in this run" % STATE["variant"], impl="follows '%s' here" % v)


# ------------------------------------------------------------------------------------------
# one library
# ------------------------------------------------------------------------------------------
def shadowed(meta, order):
    """Is some file merged before the own file of a content-carrying package on its `within` path?"""
    pos = {f: k for k, f in enumerate(order)}
    for i in order:
        w = meta[i]["within"]
        for n in range(1, len(w) + 1):
            q = w[:n]
            for j in order:
                if j != i and q in meta[j]["defines"] and pos[j] > pos[i]:
                    return True
    return False


def check_library(ctx, case, drv, walks=True):
    files, classes = case["files"], case["classes"]
    nf = len(files)
    U = parse_text(case["unsplit"])
    refmap = content_map(U)
    multi_star = multi_star_imports(U)
    ref = {c: loosen(v) for c, v in flat_each(U, classes).items()}
    ctx.count("ref-flatten-raises", sum(1 for v in ref.values() if v.startswith("raised:")))
    flats = Flats(classes)
    # ---- per file: file_to_tree
    meta, mfiles = [], []
    for f in files:
        ft = parse_text(f["text"])
        fo = forest_of(ft)
        cs = sub_forest(fo, f["within"])
        meta.append({"within": list(f["within"]),
                     "defines": [list(p) for p, d in paths_of(fo) if d != PH]})
        mfiles.append({"within": list(f["within"]), "classes": cs if cs is not None else []})
        if drv is not None:
            mt = ask(drv, {"op": "merge.file", "file": mfiles[-1]}) if cs is not None else None
            if mt != fo:
                ctx.disagreement("merge.file_to_tree", {"file": f}, model=paths_of(mt or []), impl=paths_of(fo))
    small = {"files": files, "unsplit": case["unsplit"], "classes": classes, "meta": meta, "stream": case.get("stream"),
             "ref_raises": [c for c in classes if ref[c].startswith("raised:")], "multi_star_imports": multi_star}
    if small["ref_raises"]:
        ctx.count("libraries-with-a-class-that-does-not-flatten")
    f1_open = any(k["id"] == "C27-F1" and k.get("status") == "open" for k in ctx.known)
    orders = [list(p) for p in itertools.permutations(range(nf))]
    flat_orders = orders
    if case.get("flatten_sample") and len(orders) > case["flatten_sample"]:
        sub = random.Random(case.get("walk_seed", 0))
        flat_orders = sub.sample(orders, case["flatten_sample"])
    strict_ref, strict_order = None, None
    reported = set()

    def oracle(t, fo, order, sh, walk=None, do_flat=True):
        nonlocal strict_ref, strict_order
        extra = {"walk": walk} if walk else {}
        if not parents_ok(t) and ("parents", sh) not in reported:
            reported.add(("parents", sh))
            ctx.violation("parent references of the merged tree do not point to the containing class",
                          dict(small, order=order, shadowed=sh, **extra), kind="history")
        cm = content_map(t)
        if cm != refmap and ("map", sh) not in reported:
            reported.add(("map", sh))
            diff = sorted(k for k in set(cm) | set(refmap) if cm.get(k) != refmap.get(k))
            ctx.violation("merged tree differs from the unsplit library's (class path -> class content)",
                          dict(small, order=order, shadowed=sh, cls=diff[0], **extra), expected="(unsplit)",
                          observed={"paths": diff[:6], "missing": [k for k in diff if k not in cm][:6]}, kind="history")
        if not do_flat:
            return
        strict, loose = flats.of(t, fo)
        bad = [c for c in classes if loose[c] != ref[c]]
        if bad and ("flat", sh) not in reported:
            reported.add(("flat", sh))
            c = bad[0]
            ctx.violation("flattened model differs from the unsplit library's for this file order",
                          dict(small, order=order, shadowed=sh, cls=c, **extra), expected="(unsplit)",
                          observed=first_diff(ref[c], loose[c]), kind="history")
        if not sh:
            if strict_ref is None:
                strict_ref, strict_order = strict, order
            else:
                badp = [c for c in classes if strict[c] != strict_ref[c]]
                if badp and "perm" not in reported:
                    reported.add("perm")
                    c = badp[0]
                    ctx.violation("flattened model differs between two file orders",
                                  dict(small, order=order, other_order=strict_order, shadowed=False, cls=c, **extra),
                                  expected=first_diff(strict_ref[c], strict[c]), observed=None, kind="history")

    for order in orders:
        sh = shadowed(meta, order)
        ctx.count("order:shadowed" if sh else "order:clean")
        sh = sh and f1_open        # only while C27-F1 is open are those orders allowed to differ
        t = merge_in_order(files, order)
        fo = forest_of(t)
        oracle(t, fo, order, sh, do_flat=order in flat_orders)
        if drv is not None:
            compare_with_model(ctx, drv, small, mfiles, order, "first", fo, "merge.extend")
    # ---- name lookup on one merged tree: Class._find_class against the model's findClass (which has no imports:
    # libraries with import clauses are left to the flat-model oracle)
    if drv is not None and not any("import " in f["text"] for f in files):
        sub = random.Random(case.get("walk_seed", 0) + 1)
        order = sub.choice(orders)
        t = merge_in_order(files, order)
        paths = [c.split(".") for c in classes]
        queries = []
        for _ in range(12):
            scope = sub.choice(paths + [[]])
            target = sub.choice(paths)
            r = sub.random()
            if r < 0.45:
                cref = target[sub.randrange(len(target)):]           # a relative spelling (may or may not resolve)
            elif r < 0.8:
                cref = list(target)
            else:
                cref = target[:-1] + ["Nope"] if sub.random() < 0.5 else ["Nope"] + target[-1:]
            queries.append([scope, cref])
        impl = [find_class_impl(t, sc, rf) for sc, rf in queries]
        ans = drv.ask({"op": "merge.find", "ph": PH, "variant": "asis", "order": order, "files": mfiles, "queries": queries})
        if not ans.get("ok"):
            raise HarnessError("model driver rejected merge.find: %s" % ans)
        ctx.count("lookups", len(queries))
        ctx.count("lookups-resolved", sum(1 for x in impl if isinstance(x, list)))
        if ans["found"] != impl:
            k = [i for i in range(len(queries)) if ans["found"][i] != impl[i]][0]
            ctx.disagreement("merge.find_class", dict(small, order=order, query=queries[k]), model=ans["found"][k], impl=impl[k])
    # ---- the directory walks, on one random order and its reverse
    if walks:
        sub = random.Random(case.get("walk_seed", 0))
        o1 = list(range(nf))
        sub.shuffle(o1)
        cas = {}
        for order in (o1, o1[::-1]):
            sh = shadowed(meta, order) and f1_open
            root = os.path.join(ctx.scratch, "c27-lib")
            shutil.rmtree(root, ignore_errors=True)
            d = root
            rels = []
            naming = case.get("file_names", "distinct")
            for k, i in enumerate(order):       # one file per nesting level: the walk order is the list order
                os.makedirs(d, exist_ok=True)
                # standard Modelica layout: every directory has its own package.mo
                # (file names with a dotted stem, as in files named after their qualified class `P.A.mo`, every other file)
                fname = "package.mo" if naming == "package.mo" or (naming == "mixed" and i % 2 == 0) else \
                    ("Lib.Part%d.mo" % i if i % 2 == 1 else "f%d.mo" % i)
                p = os.path.join(d, fname)
                with open(p, "w") as fh:
                    fh.write(files[i]["text"])
                rels.append(p)
                d = os.path.join(d, "n")
            for wname, tree_, worder, start in walk_trees(root, rels, order, classes):
                if tree_ is None:
                    ctx.violation("directory walk %s raised" % wname, dict(small, order=order, shadowed=sh, walk=wname),
                                  observed=str(worder), kind="history")
                    continue
                ctx.count("walk:" + wname)
                fo = forest_of(tree_)
                oracle(tree_, fo, worder, shadowed(meta, worder) and f1_open, walk=wname)
                if drv is not None:
                    compare_with_model(ctx, drv, small, mfiles, worder, start, fo, "merge.walk-" + wname)
            # the CasADi model of one class through the real _compile_model
            target = case.get("casadi_class")
            if target and not sh:
                cas[tuple(order)] = casadi_model(root, target)
                ctx.count("casadi-model:" + ("raised-" + cas[tuple(order)]["raised"] if "raised" in cas[tuple(order)] else "built"))
        vals = list(cas.items())
        if len(vals) == 2 and vals[0][1] != vals[1][1]:
            ctx.violation("CasADi model differs between two directory-walk orders",
                          dict(small, order=list(vals[1][0]), other_order=list(vals[0][0]), shadowed=False, cls=case["casadi_class"]),
                          expected=vals[0][1], observed=vals[1][1], kind="history")
        shutil.rmtree(os.path.join(ctx.scratch, "c27-lib"), ignore_errors=True)


def find_class_impl(t, scope, ref):
    """Full path of the class `_find_class` finds for `ref` from the class at path `scope` (None: not found)."""
    from pymoca import ast
    c = t
    for n in scope:
        if n not in c.classes:
            return "scope-missing-in-merged-tree"
        c = c.classes[n]
    try:
        r = c._find_class(ast.ComponentRef.from_string(".".join(ref)), search_imports=False)
        return list(r.full_reference().to_tuple())
    except ast.ClassNotFoundError:
        return None
    except Exception as e:  # noqa: BLE001
        return "raised:" + type(e).__name__


def walk_trees(root, rels, order, classes):
    """(name, tree or None, file order the walk used, model start) for the three walks."""
    from pathlib import Path
    from pymoca import ast
    from tools import compiler
    import pymoca.backends.casadi.api as api
    out = []
    index_of = {os.path.abspath(p): i for p, i in zip(rels, order)}
    with contextlib.redirect_stderr(io.StringIO()):
        # (a) compiler.parse_all with the files named one by one
        try:
            t = ast.Tree(name="ModelicaTree")
            fs, errs = compiler.parse_all([Path(p) for p in rels], t)
            out.append(("parse_all-files", t if not errs and len(fs) == len(rels) else None, list(order), "empty"))
        except Exception as e:  # noqa: BLE001
            out.append(("parse_all-files", None, type(e).__name__, "empty"))
        # (b) compiler.parse_all with the directory
        try:
            listed = [index_of[os.path.abspath(str(p))] for p in compiler.list_modelica_files([Path(root)])]
            t = ast.Tree(name="ModelicaTree")
            fs, errs = compiler.parse_all([Path(root)], t)
            out.append(("parse_all-dir", t if not errs and sorted(listed) == sorted(order) else None, listed, "empty"))
        except Exception as e:  # noqa: BLE001
            out.append(("parse_all-dir", None, type(e).__name__, "empty"))
        # (c) api._compile_model: capture the tree it hands to the generator
        walked = []
        for r, _d, fns in os.walk(root, followlinks=True):
            for fn in fns:
                if fn.endswith(".mo"):
                    walked.append(index_of[os.path.abspath(os.path.join(r, fn))])

        class _Stop(Exception):
            pass

        class _Stub:
            tree = None

            def generate(self, tree, name, opts):
                _Stub.tree = tree
                raise _Stop()
        real = api.generator
        api.generator = _Stub()
        try:
            api._compile_model(root, classes[0], api._merge_default_options({}))
            out.append(("compile_model", None, "generator not reached", "first"))
        except _Stop:
            out.append(("compile_model", _Stub.tree, walked, "first"))
        except Exception as e:  # noqa: BLE001
            out.append(("compile_model", None, type(e).__name__, "first"))
        finally:
            api.generator = real
    return out


def casadi_model(root, name):
    import pymoca.backends.casadi.api as api
    try:
        with contextlib.redirect_stderr(io.StringIO()):
            m = api._compile_model(root, name, api._merge_default_options({}))
        return {"states": [v.symbol.name() for v in m.states], "alg_states": [v.symbol.name() for v in m.alg_states],
                "constants": sorted([v.symbol.name(), str(v.value)] for v in m.constants),
                "parameters": sorted([v.symbol.name(), str(v.value)] for v in m.parameters),
                "equations": [str(e) for e in m.equations]}
    except Exception as e:  # noqa: BLE001
        return {"raised": type(e).__name__}


# ------------------------------------------------------------------------------------------
# generation
# ------------------------------------------------------------------------------------------
def make_case(rng, stream):
    for _ in range(50):
        rep = rng.random() < 0.4
        if stream == "payload":
            tops = L.gen_library(rng, const_min_depth=0, repeated_names=rep, import_prob=0.7)
        else:
            tops = L.gen_library(rng, const_min_depth=rng.choice([1, 1, 2]), repeated_names=rep)
        nfiles = rng.choice([2, 2, 3, 3, 4])
        files = L.split(rng, tops, nfiles, stream == "payload")
        if files is None:
            continue
        nodes = L.all_nodes(tops)
        classes = [".".join(n["path"]) for n in nodes]
        models = [".".join(n["path"]) for n in nodes if n["kind"] == "model"]
        return {"files": [{"within": f["within"], "text": f["text"]} for f in files], "unsplit": L.unsplit_text(tops),
                "classes": classes, "casadi_class": rng.choice(models) if models else None, "stream": stream,
                "walk_seed": rng.getrandbits(16), "file_names": rng.choice(["distinct", "package.mo", "package.mo", "mixed"]),
                "repeated_names": rep}
    return None


def run(ctx):
    drv = ctx.driver("drv_c27")
    STATE["variant"] = None
    quick = ctx.tier == "quick"
    from harness import corpus
    for c in corpus.load("C27"):
        ctx.count("corpus")
        ctx.case({"files": [f["text"] for f in c["files"]]}, nontrivial=True)
        check_library(ctx, c, drv)
    n = 32 if quick else 1500
    for i in range(n):
        if ctx.time_left() < 0:
            ctx.notes.append("stopped by time budget after %d libraries" % i)
            break
        stream = "payload" if i % 3 == 2 else "main"
        case = make_case(ctx.rng, stream)
        if case is None:
            ctx.count("generator-gave-up")
            continue
        ctx.count("stream:" + stream)
        ctx.count("files:%d" % len(case["files"]))
        ctx.count("file-names:" + case["file_names"])
        ctx.count("repeated-name-pairs" if case["repeated_names"] else "unique-names")
        ctx.count("classes:%02d" % (4 * (len(case["classes"]) // 4)))
        nontriv = any(f["within"] for f in case["files"])
        ctx.case({"files": [f["text"] for f in case["files"]]}, nontrivial=nontriv)
        if quick and len(case["files"]) == 4:
            case["flatten_sample"] = 8      # all 24 orders at tree level, flat models on 8 of them (thorough: all)
        check_library(ctx, case, drv)
    ctx.extra["impl_follows_variant"] = STATE["variant"] or "asis-and-fixed-indistinguishable-on-this-run"
    ctx.extra["exhaustive"] = False


def search(ctx):
    """Tie broken, no violation yet: more libraries through the direct oracle only."""
    while ctx.time_left() > 0 and not ctx.violations:
        case = make_case(ctx.rng, ctx.rng.choice(["main", "main", "payload"]))
        if case is not None:
            check_library(ctx, case, None)


def replay(ctx, payload):
    c = payload["case"]
    check_library(ctx, c, ctx.driver("drv_c27"))


MANIFEST = dict(
    level_text="Lean 4 theorems about an executable model of file_to_tree / Tree.extend / Class._extend and the merge loops of "
               "api._compile_model and compiler.parse_all (payload at every class path after a merge; dictionary invariant kept; "
               "order independence up to sibling order for any number of files and any depth when each class path's payload is "
               "defined at most once; name lookup independent of sibling order; the code before commit 07f5409 characterised as "
               "'first file wins'), tied to the real code by a per-run differential correspondence of every file tree, every "
               "merged tree (all permutations, three directory walks) and name lookups, "
               "plus a direct oracle: flattened models of every class, every permutation, against the unsplit library.",
    level_note="Trusted: Lean kernel + standard axioms; the harness (library generator, digest of a class's own content as its "
               "payload, canonical JSON of flat models). That flattening only looks classes up by name is a hypothesis of "
               "`flatten_order_independent`; the direct oracle exercises it on every case and found where it fails (open finding "
               "C27-F2: flattening a package that encloses a model which does not flatten on its own).",
    technique="Lean 4 proof (structural induction over forests, paths and file lists) + model/implementation correspondence + direct oracle",
)
READY = True
