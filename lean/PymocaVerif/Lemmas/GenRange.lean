import PymocaVerif.Model.Gen
/-!
# Lemmas for C11: `np.arange(start, stop + step, step)` against the Modelica range
-/
namespace PymocaVerif.Gen
open PymocaVerif.ExprSem

/-- Length of `arange` with the stop moved one *unit* past `stop` (what a correct loop needs). -/
theorem len_unit_past (d t : Int) (ht : 0 < t) :
    ((d + 1 + t - 1) / t).toNat = if 0 ≤ d then (d / t).toNat + 1 else 0 := by
  have h1 : (d + 1 + t - 1) = d + 1 * t := by omega
  rw [h1, Int.add_mul_ediv_right d 1 (by omega)]
  split
  · rename_i hd
    have : 0 ≤ d / t := Int.ediv_nonneg hd (by omega)
    omega
  · rename_i hd
    have : d / t < 0 := Int.ediv_neg_of_neg_of_pos (by omega) ht
    omega

/-- Length of `arange` with the stop moved one *step* past `stop` (what the generator did before the
    fix 4aad8e2), when the step divides the span. -/
theorem len_step_past_dvd (d t : Int) (ht : 0 < t) (hd : 0 ≤ d) (hdiv : t ∣ d) :
    ((d + t + t - 1) / t).toNat = (d / t).toNat + 1 := by
  have hm : t * (d / t) = d := Int.mul_ediv_cancel' hdiv
  have h1 : d + t + t - 1 = (t - 1) + t * (d / t + 1) := by rw [Int.mul_add, hm]; omega
  rw [h1, Int.add_mul_ediv_left (t - 1) (d / t + 1) (by omega), Int.ediv_eq_zero_of_lt (by omega) (by omega)]
  have : 0 ≤ d / t := Int.ediv_nonneg hd (by omega)
  omega

/-- `np.arange(start, stop ± 1, step)` is the Modelica range `start : step : stop`, for every step
    (both are empty for step 0, where NumPy raises and the generator reports `zeroStep`). -/
theorem arangeCode_eq (a s b : Int) : arangeCode a s b = modelicaRange a s b := by
  simp only [arangeCode, arange, modelicaRange]
  by_cases hp : s > 0
  · simp only [hp, if_true]
    have e : (b + 1 - a + s - 1) = ((b - a) + 1 + s - 1) := by omega
    rw [e, len_unit_past (b - a) s hp]
    by_cases hab : a ≤ b
    · simp [hab]
    · simp [hab, steps]
  · by_cases hn : s < 0
    · simp only [hp, if_false, hn, if_true]
      have e : (a - (b - 1) + -s - 1) = ((a - b) + 1 + (-s) - 1) := by omega
      rw [e, len_unit_past (a - b) (-s) (by omega)]
      by_cases hab : b ≤ a
      · simp [hab]
      · simp [hab, steps]
    · simp [hp, hn]

/-- The old iteration `np.arange(start, stop + step, step)` for comparison: it agrees with the Modelica
    range when the step divides the span … -/
def arangeOld (start step stop : Int) : List Int := arange start (stop + step) step

theorem arangeOld_pos_dvd (a s b : Int) (hs : 0 < s) (hab : a ≤ b) (hdiv : s ∣ (b - a)) :
    arangeOld a s b = modelicaRange a s b := by
  simp only [arangeOld, arange, modelicaRange, show s > 0 from hs, if_true, hab]
  have e : (b + s - a + s - 1) = ((b - a) + s + s - 1) := by omega
  rw [e, len_step_past_dvd (b - a) s hs (by omega) hdiv]

end PymocaVerif.Gen
