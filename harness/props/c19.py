"""C19 — cached and code-generated models equal fresh compiles.

Direct oracle (independent of the Lean model): for a generated Modelica model and option set,
`transfer_model` is called twice on a fresh folder — the first call compiles (that *is* the
fresh compile, under the same rewritten options) and writes the cache, the second is served
from the cache (`cache`: pickled functions, `codegen`: gcc-built shared libraries).  Every
observable the property names is canonicalised by `harness.gen.a12_cache.signature` and
compared exactly: variable names, order, shapes, Python types, aliases, the six attributes
(plain values as they are; `MX` attributes by value at exact parameter vectors, a scalar
attribute of an array variable compared broadcast), string variables, outputs, delay states,
alias relation (as a set: it iterates over a Python set), `delay_arguments` at exact points,
and the four functions at exact points (dyadic rationals, compared as `Fraction` strings).

Tie to the Lean model `PymocaVerif.CacheMeta` (driver `drv_c19`), both halves against the real
cache file of the same case:
* save: from the fresh `Model` the driver computes which dict entries become `None`, the
  `__metadata_dependent` matrices and the metadata matrices at the points; compared with the
  unpickled file and the stored `variable_metadata` function;
* load: from the unpickled file (dicts, dependency matrices, stored function at the points
  and at NaN) the driver reconstructs every attribute with the running row offset; compared
  with the real `CachedModel`;
* delay durations: the symbols the loader's loop keeps (`maskSets`) against `ca.symvar` of
  the loaded durations.
"""
import os
import shutil
import types

from harness.common import HarnessError
from harness.gen import a12_cache as G

DRIVERS = ["drv_c19"]
RULE = ("one case = one generated Modelica model (parameters valued/free/dependent/Integer/Boolean/String, "
        "parameter-dependent and constant attributes (coefficients 1e-15 .. 1e13 included, values compared exactly), arrays with `each` and element-wise attributes, signed alias "
        "chains, 1-3 delays with constant/parameter/expression durations, states, inputs, outputs, constants) x one "
        "simplification option set x {cache, codegen}; fresh compile vs cache-served model at 2 exact points; "
        "about a third of the cases then call again with one option key flipped (cache on disk written for the first set) "
        "and compare with a fresh compile under the second set; "
        "non-trivial = compiled, served from the cache, and has an MX attribute, an array, an alias or a delay; "
        "distinct = distinct (text, options, mode)")
TRUSTED = ["pickle and CasADi (de)serialisation of Function objects; gcc + ca.external for codegen (exercised, not modelled)",
           "CasADi's depends_on/is_constant: an attribute classified MX_INDEPENDENT has one value for all parameter vectors, NaN included (exercised at the evaluation points)"]
ASSUMPTIONS = ["variable names are unique across the metadata categories (load_model's name dictionary); generated and repository models satisfy it, checked per case",
               "attributes of variables depend on parameters only (pymoca cannot build the metadata function otherwise — such models fail to compile fresh as well)",
               "numerical agreement is checked at exact evaluation points (+, -, * on dyadic rationals), not symbolically"]

NPTS = 2
WIDE = 0.15     # share of the parameter expressions of the main stream with a coefficient of extreme magnitude
REPO_MODELS = [("Aircraft.mo", "Aircraft", {}), ("Delay.mo", "Delay", {}), ("ParameterAttributes.mo", "ParameterAttributes", {}),
               ("Spring.mo", "Spring", {}), ("Alias.mo", "Alias", {"detect_aliases": True}),
               ("NegativeAlias.mo", "NegativeAlias", {"detect_aliases": True}),
               ("ArrayExpand.mo", "ArrayExpand", {"expand_vectors": True}),
               ("DelayForLoop.mo", "DelayForLoop", {"expand_vectors": True}),
               ("Attributes.mo", "Attributes", {}), ("Simplify.mo", "Simplify", {"detect_aliases": True, "replace_constant_values": True})]

TARGETED = [
    # DESIGN §6 row 17 (fixed 6413e3a): an array in front of scalars with parameter-dependent bounds
    ("""model M
  parameter Real p = 2; parameter Real q = 3;
  Real v[2](each min = p); Real y(min = q, max = 2*q); Real z(max = p + q);
equation
  v = {1,2}*y; y = 1; z = 2;
end M;
""", {}),
    # two-dimensional variables (a matrix and a row vector) in front of scalars with parameter-dependent bounds:
    # rows of the metadata matrix go by numel, not by size1
    ("""model M
  parameter Real p = 2; parameter Real q = 3;
  parameter Real g[2, 3] = {{1, 2, 3}, {4, 5, 6}};
  parameter Real h[1, 2] = {{1, 2}};
  parameter Real pd = p + q;
  Real x(start = p);
  Real W[2, 3](each min = p);
  Real R[1, 2](each max = 2*q);
  Real y(min = -q, max = p + q);
  Real z(nominal = pd);
equation
  der(x) = -x; W = g * x; R = h * x; y = x; z = 2*x;
end M;
""", {}),
    # every parameter replaced by its value: no parameters are left, but an attribute can still be an MX
    # (a Boolean expression of former parameters stays symbolic-constant): MX_INDEPENDENT with an empty parameter vector
    ("""model M
  parameter Real lim = 3; parameter Real g = 2;
  Real x(min = -lim, max = lim, start = 0.5);
  Real z(max = g*lim);
  Boolean act(start = lim > 1);
  input Real u;
equation
  der(x) = -g*x + u; z = g*x; act = x > 0;
end M;
""", {"replace_parameter_values": True}),
    ("""model M
  parameter Real lim = 3; parameter Real g = 2;
  Real x(min = -lim, max = lim, start = 0.5);
  Real z(max = g*lim);
  Boolean act(start = lim > 1);
  input Real u;
equation
  der(x) = -g*x + u; z = g*x; act = x > 0;
end M;
""", {"replace_parameter_values": True, "detect_aliases": True, "expand_vectors": True}),
    # three delays whose durations depend on different parameters: exercises the reuse of `actual_deps`
    ("""model M
  parameter Real p0 = 1; parameter Real p1 = 2; parameter Real p2;
  Real x; Real d0; Real d1; Real d2; input Real u;
equation
  der(x) = u - x; d0 = delay(x, p0); d1 = delay(u, p1); d2 = delay(x + u, p0 + p2);
end M;
""", {}),
    ("""model M
  parameter Real p0 = 1; parameter Real p1 = 2;
  Real x; Real d0; Real d1; Real d2; input Real u(fixed = true);
  Real w[3](each max = 2*p1, min = {1, 2, 3}); Real a(start = p0); Real b(nominal = p0 + p1); Real yc;
equation
  der(x) = u - x; d0 = delay(x, p0 + p1); d1 = delay(u, 0.5); d2 = delay(x, p1);
  w = {1, 2, 3}*x; a = -b; b = x; yc = (x + u) + (p0 - x);
end M;
""", {"detect_aliases": True, "expand_vectors": True}),
]


# ---------------------------------------------------------------------------------------------
def _api():
    from pymoca.backends.casadi import api
    return api


def _case_dir(ctx, n):
    d = os.path.join(ctx.scratch, "c%06d" % n)
    os.makedirs(d)
    return d


def _names_unique(m):
    names = [v.symbol.name() for c in G.META_CATS for v in getattr(m, c)]
    return len(names) == len(set(names))


def _nontrivial(s1):
    for c in G.META_CATS:
        for v in s1[c]:
            if v["shape"] != [1, 1] or v["aliases"] or any(v[a]["_kind"] == "MX" for a in G.ATTRS):
                return True
    return bool(s1["delay_states"])


def check_case(ctx, case, drv, n=[0]):
    """Runs one case on the real code, applies the oracle, ties both halves to the model."""
    api = _api()
    n[0] += 1
    d = _case_dir(ctx, n[0])
    name, mode, seed = case["name"], case["mode"], case.get("seed", 0)
    try:
        G.write_file(os.path.join(d, name + ".mo"), case["text"])
        o = dict(case["opts"])
        o[mode] = True
        ok, m1, msg = G.outcome(api.transfer_model, d, name, dict(o))
        if not ok:
            ctx.case(case, nontrivial=False)
            ctx.count("fresh-compile-raised:" + m1)
            # the property is about models that compile: with caching off the same failure is expected
            rok, rm, rmsg = G.reference_compile(api, d, name, o)
            if rok:
                ctx.violation("transfer_model(%s) raised %s (%s) for a model that compiles with caching off" % (mode, m1, msg[:80]),
                              case, expected="a model and a cache file", observed=m1)
                return
            ok2, m2, _ = G.outcome(api.transfer_model, d, name, dict(o))
            if ok2:
                ctx.violation("transfer_model raised %s on the first call and returned a model on the second" % m1, case,
                              expected="same outcome", observed=type(m2).__name__)
            return
        s1 = G.signature(m1, NPTS, seed)
        # what load_model unpickles is observed at `pickle.load(s)` (the file format around it is the code's business)
        real_pickle, seen_db = api.pickle, []

        def _spy(fn):
            def call(*a, **k):
                r = fn(*a, **k)
                if isinstance(r, dict) and "version" in r:
                    seen_db.append(r)
                return r
            return call
        ns = types.SimpleNamespace(**{k: getattr(real_pickle, k) for k in dir(real_pickle) if not k.startswith("__")})
        ns.load, ns.loads = _spy(real_pickle.load), _spy(real_pickle.loads)
        api.pickle = ns
        try:
            ok2, m2, msg2 = G.outcome(api.transfer_model, d, name, dict(o))
        finally:
            api.pickle = real_pickle
        if not ok2:
            ctx.case(case, nontrivial=True)
            ctx.violation("loading the cache written for this model raised %s: %s" % (m2, msg2), case,
                          expected="a CachedModel equal to the fresh compile", observed=m2)
            return
        served = type(m2).__name__ == "CachedModel"
        ctx.case(case, nontrivial=served and _nontrivial(s1))
        ctx.count("mode-" + mode)
        ctx.count("served-from-cache" if served else "recompiled-on-second-call")
        for f in case.get("features", []):
            ctx.count("feature:" + f)
        for k in sorted(case["opts"]):
            ctx.count("option:" + k)
        if not served:
            ctx.disagreement("second-call-not-served", case, model="hit", impl=type(m2).__name__)
        s2 = G.signature(m2, NPTS, seed)
        df = G.diff(s1, s2)
        if df:
            ctx.violation("cache-served model differs from the fresh compile: " + df[0], case,
                          expected="fresh: see paths", observed=df)
            return
        if drv is not None and served and _names_unique(m1):
            if seen_db:
                correspond(ctx, case, drv, seen_db[-1], m1, m2, seed)
            else:
                ctx.tie_broken("load_model:unpickled-db-not-observed", "pickle.load/loads returned no cache dictionary")
        elif served:
            ctx.count("duplicate-names-skipped")
        del m1, m2
        # ---- "for every option set": the cache now on disk was written for `opts`; a call with another
        # option set on the same folder must match a fresh compile under *that* set
        if case.get("opts2") is not None:
            o2 = dict(case["opts2"])
            o2[mode] = True
            ok3, m3, msg3 = G.outcome(api.transfer_model, d, name, dict(o2))
            rok, rm, rmsg = G.reference_compile(api, d, name, o2)
            ctx.count("second-option-set:" + (type(m3).__name__ if ok3 else "raised"))
            if not ok3 or not rok:
                if ok3 != rok or (not ok3 and m3 != rm):
                    ctx.violation("after a cache was written for other options: transfer_model %s, a fresh compile %s" % (
                        "returned a model" if ok3 else "raised " + str(m3), "returned a model" if rok else "raised " + str(rm)),
                        case, expected=str(rm) if not rok else "model", observed=str(m3) if not ok3 else "model")
                return
            df = G.diff(G.signature(rm, NPTS, seed), G.signature(m3, NPTS, seed))
            if df:
                ctx.violation("a cache written for one option set was served for another (%s): %s" % (
                    type(m3).__name__, df[0]), case, expected="fresh compile under the second option set", observed=df)
    finally:
        shutil.rmtree(d, ignore_errors=True)


# ---------------------------------------------------------------------------------------------
def _fn(api, spec, fname):
    import casadi as ca
    return spec if isinstance(spec, ca.Function) else ca.external(fname, spec)


def _meta_at(f, pts):
    """Stored metadata function at every point: per category a matrix (rows of exact strings)."""
    import casadi as ca
    import numpy as np
    per_pt = []
    for p in pts:
        outs = f.call([ca.DM(p)]) if f.n_in() == 1 and f.numel_in(0) == len(p) else f.call([ca.DM.zeros(*f.size_in(0))])
        mats = []
        for o in outs:
            arr = np.array(ca.DM(o), dtype=float).reshape(o.shape)
            mats.append([[G.fnum(x) for x in row] for row in arr])
        per_pt.append(mats)
    return per_pt


def correspond(ctx, case, drv, db, m1, m2, seed):
    import casadi as ca
    api = _api()
    pts = G.param_points(m1, NPTS, seed)
    pvec = ca.veccat(*[v.symbol for v in m1.parameters])
    # ---- save half: fresh Model -> (None-ness, dependency matrix, metadata matrix) -------------
    cats = []
    for key in G.META_CATS:
        vs = []
        for v in getattr(m1, key):
            attrs = []
            for a in G.ATTRS:
                val = getattr(v, a)
                if isinstance(val, list) and any(isinstance(e, ca.MX) for e in val):
                    # array attribute with symbolic elements: save_model treats the list as one MX (00f122e)
                    val = ca.vertcat(*[ca.MX(e) for e in val])
                if isinstance(val, ca.MX):
                    dep = (not val.is_constant()) and bool(ca.depends_on(val, pvec)) if m1.parameters else False
                    attrs.append({"k": "mx", "dep": dep, "at": G.eval_at_params(m1, val, pts)})
                else:
                    try:
                        emb = G.dm_vals(ca.DM(val))["v"]
                    except Exception:
                        emb = ["?"]
                    attrs.append({"k": "py", "v": G.pyval(val), "embed": emb})
            vs.append({"name": v.symbol.name(), "rows": v.symbol.size1(), "cols": v.symbol.size2(), "attrs": attrs})
        cats.append({"vars": vs})
    ans = drv.ask({"op": "meta.save", "npts": NPTS, "cats": cats})
    if not ans.get("ok"):
        raise HarnessError("drv_c19 rejected meta.save: %s" % ans)
    fmeta = _fn(api, db["variable_metadata"], "variable_metadata")
    real_meta = _meta_at(fmeta, pts)
    for ci, key in enumerate(G.META_CATS):
        mod = ans["cats"][ci]
        real_dep = [[int(x) for x in row] for row in db[key + "__metadata_dependent"]]
        if mod["dep"] != real_dep:
            ctx.disagreement("save.dependency-matrix", dict(case, category=key), mod["dep"], real_dep)
            return
        real_none = [[dct[a] is None for a in G.ATTRS] for dct in db[key]]
        if mod["none"] != real_none:
            ctx.disagreement("save.to_dict-none", dict(case, category=key), mod["none"], real_none)
            return
        for pi in range(NPTS + 1):
            mm, rm = mod["meta"][pi], real_meta[pi][ci]
            if pi == NPTS:  # at NaN only the entries that are read back there are comparable
                keep = [(r, j) for i, dct in enumerate(db[key]) for j in range(6)
                        for r in _rows_of(db[key], i) if real_dep[i][j] == 2]
                mm = [[mm[r][j] if r < len(mm) else None for (r, j) in keep]]
                rm = [[rm[r][j] if r < len(rm) else None for (r, j) in keep]]
            if mm != rm:
                ctx.disagreement("save.metadata-matrix", dict(case, category=key, point=pi), mm, rm)
                return
    # ---- load half: stored data -> CachedModel attributes -----------------------------------------
    lcats = []
    for ci, key in enumerate(G.META_CATS):
        dicts = [{"name": dct["name"], "rows": dct["shape"][0], "cols": dct["shape"][1],
                  "attrs": [None if dct[a] is None else G.pyval(dct[a]) for a in G.ATTRS]} for dct in db[key]]
        lcats.append({"dicts": dicts, "dep": [[int(x) for x in row] for row in db[key + "__metadata_dependent"]],
                      "meta": [real_meta[pi][ci] for pi in range(NPTS + 1)]})
    ans = drv.ask({"op": "meta.load", "npts": NPTS, "cats": lcats})
    if not ans.get("ok"):
        raise HarnessError("drv_c19 rejected meta.load: %s" % ans)
    pts2 = G.param_points(m2, NPTS, seed)
    for ci, key in enumerate(G.META_CATS):
        lvs, rvs = ans["cats"][ci], getattr(m2, key)
        if [x["name"] for x in lvs] != [v.symbol.name() for v in rvs]:
            ctx.disagreement("load.names", dict(case, category=key), [x["name"] for x in lvs], [v.symbol.name() for v in rvs])
            return
        for lv, rv in zip(lvs, rvs):
            for j, a in enumerate(G.ATTRS):
                val = getattr(rv, a)
                if isinstance(val, ca.MX):
                    impl = {"k": "mx", "at": G.eval_at_params(m2, val, pts2[:NPTS])}
                else:
                    impl = {"k": "py", "v": G.pyval(val)}
                if lv["attrs"][j] != impl:
                    ctx.disagreement("load.attribute", dict(case, category=key, variable=lv["name"], attribute=a,
                                                            row0=lv["row0"]), lv["attrs"][j], impl)
                    return
    # ---- delay durations: which symbols stay symbolic -------------------------------------------------
    if m2.delay_states:
        dds = [[int(k) for k in dd] for dd in db["__delay_duration_dependent"]]
        ans = drv.ask({"op": "delay.masks", "dds": dds})
        allnames = ["time"] + [v.symbol.name() for c in ["states", "der_states", "alg_states", "inputs", "constants", "parameters"]
                               for v in getattr(m2, c)]
        for i, (mask, da) in enumerate(zip(ans["masks"], m2.delay_arguments)):
            want = sorted(allnames[k] for k in (mask or []))
            got = sorted(s.name() for s in ca.symvar(ca.MX(da.duration)))
            ctx.count("delay-mask:" + ("independent" if mask is None else "own-deps" if sorted(mask) == sorted(dds[i]) else "union(false-deps)"))
            if want != got:
                ctx.disagreement("load.duration-symbols", dict(case, delay=i, dds=dds), want, got)
                return


def _rows_of(dicts, i):
    off = sum(dc["shape"][0] * dc["shape"][1] for dc in dicts[:i])
    return range(off, off + dicts[i]["shape"][0] * dicts[i]["shape"][1])


# ---------------------------------------------------------------------------------------------
SMALL_ARRAY_CONST = ("model M\n  Real x;\n  Real w[2];\n  Real yc;\n  input Real u;\nequation\n  der(x) = -x;\n  w[1] = 4.0;\n  w[2] = x;\n"
                     "  yc = (x + u) + (w[2] - x);\nend M;\n")


def gen_case(rng, mode="cache"):
    want = ["vector-parameter"] if rng.random() < 0.15 else []
    if mode == "codegen":
        want = want + ["cancellation"]     # compiled code must keep the exact operation order (no -ffast-math)
    gm = G.gen_model(rng, want=want, wide=WIDE)
    c = {"name": gm["name"], "text": gm["text"], "features": gm["features"], "opts": G.gen_options(rng),
         "mode": mode, "seed": rng.randrange(1000)}
    r = rng.random()
    if r < (0.3 if mode == "cache" else 0.5):
        c["opts2"] = G.flip(c["opts"], rng.choice(G.FLIP_KEYS[:8]))
    return c


REBUILD_TEXT = "model M\n  parameter Real p = 1;\n  Real x;\n  Real y(max = %s*p);\nequation\n  der(x) = -p*x;\n  y = %s*x + p;\nend M;\n"


def codegen_rebuild_case(ctx, n, ka, kb):
    """Code-generated libraries rebuilt at the same paths inside one process: compile, load, edit + rebuild, load.
    Every loaded model must equal the fresh compile of the source current at that time.  Models of earlier steps are
    dropped and collected first (a live one keeps its library mapped: C20-F2)."""
    import gc
    api = _api()
    d = _case_dir(ctx, 900000 + n)
    case = {"stream": "codegen-rebuild", "name": "M", "text": REBUILD_TEXT % (ka, ka), "text2": REBUILD_TEXT % (kb, kb),
            "opts": {}, "mode": "codegen", "seed": 3, "ka": ka, "kb": kb}
    try:
        t = 1_600_000_000 * 10**9
        for gen, text in enumerate((case["text"], case["text2"])):
            t += 10**9
            G.write_file(os.path.join(d, "M.mo"), text, t)
            rok, rm, rmsg = G.reference_compile(api, d, "M", {"codegen": True})
            if not rok:
                raise HarnessError("rebuild model does not compile: %s" % rmsg)
            ref = G.signature(rm, NPTS, 3)
            del rm
            for call in ("compile", "load"):
                ok, m, msg = G.outcome(api.transfer_model, d, "M", {"codegen": True})
                ctx.case({"stream": "codegen-rebuild", "generation": gen, "call": call}, nontrivial=True,
                         key=["rebuild", ka, kb, gen, call])
                ctx.count("codegen-rebuild:%s-%d:%s" % (call, gen, type(m).__name__ if ok else "raised"))
                if not ok:
                    ctx.violation("transfer_model(codegen) raised %s (generation %d, %s)" % (m, gen, call), case,
                                  expected="a model", observed="%s: %s" % (m, msg))
                    return
                df = G.diff(ref, G.signature(m, NPTS, 3))
                del m
                gc.collect()
                if df:
                    ctx.violation("code generation, source generation %d, %s call: the model differs from a fresh compile of the "
                                  "current source: %s" % (gen, call, df[0]), case, expected="fresh compile", observed=df)
                    return
            # the cache (written now) must be older than the next edit: stamp it like C20 does
            cf = os.path.join(d, "M.pymoca_cache")
            if os.path.exists(cf):
                t += 10**9
                G.set_mtime(cf, t)
    finally:
        shutil.rmtree(d, ignore_errors=True)


def gen_case_vecparam(rng):
    """A vector parameter, with and without expand_vectors (finding C19-F2, fixed in 8ef49ef)."""
    gm = G.gen_model(rng, want=["vector-parameter"])
    o = G.gen_options(rng)
    o["expand_vectors"] = rng.random() < 0.4
    return {"name": gm["name"], "text": gm["text"], "features": gm["features"], "opts": o, "mode": "cache",
            "seed": rng.randrange(1000), "stream": "vector-parameter"}


def gen_case_wide(rng, mode="cache"):
    """Attribute expressions with coefficients of extreme magnitude (1e-15 .. 1e13) in every case: a cache-served model
    takes its parameter-dependent attributes from the (possibly rebuilt, affine) metadata function, the fresh compile has
    the expression as written; the values are compared exactly, so a coefficient of 1e-13 counts like one of 3."""
    gm = G.gen_model(rng, want=["wide-coefficient", "dependent-parameter"], wide=0.5)
    return {"name": gm["name"], "text": gm["text"], "features": gm["features"], "opts": G.gen_options(rng, heavy=0.3), "mode": mode,
            "seed": rng.randrange(1000), "stream": "wide-coefficient"}


def gen_case_arraysym(rng):
    """Array attributes with symbolic elements in every case (finding C19-F3, fixed in 00f122e; also part of the main stream)."""
    gm = G.gen_model(rng, want=["array", "array-symbolic"])
    return {"name": gm["name"], "text": gm["text"], "features": gm["features"], "opts": G.gen_options(rng), "mode": "cache",
            "seed": rng.randrange(1000), "stream": "array-symbolic"}


def fixed_cases():
    out = []
    for text, opts in TARGETED:
        for mode in ("cache",):
            out.append({"name": "M", "text": text, "opts": opts, "mode": mode, "seed": 1, "features": ["targeted"]})
    from harness.common import REPO
    for fn, name, opts in REPO_MODELS:
        p = os.path.join(REPO, "test", "models", fn)
        if os.path.exists(p):
            with open(p) as f:
                out.append({"name": name, "text": f.read(), "opts": opts, "mode": "cache", "seed": 2, "features": ["repository-model"]})
    return out


def run(ctx):
    G.quiet_logging()
    drv = ctx.driver("drv_c19")
    quick = ctx.tier == "quick"
    from harness import corpus
    for c in corpus.load("C19"):
        ctx.count("corpus")
        check_case(ctx, c["case"] if "case" in c else c, drv)
    for c in fixed_cases():
        check_case(ctx, c, drv)
    for n_ in range(1 if quick else 3):
        ka, kb = ctx.rng.sample(["2", "3", "5", "0.5"], 2)
        codegen_rebuild_case(ctx, n_, ka, kb)
    for _ in range(5 if quick else 150):
        ctx.count("stream:vector-parameter")
        check_case(ctx, gen_case_vecparam(ctx.rng), drv)
    for _ in range(6 if quick else 150):
        ctx.count("stream:array-symbolic")
        check_case(ctx, gen_case_arraysym(ctx.rng), drv)
    for i in range(14 if quick else 300):
        ctx.count("stream:wide-coefficient")
        check_case(ctx, gen_case_wide(ctx.rng, "codegen" if (i == 3 or i % 50 == 49) else "cache"), drv)
    n_cache, n_codegen = (400, 6) if quick else (4000, 120)
    # codegen cases are spread over the run so that a time-out keeps both kinds
    every = max(1, n_cache // max(1, n_codegen))
    done_cg = 0
    for i in range(n_cache):
        if ctx.time_left() < (8 if quick else 0):
            ctx.notes.append("generated cases stopped by the time budget after %d of %d" % (i, n_cache))
            break
        check_case(ctx, gen_case(ctx.rng, "cache"), drv)
        if (i < 3 or i % every == 0) and done_cg < n_codegen:
            done_cg += 1
            c = gen_case(ctx.rng, "codegen")      # always drawn: the case sequence depends on the seed only
            if done_cg == 3:
                c.update(text=TARGETED[5][0], opts=dict(TARGETED[5][1]), features=["targeted"])
            if done_cg == 2:    # expand_mx changes the compile of this model, and only codegen leaves it to the caller
                base = {"expand_vectors": True, "eliminate_constant_assignments": True}
                c.update(text=SMALL_ARRAY_CONST, opts=base, opts2=G.flip(base, "expand_mx"), features=["targeted"])
            if ctx.time_left() > (12 if quick else 5):
                check_case(ctx, c, drv)
            else:
                ctx.count("codegen-case-skipped-for-time")
    ctx.extra["exhaustive"] = False


def search(ctx):
    """Tie broken without an oracle failure: more cases, direct oracle only."""
    G.quiet_logging()
    i = 0
    while ctx.time_left() > 0 and not ctx.violations and i < 20000:
        i += 1
        check_case(ctx, gen_case(ctx.rng, "codegen" if i % 40 == 0 else "cache"), None)


def replay(ctx, payload):
    G.quiet_logging()
    c = payload["case"]
    if c.get("stream") == "codegen-rebuild":
        codegen_rebuild_case(ctx, 0, c["ka"], c["kb"])
        return
    check_case(ctx, c, ctx.driver("drv_c19"))


MANIFEST = dict(
    level_text="Lean 4 theorems about an executable model of save_model/load_model (round trip of every variable list: names, "
               "order, shapes, types, aliases; every attribute value at every parameter vector via the row-offset bookkeeping "
               "row(i) = sum of numel before i; pass-through of outputs/delay states/alias relation/functions; delay durations "
               "equal at every point whatever false dependencies the loader keeps; soundness of the NOT_MX/MX_DEPENDENT/MX_INDEPENDENT "
               "classification on attribute expressions incl. the NaN call; a model is served only if every non-excluded option is equal), tied per run to the real code on generated "
               "models in both halves (save vs the real cache file, load vs the real CachedModel) and checked by a direct "
               "fresh-vs-cached oracle for cache and (sampled) gcc codegen.",
    level_note="Trusted: Lean kernel + standard axioms; the harness; pickle, CasADi serialisation / depends_on, gcc and ca.external "
               "(exercised by the correspondence, not modelled). Numerical agreement is at exact sampled points.",
    technique="Lean 4 proof (induction over variable lists with an offset invariant) + two-sided model/implementation correspondence + differential oracle",
)
READY = True
