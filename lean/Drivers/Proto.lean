import Lean.Data.Json
/-!
Line protocol shared by every model driver: one JSON object per input line, one JSON
answer per line.  The answer always carries the request's `case`.  Only the I/O loop is
`partial`; everything a handler calls lives in `PymocaVerif.Model.*` and is total.
-/
open Lean

namespace Drivers

def getStr (j : Json) (k : String) : Except String String := j.getObjValAs? String k
def getNat (j : Json) (k : String) : Except String Nat := j.getObjValAs? Nat k
def getInt (j : Json) (k : String) : Except String Int := j.getObjValAs? Int k
def getBool (j : Json) (k : String) : Except String Bool := j.getObjValAs? Bool k
def getArr (j : Json) (k : String) : Except String (Array Json) := do
  (← j.getObjVal? k).getArr?
def getObj (j : Json) (k : String) : Except String Json := j.getObjVal? k

def jstrs (xs : List String) : Json := Json.arr (xs.map Json.str).toArray

/-- Sort strings (canonical output for anything with set semantics). -/
def sortStrs (xs : List String) : List String := (xs.toArray.qsort (· < ·)).toList

partial def serve (handle : Json → Except String Json) : IO Unit := do
  let stdin ← IO.getStdin
  let stdout ← IO.getStdout
  let rec loop : IO Unit := do
    let line ← stdin.getLine
    if line.isEmpty then return ()
    let t := line.trimAscii.toString
    if t.isEmpty then loop else
    let out : Json :=
      match Json.parse t with
      | .error e => Json.mkObj [("ok", false), ("err", Json.str s!"bad-json: {e}")]
      | .ok req =>
        let c := (req.getObjVal? "case").toOption.getD Json.null
        match handle req with
        | .ok r => r.setObjVal! "case" c
        | .error e => Json.mkObj [("case", c), ("ok", false), ("err", Json.str e)]
    stdout.putStrLn out.compress
    stdout.flush
    loop
  loop

end Drivers
