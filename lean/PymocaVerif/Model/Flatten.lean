/-!
# Reference flattening semantics for core Modelica (C07, C08)

Executable, environment-passing reference semantics of instantiation + flattening for the
subset C07/C08 quantify over: long classes with (multiple) extends clauses carrying
modifications, components of builtin / type-definition / class type with prefixes, array
dimensions and modifications, equations over dotted references with subscripts, short class
definitions (`type T = Real(..)`, `type U = T(..)`, `model B2 = B(..)`).

Two stages.  `Model/FlattenSrc.lean` turns the *source* library (nested class definitions,
relative type names, modifications as spelled) into a *resolved* library `Lib`: an association
list from absolute class paths to `ClassDef`s whose type references are absolute and whose
modifications are desugared to `(path, expression)` pairs.  This file defines the semantics of a
resolved library; the property theorems (Props/C07, Props/C08) are about it.

Everything is total: recursion through class references is by fuel (`Err.fuel` when it runs
out — a recursive class structure exhausts any fuel), every rejection is an explicit `Err`.
-/
namespace PymocaVerif.Flatten

abbrev Name := String
abbrev Path := List Name

/-- Subscript expressions, innermost level: literals, one-part names (a loop variable, or a
    component of the class), sums.  (Two levels of subscripts — `v[i + off[k]]` — are modelled;
    the types are kept non-recursive through lists so that equality stays decidable by `deriving`.) -/
inductive Sub0 where
  | lit (n : Nat)
  | name (x : Name)
  | add (a b : Sub0)
  deriving Repr, DecidableEq, Inhabited

/-- Subscript expressions: additionally references that carry (innermost-level) subscripts. -/
inductive Sub1 where
  | lit (n : Nat)
  | name (x : Name)
  | ref (parts : List (Name × List Sub0))
  | add (a b : Sub1)
  deriving Repr, DecidableEq, Inhabited

/-- Expressions as written in the source. A reference is a dotted list of (name, subscripts). -/
inductive Expr where
  | num (n : Nat)
  | real (s : String)        -- a real literal, kept as its decimal text ("0.0", "2.5")
  | bool (b : Bool)
  | str (s : String)
  | ref (parts : List (Name × List Sub1))
  | un (op : String) (a : Expr)
  | bin (op : String) (a b : Expr)
  deriving Repr, DecidableEq, Inhabited

inductive FSub0 where
  | lit (n : Nat)
  | var (p : Path)          -- a name renamed to a flat variable
  | name (x : Name)         -- left as written (loop variable, unknown name)
  | add (a b : FSub0)
  deriving Repr, DecidableEq, Inhabited

inductive FSub1 where
  | lit (n : Nat)
  | var (p : Path) (subs : List FSub0)
  | name (x : Name)
  | uref (parts : List (Name × List Sub0))
  | add (a b : FSub1)
  deriving Repr, DecidableEq, Inhabited

/-- Expressions of the flat model: a reference is either renamed to a flat variable (`fref`,
    with the subscripts of all its parts collected and renamed), or left as written (`uref`);
    `sym` is the variable on the left of a binding equation. -/
inductive FExpr where
  | num (n : Nat)
  | real (s : String)
  | bool (b : Bool)
  | str (s : String)
  | fref (path : Path) (subs : List FSub1)
  | uref (parts : List (Name × List Sub1))
  | sym (path : Path)
  | un (op : String) (a : FExpr)
  | bin (op : String) (a b : FExpr)
  deriving Repr, DecidableEq, Inhabited

/-- An equation as written: simple, or a for-loop over `lo:hi` of simple equations. -/
inductive Eqn where
  | eq (lhs rhs : Expr)
  | forEq (i : Name) (lo hi : Nat) (body : List (Expr × Expr))
  deriving Repr, DecidableEq, Inhabited

inductive FEqn where
  | eq (lhs rhs : FExpr)
  | forEq (i : Name) (lo hi : Nat) (body : List (FExpr × FExpr))
  deriving Repr, DecidableEq, Inhabited

inductive Err where
  | fuel            -- recursion bound exhausted (recursive class structure)
  | noClass (p : Path)
  | badExtends      -- extends of an elementary type in a long class / malformed short definition
  | dupMember (n : Name)
  | unknownTarget (p : Path)   -- a modification names no element of the class it is applied to
  | badAttr (p : Path)         -- modification of something that is not the binding or an attribute of a leaf
  | typeModNotLiteral
  | targetElementary
  | resolve (msg : String)     -- source-level lookup failure (stage 1)
  deriving Repr, DecidableEq, Inhabited

/-- A desugared modification as written in a class: `path` relative to the modified element
    (component path followed by the attribute name; `[]` is the binding of a declaration). -/
structure Mod where
  path : Path
  value : Expr
  deriving Repr, DecidableEq, Inhabited

/-- A modification travelling down the instance tree: `scope` is the prefix of the instance in
    which it was *written* (its expression is resolved there). -/
structure MMod where
  path : Path
  scope : Path
  value : Expr
  deriving Repr, DecidableEq, Inhabited

inductive Ty where
  | builtin (b : String)
  | cls (p : Path)
  deriving Repr, DecidableEq, Inhabited

structure Comp where
  name : Name
  ty : Ty
  prefixes : List String
  dims : List Nat
  mods : List Mod          -- class modification followed by the binding (path `[]`)
  deriving Repr, DecidableEq, Inhabited

structure ClassDef where
  isShort : Bool                      -- `type T = X(mods)`: exactly one extends clause, nothing else
  exts : List (Ty × List Mod)
  comps : List Comp
  eqs : List Eqn
  ieqs : List Eqn                     -- the `initial equation` sections
  deriving Repr, Inhabited

abbrev Lib := List (Path × ClassDef)

def Lib.find (lib : Lib) (p : Path) : Option ClassDef := List.lookup p lib

def attrNames : List String :=
  ["start", "min", "max", "nominal", "fixed", "unit", "quantity", "displayUnit"]

/-! ## small helpers -/

/-- `mapM` in `Except`, by structural recursion (so that proofs are plain list inductions). -/
def mapE {α β ε : Type} (f : α → Except ε β) : List α → Except ε (List β)
  | [] => .ok []
  | a :: as =>
    match f a with
    | .error e => .error e
    | .ok b =>
      match mapE f as with
      | .error e => .error e
      | .ok bs => .ok (b :: bs)

/-- first element satisfying `p`, as an error carrier -/
def firstBad {α : Type} (p : α → Bool) : List α → Option α
  | [] => none
  | a :: as => if p a then some a else firstBad p as

def dupName : List Name → Option Name
  | [] => none
  | a :: as => if as.contains a then some a else dupName as

def Expr.isLiteral : Expr → Bool
  | .num _ => true
  | .real _ => true
  | .bool _ => true
  | .str _ => true
  | .ref _ => false
  | .un _ a => a.isLiteral
  | .bin _ a b => a.isLiteral && b.isLiteral

/-! ## elementary types: builtins and short definitions of them -/

/-- `some (b, ms)`: the type is builtin `b` reached through short class definitions whose
    modification lists are `ms`, *innermost definition first* (later wins).  `none`: a class. -/
def elemOf : Nat → Lib → Ty → Except Err (Option (String × List (List Mod)))
  | _, _, .builtin b => .ok (some (b, []))
  | 0, _, .cls _ => .error .fuel
  | f + 1, lib, .cls p =>
    match lib.find p with
    | none => .error (.noClass p)
    | some d =>
      if d.isShort then
        match d.exts with
        | [(t, m)] =>
          match elemOf f lib t with
          | .error e => .error e
          | .ok none => .ok none
          | .ok (some (b, ms)) => .ok (some (b, ms ++ [m]))
        | _ => .error .badExtends
      else .ok none

/-! ## members: own and inherited components and equations -/

/-- A component of a class together with the modification lists of the extends clauses it was
    inherited through, *base-most clause first* (the derived class's clause is last and wins). -/
structure Member where
  comp : Comp
  ext : List (List Mod)
  deriving Repr, DecidableEq, Inhabited

def Mod.headIn (names : List Name) (m : Mod) : Bool :=
  match m.path with
  | [] => false
  | n :: _ => names.contains n

/-- the members a class gets through one extends clause `tm`, given the members of the base -/
def inheritStep (elem : Ty → Except Err (Option (String × List (List Mod))))
    (rec : Path → Except Err (List Member)) (tm : Ty × List Mod) : Except Err (List Member) :=
  match tm.1 with
  | .builtin _ => .error .badExtends
  | .cls b =>
    match elem (.cls b) with
    | .error e => .error e
    | .ok (some _) => .error .badExtends
    | .ok none =>
      match rec b with
      | .error e => .error e
      | .ok ms =>
        match firstBad (fun m => !(Mod.headIn (ms.map (·.comp.name)) m)) tm.2 with
        | some m => .error (.unknownTarget m.path)
        | none => .ok (ms.map fun x => { x with ext := x.ext ++ [tm.2] })

def membersF : Nat → Lib → Path → Except Err (List Member)
  | 0, _, _ => .error .fuel
  | f + 1, lib, p =>
    match lib.find p with
    | none => .error (.noClass p)
    | some d =>
      match mapE (inheritStep (elemOf f lib) (membersF f lib)) d.exts with
      | .error e => .error e
      | .ok inh => .ok (inh.flatten ++ d.comps.map fun k => { comp := k, ext := [] })

def inheritEqStep (rec : Path → Except Err (List Eqn)) (tm : Ty × List Mod) :
    Except Err (List Eqn) :=
  match tm.1 with
  | .builtin _ => .error .badExtends
  | .cls b => rec b

def memberEqsF : Nat → Lib → Path → Except Err (List Eqn)
  | 0, _, _ => .error .fuel
  | f + 1, lib, p =>
    match lib.find p with
    | none => .error (.noClass p)
    | some d =>
      match mapE (inheritEqStep (memberEqsF f lib)) d.exts with
      | .error e => .error e
      | .ok inh => .ok (inh.flatten ++ d.eqs)

/-! ## instantiation -/

/-- A leaf of the instance tree. `binds` are all modifications that reach it, lowest priority
    first (type definitions, declaration, extends clauses base-most first, enclosing
    components innermost first); each has path `[]` (binding) or `[attr]`. -/
structure Var where
  path : Path
  ty : String
  prefixes : List String
  dims : List Nat
  binds : List MMod
  deriving Repr, DecidableEq, Inhabited

/-- An equation of the class instantiated at `scope`, as written. -/
structure IEq where
  scope : Path
  eq : Eqn
  deriving Repr, DecidableEq, Inhabited

def Mod.here (P : Path) (m : Mod) : MMod := { path := m.path, scope := P, value := m.value }

/-- the modification, one level down into element `n` (if it concerns `n`) -/
def Mod.strip (n : Name) (m : Mod) : Option Mod :=
  match m.path with
  | [] => none
  | h :: t => if h = n then some { m with path := t } else none

def MMod.strip (n : Name) (m : MMod) : Option MMod :=
  match m.path with
  | [] => none
  | h :: t => if h = n then some { m with path := t } else none

def MMod.headIn (names : List Name) (m : MMod) : Bool :=
  match m.path with
  | [] => false
  | n :: _ => names.contains n

/-- input/output survive only on components of the class being flattened itself -/
def stripIO (P : Path) (prefixes : List String) : List String :=
  if P = [] then prefixes else prefixes.filter fun x => x != "input" && x != "output"

def okLeafPath (p : Path) : Bool :=
  match p with
  | [] => true
  | [a] => attrNames.contains a
  | _ => false

/-- All modifications for member `k` of a class instantiated at `P` with `outer` coming from the
    enclosing levels: declaration < extends clauses (base-most first) < enclosing components. -/
def allMods (P : Path) (k : Comp) (ext : List (List Mod)) (outer : List MMod) : List MMod :=
  k.mods.map (Mod.here P) ++ (ext.flatten.filterMap (Mod.strip k.name)).map (Mod.here P)
    ++ outer.filterMap (MMod.strip k.name)

/-- modifications of the type definitions of a leaf (literals only: they would have to be
    resolved in the scope of the definition, which has no instance) -/
def typeMods (P : Path) (ms : List (List Mod)) : Except Err (List MMod) :=
  match firstBad (fun (m : Mod) => !(m.value.isLiteral)) ms.flatten with
  | some _ => .error .typeModNotLiteral
  | none => .ok (ms.flatten.map (Mod.here P))

def mkLeaf (P : Path) (k : Comp) (b : String) (tms : List (List Mod)) (all : List MMod) (dims : List Nat) :
    Except Err (List Var × List IEq) :=
  match typeMods P tms with
  | .error e => .error e
  | .ok tm =>
    match firstBad (fun (m : MMod) => !(okLeafPath m.path)) (tm ++ all) with
    | some m => .error (.badAttr m.path)
    | none => .ok ([{ path := P ++ [k.name], ty := b, prefixes := stripIO P k.prefixes,
                      dims := dims ++ k.dims, binds := tm ++ all }], [])

/-- the part of the instance tree below member `m` of a class instantiated at `P` -/
def instStep (elem : Ty → Except Err (Option (String × List (List Mod))))
    (rec : Path → Path → List MMod → List Nat → Except Err (List Var × List IEq))
    (P : Path) (outer : List MMod) (dims : List Nat) (m : Member) : Except Err (List Var × List IEq) :=
  match elem m.comp.ty with
  | .error e => .error e
  | .ok (some (b, tms)) => mkLeaf P m.comp b tms (allMods P m.comp m.ext outer) dims
  | .ok none =>
    match m.comp.ty with
    | .builtin _ => .error .badExtends
    | .cls c' => rec c' (P ++ [m.comp.name]) (allMods P m.comp m.ext outer) (dims ++ m.comp.dims)

/-- Instantiate class `c` at instance prefix `P`, with the modifications `outer` of the enclosing
    levels and the dimensions `dims` of the enclosing array components. -/
def instF : Nat → Lib → Path → Path → List MMod → List Nat → Except Err (List Var × List IEq)
  | 0, _, _, _, _, _ => .error .fuel
  | f + 1, lib, c, P, outer, dims =>
    match membersF f lib c with
    | .error e => .error e
    | .ok ms =>
      match dupName (ms.map (·.comp.name)) with
      | some n => .error (.dupMember n)
      | none =>
        match firstBad (fun m => !(MMod.headIn (ms.map (·.comp.name)) m)) outer with
        | some m => .error (.unknownTarget m.path)
        | none =>
          match memberEqsF f lib c with
          | .error e => .error e
          | .ok eqs =>
            match mapE (instStep (elemOf f lib) (instF f lib) P outer dims) ms with
            | .error e => .error e
            | .ok rs =>
              .ok ((rs.map (·.1)).flatten,
                   (rs.map (·.2)).flatten ++ eqs.map fun e => { scope := P, eq := e })

/-! ## renaming and the flat model -/

def refNames {σ : Type} (parts : List (Name × List σ)) : Path := parts.map (·.1)

/-- A name or reference written in instance `P` denotes the variable `P ++ names` when that is a
    variable of the flat model; otherwise it is left as written.  The same rule at every level
    of subscripts. -/
def renSub0 (vars : List Path) (P : Path) : Sub0 → FSub0
  | .lit n => .lit n
  | .name x => if vars.contains (P ++ [x]) then .var (P ++ [x]) else .name x
  | .add a b => .add (renSub0 vars P a) (renSub0 vars P b)

def refSubs0 (vars : List Path) (P : Path) (parts : List (Name × List Sub0)) : List FSub0 :=
  (parts.map fun p => p.2.map (renSub0 vars P)).flatten

def renSub1 (vars : List Path) (P : Path) : Sub1 → FSub1
  | .lit n => .lit n
  | .name x => if vars.contains (P ++ [x]) then .var (P ++ [x]) [] else .name x
  | .ref parts =>
    if vars.contains (P ++ refNames parts) then .var (P ++ refNames parts) (refSubs0 vars P parts)
    else .uref parts
  | .add a b => .add (renSub1 vars P a) (renSub1 vars P b)

/-- the subscripts of all parts of a reference, in order, renamed -/
def refSubs (vars : List Path) (P : Path) (parts : List (Name × List Sub1)) : List FSub1 :=
  (parts.map fun p => p.2.map (renSub1 vars P)).flatten

def rename (vars : List Path) (P : Path) : Expr → FExpr
  | .num n => .num n
  | .real s => .real s
  | .bool b => .bool b
  | .str s => .str s
  | .ref parts =>
    if vars.contains (P ++ refNames parts) then .fref (P ++ refNames parts) (refSubs vars P parts)
    else .uref parts
  | .un op a => .un op (rename vars P a)
  | .bin op a b => .bin op (rename vars P a) (rename vars P b)

/-- the winning modification of attribute path `a` (`[]` = binding): the last one in priority order -/
def lookupBind (binds : List MMod) (a : Path) : Option MMod :=
  (binds.reverse.find? fun m => m.path == a)

structure FVar where
  path : Path
  ty : String
  prefixes : List String
  dims : List Nat
  attrs : List (String × FExpr)
  value : Option FExpr
  deriving Repr, DecidableEq, Inhabited

structure FlatModel where
  vars : List FVar
  eqs : List FEqn        -- instance equations, unconnected-flow equations, binding equations
  ieqs : List FEqn       -- initial equations of every instance
  deriving Repr, DecidableEq, Inhabited

/-- loop variables are not components (assumed of the input, as pymoca does): the body is renamed
    like any other equation -/
def renameEqn (vars : List Path) (P : Path) : Eqn → FEqn
  | .eq l r => .eq (rename vars P l) (rename vars P r)
  | .forEq i lo hi body => .forEq i lo hi (body.map fun e => (rename vars P e.1, rename vars P e.2))

def Var.isParam (v : Var) : Bool := v.prefixes.contains "parameter" || v.prefixes.contains "constant"

def Var.attr (names : List Path) (v : Var) (a : Path) : Option FExpr :=
  (lookupBind v.binds a).map fun m => rename names m.scope m.value

def finVar (names : List Path) (v : Var) : FVar :=
  { path := v.path, ty := v.ty, prefixes := v.prefixes, dims := v.dims,
    attrs := attrNames.filterMap fun a => (v.attr names [a]).map fun e => (a, e),
    value := if v.isParam then v.attr names [] else none }

def instEqs (names : List Path) (ieqs : List IEq) : List FEqn :=
  ieqs.map fun e => renameEqn names e.scope e.eq

def flowEqs (vars : List Var) : List FEqn :=
  (vars.filter fun v => v.prefixes.contains "flow").map fun v => .eq (.sym v.path) (.num 0)

def bindEqs (names : List Path) (vars : List Var) : List FEqn :=
  vars.filterMap fun v =>
    if v.isParam then none else (v.attr names []).map fun e => .eq (.sym v.path) e

/-- the same library with every class's `initial equation` sections in the place of its equations:
    instantiating it yields the initial equations of every instance -/
def initView (lib : Lib) : Lib := lib.map fun pd => (pd.1, { pd.2 with eqs := pd.2.ieqs })

/-- the instance tree of `target` (its leaves and equations, not yet renamed) -/
def instTop (fuel : Nat) (lib : Lib) (target : Path) : Except Err (List Var × List IEq) :=
  match elemOf fuel lib (.cls target) with
  | .error e => .error e
  | .ok (some _) => .error .targetElementary
  | .ok none => instF fuel lib target [] [] []

def assemble (r : List Var × List IEq) (init : List IEq) : FlatModel :=
  let names := r.1.map (·.path)
  { vars := r.1.map (finVar names),
    eqs := instEqs names r.2 ++ flowEqs r.1 ++ bindEqs names r.1,
    ieqs := instEqs names init }

def flattenF (fuel : Nat) (lib : Lib) (target : Path) : Except Err FlatModel :=
  match instTop fuel lib target with
  | .error e => .error e
  | .ok r =>
    match instTop fuel (initView lib) target with
    | .error e => .error e
    | .ok ri => .ok (assemble r ri.2)

end PymocaVerif.Flatten
