"""Shared helpers of C11 and C12 (owner: A08).

* `ser_model`  : the REAL flat AST (pymoca.tree.flatten) of a model -> JSON (what the Lean driver and the
                 Python oracle both read; nothing of the generator's own bookkeeping goes in).
* `Oracle`     : direct oracle = Modelica meaning of the flat equations in exact `Fraction` arithmetic
                 (written from the Modelica specification, independent of the Lean model and of pymoca's
                 CasADi generator).  Also tells whether a point is *exact* (every intermediate value is a
                 double), so that `Fraction(float)` of the CasADi result is comparable.
* `RealModel`  : runs the real code in-process (parse -> generate [-> simplify]) and evaluates the four
                 output functions at exact points.
* `ModelGen`   : structured generator of models in the supported subset + evaluation points.
"""
import math
from fractions import Fraction as F


class Unsupported(Exception):
    """The oracle does not give this construct a meaning (outside the supported subset)."""


class Inexact(Exception):
    """An intermediate value is not exactly representable as a double: the point is skipped."""


def qs(q):
    q = F(q)
    return "%d/%d" % (q.numerator, q.denominator)


def qp(s):
    a, b = s.split("/")
    return F(int(a), int(b))


# ======================================================================================
# serialisation of the real flat AST
# ======================================================================================
def ser(n):
    from pymoca import ast
    if n is None:
        return {"k": "none"}
    if n is True:
        return {"k": "else"}
    if isinstance(n, ast.Primary):
        v = n.value
        if isinstance(v, bool):
            return {"k": "num", "v": "1/1" if v else "0/1", "bool": True}
        if isinstance(v, (int, float)):
            return {"k": "num", "v": qs(F(v)), "int": isinstance(v, int)}
        if v is None:
            return {"k": "none"}
        return {"k": "str", "v": str(v)}
    if isinstance(n, ast.ComponentRef):
        idx = [ser(i) for part in n.indices for i in part if i is not None]
        return {"k": "ref", "name": n.name, "idx": idx}
    if isinstance(n, ast.Slice):
        return {"k": "slice", "start": ser(n.start), "stop": ser(n.stop), "step": ser(n.step)}
    if isinstance(n, ast.Expression):
        op = n.operator if isinstance(n.operator, str) else n.operator.name
        return {"k": "app", "op": op, "args": [ser(a) for a in n.operands]}
    if isinstance(n, ast.IfExpression):
        return {"k": "ife", "conds": [ser(c) for c in n.conditions], "exprs": [ser(e) for e in n.expressions]}
    if isinstance(n, ast.Array):
        return {"k": "array", "vals": [ser(v) for v in n.values]}
    if isinstance(n, ast.Equation):
        left = n.left
        if isinstance(left, list):
            return {"k": "eq", "ls": [ser(x) for x in left], "r": ser(n.right)}
        return {"k": "eq", "l": ser(left), "r": ser(n.right)}
    if isinstance(n, ast.IfEquation):
        return {"k": "ifeq", "conds": [ser(c) for c in n.conditions],
                "blocks": [[ser(e) for e in b] for b in n.blocks]}
    if isinstance(n, ast.ForEquation):
        if len(n.indices) != 1:
            raise Unsupported("multi-index for")
        i = n.indices[0]
        return {"k": "foreq", "idx": i.name, "range": ser(i.expression), "eqs": [ser(e) for e in n.equations]}
    if isinstance(n, ast.AssignmentStatement):
        return {"k": "assign", "ls": [ser(x) for x in n.left], "r": ser(n.right)}
    if isinstance(n, ast.IfStatement):
        return {"k": "ifst", "conds": [ser(c) for c in n.conditions],
                "blocks": [[ser(e) for e in b] for b in n.blocks]}
    if isinstance(n, ast.ForStatement):
        if len(n.indices) != 1:
            raise Unsupported("multi-index for")
        i = n.indices[0]
        return {"k": "forst", "idx": i.name, "range": ser(i.expression), "body": [ser(e) for e in n.statements]}
    raise Unsupported("node " + type(n).__name__)


def ser_symbol(s):
    tname = s.type.name if hasattr(s.type, "name") else str(s.type)
    dims = [ser(d) for part in s.dimensions for d in part if not _is_none(d)]
    out = {"name": s.name, "prefixes": list(s.prefixes), "type": tname, "dims": dims, "order": s.order}
    out["value"] = ser(s.value)
    out["attrs"] = {a: ser(getattr(s, a)) for a in ("value", "min", "max", "start", "fixed", "nominal")}
    return out


def _is_none(d):
    from pymoca import ast
    return d is None or (isinstance(d, ast.Primary) and d.value is None)


def ser_class(c):
    return {
        "name": c.name,
        "type": c.type,
        "symbols": [ser_symbol(s) for s in c.symbols.values()],
        "equations": [ser(e) for e in c.equations],
        "initial_equations": [ser(e) for e in c.initial_equations],
        "statements": [ser(s) for s in c.statements],
    }


def ser_model(flat, name):
    """JSON of the flat tree: the model class and every function class next to it."""
    funcs = {}
    for k, c in flat.classes.items():
        if c.type == "function":
            funcs[k] = ser_class(c)
    return {"model": ser_class(flat.classes[name]), "functions": funcs, "function_order": list(funcs)}


# ======================================================================================
# direct oracle: Modelica semantics of flat equations over Fraction
# ======================================================================================
def _exact(q):
    """q must be a double: dyadic, numerator < 2^53, modest exponent."""
    if isinstance(q, list):
        for x in q:
            _exact(x)
        return q
    d = q.denominator
    if d & (d - 1) or abs(q.numerator) >= 2 ** 53 or d > 2 ** 60:
        raise Inexact(str(q))
    return q


def _isqrt_exact(q):
    n, d = q.numerator, q.denominator
    if n < 0:
        return None
    rn, rd = math.isqrt(n), math.isqrt(d)
    return F(rn, rd) if rn * rn == n and rd * rd == d else None


class _Sqrts(dict):
    def __contains__(self, q):
        return _isqrt_exact(q) is not None

    def __getitem__(self, q):
        return _isqrt_exact(q)


# elementary functions: the exact points we allow (value of f there); anything else is Inexact
ELEM_EXACT = {
    "sin": {F(0): F(0)}, "cos": {F(0): F(1)}, "tan": {F(0): F(0)}, "exp": {F(0): F(1)}, "log": {F(1): F(0)},
    "asin": {F(0): F(0)}, "atan": {F(0): F(0)}, "acos": {F(1): F(0)}, "sinh": {F(0): F(0)}, "cosh": {F(0): F(1)},
    "tanh": {F(0): F(0)}, "sqrt": _Sqrts(), "log10": {F(1): F(0)},
}


def _sign(x):
    return F((x > 0) - (x < 0))


ELEM_TOTAL = {
    "sign": _sign, "floor": lambda x: F(math.floor(x)), "ceil": lambda x: F(math.ceil(x)),
    "abs": abs, "fabs": abs,
}
REL = {"<": lambda a, b: a < b, "<=": lambda a, b: a <= b, ">": lambda a, b: a > b, ">=": lambda a, b: a >= b,
       "==": lambda a, b: a == b, "<>": lambda a, b: a != b}


class Oracle:
    """Meaning of one serialised flat model at one point.

    `point`: name -> list of Fractions (column-major elements) for every variable, 'time', 'der(x)' and
    delay inputs.  Values are scalars (Fraction) or 1-D lists; matrices exist only as symbols that are
    subscripted."""

    def __init__(self, js, point, ranges=None):
        self.js = js
        self.ranges = ranges or {}   # loop index name -> (start, step, stop) as written in the SOURCE TEXT
        self.m = js["model"]
        self.funcs = js["functions"]
        self.point = point
        self.syms = {s["name"]: s for s in self.m["symbols"]}
        self.shape = {n: self.dims(s, self.syms) for n, s in self.syms.items()}
        self.delay_counter = 0
        self.delays = []   # (expr value, duration value) in order of appearance

    # ---- static integers (dimensions, loop bounds, subscripts) -------------------------------------
    def integer(self, n, syms, loop=None):
        k = n["k"]
        if k == "num":
            q = qp(n["v"])
            if q.denominator != 1:
                raise Unsupported("non-integer where an integer is needed")
            return int(q)
        if k == "ref" and not n["idx"]:
            if loop and n["name"] in loop:
                return loop[n["name"]]
            s = syms.get(n["name"])
            if s is None or s["type"] != "Integer":
                raise Unsupported("integer from non-Integer symbol " + n["name"])
            return self.integer(s["value"], syms, loop)
        if k == "app":
            a = [self.integer(x, syms, loop) for x in n["args"]]
            op = n["op"]
            if op == "+" and len(a) == 2:
                return a[0] + a[1]
            if op == "-" and len(a) == 2:
                return a[0] - a[1]
            if op == "-" and len(a) == 1:
                return -a[0]
            if op == "*" and len(a) == 2:
                return a[0] * a[1]
        raise Unsupported("integer expression " + str(n)[:80])

    def dims(self, s, syms):
        return tuple(self.integer(d, syms) for d in s["dims"])

    @staticmethod
    def modelica_range(start, step, stop):
        """Modelica 10.? : start : step : stop  =  start, start+step, ... while not beyond stop."""
        out = []
        if step == 0:
            raise Unsupported("zero step")
        v = start
        while (step > 0 and v <= stop) or (step < 0 and v >= stop):
            out.append(v)
            v += step
        return out

    def loop_values(self, idx, r, syms):
        """Values of a loop index: the Modelica range start:step:stop.  Three-part ranges are taken from the
        SOURCE TEXT when the generator recorded them (`ranges`), so that the oracle does not depend on how the
        parser fills the Slice node; otherwise from the node (start, step, stop)."""
        if idx in self.ranges:
            a, s_, b = self.ranges[idx]
            return self.modelica_range(a, s_, b)
        if r["k"] != "slice":
            raise Unsupported("loop range is not a range")
        start = self.integer(r["start"], syms)
        stop = self.integer(r["stop"], syms)
        step = self.integer(r["step"], syms)
        return self.modelica_range(start, step, stop)

    # ---- expressions --------------------------------------------------------------------------------
    def symval(self, name, env, shape_of=None):
        if name in env:
            return env[name]
        if name == "time":
            return self.point["time"][0]
        if name not in self.point:
            raise Unsupported("no value for " + name)
        v = self.point[name]
        shp = self.shape.get(shape_of or name, ())
        return v[0] if shp == () else list(v)

    def subscripts(self, idx, shp, env, syms):
        """-> list of lists of 0-based positions, one list per dimension (None kept for 'scalar index')."""
        if len(idx) != len(shp):
            raise Unsupported("partial subscripting")
        out, scalar = [], []
        for i, d in zip(idx, shp):
            if i["k"] == "slice":
                lo = 1 if i["start"]["k"] == "none" else self.integer(i["start"], syms, env.get("$loop"))
                hi = d if i["stop"]["k"] == "none" else self.integer(i["stop"], syms, env.get("$loop"))
                st = self.integer(i["step"], syms, env.get("$loop"))
                if st < 1:
                    raise Unsupported("descending subscript range")
                pos = self.modelica_range(lo, st, hi)
                scalar.append(False)
            else:
                v = self.ev(i, env, syms)
                if isinstance(v, list) or v.denominator != 1:
                    raise Unsupported("non-integer subscript")
                pos = [int(v)]
                scalar.append(True)
            for p in pos:
                if p < 1 or p > d:
                    raise Unsupported("subscript %d out of 1..%d" % (p, d))
            out.append([p - 1 for p in pos])
        return out, scalar

    def ref(self, n, env, syms, shape_of=None):
        name = n["name"]
        if name in env and not n["idx"]:
            return env[name]
        if not n["idx"]:
            return self.symval(name, env, shape_of)
        if name in env:
            raise Unsupported("subscripted local")
        shp = self.shape[shape_of or name]
        flat = self.point[name]
        pos, scalar = self.subscripts(n["idx"], shp, env, syms)
        if len(shp) == 1:
            vals = [flat[p] for p in pos[0]]
            return vals[0] if scalar[0] else vals
        if len(shp) == 2:
            if not all(scalar) and not any(scalar):
                raise Unsupported("matrix-valued slice")
            vals = [flat[r + c * shp[0]] for c in pos[1] for r in pos[0]]
            return vals[0] if all(scalar) else vals
        raise Unsupported("rank > 2")

    @staticmethod
    def lift2(f, a, b):
        if isinstance(a, list) and isinstance(b, list):
            if len(a) != len(b):
                raise Unsupported("length mismatch")
            return [f(x, y) for x, y in zip(a, b)]
        if isinstance(a, list):
            return [f(x, b) for x in a]
        if isinstance(b, list):
            return [f(a, y) for y in b]
        return f(a, b)

    @staticmethod
    def lift1(f, a):
        return [f(x) for x in a] if isinstance(a, list) else f(a)

    @staticmethod
    def truth(c):
        if isinstance(c, list):
            raise Unsupported("vector condition")
        return c != 0

    def ev(self, n, env, syms):
        return _exact(self._ev(n, env, syms))

    def _ev(self, n, env, syms):
        k = n["k"]
        if k == "num":
            return qp(n["v"])
        if k == "ref":
            return self.ref(n, env, syms)
        if k == "ife":
            for c, e in zip(n["conds"], n["exprs"]):
                if self.truth(self.ev(c, env, syms)):
                    return self.ev(e, env, syms)
            return self.ev(n["exprs"][-1], env, syms)
        if k != "app":
            raise Unsupported("expression kind " + k)
        op, args = n["op"], n["args"]
        if op == "der":
            a = args[0]
            if a["k"] != "ref":
                raise Unsupported("der of an expression")
            return self.ref({"k": "ref", "name": "der(%s)" % a["name"], "idx": a["idx"]}, env, syms,
                            shape_of=a["name"])
        if op == "delay":
            name = "_pymoca_delay_%d" % self.delay_counter
            self.delay_counter += 1
            self.delays.append((self.ev(args[0], env, syms), self.ev(args[1], env, syms)))
            return self.symval(name, env)
        a = [self.ev(x, env, syms) for x in args] if op not in self.funcs else None
        if op in self.funcs:
            a = [self.ev(x, env, syms) for x in args]
            outs = self.call(op, a)
            return outs[0] if len(outs) == 1 else outs
        el = op[1:] if op.startswith(".") and len(op) > 1 else op
        if len(a) == 1:
            x = a[0]
            if el == "-":
                return self.lift1(lambda v: -v, x)
            if el == "+":
                return x
            if el == "not":
                return F(0) if self.truth(x) else F(1)
            if el == "sum":
                return sum(x, F(0)) if isinstance(x, list) else x
            if el in ELEM_TOTAL:
                return self.lift1(ELEM_TOTAL[el], x)
            if el in ELEM_EXACT:
                def f(v, t=ELEM_EXACT[el]):
                    if v not in t:
                        raise Inexact("%s(%s)" % (el, v))
                    return t[v]
                return self.lift1(f, x)
            raise Unsupported("unary " + op)
        if len(a) == 2:
            x, y = a
            if op == "*":   # Modelica: scalar*array scales; array*array is a matrix/scalar product (unsupported here)
                if isinstance(x, list) and isinstance(y, list):
                    raise Unsupported("array product")
                return self.lift2(lambda p, q: p * q, x, y)
            if el == "*":
                return self.lift2(lambda p, q: p * q, x, y)
            if el == "+":
                return self.lift2(lambda p, q: p + q, x, y)
            if el == "-":
                return self.lift2(lambda p, q: p - q, x, y)
            if el == "/":
                return self.lift2(self.div, x, y)
            if el == "^":
                return self.lift2(self.pow, x, y)
            if el in REL:
                return self.lift2(lambda p, q: F(int(REL[el](p, q))), x, y)
            if el == "and":     # the property's encoding: product
                return self.lift2(lambda p, q: p * q, x, y)
            if el == "or":      # the property's encoding: sum
                return self.lift2(lambda p, q: p + q, x, y)
            if el == "min":
                return self.lift2(min, x, y)
            if el == "max":
                return self.lift2(max, x, y)
            raise Unsupported("binary " + op)
        raise Unsupported("arity of " + op)

    @staticmethod
    def div(p, q):
        if q == 0:
            raise Inexact("division by zero")
        n = abs(q.numerator)
        if q.denominator & (q.denominator - 1) or n & (n - 1):
            raise Inexact("divisor %s is not a power of two" % q)   # CasADi may rewrite x/c as x*(1/c)
        return p / q

    @staticmethod
    def pow(p, q):
        if q.denominator != 1 or q < 0 or q > 8:
            raise Inexact("exponent %s" % q)
        return p ** int(q)

    # ---- functions (imperative execution of the algorithm section) -------------------------------
    def call(self, fname, argv):
        f = self.funcs[fname]
        fs = {s["name"]: s for s in f["symbols"]}
        ins = [s["name"] for s in f["symbols"] if "input" in s["prefixes"]]
        outs = [s["name"] for s in f["symbols"] if "output" in s["prefixes"]]
        if len(ins) != len(argv):
            raise Unsupported("argument count")
        for s in f["symbols"]:
            if s["dims"]:
                raise Unsupported("array in function")
        env = dict(zip(ins, argv))
        self.exec_block(f["statements"], env, fs)
        for o in outs:
            if o not in env:
                raise Unsupported("output %s never assigned" % o)
        return [env[o] for o in outs]

    def exec_block(self, stmts, env, fs):
        for s in stmts:
            k = s["k"]
            if k == "assign":
                if len(s["ls"]) != 1 or s["ls"][0]["idx"]:
                    raise Unsupported("assignment target")
                env[s["ls"][0]["name"]] = self.ev_local(s["r"], env, fs)
            elif k == "ifst":
                done = False
                for c, b in zip(s["conds"], s["blocks"]):
                    if c["k"] == "else" or self.truth(self.ev_local(c, env, fs)):
                        self.exec_block(b, env, fs)
                        done = True
                        break
                if not done:
                    pass
            elif k == "forst":
                for v in self.loop_values(s["idx"], s["range"], fs):
                    env[s["idx"]] = F(v)
                    self.exec_block(s["body"], env, fs)
                env.pop(s["idx"], None)
            else:
                raise Unsupported("statement " + k)

    def ev_local(self, n, env, fs):
        for r in _refs(n):
            if r not in env and r not in self.funcs:
                raise Unsupported("use of unassigned local " + r)
        return self.ev(n, dict(env), fs)

    # ---- equations ------------------------------------------------------------------------------------
    def residual(self, e, env=None):
        """-> list of Fractions: lhs - rhs of one flat equation (for-equations: see `for_layout`)."""
        env = env or {}
        syms = self.syms
        k = e["k"]
        if k == "eq":
            if "ls" in e:
                lhs = []
                for x in e["ls"]:
                    v = self.ev(x, env, syms)
                    lhs += v if isinstance(v, list) else [v]
            else:
                lhs = self.ev(e["l"], env, syms)
            rhs = self.ev(e["r"], env, syms)
            # a function call on the right may return more outputs than the left takes (Modelica 12.4.3)
            if e["r"]["k"] == "app" and e["r"]["op"] in self.funcs and isinstance(rhs, list):
                n = len(lhs) if isinstance(lhs, list) else 1
                if n < len(rhs):
                    rhs = rhs[:n] if n > 1 or isinstance(lhs, list) else rhs[0]
            r = _exact(self.lift2(lambda p, q: p - q, lhs, rhs))
            return r if isinstance(r, list) else [r]
        if k == "ifeq":
            for c, b in zip(e["conds"], e["blocks"]):
                if c["k"] == "else" or self.truth(self.ev(c, env, syms)):
                    out = []
                    for q in b:
                        out += self.residual(q, env)
                    return out
            raise Unsupported("if-equation without else")
        if k == "foreq":
            rows = []
            for v in self.loop_values(e["idx"], e["range"], syms):
                env2 = dict(env)
                env2[e["idx"]] = F(v)
                env2["$loop"] = dict(env.get("$loop") or {}, **{e["idx"]: v})
                row = []
                for q in e["eqs"]:
                    row += self.residual(q, env2)
                rows.append(row)
            return for_layout(rows)
        raise Unsupported("equation kind " + k)

    # ---- variable metadata (value, min, max, start, fixed, nominal per element) -------------------
    META_DEFAULT = {"value": "nan", "min": "-inf", "max": "inf", "start": "0/1", "fixed": "0/1", "nominal": "0/1"}

    def metadata(self, var_lists, overrides=None):
        """Expected output of `variable_metadata_function` at this point: one flat (column-major) n x 6
        matrix per list (states, alg_states, inputs, parameters, constants); an attribute is its declared
        expression evaluated with the parameter values of the point, else the default."""
        overrides = overrides or {}
        out = []
        for l in ("states", "alg_states", "inputs", "parameters", "constants"):
            cols = []
            for a in ("value", "min", "max", "start", "fixed", "nominal"):
                col = []
                for name, r, c in var_lists[l]:
                    n = r * c
                    if (name, a) in overrides:
                        col += [qs(F(overrides[(name, a)]))] * n
                        continue
                    node = (self.syms.get(name) or {}).get("attrs", {}).get(a, {"k": "none"})
                    if node["k"] == "none":
                        col += [self.META_DEFAULT[a]] * n
                        continue
                    v = self.ev(node, {}, self.syms)
                    if isinstance(v, list):
                        if len(v) != n:
                            raise Unsupported("attribute shape")
                        col += [qs(x) for x in v]
                    else:
                        col += [qs(v)] * n
                cols += col
            out.append(cols)
        return out

    def residuals(self, which="equations"):
        self.delay_counter = 0
        out = []
        # delay symbols are numbered in generation order: equations first, then initial equations
        if which == "initial_equations":
            for e in self.m["equations"]:
                self._count_delays(e)
        for e in self.m[which]:
            out.append(self.residual(e))
        return out

    def _count_delays(self, n):
        if isinstance(n, dict):
            if n.get("k") == "app" and n.get("op") == "delay":
                self.delay_counter += 1
            for v in n.values():
                self._count_delays(v)
        elif isinstance(n, list):
            for v in n:
                self._count_delays(v)


def for_layout(rows):
    """Residual entries of a for-equation as the generated function lays them out: all iterations of the
    first body entry, then all iterations of the second, ... (a layout fact, not a semantic one)."""
    if not rows:
        return []
    return [rows[i][j] for j in range(len(rows[0])) for i in range(len(rows))]


def _refs(n):
    out = []
    if isinstance(n, dict):
        if n.get("k") == "ref":
            out.append(n["name"])
        if n.get("k") == "app":
            pass
        for v in n.values():
            out += _refs(v)
    elif isinstance(n, list):
        for v in n:
            out += _refs(v)
    return out


# ======================================================================================
# the real code
# ======================================================================================
OPTION_NAMES = ("unroll_loops", "inline_functions", "expand_mx")


def canon_float(v):
    v = float(v)
    if v != v:
        return "nan"
    if v in (float("inf"), float("-inf")):
        return "inf" if v > 0 else "-inf"
    return qs(F(v))


class RealModel:
    """parse -> flatten (for the serialised AST) -> generate [-> simplify] on the real code."""

    def __init__(self, txt, name="M", opts=None, simplify=False, tree=None):
        from pymoca import parser, ast
        from pymoca.tree import flatten
        from pymoca.backends.casadi import generator
        self.tree = tree if tree is not None else parser.parse(txt, bypass_cache=True)
        if self.tree is None:
            raise Unsupported("parser returned None")
        self.name = name
        self._ast, self._flatten, self._generator = ast, flatten, generator
        self.model = None
        if opts is not None or simplify is not None:
            self.build(opts, simplify)

    def flat_json(self):
        flat = self._flatten(self.tree, self._ast.ComponentRef.from_string(self.name))
        return ser_model(flat, self.name)

    def build(self, opts=None, simplify=False):
        self.model = self._generator.generate(self.tree, self.name, opts)
        if simplify:
            self.model.simplify(opts or {})
            self.model._post_checks()
        return self.model

    # ---- variable lists --------------------------------------------------------------------------
    LISTS = ("states", "der_states", "alg_states", "inputs", "constants", "parameters")

    def var_lists(self):
        m = self.model
        out = {}
        for l in self.LISTS:
            out[l] = [[v.symbol.name(), int(v.symbol.size1()), int(v.symbol.size2())] for v in getattr(m, l)]
        out["outputs"] = list(m.outputs)
        out["delay_states"] = list(m.delay_states)
        return out

    def attributes(self):
        """Python-side metadata of every variable, canonical (MX values by their text)."""
        import casadi as ca
        m = self.model
        out = {}
        for l in self.LISTS:
            rows = []
            for v in getattr(m, l):
                row = {"name": v.symbol.name(), "type": v.python_type.__name__,
                       "prefixes": list(getattr(v, "prefixes", [])), "aliases": sorted(v.aliases)}
                for a in ("value", "min", "max", "start", "fixed", "nominal"):
                    x = getattr(v, a)
                    if isinstance(x, (ca.MX, ca.DM)):
                        # a symbolic attribute is a representation (inlined or a call node): its *value* is
                        # compared through the metadata function, here only that it is symbolic / its constant
                        xm = ca.MX(x)
                        row[a] = ("const:" + str(xm)) if xm.is_constant() else "symbolic"
                    elif isinstance(x, bool):
                        row[a] = x
                    elif isinstance(x, (int, float)):
                        row[a] = canon_float(x)
                    else:
                        row[a] = repr(x)
                rows.append(row)
            out[l] = rows
        return out

    def input_vectors(self, point):
        """point: name -> list of Fraction.  -> the 7 positional inputs of the residual functions."""
        m = self.model

        def vec(vs):
            out = []
            for v in vs:
                n, k = v.symbol.name(), int(v.symbol.numel())
                if n not in point:
                    raise Unsupported("point has no value for " + n)
                vals = point[n]
                if len(vals) != k:
                    raise Unsupported("point value of %s has %d elements, symbol has %d" % (n, len(vals), k))
                out += [float(x) for x in vals]
            return out
        return [float(point["time"][0]), vec(m.states), vec(m.der_states), vec(m.alg_states), vec(m.inputs),
                vec(m.constants), vec(m.parameters)]

    @staticmethod
    def _outs(res):
        import numpy as np
        if not isinstance(res, (list, tuple)):
            res = [res]
        return [[canon_float(x) for x in np.array(r.full() if hasattr(r, "full") else r).ravel(order="F")]
                for r in res]

    def residual(self, point, which="dae"):
        m = self.model
        f = m.dae_residual_function if which == "dae" else m.initial_residual_function
        if f.n_out() == 0:
            return []
        res = f(*self.input_vectors(point))
        return self._outs(res)[0]

    def equation_sizes(self, which="dae"):
        eqs = self.model.equations if which == "dae" else self.model.initial_equations
        return [int(e.numel()) for e in eqs]

    def delay_arguments(self, point):
        f = self.model.delay_arguments_function
        if f.n_out() == 0:
            return []
        res = f(*self.input_vectors(point))
        return self._outs(res if isinstance(res, (list, tuple)) else [res])

    def metadata(self, point):
        m = self.model
        f = m.variable_metadata_function
        pv = []
        for v in m.parameters:
            pv += [float(x) for x in point[v.symbol.name()]]
        res = f(pv)
        return self._outs(res if isinstance(res, (list, tuple)) else [res])


# ======================================================================================
# structured generator
# ======================================================================================
VALUES = {
    "gen": [F(-3), F(-2), F(-1), F(0), F(1), F(2), F(3), F(4), F(1, 2), F(3, 2), F(-1, 2), F(5, 2), F(1, 4), F(-3, 4)],
    "pow2": [F(1), F(2), F(4), F(1, 2), F(-1), F(-2), F(1, 4), F(8)],
    "zero": [F(0)],
    "one": [F(1)],
    "sq": [F(0), F(1), F(4), F(9), F(1, 4), F(9, 4), F(16)],
    "nat": [F(0), F(1), F(2), F(3)],
    "bool": [F(0), F(1)],
}
LITS = {
    "gen": ["0", "1", "2", "3", "5", "0.5", "1.5", "0.25", "2.5", "7", "10"],
    "pow2": ["1", "2", "4", "0.5", "0.25", "8"],
    "zero": ["0"],
    "one": ["1"],
    "sq": ["4", "9", "0.25", "1", "16", "2.25"],
    "nat": ["0", "1", "2", "3"],
}
ZERO_FUNCS = ["sin", "tan", "sinh", "tanh"]     # f(0) = 0
ONE_FUNCS = ["cos", "exp", "cosh"]                               # f(0) = 1
TOTAL_FUNCS = ["sign", "floor", "ceil", "abs"]
RELS = ["<", "<=", ">", ">=", "=="]


def lit(q):
    q = F(q)
    if q.denominator == 1:
        return str(q.numerator) if q >= 0 else "(%d)" % q.numerator
    s = repr(float(q))
    return s if q >= 0 else "(%s)" % s


class Scope:
    """Scalar atoms by value class, array atoms, callable functions."""

    def __init__(self):
        self.atoms = {c: [] for c in VALUES}
        self.bools = []
        self.vecs = {}      # length -> list of texts of 1-D real values of that length
        self.funcs = []     # (name, n_in, n_out)
        self.allow_time = True
        self.plain = False  # inside functions: only class-free constructs

    def copy(self):
        s = Scope()
        s.atoms = {c: list(v) for c, v in self.atoms.items()}
        s.bools = list(self.bools)
        s.vecs = {k: list(v) for k, v in self.vecs.items()}
        s.funcs = list(self.funcs)
        s.allow_time = self.allow_time
        s.plain = self.plain
        return s

    def any_atoms(self):
        return [a for c in ("gen", "pow2", "zero", "one", "sq", "nat") for a in self.atoms[c]]


class E(str):
    """Generated expression text with the kind of its top operator (for minimal parentheses: the ANTLR
    parser's time grows with nesting depth)."""
    kind = "atom"


def mk(txt, kind="atom"):
    e = E(txt)
    e.kind = kind
    return e


def par(e, ok):
    k = getattr(e, "kind", "atom")
    return str(e) if k in ok else "(%s)" % e


ARITH = {"+": "add", "-": "add", ".+": "add", ".-": "add", "*": "mul", "/": "mul", ".*": "mul", "./": "mul",
         "^": "pow", ".^": "pow"}


def binop(op, a, b):
    k = ARITH.get(op)
    if k == "add":
        return mk("%s %s %s" % (par(a, ("atom", "add", "mul", "pow")), op, par(b, ("atom", "mul", "pow"))), "add")
    if k == "mul":
        return mk("%s %s %s" % (par(a, ("atom", "mul", "pow")), op, par(b, ("atom", "pow"))), "mul")
    if k == "pow":
        return mk("%s %s %s" % (par(a, ("atom",)), op, par(b, ("atom",))), "pow")
    if op in RELS or op == "<>":
        ok = ("atom", "add", "mul", "pow")
        return mk("%s %s %s" % (par(a, ok), op, par(b, ok)), "rel")
    if op == "and":
        return mk("%s and %s" % (par(a, ("atom", "rel")), par(b, ("atom", "rel"))), "and")
    if op == "or":
        return mk("%s or %s" % (par(a, ("atom", "rel", "and")), par(b, ("atom", "rel", "and"))), "or")
    raise ValueError(op)


def neg(a, op="-"):
    return mk("%s%s" % (op, par(a, ("atom",))), "neg")


def call(f, *args):
    return mk("%s(%s)" % (f, ", ".join(str(x) for x in args)), "atom")


class ExprGen:
    def __init__(self, rng, count=None):
        self.rng = rng
        self.count = count or (lambda k: None)

    def pick(self, xs):
        return xs[self.rng.randrange(len(xs))]

    def wchoice(self, pairs):
        tot = sum(w for _, w in pairs)
        r = self.rng.random() * tot
        for x, w in pairs:
            r -= w
            if r <= 0:
                return x
        return pairs[-1][0]

    # ---- Real scalar of a value class ---------------------------------------------------------
    def real(self, sc, cls="gen", d=3):
        r = self.rng
        if cls == "gen":
            return self.gen(sc, d)
        atoms = sc.atoms[cls]
        leaf = d <= 0 or r.random() < 0.35
        if leaf:
            if atoms and r.random() < 0.75:
                return mk(self.pick(atoms))
            if cls == "zero" and sc.any_atoms() and r.random() < 0.5:
                a = mk(self.pick(sc.any_atoms()))
                return binop("-", a, a)
            return mk(self.pick(LITS[cls]))
        Z = lambda: self.real(sc, "zero", d - 1)
        O = lambda: self.real(sc, "one", d - 1)
        P = lambda: self.real(sc, "pow2", d - 1)
        G = lambda: self.gen(sc, d - 1)
        if cls == "zero":
            k = self.wchoice([("zg", 3), ("gz", 3), ("zz", 1), ("neg", 1), ("f", 3), ("log", 2), ("gg", 2)])
            if k == "zg":
                return binop("*", Z(), G())
            if k == "gz":
                return binop("*", G(), Z())
            if k == "zz":
                return binop("+", Z(), Z())
            if k == "neg":
                return neg(Z())
            if k == "f":
                f = self.pick(ZERO_FUNCS)
                self.count("elem:" + f)
                return call(f, Z())
            if k == "log":
                self.count("elem:log")
                return call("log", O())
            g = G()
            return binop("-", g, g)
        if cls == "one":
            k = self.wchoice([("oo", 2), ("f", 4), ("pow", 2), ("oz", 1), ("div", 1)])
            if k == "oo":
                return binop("*", O(), O())
            if k == "f":
                f = self.pick(ONE_FUNCS)
                self.count("elem:" + f)
                return call(f, Z())
            if k == "pow":
                return binop("^", O(), self.real(sc, "nat", 0))
            if k == "oz":
                return binop("+", O(), Z())
            return binop("/", O(), O())
        if cls == "pow2":
            k = self.wchoice([("pp", 3), ("div", 3), ("neg", 1), ("sq", 1), ("one", 1), ("pz", 1)])
            if k == "pp":
                return binop("*", P(), P())
            if k == "div":
                return binop("/", P(), P())
            if k == "neg":
                return neg(P())
            if k == "sq":
                return binop("^", self.real(sc, "pow2", 0), mk("2"))
            if k == "one":
                return O()
            return binop("+", P(), Z())
        if cls == "sq":
            k = self.wchoice([("g2", 3), ("one", 1), ("pp", 1)])
            if k == "g2":
                return binop("^", self.gen(sc, 0), mk("2"))
            if k == "one":
                return O()
            p = self.real(sc, "pow2", 0)
            return binop("*", p, p)
        if cls == "nat":
            return mk(self.pick(atoms) if atoms and r.random() < 0.5 else self.pick(LITS["nat"]))
        raise ValueError(cls)

    def gen(self, sc, d):
        r = self.rng
        if d <= 0 or r.random() < 0.22:
            atoms = sc.any_atoms()
            x = r.random()
            if atoms and x < 0.72:
                return mk(self.pick(atoms))
            if sc.allow_time and x < 0.78:
                return mk("time")
            return mk(self.pick(LITS["gen"]))
        G = lambda: self.gen(sc, d - 1)
        kinds = [("+", 5), ("-", 5), ("*", 5), ("/", 4), ("^", 3), ("neg", 2), ("min", 2), ("max", 2), ("abs", 2),
                 ("ife", 4), ("total", 2), ("sqrt", 2), ("cls", 3), ("call", 4 if sc.funcs else 0), ("plus", 0.5),
                 ("dot", 1.5), ("zerof", 2), ("onef", 1.5), ("logf", 0.7)]
        k = self.wchoice(kinds)
        self.count("op:" + k)
        if k in "+-*":
            return binop(k, G(), G())
        if k == "/":
            return binop("/", G(), self.real(sc, "pow2", min(d - 1, 1)))
        if k == "^":
            return binop("^", self.gen(sc, min(d - 1, 1)), self.real(sc, "nat", 0))
        if k == "neg":
            return neg(G())
        if k == "plus":
            return neg(G(), "+")
        if k in ("min", "max"):
            return call(k, G(), G())
        if k == "abs":
            return call("abs", G())
        if k == "ife":
            n = 1 if r.random() < 0.7 else 2
            s = "if %s then %s" % (self.boolean(sc, d - 1), G())
            for _ in range(n - 1):
                s += " elseif %s then %s" % (self.boolean(sc, d - 1), G())
            self.count("ife-branches-%d" % n)
            return mk(s + " else %s" % G(), "if")
        if k == "total":
            f = self.pick(TOTAL_FUNCS)
            self.count("elem:" + f)
            return call(f, G())
        if k == "sqrt":
            self.count("elem:sqrt")
            return call("sqrt", self.real(sc, "sq", 1))
        if k == "cls":
            return self.real(sc, self.pick(["zero", "one", "pow2", "sq"]), d - 1)
        if k == "zerof":
            f = self.pick(ZERO_FUNCS)
            self.count("elem:" + f)
            return call(f, self.real(sc, "zero", max(d - 1, 1)))
        if k == "onef":
            f = self.pick(ONE_FUNCS)
            self.count("elem:" + f)
            return call(f, self.real(sc, "zero", max(d - 1, 1)))
        if k == "logf":
            f = self.pick(["log", "log10"])
            self.count("elem:" + f)
            return call(f, self.real(sc, "one", max(d - 1, 1)))
        if k == "dot":
            o = self.pick([".+", ".-", ".*", "./", ".^"])
            self.count("op:" + o)
            if o == "./":
                return binop(o, G(), self.real(sc, "pow2", 0))
            if o == ".^":
                return binop(o, self.gen(sc, 0), self.real(sc, "nat", 0))
            return binop(o, G(), G())
        if k == "call":
            name, nin, nout = self.pick(sc.funcs)
            self.count("call")
            return call(name, *[self.gen(sc, min(d - 1, 1)) for _ in range(nin)])
        raise ValueError(k)

    def boolean(self, sc, d):
        r = self.rng
        x = r.random()
        if d <= 0 or x < 0.5:
            if sc.bools and r.random() < 0.25:
                return mk(self.pick(sc.bools))
            if r.random() < 0.05:
                return mk(self.pick(["true", "false"]))
            o = self.pick(RELS)
            self.count("rel:" + o)
            return binop(o, self.gen(sc, max(d - 1, 0)), self.gen(sc, max(d - 1, 0)))
        k = self.wchoice([("and", 3), ("or", 3), ("not", 2)])
        self.count("bool:" + k)
        if k == "not":
            return mk("not %s" % par(self.boolean(sc, d - 1), ("atom",)), "not")
        return binop(k, self.boolean(sc, d - 1), self.boolean(sc, d - 1))


class ModelGen:
    """One random model of the supported subset with its evaluation points.

    make() -> case dict {text, name, points:[{name:[q,...]}], ranges:{idx:[a,s,b]}, stream, features}"""

    def __init__(self, rng, npoints=3, count=None, loops=None, functions=None, delay=False, twin_calls=0.3,
                 bilinear_attr=False, pkg_funcs=0.15, long_loops=0.1):
        self.bilinear_attr = bilinear_attr
        self.pkg_funcs = pkg_funcs
        self.long_loops = long_loops
        self.ranges = {}
        self.twin_calls = twin_calls
        self.rng = rng
        self.np = npoints
        self.count = count or (lambda k: None)
        self.eg = ExprGen(rng, self.count)
        self.want_loops = loops
        self.want_funcs = functions
        self.want_delay = delay
        self.uid = 0

    def fresh(self, p):
        self.uid += 1
        return "%s%d" % (p, self.uid)

    # ---- functions -------------------------------------------------------------------------------
    def function(self, name, callable_funcs, stream="main", nin=None, nout=None, package=None):
        r = self.rng
        nin0, nout0, ntmp = r.randint(1, 3), (1 if r.random() < 0.75 else 2), r.randint(0, 2)
        nin = nin if nin is not None else nin0
        nout = nout if nout is not None else nout0
        ins = ["a%d" % i for i in range(nin)]
        outs = ["r%d" % i for i in range(nout)]
        tmps = ["t%d" % i for i in range(ntmp)]
        sc = Scope()
        sc.allow_time = False
        sc.funcs = [f for f in callable_funcs if f[2] == 1]
        sc.atoms["gen"] = list(ins)
        assigned = list(ins)
        lines = []
        todo = tmps + outs
        r.shuffle(todo)
        # every local is assigned once first (definite assignment), then a few more statements
        for v in todo + [self.eg.pick(todo) for _ in range(r.randint(0, 3))]:
            sc.atoms["gen"] = list(assigned)
            kind = self.eg.wchoice([("assign", 5), ("if", 3), ("for", 3 if v in assigned else 0)])
            if kind == "assign":
                lines.append("  %s := %s;" % (v, self.eg.gen(sc, 2)))
                self.count("stmt:assign")
            elif kind == "if":
                others = [w for w in todo if w != v]
                r.shuffle(others)
                targets = [v] + (others[:r.randint(1, 2)] if others and r.random() < 0.5 else [])
                # branches may assign the variables in different orders when no right-hand side reads one of them
                permuted = len(targets) >= 2 and r.random() < 0.5
                csc = sc.copy()
                csc.atoms["gen"] = [a for a in assigned if a not in targets] or ["1"]
                nb = 1 if r.random() < 0.6 else 2
                s = ""
                for b in range(nb + 1):
                    if b == 0:
                        s += "  if %s then\n" % self.eg.boolean(csc, 1)
                    elif b < nb:
                        s += "  elseif %s then\n" % self.eg.boolean(csc, 1)
                    else:
                        s += "  else\n"
                    bsc = sc.copy()
                    known = list(assigned)
                    order = list(targets)
                    if permuted:
                        if b > 0:
                            r.shuffle(order)
                            if b == nb and order == targets:
                                order.reverse()
                        known = [a for a in assigned if a not in targets] or ["1"]
                    for t in order:
                        bsc.atoms["gen"] = list(known)
                        s += "    %s := %s;\n" % (t, self.eg.gen(bsc, 2))
                        if t not in known and not permuted:
                            known.append(t)
                s += "  end if;"
                lines.append(s)
                self.count("stmt:if-%d%s" % (nb, "-permuted" if permuted else ""))
                for t in targets:
                    if t not in assigned:
                        assigned.append(t)
            else:
                idx = self.fresh("k")
                hi = r.randint(2, 3) if r.random() < 0.8 else 1
                bsc = sc.copy()
                bsc.atoms["gen"] = list(assigned) + [idx]
                rtxt = "1:%d" % hi
                if r.random() < 0.25:
                    st, hi = r.randint(2, 3), r.randint(2, 6)
                    rtxt = "1:%d:%d" % (st, hi)
                    self.ranges[idx] = [1, st, hi]
                    self.count("stmt:for-stepped")
                s = "  for %s in %s loop\n    %s := %s;\n" % (idx, rtxt, v, binop("+", mk(v), self.eg.gen(bsc, 1)))
                others = [w for w in assigned if w in todo and w != v]
                if others and r.random() < 0.6:
                    w = self.eg.pick(others)
                    s += "    %s := %s;\n" % (w, self.eg.gen(bsc, 1))
                s += "  end for;"
                lines.append(s)
                self.count("stmt:for")
            if v not in assigned:
                assigned.append(v)
        decl = "".join("  input Real %s;\n" % a for a in ins) + "".join("  output Real %s;\n" % a for a in outs)
        if tmps:
            decl += "protected\n" + "".join("  Real %s;\n" % a for a in tmps)
        txt = "function %s\n%salgorithm\n%s\nend %s;\n" % (name, decl, "\n".join(lines), name)
        if package:
            # the same short name in different packages: the functions are identified by their scoped names
            txt = "package %s\n%send %s;\n" % (package, txt, package)
            return txt, ("%s.%s" % (package, name), nin, nout)
        return txt, (name, nin, nout)

    # ---- the model ---------------------------------------------------------------------------------
    def make(self):
        r = self.rng
        self.uid = 0
        ranges = self.ranges = {}
        feats = set()
        funcs_txt, funcs = "", []
        nf = self.want_funcs if self.want_funcs is not None else self.eg.wchoice([(0, 5), (1, 4), (2, 2)])
        for i in range(nf):
            t, sig = self.function("f%d" % i, funcs)
            funcs_txt += t
            funcs.append(sig)
            feats.add("function")
        pkg = []
        if r.random() < self.pkg_funcs:
            k = r.randint(1, 2)
            for pk in ("PkA", "PkB"):
                t, sig = self.function("curve", [f for f in funcs if f[2] == 1 and "." not in f[0]], nin=k, nout=1, package=pk)
                funcs_txt += t
                funcs.append(sig)
                pkg.append(sig)
            feats.add("same-named-functions")
        if self.bilinear_attr:
            # a function bilinear in its two arguments, used in attributes of variables (metadata function)
            funcs_txt += ("function fb\n  input Real a;\n  input Real c;\n  output Real b;\nalgorithm\n"
                          "  b := %s * a * c + %s * a - c / %s;\nend fb;\n"
                          % (self.eg.pick(["1", "2", "3"]), self.eg.pick(["1", "2", "0.5"]), self.eg.pick(["2", "4"])))
            funcs.append(("fb", 2, 1))
            feats.add("bilinear-attribute")
        # only single-output functions are called inside expressions
        sc = Scope()
        sc.funcs = [f for f in funcs if f[2] == 1]
        decls, vars_ = [], []   # vars_: (name, cls, dims, type)

        def declare(prefix, typ, name, cls, dims=(), value=None, attrs=""):
            d = "[%s]" % ",".join(str(x) for x in dims) if dims else ""
            v = " = %s" % value if value is not None else ""
            decls.append("  %s%s %s%s%s%s;" % (prefix + " " if prefix else "", typ, name, d, attrs, v))
            vars_.append((name, cls, dims, typ))

        classes = ["gen", "gen", "gen", "pow2", "zero", "one", "sq", "nat"]
        # Integer size parameter
        nval = r.randint(2, 4)
        has_n = r.random() < 0.6
        if has_n:
            declare("parameter", "Integer", "n0", "int:%d" % nval, (), str(nval))
            sc.atoms["gen"] += ["n0", "n0"]     # also used as an ordinary value
        for i in range(r.randint(2 if self.bilinear_attr else 1, 3)):
            c = self.eg.pick(classes if not (self.bilinear_attr and i < 2) else ["gen", "pow2", "sq", "one"])
            declare("parameter", "Real", "p%d" % i, c, (), self.eg.pick([x for x in LITS[c] if x != "0"] or LITS[c]))
            sc.atoms[c].append("p%d" % i)
        for i in range(r.randint(0, 2)):
            c = self.eg.pick(classes)
            declare("constant", "Real", "c%d" % i, c, (), self.eg.pick(LITS[c]))
            sc.atoms[c].append("c%d" % i)
        for i in range(r.randint(0, 2)):
            c = self.eg.pick(classes)
            declare("input", "Real", "u%d" % i, c)
            sc.atoms[c].append("u%d" % i)
        self._bilinear_used = False

        def attrs():
            """Attribute modifications, partly depending on parameters (metadata function of C12/C13)."""
            if r.random() > 0.5 and not (self.bilinear_attr and not self._bilinear_used):
                return ""
            ps = [w[0] for w in vars_ if w[0].startswith("p")]
            parts = []
            for a in ("start", "min", "max", "nominal"):
                if r.random() < 0.45:
                    k = r.random()
                    if ps and k < 0.4:
                        v = self.eg.pick(ps)
                    elif ps and k < 0.6:
                        v = "%s * %s + %s" % (self.eg.pick(["2", "0.5", "3"]), self.eg.pick(ps), self.eg.pick(LITS["gen"]))
                    elif ps and k < 0.7:
                        v = "-%s" % self.eg.pick(ps)
                    else:
                        v = self.eg.pick(LITS["gen"])
                    parts.append("%s = %s" % (a, v))
            if self.bilinear_attr and (r.random() < 0.5 or not self._bilinear_used):
                a = self.eg.pick([x for x in ("start", "min", "max", "nominal") if not any(q.startswith(x) for q in parts)] or ["start"])
                parts = [q for q in parts if not q.startswith(a)]
                call = self.eg.pick(["fb(p0, p1)", "fb(p1, p0)", "fb(p0, p1) + 1", "2 * fb(p1, p0) - p0"])
                parts.append("%s = %s" % (a, call))
                self._bilinear_used = True
            if r.random() < 0.15:
                parts.append("fixed = true")
            return "(%s)" % ", ".join(parts) if parts else ""
        states = []
        for i in range(r.randint(1, 2)):
            c = self.eg.pick(classes)
            at = attrs()
            declare("", "Real", "x%d" % i, c, (), None, at)
            sc.atoms[c].append("x%d" % i)
            states.append("x%d" % i)
        algs = []
        for i in range(r.randint(1, 3)):
            c = self.eg.pick(classes)
            pre = "output" if r.random() < 0.2 else ""
            declare(pre, "Real", "y%d" % i, c, (), None, attrs())
            sc.atoms[c].append("y%d" % i)
            algs.append("y%d" % i)
        bools = []
        for i in range(r.randint(0, 2)):
            declare("", "Boolean", "b%d" % i, "bool")
            sc.bools.append("b%d" % i)
            bools.append("b%d" % i)
        arrays = []    # (name, length, is_state)
        want_loops = self.want_loops if self.want_loops is not None else r.random() < 0.6
        na = r.randint(1, 3) if want_loops else r.randint(0, 2)
        for i in range(na):
            L = nval if (has_n and r.random() < 0.5) else r.randint(2, 4)
            dimtxt = ("n0",) if (has_n and L == nval and r.random() < 0.7) else (L,)
            c = self.eg.pick(["gen", "gen", "pow2", "sq"])
            st = r.random() < 0.3
            declare("", "Real", "v%d" % i, c, dimtxt)
            vars_[-1] = ("v%d" % i, c, (L,), "Real")
            arrays.append(("v%d" % i, L, st))
            for k in range(1, L + 1):
                if r.random() < 0.5:
                    sc.atoms[c].append("v%d[%d]" % (i, k))
            sc.vecs.setdefault(L, []).append("v%d" % i)
            for lo in range(1, L):
                for hi in range(lo + 1, L + 1):
                    if hi - lo + 1 < L:
                        sc.vecs.setdefault(hi - lo + 1, []).append("v%d[%d:%d]" % (i, lo, hi))
            k1 = r.randint(1, L)
            sc.vecs.setdefault(1, []).append("v%d[%d:%d]" % (i, k1, k1))      # one-element slices
            if has_n and nval <= L:
                sc.vecs.setdefault(1, []).append("v%d[n0:n0]" % i)
                if nval >= 2:
                    sc.vecs.setdefault(nval - 1, []).append("v%d[1:n0-1]" % i)
                    if nval - 1 < L:
                        sc.vecs.setdefault(L - nval + 1, []).append("v%d[n0:%d]" % (i, L))
            if L >= 3:      # stepped subscript ranges start:step:stop (the step need not divide the span)
                for st in (2, 3):
                    if st + 1 > L:
                        continue
                    hi = r.randint(st + 1, L)
                    sc.vecs.setdefault(len(range(1, hi + 1, st)), []).append("v%d[1:%d:%d]" % (i, st, hi))
        mats = []
        if r.random() < 0.4:
            R = r.randint(2, 3)
            C = R if r.random() < 0.5 else r.randint(2, 3)       # square matrices half of the time
            for k in range(r.randint(1, 2)):
                name = "m%d" % k
                declare("", "Real", name, self.eg.pick(["gen", "pow2"]), (R, C))
                mats.append((name, R, C))
                for _ in range(2):
                    sc.atoms["gen"].append("%s[%d,%d]" % (name, r.randint(1, R), r.randint(1, C)))
                for c_ in range(1, C + 1):
                    sc.vecs.setdefault(R, []).append("%s[:,%d]" % (name, c_))
            feats.add("matrix")

        eqs, ieqs = [], []
        # ---- scalar equations
        for x in states:
            if r.random() < 0.85:
                eqs.append("  der(%s) = %s;" % (x, self.eg.gen(sc, 3)))
                self.count("eq:der")
            else:
                eqs.append("  %s = %s;" % (x, self.eg.gen(sc, 2)))
        for y in algs:
            k = self.eg.wchoice([("plain", 6), ("swap", 1), ("expr", 1)])
            if k == "plain":
                eqs.append("  %s = %s;" % (y, self.eg.gen(sc, 3)))
            elif k == "swap":
                eqs.append("  %s = %s;" % (par(self.eg.gen(sc, 2), ("atom", "add", "mul", "pow", "neg")), y))
            else:
                eqs.append("  %s = %s;" % (binop("+", mk(y), self.eg.gen(sc, 1)), self.eg.gen(sc, 2)))
            self.count("eq:scalar")
        for b in bools:
            eqs.append("  %s = %s;" % (b, self.eg.boolean(sc, 2)))
            self.count("eq:boolean")
        if pkg:
            a1 = ", ".join(self.eg.gen(sc, 1) for _ in range(pkg[0][1]))
            a2 = ", ".join(self.eg.gen(sc, 1) for _ in range(pkg[1][1]))
            eqs.append("  %s = %s(%s) %s %s * %s(%s);" % (self.eg.pick(algs), pkg[0][0], a1, self.eg.pick(["+", "-"]),
                                                       self.eg.pick(["2", "3"]), pkg[1][0], a2))
            self.count("eq:same-named-functions")
        if self.bilinear_attr:
            eqs.append("  %s = fb(%s, %s);" % (self.eg.pick(algs), self.eg.gen(sc, 1), self.eg.gen(sc, 1)))
        # ---- multi-output function call
        multi = [f for f in funcs if f[2] == 2]
        if multi and len(algs) >= 2 and r.random() < 0.7:
            f = self.eg.pick(multi)
            a = ", ".join(self.eg.gen(sc, 1) for _ in range(f[1]))
            if r.random() < 0.6:
                eqs.append("  (%s, %s) = %s(%s);" % (algs[0], algs[1], f[0], a))
                self.count("eq:tuple-call")
            else:
                eqs.append("  %s = %s(%s);" % (algs[0], f[0], a))
                self.count("eq:truncated-call")
        # ---- if-equation
        if r.random() < 0.45:
            nb = 1 if r.random() < 0.6 else 2
            neq = r.randint(1, 2)
            targets = [self.eg.pick(algs + states) for _ in range(neq)]
            s = ""
            for b in range(nb + 1):
                s += ("  if %s then\n" % self.eg.boolean(sc, 2)) if b == 0 else (
                    "  elseif %s then\n" % self.eg.boolean(sc, 2) if b < nb else "  else\n")
                for t in targets:
                    s += "    %s = %s;\n" % (t, self.eg.gen(sc, 2))
            eqs.append(s + "  end if;")
            feats.add("if-equation")
            self.count("eq:if-%d-branches-%d-eqs" % (nb + 1, neq))
        # ---- vector equations
        for (v, L, st) in arrays:
            if r.random() < 0.5:
                eqs.append("  %s = %s;" % (self.vec_lhs(sc, v, L), self.vec(sc, L, 2)))
                feats.add("vector-equation")
                self.count("eq:vector")
        # ---- a slice on the left (also one-element slices v[a:a], v[1:n0-1])
        if sc.vecs and r.random() < 0.5:
            L = self.eg.pick(sorted(sc.vecs) + [1])
            if sc.vecs.get(L):
                eqs.append("  %s = %s;" % (self.eg.pick(sc.vecs[L]), self.vec(sc, L, 2)))
                self.count("eq:slice-lhs-%d" % L)
        # ---- a matrix row equated to a (column) vector expression, also an element-wise built-in function of it
        for (mname, R, C) in mats:
            if sc.vecs.get(C) and r.random() < 0.6:
                k = self.eg.wchoice([("fn1", 4), ("fn2", 2), ("plain", 2)])
                V = lambda: self.vec(sc, C, 1)
                if k == "fn1":
                    rhs = call(self.eg.pick(["abs", "sign", "floor", "ceil"]), V())
                elif k == "fn2":
                    rhs = call(self.eg.pick(["max", "min"]), V(), V())
                else:
                    rhs = V()
                eqs.append("  %s[%d,:] = %s;" % (mname, r.randint(1, R), rhs))
                feats.add("row-equation")
                self.count("eq:row-" + k)
        # ---- whole-matrix equations (element-wise; both sides of the same shape, square or not)
        for (mname, R, C) in mats:
            if r.random() < 0.7:
                lhs = "der(%s)" % mname if r.random() < 0.25 else mname
                eqs.append("  %s = %s;" % (lhs, self.mat(sc, [m[0] for m in mats], 2)))
                feats.add("matrix-equation")
                self.count("eq:matrix-%s" % ("square" if R == C else "rect"))
        if sc.vecs and r.random() < 0.4:
            L = self.eg.pick(sorted(sc.vecs))
            tgt = self.eg.pick(algs)
            eqs.append("  %s = sum(%s);" % (tgt, self.vec(sc, L, 1)))
            self.count("eq:sum")
        # ---- for-equations
        if want_loops and arrays:
            for _ in range(r.randint(1, 2)):
                eqs.append(self.for_equation(sc, arrays, mats, nval if has_n else None))
                feats.add("for-equation")
        # ---- a long for-equation (block boundaries of serial maps: 9, 17, 25 iterations and neighbours)
        if r.random() < self.long_loops:
            n_it = self.eg.pick([9, 17, 25, 9, 17, 8, 10, 16, 18, 26])
            lo = self.eg.pick([1, 1, 2])
            L = lo + n_it - 1
            declare("", "Real", "vl", "gen", (L,))
            idx = self.fresh("i")
            bsc = sc.copy()
            bsc.atoms["gen"] = [a for a in bsc.atoms["gen"] if "[" not in a][:6] + [idx, "vl[%s]" % idx]
            eqs.append("  for %s in %d:%d loop\n    vl[%s] = %s;\n  end for;" % (idx, lo, L, idx, self.eg.gen(bsc, 1)))
            if lo == 2:
                eqs.append("  vl[1] = 0;")
            feats.add("long-loop")
            self.count("for:long-%d" % n_it)
        # ---- delay
        if self.want_delay or r.random() < 0.08:
            tgt = self.eg.pick(algs)
            dur = self.eg.pick([a for a in ("p0", "c0") if any(a == w[0] for w in vars_)] + ["2", "0.5"])
            eqs.append("  %s = delay(%s, %s);" % (tgt, binop("+", mk(self.eg.pick(algs + states)), self.eg.gen(sc, 1)), dur))
            feats.add("delay")
            self.count("eq:delay")
        # ---- initial equations
        for x in states:
            if r.random() < 0.5:
                ieqs.append("  %s = %s;" % (x, self.eg.gen(sc, 2)))
                self.count("ieq:scalar")
        if want_loops and arrays and r.random() < 0.3:
            ieqs.append(self.for_equation(sc, arrays, mats, nval if has_n else None))
            self.count("ieq:for")
        r.shuffle(eqs)
        txt = funcs_txt + "model M\n" + "\n".join(decls) + "\n"
        if ieqs:
            txt += "initial equation\n" + "\n".join(ieqs) + "\n"
        txt += "equation\n" + "\n".join(eqs) + "\nend M;\n"
        points = [self.point(vars_, states, txt) for _ in range(self.np)]
        return {"text": txt, "name": "M", "points": points, "ranges": ranges, "stream": "main",
                "features": sorted(feats)}

    def vec_lhs(self, sc, v, L):
        return v

    def vec(self, sc, L, d):
        r = self.rng
        cands = sc.vecs.get(L, [])
        if d <= 0 or r.random() < 0.3 or not cands:
            return mk(self.eg.pick(cands))
        V = lambda: self.vec(sc, L, d - 1)
        k = self.eg.wchoice([("+", 3), ("-", 3), ("scale", 3), ("scaler", 1), (".*", 2), ("neg", 1), ("div", 2)])
        self.count("vec:" + k)
        if k in ("+", "-", ".*"):
            return binop(k, V(), V())
        if k == "scale":
            return binop("*", self.eg.gen(sc, 1), V())
        if k == "scaler":
            return binop("*", V(), self.eg.gen(sc, 1))
        if k == "neg":
            return neg(V())
        return binop("/", V(), self.eg.real(sc, "pow2", 0))

    def mat(self, sc, names, d):
        """Element-wise matrix expression over matrices of one shape."""
        r = self.rng
        if d <= 0 or r.random() < 0.3:
            return mk(self.eg.pick(names))
        M = lambda: self.mat(sc, names, d - 1)
        k = self.eg.wchoice([("+", 3), ("-", 3), ("scale", 3), (".*", 2), ("neg", 1), ("div", 1)])
        self.count("mat:" + k)
        if k in ("+", "-", ".*"):
            return binop(k, M(), M())
        if k == "scale":
            return binop("*", self.eg.gen(sc, 1), M())
        if k == "neg":
            return neg(M())
        return binop("/", M(), self.eg.real(sc, "pow2", 0))

    def for_equation(self, sc, arrays, mats, nval):
        r = self.rng
        idx = self.fresh("i")
        v, L, st = self.eg.pick(arrays)
        lo = 1 if r.random() < 0.6 else r.randint(1, L)
        hi = L if r.random() < 0.6 else r.randint(lo, L)
        if r.random() < 0.05:
            lo, hi = 2, 1     # empty loop
        step = 1
        rng_txt = "%d:%d" % (lo, hi)
        if nval is not None and lo == 1 and hi == nval and r.random() < 0.6:
            rng_txt = "1:n0"
        elif hi > lo and r.random() < 0.3:
            step = r.randint(2, 3)
            rng_txt = "%d:%d:%d" % (lo, step, hi)
            self.ranges[idx] = [lo, step, hi]
            self.count("for:stepped")
        values = list(range(lo, hi + 1, step))
        self.count("for:len-%d" % len(values))

        def forms(length):
            out = []
            for txt, fn in (("%s", lambda i: i), ("%s+1", lambda i: i + 1), ("%s-1", lambda i: i - 1),
                            ("2*%s", lambda i: 2 * i), ("2*%s-1", lambda i: 2 * i - 1),
                            ("%d-%%s" % (length + 1), lambda i: length + 1 - i)):
                if all(1 <= fn(i) <= length for i in values):
                    out.append(txt % idx)
            return out
        bsc = sc.copy()
        bsc.atoms["gen"] = list(bsc.atoms["gen"]) + [idx, idx]
        for (w, Lw, _) in arrays:
            for f in forms(Lw):
                cls = "gen"
                bsc.atoms[cls].append("%s[%s]" % (w, f))
        for (m, R, C) in mats:
            for f in forms(R):
                bsc.atoms["gen"].append("%s[%s,%d]" % (m, f, r.randint(1, C)))
            for f in forms(C):
                bsc.atoms["gen"].append("%s[%d,%s]" % (m, r.randint(1, R), f))
        body = []
        # the same user function called several times in one loop body on the same array with different
        # subscript expressions of the loop index (their loop symbols print alike: `x[i]`)
        if bsc.funcs and r.random() < self.twin_calls:
            fname, nin, _ = self.eg.pick(bsc.funcs)
            cands = [(w, forms(Lw)) for (w, Lw, _) in arrays if len(forms(Lw)) >= 2]
            if cands:
                w, fs = self.eg.pick(cands)
                fs = list(fs)
                r.shuffle(fs)
                k = min(len(fs), r.randint(2, 3))
                rest = [self.eg.pick(sc.any_atoms() or ["1"]) for _ in range(nin - 1)]
                pos = r.randrange(nin)
                calls = []
                for f_ in fs[:k]:
                    args = list(rest)
                    args.insert(pos, "%s[%s]" % (w, f_))
                    calls.append(mk("%s(%s)" % (fname, ", ".join(args))))
                e = calls[0]
                for c in calls[1:]:
                    e = binop(self.eg.pick(["-", "+"]), e, binop("*", mk(self.eg.pick(["2", "3", "5"])), c))
                tw, tL, _ = self.eg.pick(arrays)
                tf = forms(tL)
                if tf:
                    body.append("    %s[%s] = %s;" % (tw, self.eg.pick(tf), e))
                    self.count("for:twin-calls-%d" % k)
        for _ in range(r.randint(0 if body else 1, 2)):
            w, Lw, stw = self.eg.pick(arrays)
            fs = forms(Lw)
            if not fs:
                continue
            tgt = "%s[%s]" % (w, self.eg.pick(fs))
            if stw and r.random() < 0.6:
                tgt = "der(%s)" % tgt
                self.count("for:der")
            body.append("    %s = %s;" % (tgt, self.eg.gen(bsc, 2)))
        if not body:
            body.append("    %s[%s] = %s;" % (v, idx, self.eg.gen(bsc, 2)))
        self.count("for:body-%d" % len(body))
        return "  for %s in %s loop\n%s\n  end for;" % (idx, rng_txt, "\n".join(body))

    # ---- evaluation points --------------------------------------------------------------------------
    def point(self, vars_, states, txt):
        r = self.rng
        pt = {"time": [self.eg.pick(VALUES["gen"])]}
        for (name, cls, dims, typ) in vars_:
            n = 1
            for d in dims:
                n *= d
            if cls.startswith("int:"):
                # dimensions / loop bounds use the DECLARED value (get_integer); as a number in an equation an
                # Integer parameter is an ordinary input of the residual functions: any value may be passed
                d_ = int(cls[4:])
                pt[name] = [F(self.eg.pick([d_, d_ + 1, d_ - 1, 1, 5, d_ + 2]))]
                continue
            pt[name] = [self.eg.pick(VALUES[cls]) for _ in range(n)]
            pt["der(%s)" % name] = [self.eg.pick(VALUES["gen"]) for _ in range(n)]
        for k in range(4):
            pt["_pymoca_delay_%d" % k] = [self.eg.pick(VALUES["gen"])]
        return pt


def point_to_json(pt):
    return {k: (None if v is None else [qs(x) for x in v]) for k, v in pt.items()}


def point_from_json(js):
    return {k: (None if v is None else [qp(x) for x in v]) for k, v in js.items()}
