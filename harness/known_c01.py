"""Predicates of the open findings of C01."""
from harness.common import known_predicate


@known_predicate
def c01_damaged_while_initialized(case, what):
    """C01-F2 (fixed by 821b239; kept for the record, a fixed entry suppresses nothing): parse() raises a sqlite3.DatabaseError because the cache file was deleted / overwritten / lost its
    `models` table *after* this process had put it into parse.initialized_dbs, and the module was not reloaded
    since.  Recognised from the history alone; any other exception, a wrong tree, or a DatabaseError in a synced
    state is not this finding."""
    from harness.props.c01 import unsynced_at
    if "ops" not in case or "upto" not in case:
        return False
    ops, upto = case["ops"], case["upto"]
    if upto < 1 or upto > len(ops) or ops[upto - 1][0] != "parse":
        return False
    if what == "parse raised db":
        return unsynced_at(ops, upto)
    if what.startswith("disagreement:"):
        return False
    return False


@known_predicate
def c01_write_damage_while_initialized(case, what):
    """C01-F3: parse() raises a sqlite3.DatabaseError (IntegrityError) at the cache *write* because the `models`
    table was replaced — while this process held the database initialised — by one on which the lookup works but the
    insert does not (additional NOT NULL column).  Recognised from the history alone: the failing operation is a
    parse, and at that time the last thing done to the table since the process's last (re)validation was such a
    replacement.  Any other exception, a wrong tree, or a DatabaseError in another state is not this finding."""
    from harness.props.c01 import write_damaged_at
    if "ops" not in case or "upto" not in case or what != "parse raised db":
        return False
    ops, upto = case["ops"], case["upto"]
    if upto < 1 or upto > len(ops) or ops[upto - 1][0] != "parse":
        return False
    return write_damaged_at(ops, upto)
