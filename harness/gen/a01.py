"""Shared helpers of C01/C02 (owner: A01): a structured generator of small Modelica texts
(plus syntactically broken variants), a canonical form of parsed trees that does not go
through pickle or `Node.to_json`, and the clock / version shims.

Everything random comes from the `random.Random` passed in."""
import enum
import hashlib
import math
import os

# --------------------------------------------------------------------------------------
# Modelica text generator (subset pymoca's grammar and listener handle)
# --------------------------------------------------------------------------------------
TYPES = ["Real", "Integer", "Boolean"]
PREFIXES = ["", "", "", "parameter ", "constant ", "input ", "output ", "discrete "]
BINOPS = ["+", "-", "*", "/", "^"]
RELOPS = ["<", "<=", ">", ">=", "==", "<>"]
FUNCS = ["sin", "cos", "exp", "abs", "sqrt"]


def _lit(rng, ty="Real"):
    if ty == "Boolean":
        return rng.choice(["true", "false"])
    if ty == "Integer":
        return str(rng.randint(0, 99))
    return rng.choice([str(rng.randint(0, 20)), "%d.%d" % (rng.randint(0, 9), rng.randint(0, 99)),
                       "%de%d" % (rng.randint(1, 9), rng.randint(-3, 3))])


def _expr(rng, names, depth):
    if depth <= 0 or rng.random() < 0.3:
        if names and rng.random() < 0.6:
            return rng.choice(names)
        return _lit(rng)
    r = rng.random()
    if r < 0.55:
        op = rng.choice(BINOPS)
        if op == "^":      # not associative in Modelica: operands in parentheses
            return "(%s) ^ (%s)" % (_expr(rng, names, depth - 1), _expr(rng, names, depth - 1))
        return "%s %s %s" % (_expr(rng, names, depth - 1), op, _expr(rng, names, depth - 1))
    if r < 0.7:
        return "(%s)" % _expr(rng, names, depth - 1)
    if r < 0.8:
        return "-%s" % _expr(rng, names, depth - 1)
    if r < 0.9:
        return "%s(%s)" % (rng.choice(FUNCS), _expr(rng, names, depth - 1))
    return "(if %s %s %s then %s else %s)" % (_expr(rng, names, 0), rng.choice(RELOPS), _expr(rng, names, 0),
                                            _expr(rng, names, depth - 1), _expr(rng, names, depth - 1))


def _klass(rng, name, depth, tag):
    kind = rng.choice(["model", "model", "class", "block"]) if depth == 0 else rng.choice(["model", "record", "connector"])
    lines = ["%s %s" % (kind, name)]
    reals, decls = [], []
    nsym = rng.randint(1, 5)
    for i in range(nsym):
        ty = rng.choice(TYPES) if kind != "connector" else "Real"
        pre = rng.choice(PREFIXES) if kind not in ("record", "connector") else ""
        if kind == "connector" and rng.random() < 0.4:
            pre = "flow "
        v = "%s%d" % (rng.choice("xyzuvwpqk"), i)
        dims = "[%d]" % rng.randint(1, 3) if rng.random() < 0.15 else ""
        mods = []
        if ty == "Real" and rng.random() < 0.4:
            mods.append("start = %s" % _lit(rng))
        if ty == "Real" and rng.random() < 0.25:
            mods.append("min = %s, max = %s" % (_lit(rng, "Integer"), _lit(rng, "Integer")))
        if rng.random() < 0.15:
            mods.append('unit = "m%d"' % rng.randint(1, 3))
        m = "(%s)" % ", ".join(mods) if mods else ""
        val = ""
        if pre.strip() in ("parameter", "constant") and not dims:
            val = " = %s" % _lit(rng, ty)
        cmt = ""
        if rng.random() < 0.3:
            # description strings, some spanning lines (the lexer keeps the line break inside the string)
            cmt = ' "%s %d"' % (tag, i) if rng.random() < 0.5 else ' "%s %d\n   continued %s"' % (tag, i, rng.choice(["a", "b b", ""]))
        decls.append("  %s%s %s%s%s%s%s;" % (pre, ty, v, dims, m, val, cmt))
        if ty == "Real" and not dims and pre.strip() in ("", "output", "discrete"):
            reals.append(v)
    if depth < 2 and rng.random() < 0.35 and kind not in ("record", "connector"):
        sub = "%s_S%d" % (name, depth)
        lines += ["  " + l for l in _klass(rng, sub, depth + 1, tag)]
        decls.append("  %s s%d;" % (sub, depth))
    lines += decls
    if kind not in ("record", "connector") and reals:
        lines.append("equation")
        for v in reals:
            r = rng.random()
            if r < 0.3:
                lines.append("  der(%s) = %s;" % (v, _expr(rng, reals, 2)))
            elif r < 0.9:
                lines.append("  %s = %s;" % (v, _expr(rng, reals, 3)))
            else:
                lines.append("  if %s > %s then\n    %s = %s;\n  else\n    %s = %s;\n  end if;" % (
                    rng.choice(reals), _lit(rng), v, _expr(rng, reals, 1), v, _expr(rng, reals, 1)))
    lines.append("end %s;" % name)
    return lines


def gen_text(rng, idx):
    """A small valid Modelica stored_definition; `idx` makes the text unique within a pool."""
    tag = "t%d" % idx
    out = []
    if rng.random() < 0.15:
        out.append("within P%d;" % rng.randint(0, 2))
    for k in range(rng.choice([1, 1, 1, 2])):
        out += _klass(rng, "M%d_%d" % (idx, k), 0, tag)
    return "\n".join(out) + "\n"


VARIANTS = ["crlf", "nofinal", "final2", "cr_in_string", "ff_in_string", "ls_in_string", "nel_in_string", "vt_in_string",
            "fs_in_string", "space_in_string", "case", "tab"]


def variant(rng, txt, how):
    """A near-identical text: differs from `txt` only in line terminators / white space / letter case — inside a
    string literal where there is one, so that the parsed trees differ although the texts look alike.  Returns None
    when the change does not apply."""
    def in_string(repl):
        # the first line break that lies inside a string literal
        q = False
        for i, ch in enumerate(txt):
            if ch == '"':
                q = not q
            elif ch == "\n" and q:
                return txt[:i] + repl + txt[i + 1:]
        return None
    if how == "crlf":
        return txt.replace("\n", "\r\n")
    if how == "nofinal":
        return txt.rstrip("\n")
    if how == "final2":
        return txt + "\n"
    if how == "cr_in_string":
        return in_string("\r")
    if how == "ff_in_string":
        return in_string("\f")
    if how == "ls_in_string":
        return in_string("\u2028")
    if how == "nel_in_string":
        return in_string("\x85")
    if how == "vt_in_string":
        return in_string("\v")
    if how == "fs_in_string":
        return in_string("\x1c")
    if how == "space_in_string":
        return in_string(" \n")
    if how == "tab":
        return txt.replace("\n  ", "\n\t", 1)
    if how == "case":
        import re
        m = re.search(r"\b([xyzuvwpqk])(\d)\b", txt)
        if not m:
            return None
        return re.sub(r"\b%s\b" % m.group(0), m.group(1).upper() + m.group(2), txt)
    return None


def syntax_errors(text):
    """Number of syntax errors the *generated* ANTLR parser itself counts for `text` (rule stored_definition) —
    independent of pymoca's error listener and of `_parse`: the reference for "the text has a syntax error"."""
    import antlr4
    from pymoca.generated.ModelicaLexer import ModelicaLexer
    from pymoca.generated.ModelicaParser import ModelicaParser
    lexer = ModelicaLexer(antlr4.InputStream(text))
    lexer.removeErrorListeners()
    p = ModelicaParser(antlr4.CommonTokenStream(lexer))
    p.removeErrorListeners()
    p.stored_definition()
    return p.getNumberOfSyntaxErrors()


BREAKS = ["noend", "nosemi", "paren", "badtoken", "double_eq", "double_op", "extra_paren", "end_noname", "double_semi"]


def break_text(rng, txt, how=None):
    """A syntactically broken variant of a valid text (some of them of the kind ANTLR repairs in-line by dropping
    or inventing one token: doubled '=', doubled operator, extra ')', missing ';', missing name after 'end')."""
    import re
    how = how or rng.choice(BREAKS)
    lines = txt.rstrip("\n").split("\n")
    if how == "double_eq":
        return re.sub(r" = ", " = = ", txt, count=1) if " = " in txt else txt.rstrip("\n") + "\nequation x = = 1;\n"
    if how == "double_op":
        m = re.search(r" ([+*/]) ", txt)
        return txt[:m.start()] + " %s %s " % (m.group(1), "*" if m.group(1) != "*" else "/") + txt[m.end():] if m else \
            re.sub(r"(\w+);", r"\1 * / 2;", txt, count=1)
    if how == "extra_paren":
        return re.sub(r";", ");", txt, count=1)
    if how == "end_noname":
        return "\n".join(lines[:-1] + ["end ;"]) + "\n"
    if how == "double_semi":
        return re.sub(r";", ";;", txt, count=1)
    if how == "noend":
        return "\n".join(lines[:-1]) + "\n"
    if how == "nosemi":
        for i, l in enumerate(lines):
            if l.endswith(";") and not l.startswith("end") and not l.startswith("within"):
                lines[i] = l[:-1]
                return "\n".join(lines) + "\n"
        return "\n".join(lines[:-1]) + "\n"
    if how == "paren":
        return txt.replace(";", " + ((1;", 1)
    if how == "badtoken":
        return "\n".join(lines[:-1] + ["  Real 3x = ;", lines[-1]]) + "\n"
    return txt + "equation x = ;\n"


# --------------------------------------------------------------------------------------
# canonical form of a parsed tree: independent of pickle and of Node.to_json
# --------------------------------------------------------------------------------------
SKIP = ("parent", "scope", "__deepcopy__")


def canon(obj, container=None, _stack=None):
    """Nested lists/dicts/strings; floats by repr; every AST node tagged with its class name; for nodes with a
    `parent` attribute, whether it points at the enclosing class node (graph shape, not just tree shape)."""
    from pymoca import ast
    st = _stack if _stack is not None else []
    if isinstance(obj, ast.Node):
        if any(o is obj for o in st):
            return {"_cycle": type(obj).__name__}
        st.append(obj)
        d = {"_type": type(obj).__name__}
        inner = obj if isinstance(obj, ast.Class) else container
        for k in obj.__dict__:
            if k in SKIP:
                continue
            d[k] = canon(obj.__dict__[k], inner, st)
        if "parent" in obj.__dict__:
            p = obj.__dict__["parent"]
            d["_parent"] = "none" if p is None else ("container" if p is container else "other:" + type(p).__name__)
        st.pop()
        return d
    if isinstance(obj, dict):
        return {"_dict": [[canon(k, container, st), canon(v, container, st)] for k, v in obj.items()]}
    if isinstance(obj, (list, tuple)):
        return [canon(x, container, st) for x in obj]
    if isinstance(obj, (set, frozenset)):
        return {"_set": sorted(repr(canon(x, container, st)) for x in obj)}
    if isinstance(obj, enum.Enum):
        return {"_enum": type(obj).__name__ + "." + obj.name}
    if isinstance(obj, float):
        return {"_float": "nan" if math.isnan(obj) else repr(obj)}
    if isinstance(obj, bool) or obj is None or isinstance(obj, (int, str)):
        return obj
    return {"_repr": type(obj).__name__ + ":" + repr(obj)}


def canon_key(tree):
    """Short digest of the canonical form (None for a failed parse / non-tree)."""
    import json
    if tree is None:
        return None
    return hashlib.sha1(json.dumps(canon(tree), sort_keys=True, default=str).encode()).hexdigest()[:16]


# --------------------------------------------------------------------------------------
# shims
# --------------------------------------------------------------------------------------
class Clock:
    """Stands in for the name `time` inside pymoca.parser: `time_ns` under harness control.
    Every read returns `now` and then advances it by `inc` ns."""

    def __init__(self, now_ns, inc_ns=0):
        self.now = now_ns
        self.inc = inc_ns
        self.reads = 0

    def time_ns(self):
        v = self.now
        self.now += self.inc
        self.reads += 1
        return v

    def time(self):
        return self.now / 1e9

    def __getattr__(self, name):
        import time as _t
        return getattr(_t, name)


class Quiet:
    """Silences what pymoca / ANTLR print while the harness feeds them broken texts and damaged caches:
    ANTLR's console error listener writes to sys.stderr, pymoca logs warnings.  Output only; no behaviour."""

    def __enter__(self):
        import logging
        import sys
        self.err = sys.stderr
        sys.stderr = _Null()
        self.lg = logging.getLogger("pymoca")
        self.level = self.lg.level
        self.lg.setLevel(logging.CRITICAL + 1)
        return self

    def __exit__(self, *a):
        import sys
        sys.stderr = self.err
        self.lg.setLevel(self.level)
        return False


class _Null:
    def write(self, s):
        return len(s)

    def flush(self):
        pass


def sha(txt):
    return hashlib.sha256(txt.encode("utf-8")).hexdigest()


# --------------------------------------------------------------------------------------
# translator: the SQL statement tree of parser.parse / _check_database_structure (Python `ast`)
# --------------------------------------------------------------------------------------
class Unrecognised(Exception):
    pass


def sql_kind(s):
    t = " ".join(s.split()).upper().rstrip(";").strip()
    w = t.split()
    if not w:
        raise Unrecognised("empty SQL")
    if w[0] == "BEGIN":
        if len(w) > 1 and w[1] in ("IMMEDIATE", "EXCLUSIVE"):
            return "beginI"
        return "beginD"
    if w[0] in ("COMMIT", "END", "ROLLBACK"):
        return "commit"
    if w[0] in ("SELECT", "PRAGMA"):
        return "read"
    if w[0] in ("INSERT", "UPDATE", "DELETE", "CREATE", "DROP", "REPLACE", "ALTER"):
        return "write"
    raise Unrecognised("SQL statement %r" % t[:40])


def _const_str(node):
    import ast
    if isinstance(node, ast.Constant) and isinstance(node.value, str):
        return node.value
    if isinstance(node, ast.JoinedStr):
        return "".join(v.value if isinstance(v, ast.Constant) else "?" for v in node.values)
    return None


def _handler_names(h):
    import ast
    if h.type is None:
        return ["BaseException"]
    if isinstance(h.type, ast.Tuple):
        return [ast.unparse(e) for e in h.type.elts]
    return [ast.unparse(h.type)]


def extract(parser_file=None):
    """(statement kinds: beginD beginI read write commit, and `work` for _parse / pickle.dumps / pickle.loads)
    Returns {"prog": tree, "caught_unpickle": [...], "caught_integrity": [...], "isolation_none": bool,
    "sql": [texts]}.  Tree nodes: ["skip"], ["stmt", kind, guarded], ["seq", a, b], ["choice", a, b],
    ["try", body, handler-names]; `guarded` marks statements inside a `try` whose handler removes the file.
    Raises Unrecognised when the source no longer has a shape this extractor understands."""
    import ast
    if parser_file is None:
        import pymoca.parser
        parser_file = pymoca.parser.__file__
    mod = ast.parse(open(parser_file).read())
    funcs = {n.name: n for n in mod.body if isinstance(n, ast.FunctionDef)}
    if "parse" not in funcs:
        raise Unrecognised("no function parse")
    info = {"caught_unpickle": None, "caught_integrity": None, "isolation": [], "sql": [], "recover": False, "write_tolerant": False}
    # string constants: module level, and (while a local helper is inlined) its parameters bound to the arguments
    envs = [{}]

    def resolve(node):
        """The string an expression evaluates to, with `?` for parts that are not constant; None if hopeless.
        Only the statement keyword matters for the lock model, so partial knowledge is enough."""
        import re
        if isinstance(node, ast.Constant):
            return node.value if isinstance(node.value, str) else None
        if isinstance(node, ast.Name):
            return envs[-1].get(node.id)
        if isinstance(node, ast.JoinedStr):
            out = ""
            for v in node.values:
                if isinstance(v, ast.Constant):
                    out += str(v.value)
                else:
                    r = resolve(v.value) if isinstance(v, ast.FormattedValue) else None
                    out += r if r is not None else "?"
            return out
        if isinstance(node, ast.Call) and isinstance(node.func, ast.Attribute) and node.func.attr == "format":
            t = resolve(node.func.value)
            if t is None:
                return None
            args = [resolve(a) for a in node.args]
            kws = {k.arg: resolve(k.value) for k in node.keywords if k.arg}
            try:
                return t.format(*[a if a is not None else "?" for a in args],
                                **{k: (v if v is not None else "?") for k, v in kws.items()})
            except Exception:
                return re.sub(r"\{[^{}]*\}", "?", t)
        if isinstance(node, ast.Call) and isinstance(node.func, ast.Attribute) and node.func.attr in ("strip", "lstrip", "rstrip", "upper", "lower") \
                and not node.args:
            t = resolve(node.func.value)
            return getattr(t, node.func.attr)() if t is not None else None
        if isinstance(node, ast.BinOp) and isinstance(node.op, ast.Mod):
            t = resolve(node.left)
            if t is None:
                return None
            vals = node.right.elts if isinstance(node.right, ast.Tuple) else [node.right]
            it = iter([resolve(v) for v in vals])
            return re.sub(r"%[sdr]", lambda m: (next(it, None) or "?"), t)
        if isinstance(node, ast.BinOp) and isinstance(node.op, ast.Add):
            a, b = resolve(node.left), resolve(node.right)
            if a is None and b is None:
                return None
            return (a if a is not None else "?") + (b if b is not None else "?")
        return None

    for n in mod.body:
        if isinstance(n, ast.Assign) and len(n.targets) == 1 and isinstance(n.targets[0], ast.Name):
            v = resolve(n.value)
            if v is not None:
                envs[0][n.targets[0].id] = v
        elif isinstance(n, ast.AnnAssign) and isinstance(n.target, ast.Name) and n.value is not None:
            v = resolve(n.value)
            if v is not None:
                envs[0][n.target.id] = v

    def bind(fn, call):
        """parameters of an inlined helper -> constant strings, where the arguments are such"""
        env = dict(envs[0])
        params = [a.arg for a in fn.args.posonlyargs + fn.args.args]
        for name, arg in zip(params, call.args):
            v = resolve(arg)
            if v is not None:
                env[name] = v
            else:
                env.pop(name, None)
        for k in call.keywords:
            if k.arg:
                v = resolve(k.value)
                if v is not None:
                    env[k.arg] = v
                else:
                    env.pop(k.arg, None)
        # defaults of parameters not passed
        defaults = fn.args.defaults
        for name, d in zip(params[len(params) - len(defaults):], defaults):
            if name not in env and name not in [k.arg for k in call.keywords] and params.index(name) >= len(call.args):
                v = resolve(d)
                if v is not None:
                    env[name] = v
        return env

    def has_sql(fn, seen=()):
        for node in ast.walk(fn):
            if isinstance(node, ast.Call) and isinstance(node.func, ast.Attribute) and node.func.attr in ("execute", "executemany", "executescript", "commit", "rollback"):
                return True
            if isinstance(node, ast.Call) and isinstance(node.func, ast.Name) and node.func.id in funcs \
                    and node.func.id not in seen and node.func.id != fn.name:
                if has_sql(funcs[node.func.id], seen + (fn.name,)):
                    return True
        return False

    def seq(a, b):
        if a == ["skip"]:
            return b
        if b == ["skip"]:
            return a
        if a[0] == "seq":                      # right-nested: the tree does not depend on how helpers are cut
            return ["seq", a[1], seq(a[2], b)]
        return ["seq", a, b]

    def calls_of(st, guarded, depth):
        """SQL-relevant effect of one simple statement."""
        found = []
        for node in ast.walk(st):
            if not isinstance(node, ast.Call):
                continue
            f = node.func
            if isinstance(f, ast.Attribute) and f.attr in ("executemany", "executescript"):
                raise Unrecognised(f.attr)
            if isinstance(f, ast.Attribute) and f.attr == "execute":
                s = resolve(node.args[0]) if node.args else None
                if s is None or not s.split() or s.split()[0].startswith("?"):
                    raise Unrecognised("execute() with a statement whose keyword is not a constant")
                info["sql"].append(" ".join(s.split()))
                found.append(["stmt", sql_kind(s), guarded])
            elif isinstance(f, ast.Attribute) and f.attr in ("commit", "rollback"):
                found.append(["stmt", "commit", guarded])
            elif isinstance(f, ast.Attribute) and f.attr == "connect":
                kw = {k.arg: ast.unparse(k.value) for k in node.keywords}
                info["isolation"].append(kw.get("isolation_level", "<default>"))
            elif (isinstance(f, ast.Name) and f.id == "_parse") or \
                    (isinstance(f, ast.Attribute) and f.attr in ("dumps", "loads") and ast.unparse(f.value) == "pickle"):
                # text-dependent computation (the ANTLR parse, pickling): marked so that "no lock is held meanwhile"
                # can be checked on the tree
                found.append(["stmt", "work", guarded])
            elif isinstance(f, ast.Name) and f.id in funcs and has_sql(funcs[f.id]):
                if depth > 3:
                    raise Unrecognised("call depth")
                envs.append(bind(funcs[f.id], node))
                try:
                    found.append(walk(funcs[f.id].body, guarded, depth + 1)[0])
                finally:
                    envs.pop()
        if len(found) > 1:
            raise Unrecognised("several SQL effects in one statement: " + ast.unparse(st)[:60])
        return found[0] if found else ["skip"]

    def contains(stmts, pred):
        return any(pred(n) for s in stmts for n in ast.walk(s))

    def walk(stmts, guarded, depth):
        """-> (prog, terminates) for a statement list."""
        if not stmts:
            return ["skip"], False
        st, rest = stmts[0], stmts[1:]
        if isinstance(st, (ast.Return, ast.Raise)):
            head = calls_of(st, guarded, depth) if isinstance(st, ast.Return) and st.value is not None else ["skip"]
            return head, True
        if isinstance(st, ast.If):
            a, ta = walk(st.body, guarded, depth)
            b, tb = walk(st.orelse, guarded, depth)
            if calls_of(st.test, guarded, depth) != ["skip"]:
                raise Unrecognised("SQL in a condition")
            if ta or tb:
                r, tr = walk(rest, guarded, depth)
                aa, bb = (a if ta else seq(a, r)), (b if tb else seq(b, r))
                node = ["skip"] if aa == ["skip"] and bb == ["skip"] else ["choice", aa, bb]
                return node, (ta or tr) and (tb or tr)
            r, tr = walk(rest, guarded, depth)
            node = ["choice", a, b] if (a != ["skip"] or b != ["skip"]) else ["skip"]
            return seq(node, r), tr
        if isinstance(st, ast.Try):
            if st.finalbody or st.orelse:
                raise Unrecognised("try with else/finally")
            names = [n for h in st.handlers for n in _handler_names(h)]
            removes = contains([s for h in st.handlers for s in h.body],
                               lambda n: isinstance(n, ast.Call) and isinstance(n.func, ast.Attribute) and n.func.attr in ("remove", "unlink"))
            if contains(st.body, lambda n: isinstance(n, ast.Call) and isinstance(n.func, ast.Attribute) and n.func.attr == "loads"):
                if info["caught_unpickle"] is not None:
                    raise Unrecognised("two unpickling sites")
                info["caught_unpickle"] = names
            body, tbody = walk(st.body, guarded or removes, depth)
            if removes:
                if info["caught_integrity"] is not None:
                    raise Unrecognised("two file-removal handlers")
                info["caught_integrity"] = names
            for h in st.handlers:
                # the retry shape of fix C01-1: the handler forgets the earlier check of the database
                # (`parse.initialized_dbs.discard(...)`) and returns a fresh call of parse(); the nested call is not
                # inlined (handlers do not run in exception-free executions)
                forgets = contains(h.body, lambda n: isinstance(n, ast.Call) and isinstance(n.func, ast.Attribute)
                                   and n.func.attr in ("discard", "remove", "clear")
                                   and "initialized_dbs" in ast.unparse(n.func.value))
                retries = contains(h.body, lambda n: isinstance(n, ast.Return) and isinstance(n.value, ast.Call)
                                   and isinstance(n.value.func, ast.Name) and n.value.func.id == "parse")
                catches_db = any(x.split(".")[-1] in ("DatabaseError", "Error", "Exception", "BaseException")
                                 for x in _handler_names(h))
                if forgets and retries and catches_db and body != ["skip"]:
                    info["recover"] = True
                    continue
                # the shape of fix C01-2: a DatabaseError of the cache write (the INSERT) is not propagated; the
                # handler forgets the earlier check and parse() goes on to return the tree
                inserts = contains(st.body, lambda n: isinstance(n, ast.Call) and isinstance(n.func, ast.Attribute)
                                   and n.func.attr == "execute" and n.args and (resolve(n.args[0]) or "").strip().upper().startswith("INSERT"))
                ends_raising = bool(h.body) and isinstance(h.body[-1], ast.Raise)
                if forgets and inserts and catches_db and not retries and not ends_raising:
                    info["write_tolerant"] = True
                hb, _ = walk(h.body, guarded, depth)
                if hb != ["skip"]:
                    raise Unrecognised("SQL inside an exception handler")
            r, tr = walk(rest, guarded, depth)
            return seq(["try", body, names] if body != ["skip"] else ["skip"], r), tbody or tr
        if isinstance(st, (ast.For, ast.While, ast.AsyncFor)):
            if has_sql(ast.Module(body=[st], type_ignores=[])) if False else contains([st], lambda n: isinstance(n, ast.Call) and isinstance(n.func, ast.Attribute) and n.func.attr in ("execute", "commit")):
                raise Unrecognised("SQL inside a loop")
            return walk(rest, guarded, depth)
        if isinstance(st, ast.With):
            b, tb = walk(st.body, guarded, depth)
            if tb:
                return b, True
            r, tr = walk(rest, guarded, depth)
            return seq(b, r), tr
        if isinstance(st, (ast.FunctionDef, ast.ClassDef)):
            return walk(rest, guarded, depth)
        head = calls_of(st, guarded, depth)
        r, tr = walk(rest, guarded, depth)
        return seq(head, r), tr

    prog, _ = walk(funcs["parse"].body, False, 0)
    if info["caught_unpickle"] is None:
        # pickle.loads outside any try: nothing is caught
        if contains(funcs["parse"].body, lambda n: isinstance(n, ast.Call) and isinstance(n.func, ast.Attribute) and n.func.attr == "loads"):
            info["caught_unpickle"] = []
        else:
            raise Unrecognised("no pickle.loads in parse")
    if not info["isolation"]:
        raise Unrecognised("no sqlite3.connect call")
    return {"prog": prog, "caught_unpickle": info["caught_unpickle"], "caught_integrity": info["caught_integrity"] or [],
            "isolation_none": all(i == "None" for i in info["isolation"]), "sql": info["sql"],
            "recover": info["recover"], "write_tolerant": info["write_tolerant"]}


def prog_of_traces(traces):
    """The prefix tree of a set of traces [(kind, guarded), …] as a program: its paths are exactly the traces."""
    def build(ts):
        uniq = []
        for t in ts:
            if t not in uniq:
                uniq.append(t)
        if all(len(t) == 0 for t in uniq):
            return ["skip"]
        groups = {}
        for t in uniq:
            if t:
                groups.setdefault(tuple(t[0]), []).append(list(t[1:]))
        alts = []
        for (k, g), rest in groups.items():
            tail = build(rest)
            head = ["stmt", k, bool(g)]
            alts.append(head if tail == ["skip"] else ["seq", head, tail])
        node = alts[-1]
        for a in reversed(alts[:-1]):
            node = ["choice", a, node]
        if any(len(t) == 0 for t in uniq):
            node = ["choice", ["skip"], node]
        return node
    return build([[tuple(x) for x in t] for t in traces])


_EXTRACT_CACHE = {}


def extract_any(ctx=None, scratch=None):
    """The facts the models take from the source: static extraction (Python `ast`); if the source has a shape the
    extractor does not understand, dynamic extraction (program = prefix tree of recorded statement traces of the
    real parse() over a scenario matrix, flags probed behaviourally).  Only if both fail a broken tie is reported
    (returns None).  The evidence records which one was used."""
    import pymoca.parser
    f = pymoca.parser.__file__
    key = (f, os.path.getmtime(f), bool(os.environ.get("VERIF_A01_FORCE_DYNAMIC")))
    if key not in _EXTRACT_CACHE:
        res, static_err = None, None
        if not os.environ.get("VERIF_A01_FORCE_DYNAMIC"):
            try:
                res = extract(f)
                res["derived"] = "static"
            except Exception as e:
                static_err = "%s: %s" % (type(e).__name__, e)
        else:
            static_err = "forced by VERIF_A01_FORCE_DYNAMIC"
        if res is None:
            try:
                import tempfile
                from harness.props import c02
                base = scratch or tempfile.mkdtemp(prefix="a01-dyn-")
                res = c02.extract_dynamic(base)
                res["static_error"] = static_err
            except Exception as e:
                res = {"failed": "static: %s; dynamic: %s: %s" % (static_err, type(e).__name__, e)}
        _EXTRACT_CACHE[key] = res
    res = _EXTRACT_CACHE[key]
    if "failed" in res:
        if ctx is not None:
            ctx.tie_broken("translator:sql-program", res["failed"])
        return None
    if ctx is not None:
        ctx.extra["program_source"] = {"derived": res["derived"], "static_error": res.get("static_error"),
                                       "scenarios": res.get("scenarios")}
        if res["derived"] != "static" and not any("trace-derived" in n for n in ctx.notes):
            ctx.notes.append("statement program is trace-derived (static extraction did not recognise the source: %s)"
                             % res.get("static_error"))
    return res


def prog_to_lean(p, ind=2):
    pad = " " * ind
    k = p[0]
    if k == "skip":
        return pad + ".skip"
    if k == "stmt":
        return pad + "(.stmt .%s %s)" % (p[1], "true" if p[2] else "false")
    if k in ("seq", "choice"):
        return pad + "(.%s\n%s\n%s)" % (k, prog_to_lean(p[1], ind + 2), prog_to_lean(p[2], ind + 2))
    if k == "try":
        return pad + "(.try_\n%s)" % prog_to_lean(p[1], ind + 2)
    raise Unrecognised("node " + k)


def render_lean(ex):
    def strs(xs):
        return "[" + ", ".join('"%s"' % x.replace('"', "'") for x in xs) + "]"
    return ("""import PymocaVerif.Model.SqliteLock
/-! GENERATED by harness/gen/a01.py (`translate` of C02) from `pymoca/parser.py` with Python's `ast` —
    do not edit.  The tree of SQL statements `parse` (with `_check_database_structure` inlined) executes:
    sequence / if-else choice / try; `true` marks statements inside the `try` whose handler removes the
    database file.  Plus the exception classes caught around `pickle.loads` and around the integrity
    check, and whether every connection is opened with `isolation_level=None`. -/
namespace PymocaVerif.Generated.SqlProgram
open PymocaVerif.SqliteLock

def sqlProgram : Prog :=
%s

def caughtUnpickle : List String := %s
def caughtIntegrity : List String := %s
def isolationLevelNone : Bool := %s
/-- `parse` re-validates a database it had initialised when its lookup raises a `DatabaseError` (fix C01-1) -/
def recoversAfterDamage : Bool := %s
/-- a `DatabaseError` of the cache write (the INSERT of a fresh tree) does not leave `parse` (fix C01-2) -/
def toleratesWriteFailure : Bool := %s

end PymocaVerif.Generated.SqlProgram
""" % (prog_to_lean(ex["prog"]), strs(ex["caught_unpickle"]), strs(ex["caught_integrity"]),
       "true" if ex["isolation_none"] else "false", "true" if ex["recover"] else "false",
       "true" if ex["write_tolerant"] else "false"))
