import PymocaVerif.Lemmas.Flatten
/-! Lemmas about modification environments: order by scope depth, origin of every binding. -/
namespace PymocaVerif.Flatten

/-- later entries are written at the same or an outer (shorter) scope -/
def ScopeSorted (l : List MMod) : Prop := l.Pairwise fun a b => b.scope.length ≤ a.scope.length

theorem MMod.strip_some {n : Name} {m m' : MMod} (h : MMod.strip n m = some m') :
    m.path = n :: m'.path ∧ m'.scope = m.scope ∧ m'.value = m.value := by
  unfold MMod.strip at h
  split at h
  · cases h
  · rename_i hd tl hp
    split at h
    · rename_i heq
      cases h
      subst heq
      exact ⟨hp, rfl, rfl⟩
    · cases h

theorem Mod.strip_some {n : Name} {m m' : Mod} (h : Mod.strip n m = some m') :
    m.path = n :: m'.path ∧ m'.value = m.value := by
  unfold Mod.strip at h
  split at h
  · cases h
  · rename_i hd tl hp
    split at h
    · rename_i heq
      cases h
      subst heq
      exact ⟨hp, rfl⟩
    · cases h

theorem scopeSorted_const {l : List MMod} {n : Nat} (h : ∀ m ∈ l, m.scope.length = n) : ScopeSorted l := by
  induction l with
  | nil => exact List.Pairwise.nil
  | cons a as ih =>
    refine List.Pairwise.cons ?_ (ih fun m hm => h m (by simp [hm]))
    intro b hb
    rw [h a (by simp), h b (by simp [hb])]
    exact Nat.le_refl _

theorem scopeSorted_append {l1 l2 : List MMod} (h1 : ScopeSorted l1) (h2 : ScopeSorted l2)
    (h : ∀ a ∈ l1, ∀ b ∈ l2, b.scope.length ≤ a.scope.length) : ScopeSorted (l1 ++ l2) :=
  List.pairwise_append.mpr ⟨h1, h2, h⟩

theorem scopeSorted_filterMap_strip {n : Name} {l : List MMod} (h : ScopeSorted l) :
    ScopeSorted (l.filterMap (MMod.strip n)) := by
  induction l with
  | nil => exact List.Pairwise.nil
  | cons a as ih =>
    have h' := List.pairwise_cons.mp h
    simp only [List.filterMap_cons]
    split
    · exact ih h'.2
    · rename_i a' ha'
      refine List.Pairwise.cons ?_ (ih h'.2)
      intro b hb
      obtain ⟨b0, hb0, hb0'⟩ := List.mem_filterMap.mp hb
      rw [(MMod.strip_some ha').2.1, (MMod.strip_some hb0').2.1]
      exact h'.1 b0 hb0

theorem mem_allMods {P : Path} {k : Comp} {ext : List (List Mod)} {outer : List MMod} {m : MMod}
    (h : m ∈ allMods P k ext outer) :
    (m.scope = P ∧ ∃ x ∈ k.mods, x.value = m.value ∧ x.path = m.path) ∨
    (m.scope = P ∧ ∃ l ∈ ext, ∃ x ∈ l, x.value = m.value ∧ x.path = k.name :: m.path) ∨
    (∃ mo ∈ outer, mo.scope = m.scope ∧ mo.value = m.value ∧ mo.path = k.name :: m.path) := by
  unfold allMods at h
  rcases List.mem_append.mp h with h | h
  · rcases List.mem_append.mp h with h | h
    · obtain ⟨x, hx, rfl⟩ := List.mem_map.mp h
      exact .inl ⟨rfl, x, hx, rfl, rfl⟩
    · obtain ⟨x', hx', rfl⟩ := List.mem_map.mp h
      obtain ⟨x, hx, hs⟩ := List.mem_filterMap.mp hx'
      obtain ⟨l, hl, hxl⟩ := List.mem_flatten.mp hx
      have := Mod.strip_some hs
      exact .inr (.inl ⟨rfl, l, hl, x, hxl, this.2.symm, this.1⟩)
  · obtain ⟨mo, hmo, hs⟩ := List.mem_filterMap.mp h
    have := MMod.strip_some hs
    exact .inr (.inr ⟨mo, hmo, this.2.1.symm, this.2.2.symm, this.1⟩)

theorem allMods_sorted {P : Path} {k : Comp} {ext : List (List Mod)} {outer : List MMod}
    (hs : ScopeSorted outer) (hb : ∀ m ∈ outer, m.scope.length ≤ P.length) :
    ScopeSorted (allMods P k ext outer) ∧ ∀ m ∈ allMods P k ext outer, m.scope.length ≤ P.length := by
  constructor
  · unfold allMods
    refine scopeSorted_append (scopeSorted_append (scopeSorted_const (n := P.length) ?_)
      (scopeSorted_const (n := P.length) ?_) ?_) (scopeSorted_filterMap_strip hs) ?_
    · intro m hm; obtain ⟨x, _, rfl⟩ := List.mem_map.mp hm; rfl
    · intro m hm; obtain ⟨x, _, rfl⟩ := List.mem_map.mp hm; rfl
    · intro a ha b hb'
      obtain ⟨x, _, rfl⟩ := List.mem_map.mp ha
      obtain ⟨y, _, rfl⟩ := List.mem_map.mp hb'
      exact Nat.le_refl _
    · intro a ha b hb'
      obtain ⟨b0, hb0, hb0'⟩ := List.mem_filterMap.mp hb'
      rw [(MMod.strip_some hb0').2.1]
      have hal : a.scope.length = P.length := by
        rcases List.mem_append.mp ha with ha | ha <;> (obtain ⟨x, _, rfl⟩ := List.mem_map.mp ha; rfl)
      rw [hal]
      exact hb b0 hb0
  · intro m hm
    rcases mem_allMods hm with ⟨h, _⟩ | ⟨h, _⟩ | ⟨mo, hmo, h, _⟩
    · rw [h]; exact Nat.le_refl _
    · rw [h]; exact Nat.le_refl _
    · rw [← h]; exact hb mo hmo

theorem typeMods_ok {P : Path} {tms : List (List Mod)} {tm : List MMod} (h : typeMods P tms = .ok tm) :
    ∀ m ∈ tm, m.scope = P ∧ m.value.isLiteral = true := by
  unfold typeMods at h
  split at h
  · cases h
  · rename_i hfb
    cases h
    intro m hm
    obtain ⟨x, hx, rfl⟩ := List.mem_map.mp hm
    refine ⟨rfl, ?_⟩
    simpa [Mod.here] using firstBad_none hfb x hx

/-- the bindings of every leaf are ordered by the depth of the scope they were written in -/
theorem inst_binds_sorted {f : Nat} {lib : Lib} {c P : Path} {outer : List MMod} {dims : List Nat}
    {r : List Var × List IEq} (h : instF f lib c P outer dims = .ok r)
    (hs : ScopeSorted outer) (hb : ∀ m ∈ outer, m.scope.length ≤ P.length) {v : Var} (hv : v ∈ r.1) :
    ScopeSorted v.binds ∧ ∀ m ∈ v.binds, m.scope.length < v.path.length := by
  induction f generalizing c P outer dims r v with
  | zero => simp [instF] at h
  | succ f ih =>
    obtain ⟨f', ms, eqs, rs, hf, hms, _, _, _, hrs, rfl⟩ := instF_ok h
    cases hf
    obtain ⟨l, hl, hvl⟩ := List.mem_flatten.mp hv
    obtain ⟨r', hr', rfl⟩ := List.mem_map.mp hl
    obtain ⟨m, hm, hstep⟩ := mapE_mem_right hrs hr'
    have hall := allMods_sorted (P := P) (k := m.comp) (ext := m.ext) hs hb
    rcases instStep_ok hstep with ⟨b, tms, he, hleaf⟩ | ⟨c', he, hc, hrec⟩
    · obtain ⟨tm, htm, _, rfl⟩ := mkLeaf_ok hleaf
      simp at hvl
      subst hvl
      have htm' := typeMods_ok htm
      constructor
      · refine scopeSorted_append (scopeSorted_const (n := P.length) fun x hx => by rw [(htm' x hx).1]) hall.1 ?_
        intro a ha b' hb'
        rw [(htm' a ha).1]
        exact hall.2 b' hb'
      · intro x hx
        simp only [List.length_append, List.length_singleton]
        rcases List.mem_append.mp hx with hx | hx
        · rw [(htm' x hx).1]; omega
        · have := hall.2 x hx; omega
    · have hb' : ∀ x ∈ allMods P m.comp m.ext outer, x.scope.length ≤ (P ++ [m.comp.name]).length := by
        intro x hx
        have := hall.2 x hx
        simp only [List.length_append, List.length_singleton]
        omega
      exact ih hrec hall.1 hb' hvl

/-- the winning modification is the last one in priority order that has the path -/
theorem lookupBind_some {binds : List MMod} {a : Path} {m : MMod} (h : lookupBind binds a = some m) :
    m.path = a ∧ ∃ l1 l2, binds = l1 ++ m :: l2 ∧ ∀ x ∈ l2, x.path ≠ a := by
  unfold lookupBind at h
  obtain ⟨hp, as, bs, hl, hno⟩ := List.find?_eq_some_iff_append.mp h
  refine ⟨by simpa using hp, bs.reverse, as.reverse, ?_, ?_⟩
  · have := congrArg List.reverse hl
    simpa using this
  · intro x hx
    have := hno x (List.mem_reverse.mp hx)
    simpa using this

theorem lookupBind_append (l1 l2 : List MMod) (a : Path) :
    lookupBind (l1 ++ l2) a = (lookupBind l2 a).or (lookupBind l1 a) := by
  unfold lookupBind
  rw [List.reverse_append, List.find?_append]

theorem firstBad_some {α : Type} {p : α → Bool} {l : List α} {a : α} (ha : a ∈ l) (hp : p a = true) :
    ∃ b, firstBad p l = some b ∧ p b = true := by
  induction l with
  | nil => cases ha
  | cons x xs ih =>
    simp only [firstBad]
    split
    · rename_i hx; exact ⟨x, rfl, hx⟩
    · rename_i hx
      cases ha with
      | head => exact absurd hp hx
      | tail _ ha' => exact ih ha'

/-- where a binding of a leaf comes from: handed down from the enclosing levels (`outer`), or
    written — as a declaration modification, in an extends clause, or in a type definition
    (a literal) — in the class instantiated at the binding's scope, which lies on the leaf's path -/
theorem inst_binds_origin {f : Nat} {lib : Lib} {c P : Path} {outer : List MMod} {dims : List Nat}
    {r : List Var × List IEq} (h : instF f lib c P outer dims = .ok r) {v : Var} (hv : v ∈ r.1)
    {m : MMod} (hm : m ∈ v.binds) :
    (∃ mo ∈ outer, mo.scope = m.scope ∧ mo.value = m.value) ∨
    (∃ q q' c', v.path = P ++ q ++ q' ∧ q' ≠ [] ∧ m.scope = P ++ q ∧ InstAt lib c q c' ∧
        (WrittenIn lib c' m.value ∨ m.value.isLiteral = true)) := by
  induction f generalizing c P outer dims r v m with
  | zero => simp [instF] at h
  | succ f ih =>
    obtain ⟨f', ms, eqs, rs, hf, hms, _, _, _, hrs, rfl⟩ := instF_ok h
    cases hf
    obtain ⟨l, hl, hvl⟩ := List.mem_flatten.mp hv
    obtain ⟨r', hr', rfl⟩ := List.mem_map.mp hl
    obtain ⟨mem, hmem, hstep⟩ := mapE_mem_right hrs hr'
    have hmo := members_sound hms hmem
    -- a modification of `allMods` is from `outer`, or written in `c` (instantiated at `P`)
    have hall : ∀ x ∈ allMods P mem.comp mem.ext outer,
        (∃ mo ∈ outer, mo.scope = x.scope ∧ mo.value = x.value) ∨ (x.scope = P ∧ WrittenIn lib c x.value) := by
      intro x hx
      rcases mem_allMods hx with ⟨hsc, y, hy, hyv, _⟩ | ⟨hsc, l', hl', y, hy, hyv, _⟩ | ⟨mo, hmo', h1, h2, _⟩
      · exact .inr ⟨hsc, .inl ⟨mem.comp, y, hmo, hy, hyv⟩⟩
      · exact .inr ⟨hsc, .inr ⟨l', y, members_ext hms hmem hl', hy, hyv⟩⟩
      · exact .inl ⟨mo, hmo', h1, h2⟩
    rcases instStep_ok hstep with ⟨b, tms, he, hleaf⟩ | ⟨c', he, hc, hrec⟩
    · obtain ⟨tm, htm, _, rfl⟩ := mkLeaf_ok hleaf
      simp at hvl
      subst hvl
      rcases List.mem_append.mp hm with hm | hm
      · have := typeMods_ok htm m hm
        exact .inr ⟨[], [mem.comp.name], c, by simp, by simp, by simp [this.1], .here c, .inr this.2⟩
      · rcases hall m hm with ho | ⟨hsc, hw⟩
        · exact .inl ho
        · exact .inr ⟨[], [mem.comp.name], c, by simp, by simp, by simp [hsc], .here c, .inl hw⟩
    · rcases ih hrec hvl hm with ⟨mo, hmo', h1, h2⟩ | ⟨q, q', c'', hp, hq', hsc, hi, hw⟩
      · rcases hall mo hmo' with ⟨mo', hmo'', h1', h2'⟩ | ⟨hsc, hw⟩
        · exact .inl ⟨mo', hmo'', h1'.trans h1, h2'.trans h2⟩
        · obtain ⟨n, q0, hp⟩ := inst_paths_below hrec hvl
          refine .inr ⟨[], mem.comp.name :: n :: q0, c, by simp [hp], by simp, ?_, .here c, .inl ?_⟩
          · rw [← h1, hsc]; simp
          · rw [← h2]; exact hw
      · refine .inr ⟨mem.comp.name :: q, q', c'', by simp [hp], hq', by simp [hsc],
          .sub hmo hc (elemOf_none he) hi, hw⟩

/-- an inherited member carries the inheriting class's extends-clause modifications *after*
    (= with higher priority than) everything the base class attached to it -/
theorem members_inherit {f : Nat} {lib : Lib} {p b : Path} {d : ClassDef} {ms : List Mod} {all : List Member}
    (hp : lib.find p = some d) (he : (Ty.cls b, ms) ∈ d.exts) (h : membersF f lib p = .ok all) :
    ∃ f' base, f = f' + 1 ∧ membersF f' lib b = .ok base ∧
      ∀ x ∈ base, ({ comp := x.comp, ext := x.ext ++ [ms] } : Member) ∈ all := by
  obtain ⟨f', d', inh, hf, hd', hi, rfl⟩ := membersF_ok h
  rw [hp] at hd'; cases hd'
  obtain ⟨l, hl, hstep⟩ := mapE_mem_left hi he
  obtain ⟨b', base, htb, _, hrec, _, rfl⟩ := inheritStep_ok hstep
  cases htb
  refine ⟨f', base, hf, hrec, ?_⟩
  intro x hx
  exact List.mem_append_left _ (List.mem_flatten.mpr ⟨_, hl, List.mem_map.mpr ⟨x, hx, rfl⟩⟩)

theorem finVar_attr {names : List Path} {v : Var} {a : String} {e : FExpr} :
    (a, e) ∈ (finVar names v).attrs ↔
      a ∈ attrNames ∧ ∃ w, lookupBind v.binds [a] = some w ∧ e = rename names w.scope w.value := by
  simp only [finVar, List.mem_filterMap, Var.attr]
  constructor
  · rintro ⟨a', ha', h⟩
    cases hw : lookupBind v.binds [a'] with
    | none => simp [hw] at h
    | some w =>
      simp [hw] at h
      obtain ⟨rfl, rfl⟩ := h
      exact ⟨ha', w, hw, rfl⟩
  · rintro ⟨ha, w, hw, rfl⟩
    exact ⟨a, ha, by simp [hw]⟩

end PymocaVerif.Flatten
