import PymocaVerif.Model.ExprGrammar
/-!
# Reference reader for C03: the Modelica specification's expression grammar as a recursive-descent parser

Independent of the table-driven model of pymoca's parser: it is the yardstick ("the value Modelica's precedence
and associativity give the source text").  Core Lean only.
-/
namespace PymocaVerif.ExprGrammar

/-! ## Reference reader: the Modelica specification's expression grammar (B.2.7), one case per nonterminal

`sLevel f m` reads the nonterminal of level `m`: 1 `logical_expression`, 2 `logical_term`, 3 `logical_factor`,
4 `relation`, 5 `arithmetic_expression`, 6 `term`, 7 `factor`; `sPrimary` reads `primary`, `sExpr` reads `expression`
(without the `:` forms).  `sLoop f m l` is the repetition `{ op X }` of the levels 1, 2, 5, 6. -/

mutual
def sPrimary : Nat → List Tok → Option (E × List Tok)
  | 0, _ => none
  | f+1, ts =>
    match ts with
    | Tok.atom a :: r =>
      match a, r with
      | Atom.ref n, Tok.lp :: Tok.rp :: r' => some (E.call n Args.nil, r')
      | Atom.ref n, Tok.lp :: r' =>
        match sArgs f r' with
        | some (as, r'') => some (E.call n as, r'')
        | none => none
      | _, _ => some (E.atom a, r)
    | Tok.lp :: r =>
      match sExpr f r with
      | some (e, Tok.rp :: r') => some (e, r')
      | _ => none
    | _ => none
def sLevel : Nat → Nat → List Tok → Option (E × List Tok)
  | 0, _, _ => none
  | f+1, m, ts =>
    match m with
    | 1 =>   -- logical_expression : logical_term { or logical_term }
      match sLevel f 2 ts with
      | some (l, r) => sLoop f 1 l r
      | none => none
    | 2 =>   -- logical_term : logical_factor { and logical_factor }
      match sLevel f 3 ts with
      | some (l, r) => sLoop f 2 l r
      | none => none
    | 3 =>   -- logical_factor : [ not ] relation
      match ts with
      | Tok.op Sym.not :: r =>
        match sLevel f 4 r with
        | some (e, r') => some (E.pre POp.not e, r')
        | none => none
      | _ => sLevel f 4 ts
    | 4 =>   -- relation : arithmetic_expression [ relational_operator arithmetic_expression ]
      match sLevel f 5 ts with
      | some (a, Tok.op s :: r) =>
        match s.bin? with
        | some o =>
          if o.mlv.1 = 4 then
            match sLevel f 5 r with
            | some (b, r') => some (E.bin o a b, r')
            | none => none
          else some (a, Tok.op s :: r)
        | none => some (a, Tok.op s :: r)
      | some (a, r) => some (a, r)
      | none => none
    | 5 =>   -- arithmetic_expression : [ add_operator ] term { add_operator term }   (unary `+`, `-` only)
      match ts with
      | Tok.op Sym.plus :: r =>
        match sLevel f 6 r with
        | some (t, r') => sLoop f 5 (E.pre POp.pos t) r'
        | none => none
      | Tok.op Sym.minus :: r =>
        match sLevel f 6 r with
        | some (t, r') => sLoop f 5 (E.pre POp.neg t) r'
        | none => none
      | _ =>
        match sLevel f 6 ts with
        | some (l, r) => sLoop f 5 l r
        | none => none
    | 6 =>   -- term : factor { mul_operator factor }
      match sLevel f 7 ts with
      | some (l, r) => sLoop f 6 l r
      | none => none
    | 7 =>   -- factor : primary [ ("^" | ".^") primary ]
      match sPrimary f ts with
      | some (a, Tok.op s :: r) =>
        match s.pow? with
        | some w =>
          match sPrimary f r with
          | some (b, r') => some (E.pow w a b, r')
          | none => none
        | none => some (a, Tok.op s :: r)
      | some (a, r) => some (a, r)
      | none => none
    | _ => none
/-- `{ op X }` of level `m` (`X` is the nonterminal of level `m+1`), `l` the operand read so far -/
def sLoop : Nat → Nat → E → List Tok → Option (E × List Tok)
  | 0, _, _, _ => none
  | f+1, m, l, ts =>
    match ts with
    | Tok.op s :: r =>
      match s.bin? with
      | some o =>
        if o.mlv.1 = m then
          match sLevel f (m+1) r with
          | some (b, r') => sLoop f m (E.bin o l b) r'
          | none => none
        else some (l, ts)
      | none => some (l, ts)
    | _ => some (l, ts)
/-- expression : simple_expression | if … then … { elseif … then … } else … -/
def sExpr : Nat → List Tok → Option (E × List Tok)
  | 0, _ => none
  | f+1, ts =>
    match ts with
    | Tok.kif :: r =>
      match sExpr f r with
      | some (c, Tok.kthen :: r1) =>
        match sExpr f r1 with
        | some (t, r2) =>
          match sEls f r2 with
          | some (el, r3) => some (E.ite c t el, r3)
          | none => none
        | none => none
      | _ => none
    | _ => sLevel f 1 ts
def sEls : Nat → List Tok → Option (Els × List Tok)
  | 0, _ => none
  | f+1, ts =>
    match ts with
    | Tok.kelse :: r =>
      match sExpr f r with
      | some (e, r') => some (Els.els e, r')
      | none => none
    | Tok.kelseif :: r =>
      match sExpr f r with
      | some (c, Tok.kthen :: r1) =>
        match sExpr f r1 with
        | some (t, r2) =>
          match sEls f r2 with
          | some (el, r3) => some (Els.elif c t el, r3)
          | none => none
        | none => none
      | _ => none
    | _ => none
def sArgs : Nat → List Tok → Option (Args × List Tok)
  | 0, _ => none
  | f+1, ts =>
    match sExpr f ts with
    | some (e, Tok.comma :: r) =>
      match sArgs f r with
      | some (as, r') => some (Args.cons e as, r')
      | none => none
    | some (e, Tok.rp :: r) => some (Args.cons e Args.nil, r)
    | _ => none
end

/-- the specification's reading of a whole right-hand side -/
def specParse (fuel : Nat) (ts : List Tok) : Option E :=
  match sExpr fuel ts with
  | some (e, []) => some e
  | _ => none

end PymocaVerif.ExprGrammar
