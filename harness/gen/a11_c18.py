"""Generator of Modelica programs for C18 (vector expansion).

A program is a JSON-serialisable dict
    {"text": <Modelica source>, "decls": [...], "eqs": [...], "stream": "main"|"inner", "features": [...]}
`decls` is the *expected* flattened variable list, derived from the declarations alone:
    {"name": "a.c", "parts": ["a","c"], "levels": [[2],[3]],   # [] = scalar level
     "kind": "alg"|"param"|"const"|"input", "type": "Real"|"Integer"|"Boolean", "output": bool,
     "attrs": {attr: spec}}
attribute specs (what each scalar element must carry):
    {"form":"scalar","v":x} | {"form":"full","v":nested list of the full shape}
    {"form":"inner","v":nested,"skip":k}   element idx carries v[idx[k:]]   (k>0: DESIGN §6 row 19 class)
    {"form":"pscalar","k":c,"p":"q"}  c*q   | {"form":"pvec","k":[..],"p":"q"}  k[idx]*q
`eqs`: {"text": "...;", "ast": <core-fragment AST or None>}.
Core AST (values are matrices, column-major, scalar broadcasting):
    ["var", name] ["el", name, idx] ["lit", [ints]] ["num", k] ["ones", r, c] ["fill", k, r, c]
    ["add", a, b] ["sub", a, b] ["emul", a, b] ["smul", k, a] ["neg", a]
and an equation is ["eq", lhs, rhs] (residual lhs - rhs).
"""
import itertools

NUM_ATTRS = ["start", "min", "max", "nominal"]
def csize(rng):
    """size of a component array / small array dimension: 1 is a legitimate size (`Pump one[1]`)"""
    return rng.choice([1, 2, 2, 3])


NAME_POOL = ["d", "e", "r", "dd", "re", "rho", "drum", "red", "ed", "dred", "rr", "de", "er", "eder", "rd"]


def iter_dims(levels):
    return [d for lv in levels for d in lv]


def ndindex(dims):
    return list(itertools.product(*[range(d) for d in dims]))


def ref_text(parts, levels, idx=None):
    """Modelica reference to the whole variable (idx None) or to one element."""
    out, k = [], 0
    for p, lv in zip(parts, levels):
        if idx is not None and lv:
            out.append(p + "[" + ",".join(str(i + 1) for i in idx[k:k + len(lv)]) + "]")
            k += len(lv)
        else:
            out.append(p)
    return ".".join(out)


def lit(v):
    """Modelica literal for a nested list / number / bool."""
    if isinstance(v, list):
        return "{" + ",".join(lit(x) for x in v) + "}"
    if isinstance(v, bool):
        return "true" if v else "false"
    return repr(v) if not isinstance(v, float) or v != int(v) else repr(v)


def nested(rng, dims, lo=-9, hi=9, typ="Real"):
    if not dims:
        if typ == "Boolean":
            return rng.random() < 0.5
        return rng.randint(lo, hi)
    return [nested(rng, dims[1:], lo, hi, typ) for _ in range(dims[0])]


class Field:
    def __init__(self, name, dims, kind="alg", typ="Real", output=False):
        self.name, self.dims, self.kind, self.typ, self.output = name, dims, kind, typ, output
        self.cls_attrs = {}    # attr -> ("each"|"plain", value)   declared inside the class
        self.value = None      # for param/const: ("lit", nested) | ("fill", k) | ("scalar", k)


class Cls:
    def __init__(self, name):
        self.name = name
        self.fields = []       # Field
        self.comps = []        # (name, Cls, dims, mods)  mods: {field: {attr: ("each"|"plain", value)}}


def attr_text(f, extra=None):
    """`(each min=1, start={..})` for a field declaration."""
    items = []
    for a, (mode, v) in f.cls_attrs.items():
        items.append(("each " if mode == "each" else "") + a + "=" + (pexpr_text(v) if isinstance(v, dict) else lit(v)))
    return "(" + ", ".join(items) + ")" if items else ""


def field_decl(f):
    pre = {"alg": "", "param": "parameter ", "const": "constant ", "input": "input "}[f.kind]
    if f.output:
        pre = "output " + pre
    dims = "[" + ",".join(str(d) for d in f.dims) + "]" if f.dims else ""
    s = " %s%s %s%s%s" % (pre, f.typ, f.name, dims, attr_text(f))
    if f.value is not None:
        k, v = f.value
        if k == "fill":
            s += " = fill(%s, %s)" % (lit(v), ", ".join(str(d) for d in f.dims))
        elif k == "ones":
            s += " = ones(%s)" % ", ".join(str(d) for d in f.dims)
        else:
            s += " = " + lit(v)
    return s + ";"


def comp_decl(name, cls, dims, mods):
    d = "[" + ",".join(str(x) for x in dims) + "]" if dims else ""
    items = []
    for fname, m in mods.items():
        if "__value__" in m:
            items.append("%s=%s" % (fname, lit(m["__value__"][1])))
        inner = ["%s%s=%s" % ("each " if mode == "each" else "", a, pexpr_text(v) if isinstance(v, dict) else lit(v))
                 for a, (mode, v) in m.items() if a != "__value__"]
        if inner:
            items.append("%s(%s)" % (fname, ", ".join(inner)))
    return " %s %s%s%s;" % (cls.name, name, d, "(" + ", ".join(items) + ")" if items else "")


def cls_text(c, eqs=(), ieqs=()):
    lines = ["model " + c.name]
    for kind, x in c.order:
        lines.append(field_decl(x) if kind == "f" else comp_decl(*x))
    if eqs:
        lines.append("equation")
        lines += [" " + e for e in eqs]
    if ieqs:
        lines.append("initial equation")
        lines += [" " + e for e in ieqs]
    lines.append("end %s;" % c.name)
    return "\n".join(lines)


def default_attrs():
    return {}


def spec_from_decl(mode, v, lead, own_dims):
    """Attribute declared on a variable with own dims `own_dims`, `lead` enclosing array dims
    outside the point of declaration."""
    if isinstance(v, str):          # parameter expression text handled by caller
        raise ValueError
    if mode == "each" or not isinstance(v, list):
        return {"form": "scalar", "v": v}
    if lead == 0:
        return {"form": "full", "v": v}
    return {"form": "inner", "v": v, "skip": lead}


def flatten_decls(top):
    """Expected flattened variables in declaration order."""
    out = []

    def walk(c, parts, levels, pending):
        # pending: {field name: {attr: (mode, value, lead_at_declaration)}}
        for kind, x in c.order:
            if kind == "f":
                f = x
                lv = levels + [list(f.dims)]
                lead_here = len(iter_dims(levels))
                attrs = {}
                for a, (mode, v) in f.cls_attrs.items():
                    attrs[a] = mk_spec(mode, v, lead_here, f)
                if f.value is not None:
                    k, v = f.value
                    if k in ("fill", "scalar"):
                        attrs["value"] = {"form": "scalar", "v": v} if (k == "scalar" or lead_here == 0) else \
                            {"form": "innerfill", "v": v, "skip": lead_here, "dims": list(f.dims)}
                    elif k == "ones":
                        attrs["value"] = {"form": "scalar", "v": 1} if lead_here == 0 else \
                            {"form": "innerfill", "v": 1, "skip": lead_here, "dims": list(f.dims)}
                    else:
                        attrs["value"] = {"form": "full", "v": v} if lead_here == 0 else {"form": "inner", "v": v, "skip": lead_here}
                for a, (mode, v, lead) in pending.get(f.name, {}).items():
                    if a == "__value__":
                        attrs["value"] = {"form": "full", "v": v} if lead == 0 else {"form": "inner", "v": v, "skip": lead}
                    else:
                        attrs[a] = mk_spec(mode, v, lead, f)
                out.append({"name": ".".join(parts + [f.name]), "parts": parts + [f.name], "levels": lv,
                            "kind": f.kind, "type": f.typ, "output": f.output, "attrs": attrs})
            else:
                name, sub, dims, mods = x
                lead_here = len(iter_dims(levels))
                pend = {fn: {a: (mode, v, lead_here) for a, (mode, v) in m.items()} for fn, m in mods.items()}
                walk(sub, parts + [name], levels + [list(dims)], pend)

    def mk_spec(mode, v, lead, f):
        if isinstance(v, dict) and "dm" in v:     # builtin array constructor -> ca.DM
            return {"form": "dm", "v": v["v"], "skip": lead, "text": v["dm"]}
        if isinstance(v, dict) and "ref" in v:    # (element of) an array parameter
            return {"form": "pref", "p": v["ref"], "el": v.get("el"), "op": v.get("op", "ref"), "k": v.get("k", 1),
                    "p2": v.get("ref2"), "dims": v.get("dims")}
        if isinstance(v, dict):     # parameter expression
            if mode == "each" or not isinstance(v["k"], list):
                return {"form": "pscalar", "k": v["k"], "p": v["p"]}
            return {"form": "pvec", "k": v["k"], "p": v["p"]}
        return spec_from_decl(mode, v, lead, f.dims)

    walk(top, [], [], {})
    return out


def pexpr_text(v):
    if "dm" in v:
        return v["dm"]
    if "ref" in v:
        if v.get("el") is not None:
            return "%s[%d]" % (v["ref"], v["el"] + 1)
        op = v.get("op", "ref")
        if op == "smul":
            return "%d*%s" % (v["k"], v["ref"])
        if op == "add":
            return "%s + %s" % (v["ref"], v["ref2"])
        if op == "emul":
            return "%s .* %s" % (v["ref"], v["ref2"])
        return v["ref"]
    if isinstance(v["k"], list):
        return "%s*%s" % (v["p"], lit(v["k"]))
    return "%s*%s" % (lit(v["k"]), v["p"])


def dm_ctor(rng, dims):
    """An attribute written with a builtin array constructor (pymoca evaluates it to a numeric ca.DM) with distinct
    entries, for own dims [n], [n,1] (vector constructors) or [n,n] (matrix constructors); None otherwise."""
    if len(dims) == 1 or (len(dims) == 2 and dims[1] == 1 and dims[0] > 1):
        n = dims[0]
        r = rng.random()
        if r < 0.35:
            a, k = rng.randint(-5, 5), rng.randint(1, 4)
            return {"dm": "linspace(%d, %d, %d)" % (a, a + (n - 1) * k, n), "v": [a + i * k for i in range(n)]}
        if r < 0.6 and n >= 2:
            v = [rng.randint(-9, 9) for _ in range(n)]
            cut = rng.randint(1, n - 1)
            return {"dm": "cat(1, %s, %s)" % (lit(v[:cut]), lit(v[cut:])), "v": v}
        if r < 0.85:
            k = rng.choice([-3, -2, 2, 3])
            v = [rng.randint(-4, 4) for _ in range(n)]
            return {"dm": "%d * %s" % (k, lit(v)), "v": [k * x for x in v]}
        a, k = rng.randint(-5, 5), rng.randint(1, 4)
        return {"dm": "-linspace(%d, %d, %d)" % (a, a + (n - 1) * k, n), "v": [-(a + i * k) for i in range(n)]}
    if len(dims) == 2 and dims[0] == dims[1] and dims[0] > 1:
        n = dims[0]
        r = rng.random()
        if r < 0.3:
            return {"dm": "identity(%d)" % n, "v": [[1 if i == j else 0 for j in range(n)] for i in range(n)]}
        if r < 0.7:
            d = [rng.randint(1, 9) for _ in range(n)]
            return {"dm": "diagonal(%s)" % lit(d), "v": [[d[i] if i == j else 0 for j in range(n)] for i in range(n)]}
        k = rng.choice([-3, -2, 2, 3])
        return {"dm": "%d * identity(%d)" % (k, n), "v": [[k if i == j else 0 for j in range(n)] for i in range(n)]}
    return None


def array_param_expr(rng, same):
    """non-scalar expression of array parameters of one shape: p | k*p | p + p2 | p .* p2"""
    pp = rng.choice(same)
    r = rng.random()
    v = {"ref": pp.name, "el": None, "dims": list(pp.dims)}
    if r < 0.35:
        v.update(op="smul", k=rng.choice([-3, -2, 2, 3]))
    elif r < 0.55:
        v.update(op="add", ref2=rng.choice(same).name)
    elif r < 0.7:
        v.update(op="emul", ref2=rng.choice(same).name)
    return v


# ------------------------------------------------------------------------------------------
def gen_program(rng, stream="main"):
    feats = set()
    nid = itertools.count(1)

    def nm(letter):
        """identifier: often one that starts with d, e, r (the characters of `der(`), always unique by its number"""
        if rng.random() < 0.5:
            return "%s%d" % (rng.choice(NAME_POOL), next(nid))
        return "%s%d" % (letter, next(nid))
    # ---- leaf classes ---------------------------------------------------------------------
    classes = []
    nleaf = rng.choice([0, 1, 1, 2])
    for k in range(nleaf):
        c = Cls("L%d" % k)
        c.order = []
        for _ in range(rng.randint(1, 3)):
            r = rng.random()
            dims = [] if r < 0.4 else [rng.choice([1, 2, 3, 3])]
            kind = "param" if rng.random() < 0.25 else "alg"
            f = Field(nm("f"), dims, kind)
            if rng.random() < 0.5:
                a = rng.choice(NUM_ATTRS)
                f.cls_attrs[a] = ("each" if dims else "plain", rng.randint(-9, 9))
            if dims and rng.random() < 0.3:
                free = [a for a in NUM_ATTRS if a not in f.cls_attrs]
                f.cls_attrs[rng.choice(free)] = ("plain", dm_ctor(rng, dims))
                feats.add("attr-dm-in-class")
            if kind == "param":
                if not dims:
                    f.value = ("scalar", rng.randint(1, 5))
            c.fields.append(f)
            c.order.append(("f", f))
        classes.append(c)
    mids = []
    if classes and rng.random() < 0.45:
        m = Cls("D0")
        m.order = []
        leaf = rng.choice(classes)
        f = Field(nm("r"), [rng.randint(2, 3)] if rng.random() < 0.5 else [], "alg")
        if rng.random() < 0.5:
            f.cls_attrs[rng.choice(NUM_ATTRS)] = ("each" if f.dims else "plain", rng.randint(-9, 9))
        m.fields.append(f)
        maxf = max(len(g.dims) for g in leaf.fields)
        m.budget = 2 - max(maxf, 0)
        bd = [rng.choice([1, 2])] if rng.random() < 0.6 and maxf == 0 else []
        m.inner_dims = max(len(bd) + maxf, len(f.dims))
        items = [("f", f), ("c", ("b", leaf, bd, {}))]
        rng.shuffle(items)
        m.order = items
        m.comps = [x for k, x in items if k == "c"]
        mids.append(m)
    # ---- top-level ------------------------------------------------------------------------
    top = Cls("M")
    top.order = []
    has_q = rng.random() < 0.5
    if has_q:
        q = Field("q", [], "param")
        q.value = ("scalar", rng.randint(2, 4))
        top.order.append(("f", q))
    # top-level arrays, in groups of equal shape so that whole-array equations have operands
    shapes = []
    for _ in range(rng.randint(1, 3)):
        r = rng.random()
        if r < 0.5:
            shapes.append([rng.choice([1, 2, 3, 4, 4])])
        elif r < 0.8:
            shapes.append([rng.randint(2, 3), rng.randint(2, 3)])
        else:       # 2-D with a dimension of size 1: column, row and 1x1 matrices
            n = rng.randint(2, 4)
            shapes.append(rng.choice([[n, 1], [n, 1], [1, n], [1, 1]]))
            feats.add("shape-%s" % ("col" if shapes[-1][1] == 1 and shapes[-1][0] > 1 else "row" if shapes[-1][0] == 1 and shapes[-1][1] > 1 else "1x1"))
    for dims in shapes:
        lead_param = rng.random() < 0.45
        for j in range(rng.randint(2, 3) if lead_param else rng.randint(1, 3)):
            r = rng.random()
            kind = "alg" if r < 0.6 else "param" if r < 0.75 else "input" if r < 0.9 else "const"
            if lead_param and j == 0:
                kind = "param"
            typ = "Real"
            f = Field(nm("x"), list(dims), kind, typ, output=(kind == "alg" and rng.random() < 0.3))
            if kind in ("param", "const"):
                r2 = rng.random()
                f.value = ("lit", nested(rng, dims, 1, 6)) if r2 < 0.6 or kind == "const" or (lead_param and j == 0) \
                    else ("fill", rng.randint(1, 5)) if r2 < 0.8 else None
            for a in rng.sample(NUM_ATTRS, rng.choice([0, 1, 1, 2])):
                r3 = rng.random()
                if r3 < 0.35:
                    f.cls_attrs[a] = ("each", rng.randint(-9, 9))
                elif r3 < 0.75:
                    f.cls_attrs[a] = ("plain", nested(rng, dims))
                    feats.add("attr-full-%dd" % len(dims))
                elif has_q and r3 < 0.88:
                    f.cls_attrs[a] = ("each", {"k": rng.randint(-3, 3), "p": "q"})
                    feats.add("attr-param-scalar")
                elif has_q and len(dims) == 1:
                    f.cls_attrs[a] = ("plain", {"k": nested(rng, dims, -3, 3), "p": "q"})
                    feats.add("attr-param-vector")
            if rng.random() < 0.35:
                free = [a for a in NUM_ATTRS if a not in f.cls_attrs]
                c = dm_ctor(rng, list(dims))
                if c and free:
                    f.cls_attrs[rng.choice(free)] = ("plain", c)
                    feats.add("attr-dm-%s" % ("x".join(str(min(d, 2)) for d in dims)))
            if kind in ("alg", "input") and rng.random() < 0.3:
                # attribute that refers to an array parameter declared earlier (needs _substitute_metadata)
                allp = [x for k2, x in top.order if k2 == "f" and x.kind == "param" and x.typ == "Real"
                        and len(x.dims) in (1, 2) and x.value is not None]
                ps = [x for x in allp if len(x.dims) == 1]
                free = [a for a in NUM_ATTRS if a not in f.cls_attrs]
                same = [x for x in allp if x.dims == list(dims)]
                if same and free and rng.random() < 0.8:
                    # a non-scalar MX attribute: element (i, j) of the expression (`value[ind]`)
                    f.cls_attrs[rng.choice(free)] = ("plain", array_param_expr(rng, same))
                    feats.add("attr-param-array-%dd" % len(dims))
                elif ps and free:
                    pp = rng.choice(ps)
                    if False:
                        pass
                    else:
                        f.cls_attrs[rng.choice(free)] = ("each", {"ref": pp.name, "el": rng.randrange(pp.dims[0])})
                        feats.add("attr-param-element")
            if rng.random() < 0.08 and kind == "alg":
                f.cls_attrs["fixed"] = ("each", True)
            top.order.append(("f", f))
    if rng.random() < 0.5:
        top.order.append(("f", Field(nm("z"), [], "alg", output=rng.random() < 0.3)))
    if rng.random() < 0.25:
        typ = rng.choice(["Integer", "Boolean"])
        dims = [rng.randint(2, 3)] if rng.random() < 0.7 else [2, 2]
        f = Field(nm("n"), dims, "param" if rng.random() < 0.5 else "alg", typ)
        if typ == "Integer":
            if f.kind == "param":
                f.value = ("fill", rng.randint(-9, 9)) if rng.random() < 0.5 else ("lit", nested(rng, dims))
            f.cls_attrs[rng.choice(["min", "max", "start"])] = ("plain", nested(rng, dims))
        else:
            f.cls_attrs["start"] = ("plain", nested(rng, dims, typ="Boolean"))
            if f.kind == "param":
                f.value = ("lit", nested(rng, dims, typ="Boolean"))
        feats.add("typed-" + typ)
        top.order.append(("f", f))
    if rng.random() < 0.1:
        f = Field(nm("t"), [2, rng.randint(1, 2), rng.randint(2, 3)], "param")
        f.value = ("lit", nested(rng, f.dims, 1, 9))
        feats.add("3d")
        top.order.append(("f", f))
    # component instances
    for c in classes + mids:
        for _ in range(rng.choice([1, 1, 2]) if c in classes else 1):
            r = rng.random()
            dims = [] if r < 0.25 else [csize(rng)]
            if c in mids and c.inner_dims >= 2:
                dims = []
            mods = {}
            inst = nm("c")
            if dims == [1]:
                feats.add("component-array-of-size-1")
            if c in classes:
                for f in c.fields:
                    tot = dims + f.dims
                    if len(tot) > 2:
                        continue
                    samep = [x for k2, x in top.order if k2 == "f" and x.kind == "param" and x.typ == "Real"
                             and x.value is not None and x.dims == tot and len(tot) == 2]
                    if samep and f.kind == "alg" and rng.random() < 0.5:
                        mods[f.name] = {rng.choice(NUM_ATTRS): ("plain", array_param_expr(rng, samep))}
                        feats.add("attr-param-array-nested")
                        continue
                    if rng.random() < 0.35 and tot:
                        a = rng.choice(NUM_ATTRS)
                        if f.kind == "param" and f.value is None:
                            mods[f.name] = {"__value__": ("plain", nested(rng, tot, 1, 6))}
                        elif rng.random() < 0.75:
                            mods[f.name] = {a: ("plain", nested(rng, tot))}
                            feats.add("attr-full-nested")
                        else:
                            mods[f.name] = {a: ("each", rng.randint(-9, 9))}
                for f in c.fields:
                    if f.kind == "param" and f.value is None and f.name not in mods:
                        tot = dims + f.dims
                        mods[f.name] = {"__value__": ("plain", nested(rng, tot, 1, 6))} if tot else {}
            top.order.append(("c", (inst, c, dims, mods)))
    # ---- the "inner" stream: an attribute whose literal has only the inner shape ---------------
    if stream == "inner":
        kindi = rng.choice(["class-literal", "class-fill", "mid-mod"])
        c = Cls("K0")
        c.order = []
        if kindi == "class-literal":
            f = Field(nm("g"), [rng.randint(2, 3)], "alg")
            f.cls_attrs[rng.choice(NUM_ATTRS)] = ("plain", nested(rng, f.dims))
        elif kindi == "class-fill":
            f = Field(nm("g"), [rng.randint(2, 3)], "param")
            f.value = ("lit", nested(rng, f.dims, 1, 6)) if rng.random() < 0.6 else ("fill", rng.randint(1, 5))
        else:
            f = Field(nm("g"), [], "alg")
        c.fields.append(f)
        c.order.append(("f", f))
        classes.append(c)
        if kindi == "mid-mod":
            m = Cls("D1")
            n = rng.randint(2, 3)
            m.order = [("c", ("b", c, [n], {f.name: {rng.choice(NUM_ATTRS): ("plain", nested(rng, [n]))}}))]
            mids.append(m)
            top.order.append(("c", (nm("k"), m, [csize(rng)], {})))
        else:
            top.order.append(("c", (nm("k"), c, [csize(rng)], {})))
        feats.add("inner-" + kindi)

    decls = flatten_decls(top)
    eqs, states = gen_equations(rng, decls, feats)
    ieqs = []
    if rng.random() < 0.4:
        # initial equations: core fragment only, no new derivatives (der() may only name existing states)
        cand, _ = gen_equations(rng, decls, set(), initial=True)
        ieqs = [e for e in cand if e["ast"] is not None and "der(" not in e["text"]][:3]
        if ieqs:
            feats.add("initial-equations")
    text = "\n".join([cls_text(c) for c in classes + mids]
                     + [cls_text(top, [e["text"] for e in eqs], [e["text"] for e in ieqs])]) + "\n"
    return {"text": text, "decls": decls, "eqs": eqs, "ieqs": ieqs, "stream": stream, "features": sorted(feats),
            "states": sorted(states)}


# ------------------------------------------------------------------------------------------
def gen_equations(rng, decls, feats, initial=False):
    real = [d for d in decls if d["type"] == "Real" and len(iter_dims(d["levels"])) <= 2]
    by_sig = {}
    for d in real:
        by_sig.setdefault(tuple(iter_dims(d["levels"])), []).append(d)
    lhs_ok = [d for d in real if d["kind"] == "alg"]
    eqs, states = [], set()

    def whole(d):
        return ref_text(d["parts"], d["levels"])

    def operand(sig, depth, toplevel_only):
        """-> (text, ast)"""
        cands = [d for d in by_sig.get(sig, []) if not (toplevel_only and len(d["parts"]) > 1)]
        r = rng.random()
        if depth <= 0 or r < 0.45:
            r2 = rng.random()
            if cands and r2 < 0.7:
                d = rng.choice(cands)
                return whole(d), ["var", d["name"]]
            if len(sig) == 1 and r2 < 0.9:
                v = [rng.randint(-4, 4) for _ in range(sig[0])]
                return lit(v), ["lit", v]
            if len(sig) == 0:
                k = rng.randint(-4, 4)
                return "(%d)" % k, ["num", k]
            if rng.random() < 0.5:
                rc = list(sig) + [1] * (2 - len(sig))
                return "ones(%s)" % ", ".join(map(str, sig)), ["ones", rc[0], rc[1]]
            k = rng.randint(2, 4)
            rc = list(sig) + [1] * (2 - len(sig))
            return "fill(%d, %s)" % (k, ", ".join(map(str, sig))), ["fill", k, rc[0], rc[1]]
        if r < 0.62:
            (ta, aa), (tb, ab) = operand(sig, depth - 1, toplevel_only), operand(sig, depth - 1, toplevel_only)
            return "(%s + %s)" % (ta, tb), ["add", aa, ab]
        if r < 0.76:
            (ta, aa), (tb, ab) = operand(sig, depth - 1, toplevel_only), operand(sig, depth - 1, toplevel_only)
            return "(%s - %s)" % (ta, tb), ["sub", aa, ab]
        if r < 0.88:
            (ta, aa), (tb, ab) = operand(sig, depth - 1, toplevel_only), operand(sig, depth - 1, toplevel_only)
            return "(%s .* %s)" % (ta, tb), ["emul", aa, ab]
        if r < 0.95:
            k = rng.randint(2, 3)
            ta, aa = operand(sig, depth - 1, toplevel_only)
            return "(%d * %s)" % (k, ta), ["smul", k, aa]
        ta, aa = operand(sig, depth - 1, toplevel_only)
        if aa[0] == "lit":          # the generator cannot negate an array literal
            return ta, aa
        return "(-%s)" % ta, ["neg", aa]

    def scalar(depth):
        r = rng.random()
        if depth <= 0 or r < 0.5:
            d = rng.choice(real)
            dims = iter_dims(d["levels"])
            if rng.random() < 0.85 or not dims:
                idx = [rng.randrange(n) for n in dims]
                if dims:
                    return ref_text(d["parts"], d["levels"], idx), ["el", d["name"], idx]
                return whole(d), ["var", d["name"]]
            k = rng.randint(-4, 4)
            return "(%d)" % k, ["num", k]
        (ta, aa), (tb, ab) = scalar(depth - 1), scalar(depth - 1)
        if r < 0.7:
            return "(%s + %s)" % (ta, tb), ["add", aa, ab]
        if r < 0.85:
            return "(%s * %s)" % (ta, tb), ["emul", aa, ab]
        return "(%s - %s)" % (ta, tb), ["sub", aa, ab]

    n = rng.randint(2, 6)
    for _ in range(n):
        if not lhs_ok:
            break
        d = rng.choice(lhs_ok)
        dims = iter_dims(d["levels"])
        sig = tuple(dims)
        r = rng.random()
        if r < 0.5 or not dims:
            # whole-variable equation (possibly of a derivative)
            is_der = rng.random() < 0.3
            nested_lhs = len(d["parts"]) > 1
            tr, ar = operand(sig, 2, False)
            if is_der:
                states.add(d["name"])
                feats.add("der-whole")
                eqs.append({"text": "der(%s) = %s;" % (whole(d), tr), "ast": ["eq", ["var", "der(%s)" % d["name"]], ar]})
            else:
                eqs.append({"text": "%s = %s;" % (whole(d), tr), "ast": ["eq", ["var", d["name"]], ar]})
            feats.add("eq-whole-%dd%s" % (len(dims), "-nested" if nested_lhs else ""))
        else:
            idx = [rng.randrange(k) for k in dims]
            tr, ar = scalar(2)
            if rng.random() < 0.2:
                states.add(d["name"])
                feats.add("der-element")
                eqs.append({"text": "der(%s) = %s;" % (ref_text(d["parts"], d["levels"], idx), tr),
                            "ast": ["eq", ["el", "der(%s)" % d["name"], idx], ar]})
            else:
                eqs.append({"text": "%s = %s;" % (ref_text(d["parts"], d["levels"], idx), tr),
                            "ast": ["eq", ["el", d["name"], idx], ar]})
            feats.add("eq-element")
    # ---- equations outside the core fragment (direct oracle only) ----------------------------
    top1 = [d for d in real if len(d["parts"]) == 1 and len(iter_dims(d["levels"])) == 1]
    top2 = [d for d in real if len(d["parts"]) == 1 and len(iter_dims(d["levels"])) == 2]
    nest2 = [d for d in real if len(d["parts"]) == 2 and len(d["levels"][0]) == 1 and len(d["levels"][1]) == 1]
    for _ in range(0 if initial else rng.choice([0, 1, 1, 2])):
        r = rng.random()
        if r < 0.3 and top1:
            x = rng.choice([d for d in top1])
            nn = iter_dims(x["levels"])[0]
            same = [d for d in top1 if iter_dims(d["levels"]) == [nn]]
            y, p = rng.choice(same), rng.choice(same)
            if x["kind"] != "alg":
                continue
            eqs.append({"text": "for i in 1:%d loop %s[i] = %s[i] * 2 + %s[i]; end for;" % (nn, x["name"], y["name"], p["name"]), "ast": None})
            feats.add("for-1d")
        elif r < 0.5 and top2:
            w = rng.choice(top2)
            rr, cc = iter_dims(w["levels"])
            if w["kind"] != "alg":
                continue
            src = [d for d in top1 if iter_dims(d["levels"])[0] >= rr]
            j = rng.randint(1, cc)
            if src and rng.random() < 0.5:
                eqs.append({"text": "for i in 1:%d loop %s[i,%d] = %s[i] - 1; end for;" % (rr, w["name"], j, rng.choice(src)["name"]), "ast": None})
            else:
                eqs.append({"text": "for i in 1:%d loop %s[i,%d] = 3 * %s[i,%d]; end for;" % (rr, w["name"], j, w["name"], rng.randint(1, cc)), "ast": None})
            feats.add("for-2d")
        elif r < 0.65 and top2 and top1:
            w = rng.choice(top2)
            rr, cc = iter_dims(w["levels"])
            col = [d for d in top1 if iter_dims(d["levels"]) == [rr] and d["kind"] == "alg"]
            row = [d for d in top1 if iter_dims(d["levels"]) == [cc]]
            if col and rng.random() < 0.5:
                eqs.append({"text": "%s = %s[:,%d];" % (rng.choice(col)["name"], w["name"], rng.randint(1, cc)), "ast": None})
                feats.add("slice-col")
            elif row and w["kind"] == "alg":
                eqs.append({"text": "%s[%d,:] = %s;" % (w["name"], rng.randint(1, rr), rng.choice(row)["name"]), "ast": None})
                feats.add("slice-row")
        elif r < 0.8 and nest2:
            a = rng.choice(nest2)
            if a["kind"] != "alg":
                continue
            na, nc = iter_dims(a["levels"])
            i = rng.randint(1, na)
            src = [d for d in top1 if iter_dims(d["levels"]) == [nc]]
            if src and rng.random() < 0.5:
                eqs.append({"text": "%s[%d].%s = %s;" % (a["parts"][0], i, a["parts"][1], rng.choice(src)["name"]), "ast": None})
            else:
                eqs.append({"text": "%s[%d].%s = %s;" % (a["parts"][0], i, a["parts"][1], lit([rng.randint(-4, 4) for _ in range(nc)])), "ast": None})
            feats.add("nested-row")
        elif r < 0.9 and top1:
            x = rng.choice(top1)
            zs = [d for d in real if not iter_dims(d["levels"]) and d["kind"] == "alg" and len(d["parts"]) == 1]
            if zs:
                eqs.append({"text": "%s = sum(%s);" % (rng.choice(zs)["name"], x["name"]), "ast": None})
                feats.add("sum")
        else:
            cands = [d for d in real if d["kind"] == "alg" and len(d["parts"]) == 1 and len(iter_dims(d["levels"])) <= 1]
            if cands:
                y = rng.choice(cands)
                same = [d for d in real if len(d["parts"]) == 1 and iter_dims(d["levels"]) == iter_dims(y["levels"])]
                x = rng.choice(same)
                eqs.append({"text": "%s = delay(%s, %d.0);" % (y["name"], x["name"], rng.randint(1, 3)), "ast": None})
                feats.add("delay-%dd" % len(iter_dims(y["levels"])))
    # delays, preferably of matrices (both dimensions > 1): the expanded delay states pair with the entries of the
    # delayed expression
    if not initial and rng.random() < 0.35:
        cands = [d for d in real if d["kind"] == "alg" and len(d["parts"]) == 1 and len(iter_dims(d["levels"])) <= 2]
        c2 = [d for d in cands if len(iter_dims(d["levels"])) == 2]
        if c2 and rng.random() < 0.75:
            cands = c2
        if cands:
            y = rng.choice(cands)
            same = [d for d in real if len(d["parts"]) == 1 and iter_dims(d["levels"]) == iter_dims(y["levels"])]
            x, x2 = rng.choice(same), rng.choice(same)
            arg = x["name"] if rng.random() < 0.6 else "(%s + %s)" % (x["name"], x2["name"]) if rng.random() < 0.5 \
                else "(%s .* %s)" % (x["name"], x2["name"])
            eqs.append({"text": "%s = delay(%s, %d.0);" % (y["name"], arg, rng.randint(1, 3)), "ast": None})
            feats.add("delay-%dd" % len(iter_dims(y["levels"])))
    return eqs, states
