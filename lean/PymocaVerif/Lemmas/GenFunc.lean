import PymocaVerif.Lemmas.GenClosed
/-!
# Lemmas for C11: `get_function` — sequential substitution computes what imperative execution does

A statement translates to a list of raw assignments `(x, term over the raw symbols)`.  `runRaw` evaluates
such a list directly on a store; `applyAssigns_inv` shows that applying the list by sequential
substitution (`applyAssigns`, what `get_function` does) keeps the symbolic values in step with `runRaw`;
the per-statement lemmas show that `runRaw` of the generated list refines the execution of the statement.
-/
namespace PymocaVerif.Gen
open PymocaVerif.ExprSem

theorem get_cons (x y : String) (s : CTerm K) (σ : SymVals K) :
    SymVals.get ((x, s) :: σ) y = if x = y then some s else SymVals.get σ y := by
  simp [SymVals.get]

theorem store_get_cons (x y : String) (v : List K) (σ : Store K) :
    Store.get ((x, v) :: σ) y = if x = y then some v else Store.get σ y := by
  simp [Store.get]

/-- Evaluate raw assignments one after the other directly on a store. -/
def runRaw (P : Prims K) : List (String × CTerm K) → Store K → Option (Store K)
  | [], σ => some σ
  | (x, t) :: rest, σ => do
    let v ← evalC P (storeEnv σ (fun _ => none)) t
    runRaw P rest ((x, v) :: σ)

theorem runRaw_append (P : Prims K) : ∀ (a b : List (String × CTerm K)) (σ : Store K),
    runRaw P (a ++ b) σ = (runRaw P a σ >>= runRaw P b)
  | [], b, σ => by simp [runRaw]
  | (x, t) :: rest, b, σ => by
    simp only [List.cons_append, runRaw]
    cases evalC P (storeEnv σ fun _ => none) t with
    | none => simp
    | some v => simpa using runRaw_append P rest b ((x, v) :: σ)

/-- The symbolic values describe the store: every variable's term evaluates (over the inputs) to what
    the store holds, unassigned variables are unassigned on both sides, and all terms are closed. -/
def Inv (P : Prims K) (ρin : Env K) (vals : SymVals K) (σ : Store K) : Prop :=
  (∀ x, (over P ρin vals).val x = Store.get σ x) ∧ ValsClosed vals

theorem over_eq_storeEnv (P : Prims K) (ρin : Env K) (vals : SymVals K) (σ : Store K)
    (hsh : ρin.shape = fun _ => none) (hix : ρin.idx = fun _ => none)
    (h : ∀ x, (over P ρin vals).val x = Store.get σ x) :
    over P ρin vals = storeEnv σ (fun _ => none) := by
  have hv : (over P ρin vals).val = fun x => Store.get σ x := funext h
  simp only [over] at hv ⊢
  simp only [storeEnv]
  rw [hv, hsh, hix]

/-- Sequential substitution follows sequential evaluation. -/
theorem applyAssigns_inv (P : Prims K) (ρin : Env K) (hsh : ρin.shape = fun _ => none)
    (hix : ρin.idx = fun _ => none) : ∀ (as : List (String × CTerm K)) (vals : SymVals K) (σ σ' : Store K),
    (∀ p ∈ as, idxClosed [] p.2 = true) → runRaw P as σ = some σ' → Inv P ρin vals σ →
    Inv P ρin (applyAssigns vals as) σ'
  | [], vals, σ, σ', _, hr, hinv => by simp [runRaw] at hr; subst hr; exact hinv
  | (x, t) :: rest, vals, σ, σ', hcl, hr, hinv => by
    simp only [runRaw] at hr
    cases hv : evalC P (storeEnv σ fun _ => none) t with
    | none => simp [hv] at hr
    | some v =>
      simp only [hv, Option.bind_eq_bind, Option.bind_some] at hr
      have henv := over_eq_storeEnv P ρin vals σ hsh hix hinv.1
      have ht : idxClosed [] t = true := hcl (x, t) (by simp)
      have hsub : evalC P ρin (subst vals t) = some v := by
        rw [evalC_subst P vals hinv.2 t ρin (fun y s _ => by simp [hsh]), henv, hv]
      have hinv1 : Inv P ρin ((x, subst vals t) :: vals) ((x, v) :: σ) := by
        refine ⟨fun y => ?_, fun y s hy => ?_⟩
        · simp only [over, get_cons, store_get_cons]
          by_cases hxy : x = y
          · simp [hxy, ← hsub]
          · simp only [hxy, if_false]
            have := hinv.1 y
            simpa [over] using this
        · simp only [get_cons] at hy
          by_cases hxy : x = y
          · simp [hxy] at hy; subst hy
            exact subst_closed vals hinv.2 t [] ht
          · simp [hxy] at hy; exact hinv.2 y s hy
      exact applyAssigns_inv P ρin hsh hix rest _ _ σ' (fun p hp => hcl p (by simp [hp])) hr hinv1

/-- What a statement's raw assignments have to satisfy. -/
structure StmtSpec (P : Prims K) (F : FSem K) (s : Stmt K) (as : List (String × CTerm K)) : Prop where
  closed : ∀ p ∈ as, idxClosed [] p.2 = true
  sem : ∀ σ : Store K, Refines (runRaw P as σ) (execStmt P F σ s)

/-! ## Assignment -/

theorem genStmt_assign (P : Prims K) (o : Opts) (T : FTab K) (F : FSem K) (hT : TabOK P T F)
    (hS : NoShadow T) (x : String) (e : MExpr K) (he : mClosed [] e = true) (as : List (String × CTerm K))
    (h : genStmt P o T (.assign x e) = .ok as) : StmtSpec P F (.assign x e) as := by
  simp only [genStmt] at h
  obtain ⟨t, ht, hc⟩ := bind_ok.mp h
  cases hc
  refine ⟨fun p hp => ?_, fun σ => ?_⟩
  · simp only [List.mem_singleton] at hp; subst hp
    exact gen_closed P o T [] e t he ht
  · simp only [execStmt, execAssigns, runRaw]
    intro v hv
    cases hv1 : evalM P F (storeEnv σ fun _ => none) e with
    | none => simp [hv1] at hv
    | some v1 =>
      simp [hv1] at hv
      simp [gen_refines P o T F hT hS e t ht (storeEnv σ fun _ => none) v1 hv1, hv]

/-! ## For-statement -/

/-- `rhs` is the entry-wise translation of `body`. -/
inductive RhsOK (P : Prims K) (o : Opts) (T : FTab K) : List (String × MExpr K) → List (String × CTerm K) → Prop
  | nil : RhsOK P o T [] []
  | cons {b : String × MExpr K} {r : String × CTerm K} {body : List (String × MExpr K)}
      {rhs : List (String × CTerm K)} (h : r.1 = b.1 ∧ gen P o T b.2 = .ok r.2) (rest : RhsOK P o T body rhs) :
      RhsOK P o T (b :: body) (r :: rhs)

theorem genRhs_spec (P : Prims K) (o : Opts) (T : FTab K) : ∀ (body : List (String × MExpr K))
    (rhs : List (String × CTerm K)), genRhs P o T body = .ok rhs →
    RhsOK P o T body rhs
  | [], rhs, h => by simp [genRhs] at h; subst h; exact .nil
  | (x, e) :: rest, rhs, h => by
    simp only [genRhs] at h
    obtain ⟨t, ht, h2⟩ := bind_ok.mp h
    obtain ⟨ts, hts, hc⟩ := bind_ok.mp h2
    cases hc
    exact .cons ⟨rfl, ht⟩ (genRhs_spec P o T rest ts hts)

theorem bind_storeEnv (σ : Store K) (i : String) (v : Int) :
    (storeEnv σ (fun _ => none)).bind i v = storeEnv σ (fun x => if x = i then some v else none) := rfl

/-- One iteration: the `mapAt` entries of the body evaluate like the body's assignments. -/
theorem iteration_refines (P : Prims K) (o : Opts) (T : FTab K) (F : FSem K) (hT : TabOK P T F)
    (hS : NoShadow T) (m : MapMode) (i : String) (v : Int) : ∀ (body : List (String × MExpr K))
    (rhs : List (String × CTerm K)),
    RhsOK P o T body rhs →
    ∀ σ : Store K, Refines (runRaw P (rhs.map fun p => (p.1, .mapAt m i v p.2)) σ)
      (execAssigns P F (fun x => if x = i then some v else none) body σ)
  | [], _, .nil, σ => by simp [runRaw, execAssigns]; exact Refines.refl
  | (x, e) :: rest, (y, t) :: rhs, .cons hxy hrest, σ => by
    obtain ⟨hy, ht⟩ := hxy
    simp only at hy ht
    subst hy
    simp only [List.map_cons, runRaw, execAssigns, evalC, bind_storeEnv]
    exact Refines.bind (gen_refines P o T F hT hS e t ht _)
      (fun w => iteration_refines P o T F hT hS m i v rest rhs hrest ((y, w) :: σ))

theorem for_refines (P : Prims K) (o : Opts) (T : FTab K) (F : FSem K) (hT : TabOK P T F)
    (hS : NoShadow T) (m : MapMode) (i : String) (body : List (String × MExpr K))
    (rhs : List (String × CTerm K))
    (hr : RhsOK P o T body rhs) :
    ∀ (vals : List Int) (σ : Store K),
    Refines (runRaw P (vals.flatMap fun v => rhs.map fun p => (p.1, .mapAt m i v p.2)) σ)
      (execFor P F i body vals σ)
  | [], σ => by simp [runRaw, execFor]; exact Refines.refl
  | v :: vs, σ => by
    simp only [List.flatMap_cons, runRaw_append, execFor]
    exact Refines.bind (iteration_refines P o T F hT hS m i v body rhs hr σ)
      (fun σ' => for_refines P o T F hT hS m i body rhs hr vs σ')

theorem genStmt_for (P : Prims K) (o : Opts) (T : FTab K) (F : FSem K) (hT : TabOK P T F)
    (hS : NoShadow T) (i : String) (start : Int) (stop : IdxE) (step : Int) (body : List (String × MExpr K))
    (hb : ∀ b ∈ body, mClosed [i] b.2 = true) (as : List (String × CTerm K))
    (h : genStmt P o T (.for i start stop step body) = .ok as) :
    StmtSpec P F (.for i start stop step body) as := by
  simp only [genStmt] at h
  cases hstop : stop.eval (fun _ => none) with
  | none => simp [hstop, bind, Except.bind] at h
  | some hi =>
    simp only [hstop, pure, Except.pure, bind, Except.bind] at h
    split at h
    · cases h
    · cases hrhs : genRhs P o T body with
      | error e => simp [hrhs] at h
      | ok rhs =>
        simp only [hrhs, Except.ok.injEq] at h
        subst h
        have hr := genRhs_spec P o T body rhs hrhs
        refine ⟨fun p hp => ?_, fun σ => ?_⟩
        · simp only [List.mem_flatMap, List.mem_map] at hp
          obtain ⟨v, _, q, hq, rfl⟩ := hp
          simp only [idxClosed]
          -- q comes from some body entry with the same name and a closed expression
          have : ∀ (body : List (String × MExpr K)) (rhs : List (String × CTerm K)),
              RhsOK P o T body rhs →
              (∀ b ∈ body, mClosed [i] b.2 = true) → ∀ q ∈ rhs, idxClosed [i] q.2 = true := by
            intro body rhs hf
            induction hf with
            | nil => intro _ q hq; simp at hq
            | cons hab _ ih =>
              intro hb q hq
              simp only [List.mem_cons] at hq
              cases hq with
              | inl h1 => subst h1; exact gen_closed P o T [i] _ _ (hb _ (by simp)) hab.2
              | inr h1 => exact ih (fun b hb' => hb b (by simp [hb'])) q h1
          exact this body rhs hr hb q hq
        · simp only [execStmt, hstop, Option.bind_eq_bind, Option.bind_some]
          rw [← arangeCode_eq]
          exact for_refines P o T F hT hS o.mapMode i body rhs hr (arangeCode start step hi) σ

end PymocaVerif.Gen
