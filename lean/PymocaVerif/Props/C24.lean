import PymocaVerif.Lemmas.PyPrint
/-!
# C24 — the SymPy backend emits code with the flat model's meaning

Property theorems only (helper lemmas: `Lemmas/PyGrammar.lean`, `Lemmas/PyPrint.lean`).
Model: `Model/PyGrammar.lean` (Python expression grammar, printers `prFix` = current tree, i.e. with
fix C24-1, `prCur` = the printer before it) and `Model/PyPrint.lean` (mangling, classification
`classifyFix` = current tree, `classify` = before fix C24-4, evaluator).  The harness detects on every
run which variant the real code implements and compares it with that one.
All statements are for arbitrary expressions / symbol lists / builtin lists — no size bound.
-/
namespace PymocaVerif.PyPrint
open PymocaVerif.PyGrammar

private def nm (s : String) : Name := s.toList
private def v (s : String) : E := E.atom (Atom.name (nm s))

/-! ## precedence: the printed equation parses back to the flat equation -/

/-- With the parenthesising printer (the current tree, fix C24-1) the text of every element of `self.eqs`, read by
    the Python grammar, is exactly lhs − rhs of the flat equation (with mangled names): no
    operator is regrouped, whatever the nesting. -/
theorem py_parse_print (B : List Name) (l r : E) :
    pyParse (eqToks Variant.fix B l r) = some (eqTree (toPy B l) (toPy B r)) :=
  parse_printed pyTbl pyTbl_wf
    (printed_prEq ((printed_prFix _).1 1 (Nat.le_refl _)) ((printed_prFix _).1 0 (Nat.zero_le _)))

example : pyParse (eqToks Variant.fix [] (v "y")
    (E.bin 3 (E.bin 2 (E.pre 1 (E.bin 1 (v "x") (v "u"))) (v "p")) (E.bin 0 (v "c") (E.atom (Atom.num (nm "1"))))))
    = some (eqTree (v "y")
        (E.bin 3 (E.bin 2 (E.pre 1 (E.bin 1 (v "x") (v "u"))) (v "p")) (E.bin 0 (v "c") (E.atom (Atom.num (nm "1")))))) := by
  decide +kernel

/-- … and it evaluates like the flat equation: for every algebra of values and every Modelica
    environment, the parsed Python text evaluated in the induced Python environment gives the
    value of lhs − rhs, provided the mangling is injective on the variables in use. -/
theorem py_parse_print_meaning {α : Type} (A : Alg α) (B : List Name) (vars : List Name) (l r : E)
    (hl : ∀ n ∈ names l, n ∈ vars) (hr : ∀ n ∈ names r, n ∈ vars)
    (hinj : ∀ a ∈ vars, ∀ b ∈ vars, mangleRef B a = mangleRef B b → a = b) (ρ : Env α) :
    ∃ e', pyParse (eqToks Variant.fix B l r) = some e' ∧
      eval A (pull (mangleRef B) vars ρ) e' = eval A ρ (eqTree l r) := by
  refine ⟨_, py_parse_print B l r, ?_⟩
  have : eqTree (toPy B l) (toPy B r) = rename (mangleRef B) (eqTree l r) := by
    simp [eqTree, toPy, rename]
  rw [this]
  apply eval_rename
  intro n hn
  have hmem : n ∈ vars := by
    simp only [eqTree, names, List.mem_append] at hn
    rcases hn with h | h
    · exact hl n h
    · exact hr n h
  exact pull_var ρ hmem hinj

example : (∀ a ∈ [nm "x", nm "a.b"], ∀ b ∈ [nm "x", nm "a.b"],
    mangleRef [] a = mangleRef [] b → a = b) := by decide +kernel

/-- The printer before fix C24-1 pasted operands without parentheses.  It is right exactly on the
    expressions in natural precedence form (`NoParen`: every operand already binds at least as
    tightly as its context).  PARTIAL: for the other expressions the statement is false, see
    `cur_printer_regroups`. -/
theorem py_parse_print_cur_partial (B : List Name) (l r : E)
    (hl : NoParen pyTbl 1 l) (hr : NoParen pyTbl 0 r) :
    pyParse (eqToks Variant.cur B l r) = some (eqTree (toPy B l) (toPy B r)) :=
  parse_printed pyTbl pyTbl_wf
    (printed_prEq (printed_prCur pyTbl _ 1 ((noParen_rename pyTbl _ l 1).mpr hl))
      (printed_prCur pyTbl _ 0 ((noParen_rename pyTbl _ r 0).mpr hr)))

example : NoParen pyTbl 1 (E.der (v "x")) ∧
    NoParen pyTbl 0 (E.bin 1 (E.bin 2 (E.pre 1 (v "x")) (E.bin 4 (v "p") (E.pre 1 (v "c")))) (E.call (nm "sin") (v "time"))) := by
  simp [NoParen, pyTbl, v]

/-- Counterexample for the printer before fix C24-1: `y = (a - b) * c` is written `y - (a - b * c)`,
    which Python reads as `y - (a - (b * c))`; at a = 1, b = 2, c = 3, y = 0 the values differ. -/
theorem cur_printer_regroups :
    ∃ (l r e' : E) (ρ : Env Int),
      pyParse (eqToks Variant.cur [] l r) = some e' ∧
      eval intAlg (pull (mangleRef []) (names l ++ names r) ρ) e' ≠ eval intAlg ρ (eqTree l r) := by
  refine ⟨v "y", E.bin 2 (E.bin 1 (v "a") (v "b")) (v "c"),
    eqTree (v "y") (E.bin 1 (v "a") (E.bin 2 (v "b") (v "c"))),
    ⟨fun n => if n = nm "a" then some 1 else if n = nm "b" then some 2 else if n = nm "c" then some 3 else some 0,
     fun _ => none⟩, ?_, ?_⟩
  · decide +kernel
  · decide +kernel

/-- Number literals are written through unchanged: the literal texts of the printed equation are,
    in order, the literal texts of the flat lhs and rhs (for both printer variants and every builtin
    list) — mangling, parenthesising and operators never touch, drop, duplicate or reorder a literal.
    (That a literal text `str(value)` denotes `value` again is CPython's float repr round trip; it is
    outside the model and compared exactly on every run.) -/
theorem literals_pass_through (v : Variant) (B : List Name) (l r : E) :
    tokLits (eqToks v B l r) = lits l ++ lits r := by
  cases v <;>
    simp [eqToks, printer, prEq, toPy, tokLits_append, tokLits, tokLits_prFix, tokLits_prCur, lits_rename]

example : tokLits (eqToks Variant.fix [] (v "y")
    (E.bin 0 (E.bin 2 (E.atom (Atom.num (nm "1234567.5"))) (v "x")) (E.atom (Atom.num (nm "100000.5")))))
    = [nm "1234567.5", nm "100000.5"] := by decide +kernel

/-! ## names -/

/-- Distinct flat names get distinct Python identifiers when both are clean (no `__`, no `_.`)
    and neither mangled name is a member of the builtin list followed by underscores that equals
    the other.  Holds for every builtin list. -/
theorem mangle_injective_on (B : List Name) (a b : Name) (ha : Clean a) (hb : Clean b)
    (h1 : ¬ StemOf B (replDots a) (replDots b)) (h2 : ¬ StemOf B (replDots b) (replDots a))
    (h : mangleRef B a = mangleRef B b) : a = b := by
  have hs := mangleRef_eq_cases h
  rcases avoid_eq_cases hs with h | h | h
  · exact replDots_injective ha hb h
  · exact absurd h h1
  · exact absurd h h2

example : Clean (nm "body.v_x") ∧ Clean (nm "copy") ∧
    ¬ StemOf [nm "copy"] (replDots (nm "body.v_x")) (replDots (nm "copy")) := by
  refine ⟨(cleanB_iff _).mp (by decide), (cleanB_iff _).mp (by decide), ?_⟩
  intro h
  have := h.1
  revert this
  decide

/-- The same for declared symbols (`exitSymbol`). -/
theorem mangle_sym_injective_on (B : List Name) (a b : Name) (ha : Clean a) (hb : Clean b)
    (h1 : ¬ StemOf B (replDots a) (replDots b)) (h2 : ¬ StemOf B (replDots b) (replDots a))
    (h : mangleSym B a = mangleSym B b) : a = b := by
  rcases avoid_eq_cases h with h | h | h
  · exact replDots_injective ha hb h
  · exact absurd h h1
  · exact absurd h h2

example : mangleSym [nm "copy"] (nm "copy") = nm "copy_" := by decide +kernel

/-- The side condition `Clean` is needed: a dotted name and the same name written with `__`
    collide, for every builtin list and every prefix/suffix. -/
theorem mangle_collision_dotted (B : List Name) (x y : Name) :
    mangleSym B (x ++ '.' :: y) = mangleSym B (x ++ '_' :: '_' :: y) ∧
    x ++ '.' :: y ≠ x ++ '_' :: '_' :: y := by
  have happ : ∀ a b : Name, replDots (a ++ b) = replDots a ++ replDots b := by
    intro a b
    induction a with
    | nil => rfl
    | cons c a ih => by_cases hc : c = '.' <;> simp [replDots, hc, ih]
  refine ⟨?_, ?_⟩
  · simp [mangleSym, happ, replDots]
  · intro h
    have := List.append_cancel_left h
    simp at this

example : mangleSym [] (nm "a.b") = mangleSym [] (nm "a__b") :=
  (mangle_collision_dotted [] (nm "a") (nm "b")).1

/-- … and so do `a_.b` and `a._b` (an underscore in front of the dot). -/
theorem mangle_collision_underscore_dot (B : List Name) :
    mangleSym B (nm "a_.b") = mangleSym B (nm "a._b") ∧ nm "a_.b" ≠ nm "a._b" := by
  refine ⟨?_, by decide⟩
  have : replDots (nm "a_.b") = replDots (nm "a._b") := by decide
  simp [mangleSym, this]

/-- The side condition on the builtin list is needed: a member of the list and the same name
    followed by an underscore collide. -/
theorem mangle_collision_builtin (B : List Name) (n : Name) (hdot : '.' ∉ n) (hn : n ∈ B) :
    mangleSym B n = mangleSym B (n ++ ['_']) ∧ n ≠ n ++ ['_'] := by
  have hrep : ∀ m : Name, '.' ∉ m → replDots m = m := by
    intro m
    induction m with
    | nil => intro _; rfl
    | cons c m ih =>
      intro h
      have hc : c ≠ '.' := fun hc => h (by simp [hc])
      have hm : '.' ∉ m := fun hm => h (by simp [hm])
      simp [replDots, hc, ih hm]
  have hfuel : ∀ (f : Nat) (m : Name), maxLen B < m.length + f →
      avoidGo B f m = avoidGo B (f + 1) m := by
    intro f
    induction f with
    | zero =>
      intro m hm
      have : m ∉ B := fun hmem => by have := length_le_maxLen hmem; omega
      simp [avoidGo, this]
    | succ f ih =>
      intro m hm
      by_cases hmem : m ∈ B
      · have := ih (m ++ ['_']) (by simp only [List.length_append, List.length_singleton]; omega)
        simp only [avoidGo, hmem, if_true] at this ⊢
        exact this
      · simp [avoidGo, hmem]
  refine ⟨?_, ?_⟩
  · have hdot' : '.' ∉ n ++ ['_'] := by
      simp only [List.mem_append, List.mem_singleton, not_or]
      exact ⟨hdot, by decide⟩
    simp only [mangleSym, hrep n hdot, hrep _ hdot', avoid]
    have h1 : avoidGo B (maxLen B + 1) n = avoidGo B (maxLen B) (n ++ ['_']) := by
      simp [avoidGo, hn]
    rw [h1]
    exact hfuel (maxLen B) (n ++ ['_']) (by simp only [List.length_append, List.length_singleton]; omega)
  · intro h
    have := congrArg List.length h
    simp at this

example : mangleSym [nm "copy"] (nm "copy") = mangleSym [nm "copy"] (nm "copy_") :=
  (mangle_collision_builtin [nm "copy"] (nm "copy") (by decide) (by decide)).1

/-- The avoidance loop terminates outside the builtin list, for every list and name. -/
theorem mangle_avoids_builtins (B : List Name) (n : Name) : mangleSym B n ∉ B :=
  avoid_not_mem B (replDots n)

example : mangleSym [nm "pop", nm "pop_"] (nm "pop") = nm "pop__" := by decide +kernel

/-- The display name handed to sympy (`|replace('__', '.')`) is the Modelica name itself for a
    clean name that does not hit the builtin list. -/
theorem shown_name_is_modelica_name (B : List Name) (n : Name) (hc : Clean n)
    (hB : replDots n ∉ B) : unrepl (mangleSym B n) = n := by
  simp only [mangleSym, avoid_of_not_mem hB]
  exact unrepl_replDots n hc

example : unrepl (mangleSym [nm "copy"] (nm "body.v_x")) = nm "body.v_x" := by decide +kernel

/-! ## classification -/

/-- The state / constant / parameter / input / output lists are exactly the symbols carrying that
    prefix, in declaration order, for every flat symbol list without repeated prefixes. -/
theorem classification_matches (syms : List Sym) (h : ∀ s ∈ syms, s.prefixes.Nodup) :
    ((classify syms).x = specX syms ∧ (classify syms).c = specC syms ∧
     (classify syms).p = specP syms ∧ (classify syms).u = specU syms ∧
     (classify syms).y = specY syms) ∧
    ((classifyFix syms).x = specX syms ∧ (classifyFix syms).c = specC syms ∧
     (classifyFix syms).p = specP syms ∧ (classifyFix syms).u = specU syms ∧
     (classifyFix syms).y = specY syms) := by
  simp only [classify, classifyFix, specX, specC, specP, specU, specY, pick_eq_filter h, and_self]

example : (classify [⟨nm "x", ["output", "state"]⟩, ⟨nm "p", ["parameter"]⟩, ⟨nm "w", []⟩]).x
    = [⟨nm "x", ["output", "state"]⟩] := by decide +kernel

/-- The variable list is exactly the set of symbols that are neither state nor constant nor
    parameter nor input (plain variables and outputs that are not states), for regular symbols with
    distinct names. -/
theorem variables_match (syms : List Sym) (hreg : ∀ s ∈ syms, Regular s)
    (hnames : (syms.map (·.name)).Nodup) (s : Sym) :
    s ∈ (classify syms).v ↔ s ∈ syms ∧ isVar s = true := by
  have hnd : ∀ s ∈ syms, s.prefixes.Nodup := fun s hs => (hreg s hs).1
  have hinj : ∀ (l : List Sym), (l.map (·.name)).Nodup → ∀ a ∈ l, ∀ b ∈ l, a.name = b.name → a = b := by
    intro l
    induction l with
    | nil => intro _ a ha; simp at ha
    | cons c l ih =>
      intro hn a ha b hb hab
      have hn' := List.nodup_cons.mp hn
      rcases List.mem_cons.mp ha with ha1 | ha1
      · rcases List.mem_cons.mp hb with hb1 | hb1
        · rw [ha1, hb1]
        · subst ha1
          exact absurd (show a.name ∈ l.map (·.name) from List.mem_map.mpr ⟨b, hb1, hab.symm⟩) hn'.1
      · rcases List.mem_cons.mp hb with hb1 | hb1
        · subst hb1
          exact absurd (show b.name ∈ l.map (·.name) from List.mem_map.mpr ⟨a, ha1, hab⟩) hn'.1
        · exact ih hn'.2 a ha1 b hb1 hab
  simp only [classify, pick_eq_filter hnd, List.mem_append, List.mem_filter, List.any_filter,
    Bool.not_eq_true']
  constructor
  · rintro (⟨hs, hemp⟩ | ⟨⟨hs, hout⟩, hnot⟩)
    · refine ⟨hs, ?_⟩
      have : s.prefixes = [] := by simpa using hemp
      simp [isVar, Sym.has, this]
    · refine ⟨hs, ?_⟩
      have hst : s.has "state" = false := by
        cases hh : s.has "state" with
        | false => rfl
        | true =>
          have : (syms.any fun t => t.has "state" && t.name == s.name) = true :=
            List.any_eq_true.mpr ⟨s, hs, by simp [hh]⟩
          rw [this] at hnot
          exact absurd hnot (by decide)
      have := (hreg s hs).2.2 hout
      simp [isVar, hst, this.1, this.2.1, this.2.2]
  · rintro ⟨hs, hv⟩
    simp only [isVar, Bool.not_eq_true', Bool.or_eq_false_iff] at hv
    obtain ⟨⟨⟨h1, h2⟩, h3⟩, h4⟩ := hv
    by_cases hemp : s.prefixes = []
    · left; exact ⟨hs, by simp [hemp]⟩
    · right
      obtain ⟨k, hk⟩ := List.exists_mem_of_ne_nil _ hemp
      have hk5 := (hreg s hs).2.1 k hk
      have hkb : ∀ k', k = k' → s.has k' = true := by
        intro k' hk'; subst hk'; simpa [Sym.has] using hk
      have hout : s.has "output" = true := by
        rcases hk5 with h | h | h | h | h
        · rw [hkb _ h] at h1; exact absurd h1 (by decide)
        · rw [hkb _ h] at h2; exact absurd h2 (by decide)
        · rw [hkb _ h] at h3; exact absurd h3 (by decide)
        · rw [hkb _ h] at h4; exact absurd h4 (by decide)
        · exact hkb _ h
      refine ⟨⟨hs, hout⟩, ?_⟩
      cases hany : (syms.any fun t => t.has "state" && t.name == s.name) with
      | false => rfl
      | true =>
        obtain ⟨t, ht, htp⟩ := List.any_eq_true.mp hany
        simp only [Bool.and_eq_true, beq_iff_eq] at htp
        have : t = s := hinj syms hnames t ht s hs htp.2
        rw [this, h1] at htp
        exact absurd htp.1 (by decide)

example : Regular ⟨nm "y", ["output"]⟩ ∧ isVar ⟨nm "y", ["output"]⟩ = true := by
  refine ⟨⟨by decide, by decide, by decide⟩, by decide⟩

/-- In the current tree (fix C24-4) the same holds without restricting the prefixes to the five class
    prefixes: `discrete` (or any other) prefix no longer makes a variable disappear. -/
theorem variables_match_with_fix (syms : List Sym) (hreg : ∀ s ∈ syms, WeakRegular s)
    (hnames : (syms.map (·.name)).Nodup) (s : Sym) :
    s ∈ (classifyFix syms).v ↔ s ∈ syms ∧ isVar s = true := by
  have hnd : ∀ s ∈ syms, s.prefixes.Nodup := fun s hs => (hreg s hs).1
  have hinj : ∀ (l : List Sym), (l.map (·.name)).Nodup → ∀ a ∈ l, ∀ b ∈ l, a.name = b.name → a = b := by
    intro l
    induction l with
    | nil => intro _ a ha; simp at ha
    | cons c l ih =>
      intro hn a ha b hb hab
      have hn' := List.nodup_cons.mp hn
      rcases List.mem_cons.mp ha with ha1 | ha1
      · rcases List.mem_cons.mp hb with hb1 | hb1
        · rw [ha1, hb1]
        · subst ha1
          exact absurd (show a.name ∈ l.map (·.name) from List.mem_map.mpr ⟨b, hb1, hab.symm⟩) hn'.1
      · rcases List.mem_cons.mp hb with hb1 | hb1
        · subst hb1
          exact absurd (show b.name ∈ l.map (·.name) from List.mem_map.mpr ⟨a, ha1, hab⟩) hn'.1
        · exact ih hn'.2 a ha1 b hb1 hab
  simp only [classifyFix, pick_eq_filter hnd, List.mem_append, List.mem_filter, List.any_filter,
    Bool.not_eq_true']
  constructor
  · rintro (⟨hs, hcl⟩ | ⟨⟨hs, hout⟩, hnot⟩)
    · refine ⟨hs, ?_⟩
      simp only [Sym.classified, Bool.or_eq_false_iff] at hcl
      simp [isVar, hcl.1.1.1.1, hcl.1.1.1.2, hcl.1.1.2, hcl.1.2]
    · refine ⟨hs, ?_⟩
      have hst : s.has "state" = false := by
        cases hh : s.has "state" with
        | false => rfl
        | true =>
          have : (syms.any fun t => t.has "state" && t.name == s.name) = true :=
            List.any_eq_true.mpr ⟨s, hs, by simp [hh]⟩
          rw [this] at hnot
          exact absurd hnot (by decide)
      have := (hreg s hs).2 hout
      simp [isVar, hst, this.1, this.2.1, this.2.2]
  · rintro ⟨hs, hv⟩
    simp only [isVar, Bool.not_eq_true', Bool.or_eq_false_iff] at hv
    obtain ⟨⟨⟨h1, h2⟩, h3⟩, h4⟩ := hv
    cases hout : s.has "output" with
    | false => left; exact ⟨hs, by simp [Sym.classified, h1, h2, h3, h4, hout]⟩
    | true =>
      right
      refine ⟨⟨hs, rfl⟩, ?_⟩
      cases hany : (syms.any fun t => t.has "state" && t.name == s.name) with
      | false => rfl
      | true =>
        obtain ⟨t, ht, htp⟩ := List.any_eq_true.mp hany
        simp only [Bool.and_eq_true, beq_iff_eq] at htp
        have : t = s := hinj syms hnames t ht s hs htp.2
        rw [this, h1] at htp
        exact absurd htp.1 (by decide)

example : WeakRegular ⟨nm "d", ["discrete"]⟩ ∧
    (⟨nm "d", ["discrete"]⟩ : Sym) ∈ (classifyFix [⟨nm "d", ["discrete"]⟩, ⟨nm "p", ["parameter"]⟩]).v := by
  refine ⟨⟨by decide, by decide⟩, by decide +kernel⟩

/-- Before fix C24-4 the classification lost variables outside the regular symbols: a symbol whose
    only prefix is `discrete` appeared in no list at all. -/
theorem discrete_symbol_in_no_list (n : Name) :
    let L := classify [⟨n, ["discrete"]⟩]
    L.x = [] ∧ L.v = [] ∧ L.c = [] ∧ L.p = [] ∧ L.u = [] ∧ L.y = [] := by
  simp [classify, pick]

end PymocaVerif.PyPrint
