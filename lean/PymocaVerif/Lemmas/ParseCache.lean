import PymocaVerif.Model.ParseCache
/-! Lemmas for C01: the row invariant through every transaction and operation; what the
    initialisation block establishes; transparency of one `parse`. -/
namespace PymocaVerif.ParseCache

variable {pf : Ver → TextId → Option TreeId}

def rowsOf : DbFile → List Row
  | .db (some m) _ => m.rows
  | _ => []

/-- a row that unpickles to a tree holds the tree the uncached parser gives for its own text and version -/
def RowOk (pf : Ver → TextId → Option TreeId) (r : Row) : Prop :=
  ∀ t, r.blob = .good (some t) → pf r.ver r.key = some t

def FileInv (pf : Ver → TextId → Option TreeId) (f : DbFile) : Prop := ∀ r ∈ rowsOf f, RowOk pf r

def RowInv (pf : Ver → TextId → Option TreeId) (s : St) : Prop := FileInv pf s.file

/-- every statement of `parse` works on the `models` table (lookup, update, delete *and* insert) -/
def Insertable (f : DbFile) : Prop := ∃ m, f.queryable = some m ∧ m.layout ≠ .extraCol

/-- the process has not initialised the database, or the `models` table is fully usable -/
def Synced (s : St) : Prop := s.init = true → Insertable s.file

/-- … or at least its damage shows at the lookup (what the recovery of fix 821b239 copes with) -/
def Usable (s : St) : Prop := s.init = true → (s.file.queryable = none ∨ Insertable s.file)

/-- no stored row unpickles to `None` -/
def NoNone (f : DbFile) : Prop := ∀ r ∈ rowsOf f, r.blob ≠ .good none

theorem Exc.mem_all (e : Exc) : e ∈ Exc.all := by cases e <;> simp [Exc.all]

/-- every exception class a damaged blob raises is caught -/
def CaughtAll (cfg : Cfg) : Prop := ∀ e, cfg.isCaught e = true

theorem caughtAll_of_all {cfg : Cfg} (h : Exc.all.all cfg.isCaught = true) : CaughtAll cfg :=
  fun e => List.all_eq_true.mp h e (Exc.mem_all e)

/-! ### rows through the transactions -/

theorem rowsOf_setRows_sub {f : DbFile} {rows : List Row} : ∀ r ∈ rowsOf (f.setRows rows), r ∈ rows := by
  intro r hr
  unfold DbFile.setRows at hr
  split at hr <;> simp_all [rowsOf]
  all_goals (rename_i f' hne; cases f' <;> simp_all [rowsOf])
  all_goals (rename_i m t; cases m <;> simp_all [rowsOf])

theorem queryable_rows {f : DbFile} {m : Models} (h : f.queryable = some m) : rowsOf f = m.rows := by
  unfold DbFile.queryable at h
  split at h
  · split at h <;> simp_all [rowsOf]
  · cases h

theorem queryable_setRows {f : DbFile} {m : Models} (rows : List Row) (h : f.queryable = some m) :
    (f.setRows rows).queryable = some { m with rows := rows } := by
  unfold DbFile.queryable at h
  split at h
  · rename_i m' t
    split at h
    · cases h
    · cases h
      simp_all [DbFile.setRows, DbFile.queryable]
  · cases h

theorem rowsOf_setRows {f : DbFile} {m : Models} (rows : List Row) (h : f.queryable = some m) :
    rowsOf (f.setRows rows) = rows := by
  rw [queryable_rows (queryable_setRows rows h)]

theorem fileInv_integrity {f : DbFile} (h : FileInv pf f) : FileInv pf (txIntegrity f) := by
  cases f <;> simp_all [txIntegrity, FileInv, rowsOf]

theorem fileInv_checkModels {f f' : DbFile} (h : FileInv pf f) (he : txCheckModels f = .ok f') : FileInv pf f' := by
  unfold txCheckModels at he
  split at he
  · cases he
  · split at he <;> cases he <;> simp_all [FileInv, rowsOf]
  · cases he; simp [FileInv, rowsOf]

theorem rowsOf_db (m : Option Models) (a b : Option MetaTbl) : rowsOf (.db m a) = rowsOf (.db m b) := by
  cases m <;> rfl

theorem fileInv_checkMeta {f f' : DbFile} (h : FileInv pf f) (he : txCheckMeta f = .ok f') : FileInv pf f' := by
  cases f with
  | garbage => simp [txCheckMeta] at he
  | db m mt =>
    have : ∃ mt', f' = .db m mt' := by
      cases mt with
      | none => simp [txCheckMeta] at he; exact ⟨_, he.symm⟩
      | some t => cases t <;> simp [txCheckMeta] at he <;> exact ⟨_, he.symm⟩
    obtain ⟨mt', rfl⟩ := this
    intro r hr
    rw [rowsOf_db m mt' mt] at hr
    exact h r hr

theorem fileInv_metaDefaults {f f' : DbFile} {t1 t2 : Int} (h : FileInv pf f) (he : txMetaDefaults t1 t2 f = .ok f') :
    FileInv pf f' := by
  unfold txMetaDefaults at he
  split at he <;> cases he
  rename_i m c p
  cases m <;> simp_all [FileInv, rowsOf]

theorem fileInv_prune {f f' : DbFile} {c t : Int} (h : FileInv pf f) (he : txPrune c t f = .ok f') : FileInv pf f' := by
  unfold txPrune at he
  split at he
  · split at he <;> cases he
    intro r hr
    simp only [rowsOf, List.mem_filter] at hr
    exact h r (by simpa [rowsOf] using hr.1)
  · cases he

theorem fileInv_touch {f f' : DbFile} {x : TextId} {v : Ver} {t : Int} (h : FileInv pf f)
    (he : txTouch x v t f = .ok f') : FileInv pf f' := by
  unfold txTouch at he
  split at he
  · cases he
  · rename_i m hq
    cases he
    intro r hr
    rw [rowsOf_setRows _ hq] at hr
    obtain ⟨r0, hr0, rfl⟩ := List.mem_map.mp hr
    have h0 := h r0 (by rw [queryable_rows hq]; exact hr0)
    split <;> simpa [RowOk] using h0

theorem txInsert_ok {f f' : DbFile} {x : TextId} {v : Ver} {tree : TreeId} {t : Int} (he : txInsert x v tree t f = .ok f') :
    ∃ m, f.queryable = some m ∧ m.layout ≠ .extraCol ∧
      f' = f.setRows ((if m.layout = .ok then m.rows.filter (fun r => !matches_ x v r) else m.rows) ++
        [⟨x, v, .good (some tree), t⟩]) := by
  unfold txInsert at he
  cases hq : f.queryable with
  | none => simp [hq] at he
  | some m =>
    simp only [hq] at he
    by_cases hl : m.layout = .extraCol
    · simp [hl] at he
    · simp only [hl, if_false] at he
      exact ⟨m, rfl, hl, by cases he; rfl⟩

theorem txInsert_insertable {f : DbFile} {x : TextId} {v : Ver} {tree : TreeId} {t : Int} (h : Insertable f) :
    ∃ f', txInsert x v tree t f = .ok f' ∧ Insertable f' := by
  obtain ⟨m, hq, hl⟩ := h
  refine ⟨_, by simp [txInsert, hq, hl]; rfl, ?_⟩
  exact ⟨_, queryable_setRows _ hq, hl⟩

theorem fileInv_insert {f f' : DbFile} {x : TextId} {v : Ver} {tree : TreeId} {t : Int} (h : FileInv pf f)
    (hpf : pf v x = some tree) (he : txInsert x v tree t f = .ok f') : FileInv pf f' := by
  obtain ⟨m, hq, _, rfl⟩ := txInsert_ok he
  intro r hr
  rw [rowsOf_setRows _ hq] at hr
  rcases List.mem_append.mp hr with hr | hr
  · have : r ∈ m.rows := by
      split at hr
      · exact (List.mem_filter.mp hr).1
      · exact hr
    exact h r (by rw [queryable_rows hq]; exact this)
  · simp at hr; subst hr
    intro t' ht'
    simp at ht'; subst ht'
    exact hpf

/-! ### what the initialisation block does -/

/-- after a successful initialisation block: initialised, both tables with the expected layout, rows a
    subset of the old ones, same version -/
theorem initBlock_spec (s : St) (days : Int) :
    ∃ s', initBlock s days = .ok s' ∧ s'.init = true ∧ s'.ver = s.ver ∧ s'.dirty = s.dirty ∧
      (∃ rows c p, s'.file = .db (some ⟨.ok, rows⟩) (some (.ok c p)) ∧ ∀ r ∈ rows, r ∈ rowsOf s.file) := by
  unfold initBlock
  cases hf : s.file with
  | garbage =>
    (simp [txIntegrity, txCheckModels, txCheckMeta, txMetaDefaults, txPrune, St.read, rowsOf] <;> try (intros; assumption))
  | db m mt =>
    cases m with
    | none =>
      cases mt with
      | none => (simp [txIntegrity, txCheckModels, txCheckMeta, txMetaDefaults, txPrune, St.read, rowsOf] <;> try (intros; assumption))
      | some mt => cases mt <;> (simp [txIntegrity, txCheckModels, txCheckMeta, txMetaDefaults, txPrune, St.read, rowsOf] <;> try (intros; assumption))
    | some m =>
      obtain ⟨lay, rows⟩ := m
      cases lay <;> cases mt with
      | none => (simp [txIntegrity, txCheckModels, txCheckMeta, txMetaDefaults, txPrune, St.read, rowsOf] <;> try (intros; assumption))
      | some mt =>
        cases mt <;> (simp [txIntegrity, txCheckModels, txCheckMeta, txMetaDefaults, txPrune, St.read, rowsOf] <;> try (intros; assumption))

theorem initBlock_inv {s s' : St} {days : Int} (h : RowInv pf s) (he : initBlock s days = .ok s') : RowInv pf s' := by
  obtain ⟨s'', he', _, _, _, rows, c, p, hfile, hsub⟩ := initBlock_spec s days
  rw [he] at he'; cases he'
  intro r hr
  rw [hfile] at hr
  exact h r (hsub r (by simpa [rowsOf] using hr))

/-- on an exception inside the block (unreachable from a single process, kept for totality) the rows are
    still a subset of the old ones -/
theorem initBlock_err_inv {s s' : St} {days : Int} {e : Err} (h : RowInv pf s) (he : initBlock s days = .error (s', e)) :
    RowInv pf s' := by
  obtain ⟨s'', he', _⟩ := initBlock_spec s days
  rw [he] at he'; cases he'

/-! ### `finish` and `parseCached` -/

theorem read_file (s : St) : s.read.2.file = s.file := rfl
theorem read_ver (s : St) : s.read.2.ver = s.ver := rfl
theorem read_init (s : St) : s.read.2.init = s.init := rfl

theorem finish_inv {cfg : Cfg} {s : St} {x : TextId} {tree : Option TreeId} (h : RowInv pf s) :
    RowInv pf (finish cfg pf s x tree).1 := by
  unfold finish
  split
  · exact h
  · split
    · exact h
    · rename_i t hpf
      simp only []
      split
      · split <;> exact h
      · rename_i f he
        exact fileInv_insert (pf := pf) (f := s.file) h hpf (by simpa [St.read] using he)

theorem finish_none_spec {cfg : Cfg} {s : St} {x : TextId} (hq : Insertable s.file) :
    (finish cfg pf s x none).2 = .value (pf s.ver x) ∧ Insertable (finish cfg pf s x none).1.file ∧
    (finish cfg pf s x none).1.init = s.init := by
  unfold finish
  simp only []
  cases hpf : pf s.ver x with
  | none => exact ⟨rfl, hq, rfl⟩
  | some t =>
    simp only []
    obtain ⟨f', he, hi⟩ := txInsert_insertable (x := x) (v := s.read.2.ver) (tree := t) (t := s.read.1) (f := s.read.2.file) hq
    rw [he]
    exact ⟨rfl, hi, rfl⟩

/-- with a tolerated cache write the result is right whatever the insert does -/
theorem finish_none_tolerant {cfg : Cfg} {s : St} {x : TextId} (hw : cfg.writeTolerant = true) :
    (finish cfg pf s x none).2 = .value (pf s.ver x) := by
  unfold finish
  simp only []
  cases hpf : pf s.ver x with
  | none => rfl
  | some t =>
    simp only []
    split
    · simp [hw]
    · rfl

theorem finish_some {cfg : Cfg} {s : St} {x : TextId} {t : TreeId} :
    finish cfg pf s x (some t) = (s, .value (some t)) := rfl

theorem lookup_found {f : DbFile} {m : Models} {x : TextId} {v : Ver} {lh : Int} {b : Blob}
    (hq : f.queryable = some m) (h : txLookup x v f = .ok (some (lh, b))) :
    ∃ r ∈ rowsOf f, r.key = x ∧ r.ver = v ∧ r.blob = b := by
  simp only [txLookup, hq] at h
  cases hfind : m.rows.find? (matches_ x v) with
  | none => simp [hfind] at h
  | some r =>
    simp [hfind] at h
    refine ⟨r, ?_, ?_, ?_, h.2⟩
    · rw [queryable_rows hq]; exact List.mem_of_find?_eq_some hfind
    · have := List.find?_some hfind; simp [matches_] at this; exact this.1
    · have := List.find?_some hfind; simp [matches_] at this; exact this.2

/-- the state after the optional `UPDATE … last_hit` -/
theorem touched_spec (s : St) (x : TextId) (upd : Bool) (lh : Int) {m : Models} (hq : s.file.queryable = some m) :
    ∃ s1 : St, touchStep s x upd lh = .ok s1 ∧
      s1.ver = s.ver ∧ s1.init = s.init ∧ (∃ rows, s1.file.queryable = some { m with rows := rows }) ∧
      (∀ pf, FileInv pf s.file → FileInv pf s1.file) ∧ (NoNone s.file → NoNone s1.file) := by
  unfold touchStep
  simp only []
  by_cases hc : (upd || decide (lh < s.read.1 - day)) = true
  · simp only [hc, if_true]
    have hq' : s.read.2.read.2.file.queryable = some m := hq
    cases ht : txTouch x s.read.2.read.2.ver s.read.2.read.1 s.read.2.read.2.file with
    | error e => simp [txTouch, hq'] at ht
    | ok f =>
      refine ⟨_, rfl, rfl, rfl, ?_, ?_, ?_⟩
      · simp [txTouch, hq'] at ht
        subst ht
        exact ⟨_, queryable_setRows _ hq'⟩
      · intro pf h
        exact fileInv_touch (f := s.file) h ht
      · intro h
        simp [txTouch, hq'] at ht
        subst ht
        intro r hr
        rw [rowsOf_setRows _ hq'] at hr
        obtain ⟨r0, hr0, rfl⟩ := List.mem_map.mp hr
        have h0 := h r0 (by rw [queryable_rows hq]; exact hr0)
        split <;> simpa using h0
  · simp only [hc]
    exact ⟨_, rfl, rfl, rfl, ⟨m.rows, by simpa [St.read] using hq⟩, fun _ h => h, fun h => h⟩

/-- `afterInit` from a state whose `models` table is fully usable -/
theorem afterInit_spec {cfg : Cfg} {s : St} {x : TextId} {upd : Bool} (hc : CaughtAll cfg) (h : RowInv pf s)
    (hq : Insertable s.file) :
    (afterInit cfg pf s x upd).2 = .value (pf s.ver x) ∧ RowInv pf (afterInit cfg pf s x upd).1 ∧
    Insertable (afterInit cfg pf s x upd).1.file ∧ (afterInit cfg pf s x upd).1.init = s.init := by
  obtain ⟨m, hm, hl⟩ := hq
  unfold afterInit
  cases hlk : txLookup x s.ver s.file with
  | error e => simp [txLookup, hm] at hlk
  | ok o =>
    cases o with
    | none =>
      obtain ⟨h1, h2, h3⟩ := finish_none_spec (cfg := cfg) (pf := pf) (x := x) ⟨m, hm, hl⟩
      exact ⟨h1, finish_inv h, h2, h3⟩
    | some lb =>
      obtain ⟨lh, blob⟩ := lb
      obtain ⟨r, hr, hkey, hver, hblob⟩ := lookup_found hm hlk
      obtain ⟨s1, hs1, hv1, hi1, ⟨rows1, hq1⟩, hinv1, _⟩ := touched_spec s x upd lh hm
      simp only [hs1]
      have h1 : RowInv pf s1 := hinv1 pf h
      have hins1 : Insertable s1.file := ⟨_, hq1, hl⟩
      cases blob with
      | good t =>
        cases t with
        | none =>
          obtain ⟨g1, g2, g3⟩ := finish_none_spec (cfg := cfg) (pf := pf) (x := x) hins1
          exact ⟨by rw [g1, hv1], finish_inv h1, g2, by rw [g3, hi1]⟩
        | some t =>
          have hpf : pf s.ver x = some t := by
            have := h r hr t hblob
            rw [hver, hkey] at this; exact this
          simp only [finish_some]
          exact ⟨by rw [hpf], h1, hins1, hi1⟩
      | bad e =>
        simp only [hc e, if_true]
        obtain ⟨g1, g2, g3⟩ := finish_none_spec (cfg := cfg) (pf := pf) (x := x) hins1
        exact ⟨by rw [g1, hv1], finish_inv h1, g2, by rw [g3, hi1]⟩

/-- with a tolerated cache write: right result from every state whose lookup works -/
theorem afterInit_tolerant {cfg : Cfg} {s : St} {x : TextId} {upd : Bool} (hc : CaughtAll cfg)
    (hw : cfg.writeTolerant = true) (h : RowInv pf s) (hq : s.file.queryable.isSome = true) :
    (afterInit cfg pf s x upd).2 = .value (pf s.ver x) := by
  obtain ⟨m, hm⟩ := Option.isSome_iff_exists.mp hq
  unfold afterInit
  cases hlk : txLookup x s.ver s.file with
  | error e => simp [txLookup, hm] at hlk
  | ok o =>
    cases o with
    | none => exact finish_none_tolerant hw
    | some lb =>
      obtain ⟨lh, blob⟩ := lb
      obtain ⟨r, hr, hkey, hver, hblob⟩ := lookup_found hm hlk
      obtain ⟨s1, hs1, hv1, _, _, _, _⟩ := touched_spec s x upd lh hm
      simp only [hs1]
      cases blob with
      | good t =>
        cases t with
        | none => rw [finish_none_tolerant hw, hv1]
        | some t =>
          have hpf : pf s.ver x = some t := by
            have := h r hr t hblob
            rw [hver, hkey] at this; exact this
          simp only [finish_some]
          rw [hpf]
      | bad e =>
        simp only [hc e, if_true]
        rw [finish_none_tolerant hw, hv1]

/-- `afterInit` keeps the invariant even when it raises -/
theorem afterInit_inv {cfg : Cfg} {s : St} {x : TextId} {upd : Bool} (h : RowInv pf s) :
    RowInv pf (afterInit cfg pf s x upd).1 := by
  unfold afterInit
  cases hl : txLookup x s.ver s.file with
  | error e => exact h
  | ok o =>
    cases o with
    | none => exact finish_inv h
    | some lb =>
      obtain ⟨lh, blob⟩ := lb
      have hm : ∃ m, s.file.queryable = some m := by
        cases hq : s.file.queryable with
        | none => simp [txLookup, hq] at hl
        | some m => exact ⟨m, rfl⟩
      obtain ⟨m, hm⟩ := hm
      obtain ⟨s1, hs1, _, _, _, hinv1, _⟩ := touched_spec s x upd lh hm
      simp only [hs1]
      have h1 : RowInv pf s1 := hinv1 pf h
      cases blob with
      | good t => exact finish_inv h1
      | bad e =>
        by_cases hcg : cfg.isCaught e = true
        · simp only [hcg, if_true]; exact finish_inv h1
        · simp only [hcg]; exact h1

theorem initBlock_insertable {s s' : St} {days : Int} (he : initBlock s days = .ok s') : Insertable s'.file := by
  obtain ⟨s'', he', _, _, _, rows, c, p, hfile, _⟩ := initBlock_spec s days
  rw [he] at he'; cases he'
  exact ⟨⟨.ok, rows⟩, by simp [hfile, DbFile.queryable], by simp⟩

theorem parseCached_inv {cfg : Cfg} {s : St} {x : TextId} {days : Int} {upd : Bool} (h : RowInv pf s) :
    RowInv pf (parseCached cfg pf s x days upd).1 := by
  unfold parseCached
  by_cases hi : s.init = true
  · simp only [hi, if_true]
    by_cases hr : (cfg.recover && true && s.file.queryable.isNone) = true
    · simp only [hr, if_true]
      obtain ⟨s', he, _⟩ := initBlock_spec { s with init := false } days
      simp only [he]
      exact afterInit_inv (initBlock_inv (s := { s with init := false }) h he)
    · simp only [hr]
      exact afterInit_inv h
  · have hif : s.init = false := by simpa using hi
    obtain ⟨s', he, _⟩ := initBlock_spec s days
    simp only [hif, he, Bool.false_eq_true, if_false, Bool.and_false, Bool.false_and]
    exact afterInit_inv (initBlock_inv h he)

/-- what a parse through the cache does from a synced state (any `cfg`) -/
theorem parseCached_spec {cfg : Cfg} {s : St} {x : TextId} {days : Int} {upd : Bool} (hc : CaughtAll cfg)
    (h : RowInv pf s) (hs : Synced s) :
    (parseCached cfg pf s x days upd).2 = .value (pf s.ver x) ∧
    (parseCached cfg pf s x days upd).1.init = true ∧
    Insertable (parseCached cfg pf s x days upd).1.file := by
  unfold parseCached
  by_cases hi : s.init = true
  · have hq := hs hi
    have hn : s.file.queryable.isNone = false := by
      obtain ⟨m, hm, _⟩ := hq; simp [hm]
    simp only [hi, if_true, hn, Bool.and_false, Bool.false_eq_true, if_false]
    obtain ⟨h1, _, h3, h4⟩ := afterInit_spec (x := x) (upd := upd) hc h hq
    exact ⟨h1, by rw [h4, hi], h3⟩
  · have hif : s.init = false := by simpa using hi
    obtain ⟨s', he, hinit, hver, _⟩ := initBlock_spec s days
    simp only [hif, he, Bool.false_eq_true, if_false, Bool.and_false, Bool.false_and]
    obtain ⟨h1, _, h3, h4⟩ := afterInit_spec (x := x) (upd := upd) hc (initBlock_inv h he) (initBlock_insertable he)
    exact ⟨by rw [h1, hver], by rw [h4, hinit], h3⟩

/-- with the recovery of fix 821b239 the same holds also when the damage shows at the lookup -/
theorem parseCached_spec_recover {cfg : Cfg} {s : St} {x : TextId} {days : Int} {upd : Bool} (hc : CaughtAll cfg)
    (hr : cfg.recover = true) (h : RowInv pf s) (hu : Usable s) :
    (parseCached cfg pf s x days upd).2 = .value (pf s.ver x) ∧
    (parseCached cfg pf s x days upd).1.init = true ∧
    Insertable (parseCached cfg pf s x days upd).1.file := by
  by_cases hs : Synced s
  · exact parseCached_spec hc h hs
  · have hi : s.init = true := by
      cases hii : s.init with
      | true => rfl
      | false => exact absurd (fun hh => by rw [hii] at hh; cases hh) hs
    have hn : s.file.queryable = none := by
      rcases hu hi with hq | hq
      · exact hq
      · exact absurd (fun _ => hq) hs
    unfold parseCached
    simp only [hi, if_true, hr, hn, Option.isNone_none, Bool.and_self]
    obtain ⟨s', he, hinit, hver, _⟩ := initBlock_spec { s with init := false } days
    simp only [he]
    obtain ⟨h1, _, h3, h4⟩ := afterInit_spec (x := x) (upd := upd) hc
      (initBlock_inv (s := { s with init := false }) h he) (initBlock_insertable he)
    exact ⟨by rw [h1, hver], by rw [h4, hinit], h3⟩

/-- with the recovery *and* a tolerated cache write: the right result from every state that satisfies the row
    invariant, whatever was done to the file, and whenever -/
theorem parseCached_spec_full {cfg : Cfg} {s : St} {x : TextId} {days : Int} {upd : Bool} (hc : CaughtAll cfg)
    (hr : cfg.recover = true) (hw : cfg.writeTolerant = true) (h : RowInv pf s) :
    (parseCached cfg pf s x days upd).2 = .value (pf s.ver x) := by
  by_cases hu : Usable s
  · exact (parseCached_spec_recover hc hr h hu).1
  · have hi : s.init = true := by
      cases hii : s.init with
      | true => rfl
      | false => exact absurd (fun hh => by rw [hii] at hh; cases hh) hu
    have hq : s.file.queryable.isSome = true := by
      cases hqq : s.file.queryable with
      | none => exact absurd (fun _ => Or.inl hqq) hu
      | some m => rfl
    have hn : s.file.queryable.isNone = false := by
      cases hqq : s.file.queryable <;> simp_all
    unfold parseCached
    simp only [hi, if_true, hn, Bool.and_false, Bool.false_eq_true, if_false]
    exact afterInit_tolerant hc hw h hq

/-! ### operations of a history -/

variable {cfg : Cfg}

/-- Operations the statement quantifies over: an entry is damaged into something that does not unpickle,
    or unpickles to `None` — not into a *different well-formed tree* (outside "entries that no longer
    unpickle"; nothing could detect that). -/
def Admissible (pf : Ver → TextId → Option TreeId) : Op → Prop
  | .corruptEntry x v (.good (some t)) => pf v x = some t
  | _ => True

instance (pf : Ver → TextId → Option TreeId) (op : Op) : Decidable (Admissible pf op) := by
  unfold Admissible; split <;> infer_instance

/-- deleting / overwriting the file, dropping the `models` table or replacing it by one with other columns -/
def damaging : Op → Bool
  | .corruptFile _ => true
  | .corruptLayout .models .drop => true
  | .corruptLayout .models .alien => true
  | .corruptLayout .models .extraCol => true
  | _ => false

/-- damage that does not show at the lookup but at the insert (not covered by the recovery of 821b239) -/
def damagingWrite : Op → Bool
  | .corruptLayout .models .extraCol => true
  | _ => false

theorem rowInv_step (s : St) (op : Op) (hadm : Admissible pf op) (h : RowInv pf s) : RowInv pf (step cfg pf s op).1 := by
  cases op with
  | parse x days upd bypass =>
    simp only [step]
    split
    · exact h
    · exact parseCached_inv h
  | reload => exact h
  | setVersion v d => exact h
  | tick us => exact h
  | setInc us => exact h
  | corruptEntry x v b =>
    simp only [step, RowInv, damageEntry]
    cases hq : s.file.queryable with
    | none => exact h
    | some m =>
      intro r hr
      rw [rowsOf_setRows _ hq] at hr
      obtain ⟨r0, hr0, rfl⟩ := List.mem_map.mp hr
      have h0 := h r0 (by rw [queryable_rows hq]; exact hr0)
      by_cases hm : matches_ x v r0 = true
      · simp only [hm, if_true]
        intro t ht
        simp only at ht
        subst ht
        simp [matches_] at hm
        simpa [Admissible, hm.1, hm.2] using hadm
      · simpa [hm] using h0
  | corruptLayout t how =>
    simp only [step, RowInv]
    cases hf : s.file with
    | garbage => simp [damageLayout, FileInv, rowsOf]
    | db m mt =>
      have hrows : ∀ r ∈ rowsOf (damageLayout t how (.db m mt)), r ∈ rowsOf (.db m mt) := by
        cases t <;> cases how <;> cases m <;> simp [damageLayout, rowsOf]
        all_goals (try (rename_i mm; intro r hr; split at hr <;> simp_all))
      intro r hr
      exact h r (by rw [hf]; exact hrows r hr)
  | corruptFile how => cases how <;> simp [step, RowInv, damageFile, FileInv, rowsOf]
  | foreignWrite x v d =>
    simp only [step, RowInv, foreignWrite]
    cases hpf : pf v x with
    | none => exact h
    | some t =>
      simp only []
      cases hi : txInsert x v t (s.now - d * day) s.file with
      | error e => exact h
      | ok f => exact fileInv_insert h hpf hi

theorem insertable_shape {f : DbFile} (h : Insertable f) :
    ∃ m mt, f = .db (some m) mt ∧ m.layout ≠ .alien ∧ m.layout ≠ .extraCol := by
  obtain ⟨m, hq, hl⟩ := h
  cases f with
  | garbage => simp [DbFile.queryable] at hq
  | db mm mt =>
    cases mm with
    | none => simp [DbFile.queryable] at hq
    | some m' =>
      by_cases ha : m'.layout = .alien
      · simp [DbFile.queryable, ha] at hq
      · simp [DbFile.queryable, ha] at hq
        subst hq
        exact ⟨_, _, rfl, ha, hl⟩

theorem insertable_of_shape {m : Models} {mt : Option MetaTbl} (ha : m.layout ≠ .alien) (he : m.layout ≠ .extraCol) :
    Insertable (.db (some m) mt) := ⟨m, by simp [DbFile.queryable, ha], he⟩

theorem insertable_setRows {f : DbFile} {rows : List Row} (h : Insertable f) : Insertable (f.setRows rows) := by
  obtain ⟨m, hq, hl⟩ := h
  exact ⟨_, queryable_setRows rows hq, hl⟩

/-- every operation other than a damaging one keeps a fully usable table fully usable -/
theorem insertable_step_file (s : St) (op : Op) (hd : damaging op = false) (hq : Insertable s.file)
    (hnp : ∀ x d u b, op ≠ .parse x d u b) : Insertable (step cfg pf s op).1.file := by
  cases op with
  | parse x days upd bypass => exact absurd rfl (hnp x days upd bypass)
  | reload => exact hq
  | setVersion v d => exact hq
  | tick us => exact hq
  | setInc us => exact hq
  | corruptEntry x v b =>
    obtain ⟨m, hm, hl⟩ := hq
    simp only [step, damageEntry, hm]
    exact insertable_setRows ⟨m, hm, hl⟩
  | corruptLayout t how =>
    obtain ⟨m, mt, hf, ha, he⟩ := insertable_shape hq
    simp only [step, hf]
    cases t <;> cases how <;> simp [damaging] at hd <;> simp only [damageLayout]
    all_goals first
      | exact insertable_of_shape ha he
      | exact insertable_of_shape (m := ⟨.noPk, _⟩) (by simp) (by simp)
      | (cases mt with
         | none => exact insertable_of_shape ha he
         | some t' => cases t' <;> exact insertable_of_shape ha he)
  | corruptFile how => simp [damaging] at hd
  | foreignWrite x v d =>
    simp only [step, foreignWrite]
    cases pf v x with
    | none => exact hq
    | some t =>
      obtain ⟨f', he, hi⟩ := txInsert_insertable (x := x) (v := v) (tree := t) (t := s.now - d * day) hq
      simp only [he]
      exact hi

theorem synced_step (hc : CaughtAll cfg) (s : St) (op : Op) (h : RowInv pf s) (hs : Synced s)
    (hd : damaging op = true → s.init = false) : Synced (step cfg pf s op).1 := by
  cases op with
  | parse x days upd bypass =>
    simp only [step]
    split
    · exact hs
    · intro _; exact (parseCached_spec (x := x) (days := days) (upd := upd) hc h hs).2.2
  | reload => intro hi; simp [step] at hi
  | setVersion v d => exact hs
  | tick us => exact hs
  | setInc us => exact hs
  | corruptEntry x v b =>
    intro hi
    exact insertable_step_file s _ rfl (hs hi) (fun _ _ _ _ hh => by cases hh)
  | corruptLayout t how =>
    intro hi
    have hi' : s.init = true := hi
    by_cases hdd : damaging (.corruptLayout t how) = true
    · rw [hd hdd] at hi'; cases hi'
    · exact insertable_step_file s _ (by simpa using hdd) (hs hi') (fun _ _ _ _ hh => by cases hh)
  | corruptFile how =>
    intro hi
    have hi' : s.init = true := hi
    have := hd rfl
    rw [this] at hi'; cases hi'
  | foreignWrite x v d =>
    intro hi
    exact insertable_step_file s _ rfl (hs hi) (fun _ _ _ _ hh => by cases hh)

/-- `Usable` (damage shows at the lookup, or none) is kept by everything except write-damage while initialised -/
theorem usable_step (hc : CaughtAll cfg) (hr : cfg.recover = true) (s : St) (op : Op) (h : RowInv pf s) (hu : Usable s)
    (hd : damagingWrite op = true → s.init = false) : Usable (step cfg pf s op).1 := by
  cases op with
  | parse x days upd bypass =>
    simp only [step]
    split
    · exact hu
    · intro _; exact Or.inr (parseCached_spec_recover (x := x) (days := days) (upd := upd) hc hr h hu).2.2
  | reload => intro hi; simp [step] at hi
  | setVersion v d => exact hu
  | tick us => exact hu
  | setInc us => exact hu
  | corruptEntry x v b =>
    intro hi
    rcases hu hi with hq | hq
    · left; simp [step, damageEntry, hq]
    · right; exact insertable_step_file s _ rfl hq (fun _ _ _ _ hh => by cases hh)
  | corruptLayout t how =>
    intro hi
    have hi' : s.init = true := hi
    by_cases hw : damagingWrite (.corruptLayout t how) = true
    · rw [hd hw] at hi'; cases hi'
    · by_cases hdd : damaging (.corruptLayout t how) = true
      · -- drop / alien: the table can no longer be queried
        left
        cases t <;> cases how <;> simp [damaging, damagingWrite] at hdd hw <;>
          (cases hf : s.file <;> simp [step, hf, damageLayout, DbFile.queryable])
      · rcases hu hi' with hq | hq
        · -- not queryable before: a `noPk` replacement makes it usable, everything else leaves it as it is
          cases hf : s.file with
          | garbage => left; simp [step, hf, damageLayout, DbFile.queryable]
          | db m mt =>
            cases t <;> cases how <;> simp [damaging, damagingWrite] at hdd hw
            all_goals first
              | (right; simp only [step, hf, damageLayout]; exact insertable_of_shape (m := ⟨.noPk, _⟩) (by simp) (by simp))
              | (left
                 have hq' := hq
                 rw [hf] at hq'
                 cases m with
                 | none => simp [step, hf, damageLayout, DbFile.queryable]
                 | some mm =>
                   by_cases ha : mm.layout = .alien
                   · simp [step, hf, damageLayout, DbFile.queryable, ha]
                   · simp [DbFile.queryable, ha] at hq')
        · right; exact insertable_step_file s _ (by simpa using hdd) hq (fun _ _ _ _ hh => by cases hh)
  | corruptFile how =>
    intro _
    left
    cases how <;> simp [step, damageFile, DbFile.queryable]
  | foreignWrite x v d =>
    intro hi
    rcases hu hi with hq | hq
    · left
      simp only [step, foreignWrite]
      cases pf v x with
      | none => exact hq
      | some t => simp [txInsert, hq]
    · right; exact insertable_step_file s _ rfl hq (fun _ _ _ _ hh => by cases hh)

/-- planting a blob that unpickles to `None` is the only way such a row comes into existence -/
def plantsNone : Op → Bool
  | .corruptEntry _ _ (.good none) => true
  | _ => false

theorem noNone_setRows {f : DbFile} {m : Models} {rows : List Row} (hq : f.queryable = some m)
    (h : ∀ r ∈ rows, r.blob ≠ .good none) : NoNone (f.setRows rows) := by
  intro r hr
  rw [rowsOf_setRows _ hq] at hr
  exact h r hr

theorem noNone_insert {f f' : DbFile} {x : TextId} {v : Ver} {tree : TreeId} {t : Int} (h : NoNone f)
    (he : txInsert x v tree t f = .ok f') : NoNone f' := by
  obtain ⟨m, hq, _, rfl⟩ := txInsert_ok he
  apply noNone_setRows hq
  intro r hr
  rcases List.mem_append.mp hr with hr | hr
  · have : r ∈ m.rows := by
      split at hr
      · exact (List.mem_filter.mp hr).1
      · exact hr
    exact h r (by rw [queryable_rows hq]; exact this)
  · simp at hr; subst hr; simp

theorem noNone_finish {cfg : Cfg} {s : St} {x : TextId} {tree : Option TreeId} (h : NoNone s.file) :
    NoNone (finish cfg pf s x tree).1.file := by
  unfold finish
  split
  · exact h
  · split
    · exact h
    · simp only []
      split
      · split <;> exact h
      · rename_i f he
        exact noNone_insert (f := s.file) h (by simpa [St.read] using he)

theorem noNone_afterInit {cfg : Cfg} {s : St} {x : TextId} {upd : Bool} (h : NoNone s.file) :
    NoNone (afterInit cfg pf s x upd).1.file := by
  unfold afterInit
  cases hl : txLookup x s.ver s.file with
  | error e => exact h
  | ok o =>
    cases o with
    | none => exact noNone_finish h
    | some lb =>
      obtain ⟨lh, blob⟩ := lb
      have hm : ∃ m, s.file.queryable = some m := by
        cases hq : s.file.queryable with
        | none => simp [txLookup, hq] at hl
        | some m => exact ⟨m, rfl⟩
      obtain ⟨m, hm⟩ := hm
      obtain ⟨s1, hs1, _, _, _, _, hnn⟩ := touched_spec s x upd lh hm
      simp only [hs1]
      have h1 : NoNone s1.file := hnn h
      cases blob with
      | good t => exact noNone_finish h1
      | bad e =>
        by_cases hcg : cfg.isCaught e = true
        · simp only [hcg, if_true]; exact noNone_finish h1
        · simp only [hcg]; exact h1

theorem noNone_initBlock {s s' : St} {days : Int} (h : NoNone s.file) (he : initBlock s days = .ok s') :
    NoNone s'.file := by
  obtain ⟨s'', he', _, _, _, rows, c, p, hfile, hsub⟩ := initBlock_spec s days
  rw [he] at he'; cases he'
  intro r hr
  rw [hfile] at hr
  exact h r (hsub r (by simpa [rowsOf] using hr))

theorem noNone_step (s : St) (op : Op) (hp : plantsNone op = false) (h : NoNone s.file) :
    NoNone (step cfg pf s op).1.file := by
  cases op with
  | parse x days upd bypass =>
    simp only [step]
    split
    · exact h
    · unfold parseCached
      by_cases hi : s.init = true
      · simp only [hi, if_true]
        by_cases hr : (cfg.recover && true && s.file.queryable.isNone) = true
        · simp only [hr, if_true]
          obtain ⟨s', he, _⟩ := initBlock_spec { s with init := false } days
          simp only [he]
          exact noNone_afterInit (noNone_initBlock (s := { s with init := false }) h he)
        · simp only [hr]
          exact noNone_afterInit h
      · have hif : s.init = false := by simpa using hi
        obtain ⟨s', he, _⟩ := initBlock_spec s days
        simp only [hif, he, Bool.false_eq_true, if_false, Bool.and_false, Bool.false_and]
        exact noNone_afterInit (noNone_initBlock h he)
  | reload => exact h
  | setVersion v d => exact h
  | tick us => exact h
  | setInc us => exact h
  | corruptEntry x v b =>
    simp only [step, damageEntry]
    cases hq : s.file.queryable with
    | none => exact h
    | some m =>
      apply noNone_setRows hq
      intro r hr
      obtain ⟨r0, hr0, rfl⟩ := List.mem_map.mp hr
      have h0 := h r0 (by rw [queryable_rows hq]; exact hr0)
      split
      · cases b with
        | good t => cases t <;> simp_all [plantsNone]
        | bad e => simp
      · exact h0
  | corruptLayout t how =>
    simp only [step]
    cases hf : s.file with
    | garbage => simp [damageLayout, NoNone, rowsOf]
    | db m mt =>
      have hrows : ∀ r ∈ rowsOf (damageLayout t how (.db m mt)), r ∈ rowsOf (.db m mt) := by
        cases t <;> cases how <;> cases m <;> simp [damageLayout, rowsOf]
        all_goals (try (rename_i mm; intro r hr; split at hr <;> simp_all))
      intro r hr
      exact h r (by rw [hf]; exact hrows r hr)
  | corruptFile how => cases how <;> simp [step, damageFile, NoNone, rowsOf]
  | foreignWrite x v d =>
    simp only [step, foreignWrite]
    cases pf v x with
    | none => exact h
    | some t =>
      simp only []
      cases hi : txInsert x v t (s.now - d * day) s.file with
      | error e => exact h
      | ok f => exact noNone_insert h hi

theorem initial_inv (t0 : Int) : RowInv pf (St.initial t0) := by
  intro r hr; simp [St.initial, rowsOf] at hr

theorem initial_synced (t0 : Int) : Synced (St.initial t0) := by
  intro h; simp [St.initial] at h


end PymocaVerif.ParseCache
