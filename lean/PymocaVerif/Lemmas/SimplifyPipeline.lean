import PymocaVerif.Lemmas.SimplifyElim
import PymocaVerif.Lemmas.SimplifyAlias
import PymocaVerif.Lemmas.SimplifyAffine
/-!
# Simplify: composition of the passes (`_simplify_once`, the loop of `simplify`)
Helper lemmas for C14/C15.
-/
set_option linter.unusedSectionVars false
set_option linter.unusedSimpArgs false
namespace PymocaVerif.Simplify
open PymocaVerif.AliasRel Lean.Grind

variable {K : Type} [Field K] [DecidableEq K]

/-- The preconditions the property attaches to individual options, stated for the model a pass
    receives: `factor_and_simplify_equations` only drops non-zero constant factors; the alias
    detection's generic test is applied to equations that determine the tested symbol (affine with
    invertible coefficient, or bijective) and CasADi's `is_zero` is right when it says "zero";
    `if_else_zero` forms seen by `eliminable_variable_expression` have complementary conditions. -/
def PassPre (I : Interp K) (σ : Env K) (E : Engine K) (p : Pass) (m : Model K) : Prop :=
  match p with
  | .factor => ∀ e ∈ m.eqs, FactorPre e
  | .elim => ∀ e ∈ m.eqs, ExtractPre I σ e
  | .alias => ∀ k e, m.eqs[k]? = some e → GzOk I E k (E.view k e)
  | _ => True

/-- forward soundness of any single pass -/
theorem pass_run_sound {I : Interp K} (hI : InterpOk I) {E : Engine K} (hE : EngineOk I E) {σ : Env K} (o : Opts)
    (p : Pass) {m m' : Model K} (hpre : PassPre I σ E p m) (h : Pass.run E o p m = .ok m') (hs : Sat I σ m) :
    Sat I σ m' := by
  cases p <;> simp only [Pass.run] at h
  · simp at h; subst h; exact (resolve_sat hE m).2 hs
  · simp at h; subst h; exact pexpr_sound hE m hs
  · simp at h; subst h; exact cexpr_sound hE m hs
  · simp at h; subst h; exact (cassign_sat m).2 hs
  · exact pvalues_sound hE h hs
  · exact cvalues_sound hE h hs
  · exact elim_sound hE h hpre hs
  · simp at h; subst h; exact (factor_sound hI hpre).2 hs
  · exact alias_sound hE hpre h hs

/-- the preconditions along one run of the enabled passes -/
def RunPre (I : Interp K) (σ : Env K) (E : Pass → Engine K) (o : Opts) : List Pass → Model K → Prop
  | [], _ => True
  | p :: ps, m =>
    if p.enabled o then
      PassPre I σ (E p) p m ∧ ∀ m', Pass.run (E p) o p m = .ok m' → RunPre I σ E o ps m'
    else RunPre I σ E o ps m

theorem runPasses_sound {I : Interp K} (hI : InterpOk I) {E : Pass → Engine K} (hE : ∀ p, EngineOk I (E p))
    {σ : Env K} (o : Opts) : ∀ (ps : List Pass) (m m' : Model K), RunPre I σ E o ps m →
      runPasses E o ps m = .ok m' → Sat I σ m → Sat I σ m'
  | [], m, m', _, h, hs => by simp [runPasses] at h; subst h; exact hs
  | p :: ps, m, m', hpre, h, hs => by
    simp only [runPasses] at h
    simp only [RunPre] at hpre
    split at h
    · rename_i hen
      simp only [hen, if_true] at hpre
      split at h
      · simp at h
      · rename_i m1 h1
        exact runPasses_sound hI hE o ps m1 m' (hpre.2 m1 h1) h (pass_run_sound hI (hE p) o p hpre.1 h1 hs)
    · rename_i hen
      simp only [hen] at hpre
      exact runPasses_sound hI hE o ps m m' (by simpa using hpre) h hs

/-- what one `_simplify_once` needs: the per-pass preconditions along the run, and — when the affine
    collapse is requested — that the equations it is applied to are affine in the unknowns and inputs -/
def OncePre (I : Interp K) (σ : Env K) (E : Pass → Engine K) (o : Opts) (m : Model K) : Prop :=
  RunPre I σ E o Pass.order m ∧
  (o.reduceAffine = true → ∀ m1, runPasses E o Pass.order m = .ok m1 → AffinePre m1)

theorem simplifyOnce_sound {I : Interp K} (hI : InterpOk I) {E : Pass → Engine K} (hE : ∀ p, EngineOk I (E p))
    {σ : Env K} (o : Opts) {m m' : Model K} (hpre : OncePre I σ E o m)
    (h : simplifyOnce E o m = .ok m') (hs : Sat I σ m) : Sat I σ m' := by
  unfold simplifyOnce at h
  split at h
  · simp at h
  · split at h
    · simp at h
    · rename_i m1 h1
      have hs1 := runPasses_sound hI hE o _ m m1 hpre.1 h1 hs
      simp at h; subst h
      split
      · rename_i hra
        exact (reduceAffine_sat (hpre.2 hra m1 h1)).2 hs1
      · exact hs1

/-- the preconditions along the iterations of `simplify` -/
def LoopPre (I : Interp K) (σ : Env K) (E : Nat → Pass → Engine K) (o : Opts) : Nat → Nat → Model K → Prop
  | 0, _, _ => True
  | fuel + 1, i, m =>
    OncePre I σ (E i) o m ∧ ∀ m', simplifyOnce (E i) o m = .ok m' → LoopPre I σ E o fuel (i + 1) m'

theorem simplifyLoop_sound {I : Interp K} (hI : InterpOk I) {E : Nat → Pass → Engine K}
    (hE : ∀ i p, EngineOk I (E i p)) {σ : Env K} (o : Opts) :
    ∀ (fuel i left : Nat) (m m' : Model K), LoopPre I σ E o fuel i m →
      simplifyLoop E o fuel i left m = .ok m' → Sat I σ m → Sat I σ m'
  | 0, i, left, m, m', _, h, hs => by
    simp [simplifyLoop] at h; subst h
    exact ⟨hs.eqs, hs.params, hs.consts, hs.alias⟩
  | fuel + 1, i, left, m, m', hpre, h, hs => by
    simp only [simplifyLoop] at h
    simp only [LoopPre] at hpre
    split at h
    · simp at h
    · rename_i m1 h1
      have hs1 := simplifyOnce_sound hI (hE i) o hpre.1 h1 hs
      split at h
      · split at h
        · simp at h
        · exact simplifyLoop_sound hI hE o fuel (i + 1) _ m1 m' (hpre.2 m1 h1) h hs1
      · simp at h; subst h; exact hs1

/-- option sets that enable only passes without a precondition -/
def Opts.plain (o : Opts) : Prop :=
  o.factorAndSimplify = false ∧ o.eliminable = none ∧ o.detectAliases = false ∧ o.reduceAffine = false

theorem runPre_plain {I : Interp K} {σ : Env K} {E : Pass → Engine K} {o : Opts} (ho : o.plain) :
    ∀ (ps : List Pass) (m : Model K), RunPre I σ E o ps m
  | [], _ => trivial
  | p :: ps, m => by
    simp only [RunPre]
    split
    · rename_i hen
      refine ⟨?_, fun m' _ => runPre_plain ho ps m'⟩
      cases p <;> simp only [PassPre] <;> simp [Pass.enabled, ho.1, ho.2.1, ho.2.2.1] at hen
    · exact runPre_plain ho ps m

theorem loopPre_plain {I : Interp K} {σ : Env K} {E : Nat → Pass → Engine K} {o : Opts} (ho : o.plain) :
    ∀ (fuel i : Nat) (m : Model K), LoopPre I σ E o fuel i m
  | 0, _, _ => trivial
  | fuel + 1, i, m => ⟨⟨runPre_plain ho _ m, fun hra => by simp [ho.2.2.2] at hra⟩, fun m' _ => loopPre_plain ho fuel (i + 1) m'⟩

end PymocaVerif.Simplify
