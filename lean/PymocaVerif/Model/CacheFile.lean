/-!
# Byte-level model of two `transfer_model` calls sharing one cache file (C21)

`save_model` writes the cache with `open(db_file, "wb")` + `pickle.dump`: `open` truncates
the file, every writer has its own file offset (no `O_APPEND`), `pickle.dump` issues one or
more `write` calls, each of which may reach the disk in pieces.  A variant writes to a private
temporary file and renames it over the cache file (`Act.replace`): readers see the old or the new
complete file.  A call first loads
(`load_model`), and only a call whose load failed compiles and writes.  Both calls compile the
same sources with the same options, so both write the same byte string `B` (`N` bytes).

A file is a length and a byte function (bytes at or beyond the length are irrelevant).
-/
namespace PymocaVerif.CacheFile

structure File where
  len : Nat
  byte : Nat → Nat

def File.empty : File := ⟨0, fun _ => 0⟩

/-- `write` of the bytes `data[pos .. pos+n)` at offset `pos`; a gap between the old end and
    `pos` reads as zeros. -/
def File.writeAt (f : File) (pos n : Nat) (data : Nat → Nat) : File :=
  ⟨max f.len (pos + n),
   fun j => if pos ≤ j ∧ j < pos + n then data j else if j < f.len then f.byte j else 0⟩

/-- the file holds exactly the `N` bytes of `B` -/
def File.isAll (f : File) (B : Nat → Nat) (N : Nat) : Bool :=
  f.len == N && (List.range N).all (fun j => f.byte j == B j)

/-- the file holds exactly the first `p` bytes of `B` -/
def File.isPrefix (f : File) (B : Nat → Nat) (p : Nat) : Bool :=
  f.len == p && (List.range p).all (fun j => f.byte j == B j)

/-- the complete file -/
def File.full (B : Nat → Nat) (N : Nat) : File := ⟨N, B⟩

def File.bytes (f : File) : List Nat := (List.range f.len).map f.byte

/-- Progress of one `transfer_model` call. -/
inductive Phase
  | start                 -- before `load_model`
  | missed                -- load failed (no file / invalid): compiling, file not opened yet
  | writing (pos : Nat)   -- inside `save_model`, `pos` bytes issued
  | done (hit : Bool)     -- returned (`hit`: from the cache)
  deriving DecidableEq, Repr

def Phase.opened : Phase → Bool
  | .writing _ => true | .done false => true | _ => false

structure Sys where
  file : Option File
  ph : Bool → Phase
  /-- which call opened the file most recently -/
  last : Option Bool

inductive Act
  | load (i : Bool)
  | openW (i : Bool)
  | write (i : Bool) (n : Nat)
  | close (i : Bool)
  /-- atomic installation: the call wrote all of `B` to a private temporary file (invisible to
      readers) and renames it over the cache file (`os.replace`) -/
  | replace (i : Bool)
  deriving DecidableEq, Repr

def setPh (ph : Bool → Phase) (i : Bool) (p : Phase) : Bool → Phase :=
  fun j => if j = i then p else ph j

/-- One atomic step; `none` when the action is not enabled.  `valid f` is the loader's
    verdict on the file content it reads (the model's use of it: a complete `B` is valid). -/
def step (B : Nat → Nat) (N : Nat) (valid : File → Bool) (s : Sys) : Act → Option Sys
  | .load i =>
    match s.ph i with
    | .start =>
      let hit := match s.file with | none => false | some f => valid f
      some { s with ph := setPh s.ph i (if hit then .done true else .missed) }
    | _ => none
  | .openW i =>
    match s.ph i with
    | .missed => some { file := some File.empty, ph := setPh s.ph i (.writing 0), last := some i }
    | _ => none
  | .write i n =>
    match s.ph i with
    | .writing pos =>
      if 0 < n ∧ pos + n ≤ N then
        some { s with file := some ((s.file.getD File.empty).writeAt pos n B),
                      ph := setPh s.ph i (.writing (pos + n)) }
      else none
    | _ => none
  | .close i =>
    match s.ph i with
    | .writing pos => if pos = N then some { s with ph := setPh s.ph i (.done false) } else none
    | _ => none
  | .replace i =>
    match s.ph i with
    | .missed => some { file := some (File.full B N), ph := setPh s.ph i (.done false), last := some i }
    | _ => none

def runActs (B : Nat → Nat) (N : Nat) (valid : File → Bool) : Sys → List Act → Option Sys
  | s, [] => some s
  | s, a :: rest => match step B N valid s a with
    | none => none
    | some s' => runActs B N valid s' rest

def init (f0 : Option File) : Sys := ⟨f0, fun _ => .start, none⟩

/-! ### The same system when the two calls write *different* byte strings

Call `i` writes `B i` (`N i` bytes): two `transfer_model` calls with different options, or on
sources edited in between. -/

def stepG (B : Bool → Nat → Nat) (N : Bool → Nat) (valid : File → Bool) (s : Sys) : Act → Option Sys
  | .load i =>
    match s.ph i with
    | .start =>
      let hit := match s.file with | none => false | some f => valid f
      some { s with ph := setPh s.ph i (if hit then .done true else .missed) }
    | _ => none
  | .openW i =>
    match s.ph i with
    | .missed => some { file := some File.empty, ph := setPh s.ph i (.writing 0), last := some i }
    | _ => none
  | .write i n =>
    match s.ph i with
    | .writing pos =>
      if 0 < n ∧ pos + n ≤ N i then
        some { s with file := some ((s.file.getD File.empty).writeAt pos n (B i)),
                      ph := setPh s.ph i (.writing (pos + n)) }
      else none
    | _ => none
  | .close i =>
    match s.ph i with
    | .writing pos => if pos = N i then some { s with ph := setPh s.ph i (.done false) } else none
    | _ => none
  | .replace i =>
    match s.ph i with
    | .missed => some { file := some (File.full (B i) (N i)), ph := setPh s.ph i (.done false), last := some i }
    | _ => none

def runActsG (B : Bool → Nat → Nat) (N : Bool → Nat) (valid : File → Bool) : Sys → List Act → Option Sys
  | s, [] => some s
  | s, a :: rest => match stepG B N valid s a with
    | none => none
    | some s' => runActsG B N valid s' rest

/-- the schedule uses the atomic writer only (temporary file + rename), never in-place writes -/
def atomicOnly : List Act → Bool
  | [] => true
  | .openW _ :: _ => false
  | .write _ _ :: _ => false
  | .close _ :: _ => false
  | _ :: rest => atomicOnly rest

end PymocaVerif.CacheFile
