import PymocaVerif.Lemmas.SimplifyAliasElim
/-!
# Simplify: completeness of the substituting passes (a solution of the result extends to a
solution of the input)
Helper lemmas for C14.
-/
set_option linter.unusedSectionVars false
set_option linter.unusedSimpArgs false
namespace PymocaVerif.Simplify
open PymocaVerif.AliasRel Lean.Grind

variable {K : Type} [Field K] [DecidableEq K]

/-! ## completeness: a solution of the simplified model extends to a solution of the original -/

theorem eval_sub_upd {I : Interp K} {E : Engine K} (hE : EngineOk I E) (τ : Env K) (l : List (String × Ex K)) (e : Ex K) :
    (E.sub l e).eval I τ = e.eval I (upd I τ l) := by
  unfold Engine.sub; rw [hE.norm_eval, eval_subst]

theorem lookup_none_of_not_mem {α} : ∀ (l : List (String × α)) (n : String), n ∉ l.map (·.1) → l.lookup n = none
  | [], _, _ => rfl
  | (k, v) :: ps, n, h => by
    simp only [List.map_cons, List.mem_cons, _root_.not_or] at h
    have : (n == k) = false := by simpa using h.1
    simp only [List.lookup, this]
    exact lookup_none_of_not_mem ps n h.2

theorem upd_off {I : Interp K} (τ : Env K) (l : List (String × Ex K)) (n : String) (h : n ∉ l.map (·.1)) :
    upd I τ l n = τ n := by
  unfold upd; rw [lookup_none_of_not_mem l n h]

theorem lookup_of_mem_nodup {α} : ∀ (l : List (String × α)) (n : String) (t : α), (l.map (·.1)).Nodup → (n, t) ∈ l →
    l.lookup n = some t
  | [], _, _, _, h => by simp at h
  | (k, v) :: ps, n, t, hnd, h => by
    simp only [List.map_cons, List.nodup_cons] at hnd
    rcases List.mem_cons.1 h with h | h
    · simp at h; obtain ⟨rfl, rfl⟩ := h; simp [List.lookup]
    · have hne : n ≠ k := by
        intro e
        exact hnd.1 (List.mem_map.2 ⟨(n, t), h, e⟩)
      have : (n == k) = false := by simpa using hne
      simp only [List.lookup, this]
      exact lookup_of_mem_nodup ps n t hnd.2 h

theorem nodup_map_inj {α β} (f : α → β) : ∀ (l : List α), (l.map f).Nodup → ∀ a ∈ l, ∀ b ∈ l, f a = f b → a = b
  | [], _, a, ha, _, _, _ => by simp at ha
  | x :: xs, hnd, a, ha, b, hb, hab => by
    simp only [List.map_cons, List.nodup_cons] at hnd
    rcases List.mem_cons.1 ha with h1 | h1 <;> rcases List.mem_cons.1 hb with h2 | h2
    · rw [h1, h2]
    · rw [h1] at hab
      exact absurd (List.mem_map.2 ⟨b, h2, hab.symm⟩) hnd.1
    · rw [h2] at hab
      exact absurd (List.mem_map.2 ⟨a, h1, hab⟩) hnd.1
    · exact nodup_map_inj f xs hnd.2 a h1 b h2 hab

/-- the alias relation does not mention any of the names `D` -/
def ARFree (D : List String) (ar : AR) : Prop :=
  (∀ x A, ar.al x = some A → x.2 ∉ D ∧ ∀ y ∈ A, y.2 ∉ D) ∧
  (∀ x c, ar.cmap x = some c → x.2 ∉ D ∧ c.1 ∉ D)

theorem sval_congr {σ τ : Env K} {x : SName} (h : σ x.2 = τ x.2) : sval σ x = sval τ x := by
  unfold sval; rw [h]

theorem aliasOk_of_agree {σ τ : Env K} {ar : AR} {D : List String} (hfree : ARFree D ar)
    (hag : ∀ n, n ∉ D → σ n = τ n) (h : AliasOk τ ar) : AliasOk σ ar := by
  constructor
  · intro x A hx y hy
    have := hfree.1 x A hx
    rw [sval_congr (hag _ (this.2 y hy)), sval_congr (hag _ this.1)]
    exact h.1 x A hx y hy
  · intro x c hx
    have := hfree.2 x c hx
    rw [sval_congr (hag _ this.1), sval_congr (σ := σ) (τ := τ) (x := (c.2, c.1)) (hag _ this.2)]
    exact h.2 x c hx

theorem valok_back {I : Interp K} {E : Engine K} (hE : EngineOk I E) {τ : Env K} {l : List (String × Ex K)}
    {vs : List (Var K)} (hdis : ∀ v ∈ vs, v.name ∉ l.map (·.1))
    (h : ValOk I τ (vs.map (Var.mapValue (E.sub l)))) : ValOk I (upd I τ l) vs := by
  intro v hv t ht
  have := h (Var.mapValue (E.sub l) v) (List.mem_map_of_mem hv) (E.sub l t) (by simp [Var.mapValue, ht])
  rw [upd_off τ l v.name (hdis v hv), ← eval_sub_upd hE]
  simpa [Var.mapValue] using this

theorem eqok_back {I : Interp K} {E : Engine K} (hE : EngineOk I E) {τ : Env K} {l : List (String × Ex K)}
    {es : List (Ex K)} (h : EqOk I τ (es.map (E.sub l))) : EqOk I (upd I τ l) es := by
  intro e he
  rw [← eval_sub_upd hE]
  exact h _ (List.mem_map_of_mem he)

/-- all variable names of the model are distinct (they are keys of one Python dict, `all_states`) -/
def NamesNodup (m : Model K) : Prop :=
  (names m.states ++ names m.ders ++ names m.algs ++ names m.inputs ++ names m.params ++ names m.consts).Nodup

theorem removeAliased_id : ∀ (vs : List (Var K)) (ar : AR), (∀ v ∈ vs, v.aliased = false) → removeAliased vs ar = .ok ar
  | [], _, _ => rfl
  | v :: vs, ar, h => by
    simp only [removeAliased, h v (by simp)]
    exact removeAliased_id vs ar (fun w hw => h w (List.mem_cons_of_mem _ hw))

/-- replace_parameter_values loses no constraint: a solution of the result, with the removed
    parameters set to their values, solves the model it was given -/
theorem pvalues_complete {I : Interp K} {E : Engine K} (hE : EngineOk I E) {τ : Env K} {m m' : Model K}
    (h : replaceParameterValues E m = .ok m') (hnd : NamesNodup m)
    (hna : ∀ v ∈ m.params, hasConstValue v = true → v.aliased = false)
    (hfree : ARFree ((constValues m.params).map (·.1)) m.ar) (hs : Sat I τ m') :
    ∃ σ, Sat I σ m ∧ ∀ n, n ∉ (constValues m.params).map (·.1) → σ n = τ n := by
  unfold replaceParameterValues at h
  rw [removeAliased_id _ _ (fun v hv => hna v (List.mem_filter.1 hv).1 (List.mem_filter.1 hv).2)] at h
  simp [bind, Except.bind, pure, Except.pure] at h
  subst h
  refine ⟨upd I τ (constValues m.params), ?_, fun n hn => upd_off τ _ n hn⟩
  have hpn : (names m.params).Nodup := by
    unfold NamesNodup at hnd
    simp only [List.nodup_append] at hnd
    exact hnd.1.2.1
  have hcn : ∀ v ∈ m.consts, v.name ∉ names m.params := by
    intro v hv hp
    unfold NamesNodup at hnd
    rw [List.nodup_append] at hnd
    exact hnd.2.2 v.name (List.mem_append_right _ hp) v.name (List.mem_map.2 ⟨v, hv, rfl⟩) rfl
  have hdom : ∀ n, n ∈ (constValues m.params).map (·.1) → n ∈ names m.params := by
    intro n hn
    obtain ⟨p, hp, rfl⟩ := List.mem_map.1 hn
    obtain ⟨_, v, hv, hname, _⟩ := constValues_const (vs := m.params) (n := p.1) (t := p.2) hp
    exact List.mem_map.2 ⟨v, hv, hname⟩
  refine ⟨eqok_back hE hs.eqs, ?_, ?_, aliasOk_of_agree hfree (fun n hn => upd_off τ _ n hn) hs.alias⟩
  · -- parameters: the kept ones by substitution, the removed ones by their binding
    intro v hv t ht
    by_cases hc : hasConstValue v = true
    · unfold hasConstValue at hc
      split at hc
      · rename_i c hval
        rw [hval] at ht; simp at ht; subst ht
        have hmem : (v.name, Ex.const c) ∈ constValues m.params :=
          List.mem_filterMap.2 ⟨v, hv, by simp [hval]⟩
        have hndl : ((constValues m.params).map (·.1)).Nodup := by
          have : (constValues m.params).map (·.1) = names (m.params.filter hasConstValue) := by
            clear hmem hdom hcn hna hfree hs hnd hpn
            induction m.params with
            | nil => rfl
            | cons a as ih =>
              simp only [constValues, List.filterMap_cons, List.filter_cons] at ih ⊢
              cases hav : a.value with
              | none => simp [hasConstValue, hav]; exact ih
              | some e =>
                cases e <;> simp [hasConstValue, hav, names] <;> exact ih
          rw [this]; exact filter_name_nodup _ hpn
        simp only [upd, lookup_of_mem_nodup _ _ _ hndl hmem, Ex.eval]
      · simp at hc
    · have hv' : v ∈ m.params.filter (fun v => !hasConstValue v) := List.mem_filter.2 ⟨hv, by simpa using hc⟩
      have hval := valok_back hE (vs := m.params.filter (fun v => !hasConstValue v)) (τ := τ) (l := constValues m.params)
        (by
          intro w hw hin
          obtain ⟨p, hp, hpe⟩ := List.mem_map.1 hin
          obtain ⟨_, u, hu, hname, hcu⟩ := constValues_const (vs := m.params) (n := p.1) (t := p.2) hp
          have hwm := List.mem_filter.1 hw
          -- same name, distinct names: same variable
          have : u = w := by
            have hnd' := hpn
            unfold names at hnd'
            exact nodup_map_inj _ _ hnd' u hu w hwm.1 (by rw [hname, hpe])
          subst this
          simp [hcu] at hwm)
        (by simpa [substMeta] using hs.params)
      exact hval v hv' t ht
  · exact valok_back hE (fun v hv hin => hcn v hv (hdom _ hin)) (by simpa [substMeta] using hs.consts)

end PymocaVerif.Simplify
