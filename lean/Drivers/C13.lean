import Drivers.Proto
import PymocaVerif.Model.Attr
/-! Driver for C13: stored attribute kinds and element values of generated declarations, and the
    five metadata matrices, at exact parameter vectors. -/
open Lean Drivers PymocaVerif PymocaVerif.Attr

def parseRat (j : Json) : Except String Rat := do
  let a ← j.getArr?
  let n ← (a[0]?.getD Json.null).getInt?
  let d ← (a[1]?.getD Json.null).getNat?
  if d == 0 then throw "zero denominator" else pure (mkRat n d)

def showNum : Num → Json
  | .nan => Json.str "nan"
  | .pinf => Json.str "inf"
  | .ninf => Json.str "-inf"
  | .fin q => Json.arr #[Json.num (JsonNumber.fromInt q.num), Json.num (JsonNumber.fromNat q.den)]

def parseLit (j : Json) : Except String Lit := do
  let t ← getStr j "t"
  match t with
  | "int" => pure (.int (← getInt j "v"))
  | "real" => pure (.real (← parseRat (← getObj j "v")))
  | "bool" => pure (.bool (← getBool j "v"))
  | "inf" => pure (.inf (← getBool j "neg"))
  | _ => throw s!"bad literal {t}"

def parsePType (s : String) : Except String PType :=
  match s with
  | "Real" => pure .float
  | "Integer" => pure .int
  | "Boolean" => pure .bool
  | _ => throw s!"bad type {s}"

def showPType : PType → String
  | .float => "float" | .int => "int" | .bool => "bool"

/-- offsets and sizes of the parameters in the parameter vector -/
structure ParInfo where
  off : Nat
  n : Nat

partial def parseE (ps : Array ParInfo) (j : Json) : Except String E := do
  let op ← getStr j "op"
  let sub (k : String) : Except String E := do parseE ps (← getObj j k)
  match op with
  | "num" => pure (.num (← parseRat (← getObj j "v")))
  | "par" => do
    let i ← getNat j "i"
    let some pi := ps[i]? | throw "bad parameter index"
    match (← getObj j "el") with
    | Json.null => pure (.par pi.off pi.n)
    | el => do
      let k ← el.getNat?
      if k == 0 || k > pi.n then throw "bad element index" else pure (.par (pi.off + (k - 1)) 1)
  | "neg" => return .neg (← sub "a")
  | "abs" => return .abs (← sub "a")
  | "add" => return .add (← sub "a") (← sub "b")
  | "sub" => return .sub (← sub "a") (← sub "b")
  | "mul" => return .mul (← sub "a") (← sub "b")
  | "div" => return .div (← sub "a") (← sub "b")
  | "max" => return .max (← sub "a") (← sub "b")
  | "min" => return .min (← sub "a") (← sub "b")
  | "ite" => do
    let c ← getNat j "c"
    let some pi := ps[c]? | throw "bad parameter index"
    return .ite pi.off (← sub "a") (← sub "b")
  | _ => throw s!"bad expression op {op}"

def parseDecl (ps : Array ParInfo) (j : Json) : Except String Decl := do
  let k ← getStr j "k"
  match k with
  | "lit" => return .lit (← parseLit (← getObj j "v"))
  | "arr" => do
    let rows ← (← getArr j "rows").toList.mapM fun r => do
      (← r.getArr?).toList.mapM parseLit
    return .arr rows
  | "expr" => return .expr (← parseE ps (← getObj j "e"))
  | "arrexpr" => do
    match j.getObjVal? "rows" with
    | .ok rows => do
      let rs ← (← rows.getArr?).toList.mapM fun r => do (← r.getArr?).toList.mapM (parseE ps)
      return .arrE rs
    | .error _ => do
      let es ← (← getArr j "elems").toList.mapM (parseE ps)
      return .arrE (es.map fun e => [e])
  | "dm" => return .dm (← parseRat (← getObj j "v"))
  | "dmat" => do
    let rows ← (← getArr j "rows").toList.mapM fun r => do (← r.getArr?).toList.mapM parseRat
    return .dmat rows
  | "notlit" => do
    -- `not <literal>` is `ca.if_else(literal, 0, 1, True)`: the walk delivers a 1×1 DM, the same kind
    -- (`Walk.dm`) as a product of two numerals
    let b ← getBool j "v"
    return .expr (.mul (.num 1) (.num (if b then 0 else 1)))
  | _ => throw s!"bad declaration {k}"

def optDecl (ps : Array ParInfo) (attrs : Json) (k : String) : Except String (Option Decl) :=
  match attrs.getObjVal? k with
  | .ok Json.null => pure none
  | .ok d => (parseDecl ps d).map some
  | .error _ => pure none

def parseDims (j : Json) : Except String (List Nat) := do
  (← getArr j "dims").toList.mapM (·.getNat?)

def parseVar (ps : Array ParInfo) (j : Json) : Except String Var := do
  let t ← parsePType (← getStr j "type")
  let dims ← parseDims j
  let attrs ← getObj j "attrs"
  pure { ptype := t, dims := dims,
         value := ← optDecl ps attrs "value", min := ← optDecl ps attrs "min", max := ← optDecl ps attrs "max",
         start := ← optDecl ps attrs "start", fixed := ← optDecl ps attrs "fixed",
         nominal := ← optDecl ps attrs "nominal" }

def attrName : AttrName → String
  | .value => "value" | .min => "min" | .max => "max" | .start => "start" | .fixed => "fixed" | .nominal => "nominal"

def parseCase (req : Json) : Except String (List Var × List (Nat → Rat)) := do
  let vars ← getArr req "vars"
  let npar ← getNat req "npar"
  let mut ps : Array ParInfo := #[]
  let mut off := 0
  for i in [0:npar] do
    let dims ← parseDims (vars[i]?.getD Json.null)
    let n := dims.foldl (· * ·) 1
    ps := ps.push ⟨off, n⟩
    off := off + n
  let vs ← vars.toList.mapM (parseVar ps)
  let pvecs ← (← getArr req "pvecs").toList.mapM fun pv => do
    let xs ← (← pv.getArr?).mapM parseRat
    pure (fun (i : Nat) => xs[i]?.getD 0)
  pure (vs, pvecs)

def transpose (cols : List (List Num)) : List (List Num) :=
  let n := (cols.head?.map List.length).getD 0
  (List.range n).map fun i => cols.map fun c => c[i]?.getD .nan

def handle (req : Json) : Except String Json := do
  let op ← getStr req "op"
  match op with
  | "attrs" => do
    let (vs, pvecs) ← parseCase req
    let out := vs.map fun v =>
      let attrs := casadiAttributes.map fun a =>
        let s := store v a
        (attrName a, Json.mkObj [("t", Json.str (s.tag a)),
          ("v", Json.arr (pvecs.map fun p => Json.arr ((s.values a p).map showNum).toArray).toArray)])
      Json.mkObj [("ptype", Json.str (showPType v.ptype)), ("attrs", Json.mkObj attrs)]
    pure (Json.mkObj [("ok", true), ("vars", Json.arr out.toArray)])
  | "meta" => do
    let (vs, pvecs) ← parseCase req
    let lists ← (← getArr req "lists").toList.mapM fun l => do
      (← l.getArr?).toList.mapM fun i => do
        let k ← i.getNat?
        match vs[k]? with
        | some v => pure v
        | none => throw "bad variable index"
    let nParams := (lists[3]?.getD []).length
    let metas ← pvecs.mapM fun p =>
      match metadata nParams lists p with
      | some ms => pure (Json.arr (ms.map fun cols =>
          Json.arr ((transpose cols).map fun row => Json.arr (row.map showNum).toArray).toArray).toArray)
      | none => throw "horzcat-dimension-mismatch"
    pure (Json.mkObj [("ok", true), ("affine", Json.bool (decide (0 < nParams) && allAffine lists)),
      ("meta", Json.arr metas.toArray)])
  | o => throw s!"unknown-op {o}"

def main : IO Unit := serve handle
