"""C11 — the DAE residual equals the Modelica meaning of the flat equations.

Tie (every run): models of the supported subset are generated as Modelica text, parsed and flattened by
pymoca itself; the REAL flat AST is serialised and given to the Lean driver `drv_c11`, which answers with
the residual values predicted by the model of the generator (`evalC ∘ gen`, Model/Gen.lean) and by the
Modelica meaning (`evalM`, Model/ExprSem.lean) at exact points; both are compared entry by entry with
`Model.dae_residual_function` / `initial_residual_function` of the real generated model evaluated at the
same points (`Fraction(float)` is exact there).  The model's operator tables (`OP_MAP`, which `MX`
attributes exist, what each method computes) are compared with the real `generator.OP_MAP` and the real
`casadi.MX` once per run.
Direct oracle: `harness/gen/a08.py: Oracle` — an independent exact (`Fraction`) evaluator of the flat
equations written from the Modelica semantics the property names.
"""
import re

from harness.common import HarnessError
from harness.gen import a08
from fractions import Fraction as F

DRIVERS = ["drv_c11"]
RULE = ("a case = one generated model (declarations, scalar/array/if/for equations, initial equations, functions "
        "with assignment/if/for statements) with its exact evaluation points; streams: deterministic operator "
        "sweep (every operator / dispatch branch of exitExpression, if-folds, loops, functions), random models, "
        "and separate streams for the listed findings and for rejected operators; non-trivial = the model was "
        "translated and at least one point was evaluated exactly on both residual functions with at least one "
        "residual entry; distinct = distinct (model text, points)")
TRUSTED = ["CasADi evaluates each primitive (`MX.__add__`, `fmin`, `if_else`, `Function.map`, `Function.call`, "
           "`substitute`) as named; the driver's JSON front end (Model/GenJson.lean) reads the serialised AST "
           "faithfully (it is part of the compared path)",
           "floating-point rounding is outside the statement: only points where every intermediate value is a "
           "double are compared (the oracle checks this)"]
ASSUMPTIONS = ["supported subset: scalar/1-D/2-D Real variables, Boolean variables as 0/1, unit-step subscript "
               "ranges, single (non-nested) for-equations with literal bounds or Integer parameters, if-equations "
               "with else, functions with scalar variables declared before use whose if-statements assign the same "
               "variables in the same order in every branch with conditions independent of them",
               "subscripts are in range (range checks are C23's)",
               "division only by powers of two, natural exponents, elementary functions only at exactly "
               "representable points (plus operator identity in the MX tree for each of them)",
               "all branches of an if are defined at the evaluation point (strict semantics in the model)"]



# =============================================================================================
# one case
# =============================================================================================
def run_real(case, opts=None):
    """-> (RealModel | None, error-class-name | None)"""
    try:
        rm = a08.RealModel(case["text"], case.get("name", "M"), opts, False)
        return rm, None
    except a08.Unsupported:
        raise
    except Exception as e:   # the real code raised while translating
        return None, type(e).__name__ + ":" + str(e)[:120]


def flat_json_of(case):
    from pymoca import parser, ast
    from pymoca.tree import flatten
    tree = parser.parse(case["text"], bypass_cache=True)
    return a08.ser_model(flatten(tree, ast.ComponentRef.from_string(case.get("name", "M"))), case.get("name", "M"))


def slim(case):
    return {k: case[k] for k in ("text", "name", "points", "ranges", "stream") if k in case}


def check_case(ctx, case, drv, expect_reject=False):
    """Runs one case through the real code, the direct oracle and the model.  Returns a status string."""
    stream = case.get("stream", "main")
    points = [a08.point_from_json(p) if _is_json_point(p) else p for p in case["points"]]
    jcase = dict(slim(case), points=[a08.point_to_json(p) for p in points])
    ranges = {k: tuple(v) for k, v in (case.get("ranges") or {}).items()}
    try:
        rm, err = run_real(case)
    except a08.Unsupported as e:
        raise HarnessError("generator produced a model the harness cannot parse: %s\n%s" % (e, case["text"]))
    try:
        js = rm.flat_json() if rm is not None else flat_json_of(case)
    except Exception as e:
        if expect_reject:
            ctx.count("rejected-by-flatten")
            return "rejected"
        ctx.violation("flatten/serialise raised %s on a model of the supported subset" % type(e).__name__, jcase,
                      expected="flat AST", observed=str(e)[:200], kind="input")
        return "error"
    # ---- the model's view
    ans = {}
    if drv is not None:
        for which in ("dae", "initial"):
            a = drv.ask({"op": "residual", "model": js, "points": jcase["points"], "which": which})
            if not a.get("ok"):
                if expect_reject:
                    a = {"ok": True, "gen": {"ok": False, "err": "front-end:" + str(a.get("err"))}, "points": []}
                else:
                    raise HarnessError("model driver rejected a generated model: %s\n%s" % (a, case["text"]))
            ans[which] = a
    # ---- translation failed on the real code
    if rm is None:
        what = "generate raised %s" % err.split(":")[0]
        if expect_reject:
            ctx.count("rejected:" + err.split(":")[0])
            if drv is not None and ans["dae"]["gen"]["ok"] and ans["initial"]["gen"]["ok"]:
                ctx.disagreement("rejection", jcase, "model translates it", err)
            return "rejected"
        nv = len(ctx.violations)
        ctx.violation(what, jcase, expected="a residual function", observed=err, kind="input")
        if len(ctx.violations) == nv:     # matched a listed finding: the model must reproduce it
            if drv is not None and ans["dae"]["gen"]["ok"] and ans["initial"]["gen"]["ok"]:
                ctx.disagreement("finding-not-in-model", jcase, "model translates it", err)
        return "raised"
    if expect_reject:
        ctx.count("rejected-stream-but-translated")
        if drv is not None and not (ans["dae"]["gen"]["ok"] and ans["initial"]["gen"]["ok"]):
            ctx.disagreement("rejection", jcase, ans["dae"]["gen"], "real code translates it")
        return "translated"
    # ---- values: first the direct oracle on the real code, then the model
    exact_points = 0
    entries = 0
    defect_seen = False
    compare = []      # (point index, which, real values)
    for pi, pt in enumerate(points):
        for which, key in (("dae", "equations"), ("initial", "initial_equations")):
            try:
                got = rm.residual(pt, which)
            except Exception as e:
                ctx.violation("evaluating the %s residual raised %s" % (which, type(e).__name__), dict(jcase, point=pi),
                              expected="values", observed=str(e)[:200], kind="input")
                continue
            try:
                orc = a08.Oracle(js, pt, ranges)
                exp = orc.residuals(key)
            except a08.Inexact:
                ctx.count("point-not-exact")
                continue
            except a08.Unsupported as e:
                raise HarnessError("oracle cannot evaluate a generated model (%s):\n%s" % (e, case["text"]))
            exact_points += 1
            flat = [a08.qs(x) for eq in exp for x in eq]
            entries += len(flat)
            if flat != got:
                nv = len(ctx.violations)
                ctx.violation("%s residual differs from lhs - rhs of the flat equations" % which,
                              dict(jcase, point=pi, which=which), expected=flat, observed=got, kind="input")
                if len(ctx.violations) == nv:
                    defect_seen = True      # a listed finding: the model of the code must show it too
                else:
                    continue                # an unlisted violation: reported, nothing to compare
            compare.append((pi, which, got, flat == got))
            if which == "dae" and orc.delays:
                # the delay-argument function: per delay operator the delayed expression and the duration
                try:
                    dgot = rm.delay_arguments(pt)
                except Exception as e:
                    dgot = "raised " + type(e).__name__
                dexp = [[a08.qs(x)] for pair in orc.delays for x in pair]
                ctx.count("delay-argument-evaluations")
                if dgot != dexp:
                    ctx.violation("delay-argument function differs from the operands of the delay operators",
                                  dict(jcase, point=pi), expected=dexp, observed=dgot, kind="input")
                elif drv is not None and ans["dae"]["gen"]["ok"]:
                    for side in ("c", "m"):
                        mv = ans["dae"]["delay"][pi][side]
                        if mv != dgot:
                            ctx.disagreement("delay-arguments-" + side, dict(jcase, point=pi), mv, dgot)
    ctx.count("exact-point-evaluations", exact_points)
    ctx.count("residual-entries-compared", entries)
    known_stream = stream in KNOWN_STREAMS
    if known_stream and not defect_seen:
        # the listed finding did not show on this input (e.g. it was fixed upstream): the model still
        # describes the defective code, so it is not compared here; check.py prints the "did not reproduce" note
        ctx.count("finding-not-reproduced:" + stream)
        return "ok" if exact_points and entries else "trivial"
    if drv is not None:
        for pi, which, got, agrees in compare:
            if not ans[which]["gen"]["ok"]:
                ctx.disagreement("translation", dict(jcase, which=which), ans[which]["gen"], "real code translates it")
                continue
            a = ans[which]["points"][pi]
            sides = ("c", "m") if (agrees and not known_stream) else ("c",)
            for side in sides:
                mv = None if a[side] is None else [x for eq in a[side] for x in eq]
                if mv != got:
                    ctx.disagreement("residual-" + ("gen" if side == "c" else "meaning"),
                                     dict(jcase, point=pi, which=which), mv, got)
    return "ok" if exact_points and entries else "trivial"


KNOWN_STREAMS = ("ifstmt",)


def _is_json_point(p):
    for v in p.values():
        if v:
            return isinstance(v[0], str)
    return True


# =============================================================================================
# tables: OP_MAP, hasattr, method values
# =============================================================================================
PROBES = [(F(3), F(2)), (F(2), F(3)), (F(2), F(2)), (F(-2), F(2)), (F(1, 2), F(4)), (F(0), F(1)), (F(1), F(0)),
          (F(4), F(1, 2)), (F(9, 4), F(2))]


def check_tables(ctx, drv):
    import casadi as ca
    from pymoca.backends.casadi import generator
    if drv is None:
        return
    ans = drv.ask({"op": "tables", "probes": [[a08.qs(a), a08.qs(b)] for a, b in PROBES]})
    if not ans.get("ok"):
        raise HarnessError("tables: " + str(ans))
    real = dict(generator.OP_MAP)
    model = dict(ans["opmap"])
    ctx.case({"tables": "OP_MAP"}, nontrivial=True)
    # the model's map holds exactly the entries reachable from Modelica operators
    reach = {k: v for k, v in real.items() if k != "!="}
    for k in ("abs",):
        model.setdefault(k, "fabs")
    if reach != model:
        diff = {k: (model.get(k), reach.get(k)) for k in set(model) | set(reach) if model.get(k) != reach.get(k)}
        ctx.disagreement("OP_MAP", {"tables": "OP_MAP", "diff": {k: list(v) for k, v in diff.items()}}, model, reach)
    x, y = ca.MX.sym("x"), ca.MX.sym("y")
    for name, has in sorted(ans["hasattr"].items()):
        ctx.count("table-method")
        real_has = hasattr(ca.MX, name)
        if bool(has) != real_has:
            ctx.disagreement("hasattr", {"tables": "hasattr", "name": name}, has, real_has)
            continue
        if not real_has:
            continue
        # what the method computes, on probe points where the model's value is defined
        for (a, b), (v1, v2) in zip(PROBES, ans["values"][name]):
            for arity, v in ((1, v1), (2, v2)):
                if v is None:
                    continue
                try:
                    a08._exact(a08.qp(v))
                except a08.Inexact:
                    continue
                try:
                    e = getattr(x, name)() if arity == 1 else getattr(x, name)(y)
                    f = ca.Function("p", [x, y], [e])
                    got = a08.canon_float(f(float(a), float(b)))
                except Exception as ex:
                    got = "raised " + type(ex).__name__
                ctx.count("table-method-value")
                if got != v:
                    ctx.disagreement("method-value", {"tables": "method", "name": name, "arity": arity,
                                                      "at": [a08.qs(a), a08.qs(b)]}, v, got)
    try:
        e = ca.mtimes(x, y)
        got = a08.canon_float(ca.Function("p", [x, y], [e])(3.0, 2.0))
    except Exception as ex:
        got = "raised " + type(ex).__name__
    if got != "6/1":
        ctx.disagreement("method-value", {"tables": "method", "name": "mtimes"}, "6/1", got)


# =============================================================================================
# deterministic sweep
# =============================================================================================
SWEEP_XY = [(3, 2), (2, 3), (2, 2), (-2, 2), (F(1, 2), 2), (0, 1), (4, F(1, 2)), (1, 0), (F(9, 4), 1), (-3, -1)]
ELEM_OPS = {"sin": "OP_SIN", "cos": "OP_COS", "tan": "OP_TAN", "sinh": "OP_SINH", "cosh": "OP_COSH", "tanh": "OP_TANH",
            "exp": "OP_EXP", "log": "OP_LOG", "sqrt": "OP_SQRT", "sign": "OP_SIGN", "floor": "OP_FLOOR",
            "ceil": "OP_CEIL", "abs": "OP_FABS"}


def xy_points(extra=None):
    pts = []
    for x, y in SWEEP_XY:
        p = {"time": [F(1)], "x": [F(x)], "y": [F(y)], "z": [F(5)], "w": [F(-1)], "p": [F(2)], "der(x)": [F(7)],
             "v": [F(x), F(y), F(3), F(-1)], "u": [F(1), F(2), F(4), F(8)], "m": [F(k) for k in range(1, 7)],
             "der(v)": [F(10), F(20), F(30), F(40)], "n": [F(3)], "b": [F(1 if x > y else 0)], "n2": [F(4)],
             "ma": [F(1), F(2), F(3), F(4)], "mb": [F(x), F(y), F(7), F(-2)], "mc": [F(0), F(-1), F(5), F(2)],
             "der(mc)": [F(1), F(0), F(2), F(-2)], "mg": [F(k) for k in range(6)], "mh": [F(2 * k - 3) for k in range(6)],
             "v3": [F(x), F(-3, 2), F(y)], "u3": [F(1), F(-2), F(5, 2)]}
        p.update(extra or {})
        pts.append(p)
    return pts


def sweep_cases():
    out = []

    def add(tag, body, decl="Real x, y, z, w;", funcs="", ieq=""):
        txt = funcs + "model M\n  %s\n%sequation\n%s\nend M;\n" % (decl, ("initial equation\n" + ieq + "\n") if ieq else "", body)
        out.append({"text": txt, "name": "M", "points": xy_points(), "ranges": {}, "stream": "sweep", "tag": tag})
    for op in ["+", "-", "*", "/", "^", ".+", ".-", ".*", "./", ".^", "<", "<=", ">", ">=", "=="]:
        add("bin " + op, "  z = x %s y;" % op)
    add("and", "  z = x > 1 and y > 1;")
    add("or", "  z = x > 1 or y > 1;")
    add("not", "  z = not x > y;\n  w = not (x > 1 or y > 1);")
    add("min/max", "  z = min(x, y);\n  w = max(x, y);")
    add("neg/pos/abs", "  z = -x;\n  w = +y;\n  x = abs(y);")
    for f in sorted(ELEM_OPS):
        add("elem " + f, "  z = %s(x);" % f)
    add("elem log10", "  z = log10(x);")
    add("mixed precedence", "  z = x - y - 2;\n  w = x / 2 / 2 * y;\n  x = -x ^ 2;\n  y = 2 - 3 * x + y / 4;")
    add("if-1", "  z = if x > y then 1 else 2;")
    add("if-2", "  z = if x > y then 1 elseif x > 0 then 2 else 3;")
    add("if-3", "  z = if x > y then 1 elseif x > 0 then 2 elseif y > 0 then 3 else 4;")
    add("if-first-of-two-true", "  z = if x > 1 then 1 elseif x > 0 then 2 elseif x > -5 then 3 else 4;")
    add("if-equation-2", "  if x > y then\n    z = 1;\n    w = x;\n  else\n    z = 2;\n    w = y;\n  end if;")
    add("if-equation-3", "  if x > y then\n    z = 1;\n  elseif x > 0 then\n    z = 2;\n  elseif y > 0 then\n    z = 3;\n  else\n    z = 4;\n  end if;")
    add("residual orientation", "  x = y;\n  3 = z;\n  x + 1 = y * 2;\n  der(x) = -x;", ieq="  x = 4;")
    add("boolean variable", "  b = x > y;\n  z = if b then 1 else 2;\n  w = if not b then x else y;", decl="Real x, y, z, w; Boolean b;")
    add("time and parameters", "  z = time * p + x;", decl="Real x, y, z, w; parameter Real p = 2;")
    add("vector", "  v = u;\n  v[1:2] = u[3:4];\n  z = sum(v);\n  v = 2 * u - v;\n  v = u .* v / 2;\n  z = v[3] * u[2];",
        decl="Real x, y, z, w; Real v[4]; Real u[4];")
    add("stepped subscripts", "  v[1:2:3] = u[2:2:4];\n  v[1:3:4] = u[1:2];\n  z = sum(u[1:2:4]);\n  v[2:2:4] = 2 * u[1:2:4];",
        decl="Real x, y, z, w; Real v[4]; Real u[4];")
    add("one-element slices", "  v[2:2] = u[3:3];\n  v[1:n-1] = u[n:n];\n  z = sum(v[4:4]) + sum(u[1:n-1]);\n  v[3:4] = 2 * u[1:2];\n  v[1:1] = u[4:4] * x;",
        decl="Real x, y, z, w; parameter Integer n = 2; Real v[4]; Real u[4];")
    add("integer parameter as a value", "  z = n * x + y / n2;\n  for i in 1:n loop\n    v[i] = n * i + u[n];\n  end for;\n  v[4] = n - n2;",
        decl="Real x, y, z, w; parameter Integer n = 3; parameter Integer n2 = 2; Real v[4]; Real u[4];")
    add("square matrix equations", "  ma = mb;\n  der(mc) = x * mb - ma;\n  mb = ma .* mb + mc;\n  mg = mh;",
        decl="Real x, y, z, w; Real ma[2,2]; Real mb[2,2]; Real mc[2,2]; Real mg[2,3]; Real mh[2,3];")
    add("matrix rows against vectors", "  mg[1,:] = abs(v3);\n  mg[2,:] = max(v3, u3) .* v3;\n  mh[1,:] = floor(v3 / 2) - u3;\n  mh[2,:] = u3;\n  z = sum(mg[:,2]);",
        decl="Real x, y, z, w; Real mg[2,3]; Real mh[2,3]; Real v3[3]; Real u3[3];")
    pk = ("package PkA\n  function curve\n    input Real a;\n    input Real c;\n    output Real b;\n  algorithm\n    b := a * c + 1;\n  end curve;\nend PkA;\n"
          "package PkB\n  function curve\n    input Real a;\n    input Real c;\n    output Real b;\n  algorithm\n    b := a - 2 * c;\n  end curve;\nend PkB;\n")
    add("same-named functions in two packages", "  z = PkA.curve(x, y) + 3 * PkB.curve(x, y);\n  w = PkB.curve(PkA.curve(y, 2), x);", funcs=pk)
    add("matrix", "  m[1,2] = x;\n  m[2,3] = 2 * y;\n  m[:,1] = u[1:2];\n  z = m[2,1];\n  w = m[1,3];",
        decl="Real x, y, z, w; Real m[2,3]; Real u[4];")
    add("for plain", "  for i in 1:4 loop\n    v[i] = i * x + u[i];\n  end for;", decl="Real x, y, z, w; Real v[4]; Real u[4];")
    add("for two bodies", "  for i in 1:3 loop\n    v[i] = i * x;\n    u[i+1] = v[i] + u[i];\n  end for;",
        decl="Real x, y, z, w; Real v[4]; Real u[4];")
    add("for computed subscripts", "  for i in 1:2 loop\n    v[2*i] = v[2*i-1] + i;\n    u[5-i] = u[i] * y;\n  end for;",
        decl="Real x, y, z, w; Real v[4]; Real u[4];")
    add("for partial range", "  for i in 2:3 loop\n    v[i] = if i > 2 then v[i-1] else x;\n  end for;",
        decl="Real x, y, z, w; Real v[4]; Real u[4];")
    add("for integer parameter", "  for i in 1:n loop\n    der(v[i]) = -v[i] + time;\n  end for;\n  v[4] = 0;",
        decl="Real x, y, z, w; parameter Integer n = 3; Real v[4];")
    add("for empty", "  for i in 3:2 loop\n    v[i] = x;\n  end for;\n  z = 1;", decl="Real x, y, z, w; Real v[4];")
    add("for matrix", "  for i in 1:2 loop\n    m[i,2] = x * i;\n    m[1,i+1] = y;\n  end for;", decl="Real x, y, z, w; Real m[2,3];")
    add("for initial", "  z = 1;", decl="Real x, y, z, w; Real v[4];", ieq="  for i in 1:4 loop\n    v[i] = i;\n  end for;")
    f1 = "function f\n  input Real a;\n  input Real c;\n  output Real r;\nprotected\n  Real t;\nalgorithm\n  t := 2 * a + 1;\n  r := t * c;\n  r := r - t;\nend f;\n"
    add("function assign", "  z = f(x, y);\n  w = f(f(x, 1), y) + 1;", funcs=f1)
    f2 = "function f\n  input Real a;\n  input Real c;\n  output Real r;\n  output Real s;\nalgorithm\n  if a > c then\n    r := 1;\n    s := r + a;\n  elseif a > 0 then\n    r := 2;\n    s := r * c;\n  else\n    r := 3;\n    s := r - c;\n  end if;\nend f;\n"
    add("function if + tuple", "  (z, w) = f(x, y);", funcs=f2)
    add("function truncated outputs", "  z = f(x, y);", funcs=f2)
    f2b = ("function f\n  input Real a;\n  input Real c;\n  output Real r;\n  output Real s;\nalgorithm\n  if a > c then\n    r := 1;\n    s := a + c;\n"
           "  elseif a > 0 then\n    s := a * c;\n    r := 2;\n  else\n    s := c - a;\n    r := 3;\n  end if;\nend f;\n")
    add("function if, branches in different orders", "  (z, w) = f(x, y);", funcs=f2b)
    f3 = "function f\n  input Real a;\n  output Real r;\nprotected\n  Real s;\nalgorithm\n  r := 1;\n  s := a;\n  for k in 1:3 loop\n    s := s + r * k;\n    r := r * 2;\n  end for;\n  r := s + r;\nend f;\n"
    add("function for", "  z = f(x);", funcs=f3)
    f4 = "function g\n  input Real a;\n  output Real r;\nalgorithm\n  r := a * a;\nend g;\n" \
         "function f\n  input Real a;\n  input Real c;\n  output Real r;\nalgorithm\n  r := g(a) + c;\nend f;\n"
    add("function calling function in loop", "  for i in 1:3 loop\n    v[i] = f(x, i);\n  end for;\n  v[4] = g(y);",
        decl="Real x, y, z, w; Real v[4];", funcs=f4)
    return out


def check_elem_identity(ctx):
    """Elementary functions are also checked by operator identity in the MX tree of `z = f(x)`."""
    import casadi as ca
    for fname, opname in sorted(ELEM_OPS.items()):
        case = {"text": "model M\n  Real x, z;\nequation\n  z = %s(x);\nend M;\n" % fname, "name": "M", "elem": fname}
        ctx.case(case, nontrivial=True)
        ctx.count("elem-identity")
        rm, err = run_real(case)
        if rm is None:
            ctx.violation("generate raised %s" % err.split(":")[0], case, expected="z - %s(x)" % fname, observed=err)
            continue
        e = rm.model.equations[0]
        ok = (e.op() == ca.OP_SUB and e.dep(0).is_symbolic() and e.dep(0).name() == "z"
              and e.dep(1).op() == getattr(ca, opname) and e.dep(1).dep(0).is_symbolic()
              and e.dep(1).dep(0).name() == "x")
        if not ok:
            ctx.violation("the residual of z = %s(x) is not z - %s(x)" % (fname, fname), case,
                          expected="(z-%s(x))" % fname, observed=str(e), kind="input")


# =============================================================================================
# streams for the listed findings and for rejected operators
# =============================================================================================
def stepped_cases(rng, n):
    """Three-part ranges start:step:stop, including steps that do not divide the span (fixed upstream by
    4aad8e2: the parser used to store a:s:b as start:stop:step and the loop overshot the stop)."""
    out = []
    for k in range(n):
        a = rng.randint(1, 2)
        s = rng.randint(2, 3)
        b = rng.randint(a + 1, 6)
        L = max(b, a + s * 2) + 1
        in_func = rng.random() < 0.3
        if in_func:
            txt = ("function f\n  input Real a;\n  output Real r;\nalgorithm\n  r := 0;\n  for k in %d:%d:%d loop\n"
                   "    r := r + k * a;\n  end for;\nend f;\nmodel M\n  Real x, z;\nequation\n  z = f(x);\n  x = 1;\nend M;\n" % (a, s, b))
            ranges = {"k": [a, s, b]}
        else:
            txt = ("model M\n  Real x;\n  Real v[%d];\nequation\n  x = 1;\n  for i in %d:%d:%d loop\n    v[i] = i * x;\n"
                   "  end for;\nend M;\n" % (L, a, s, b))
            ranges = {"i": [a, s, b]}
        pts = [{"time": [F(0)], "x": [F(rng.randint(1, 3))], "z": [F(rng.randint(0, 5))], "der(x)": [F(0)],
                "v": [F(rng.randint(-3, 3)) for _ in range(L)]} for _ in range(2)]
        out.append({"text": txt, "name": "M", "points": pts, "ranges": ranges, "stream": "stepped"})
    return out


def ifstmt_cases(rng, n):
    out = []
    for k in range(n):
        kind = rng.choice(["cond-on-target", "order"])
        if kind == "cond-on-target":
            c = rng.randint(0, 2)
            txt = ("function f\n  input Real a;\n  output Real r;\nprotected\n  Real t;\nalgorithm\n  t := a;\n"
                   "  if t > %d then\n    t := -1;\n    r := %d;\n  else\n    t := %d;\n    r := 2;\n  end if;\n  r := r + t;\nend f;\n"
                   % (c, rng.randint(3, 5), c + 1))
        else:
            txt = ("function f\n  input Real a;\n  output Real r;\nprotected\n  Real s;\n  Real t;\nalgorithm\n  t := 7;\n  s := 1;\n"
                   "  if a > %d then\n    s := a;\n    t := s + 1;\n  else\n    t := 5;\n    s := t * 2;\n  end if;\n  r := s + 10 * t;\nend f;\n"
                   % rng.randint(0, 2))
        txt += "model M\n  Real x, z;\nequation\n  z = f(x);\n  x = 1;\nend M;\n"
        pts = [{"time": [F(0)], "x": [F(v)], "z": [F(0)], "der(x)": [F(0)]} for v in (-1, 1, 3, 4)]
        out.append({"text": txt, "name": "M", "points": pts, "ranges": {}, "stream": "ifstmt", "variant": kind})
    return out


def emptyloop_cases(rng, n):
    """For-equations over an empty range whose body has a computed subscript (crashed before 8f76abc)."""
    out = []
    for k in range(n):
        form = rng.choice(["i+1", "i-1", "2*i", "5-i"])
        txt = ("model M\n  Real x;\n  Real v[4];\nequation\n  x = 1;\n  for i in %d:%d loop\n    v[%s] = x;\n  end for;\n"
               "  v = {1, 2, 3, 4};\nend M;\n" % (rng.randint(3, 4), rng.randint(1, 2), form))
        txt = txt.replace("  v = {1, 2, 3, 4};\n", "")
        pts = [{"time": [F(0)], "x": [F(2)], "v": [F(1), F(2), F(3), F(4)], "der(x)": [F(0)]}]
        out.append({"text": txt, "name": "M", "points": pts, "ranges": {}, "stream": "emptyloop"})
    return out


REJECTED = ["x <> y", "asin(x)", "acos(x)", "atan(x)", "atan2(x, y)", "mod(x, y)", "noEvent(x)", "integer(x)",
            "nosuchfunction(x, y, 1)"]


def rejected_cases():
    out = []
    for e in REJECTED:
        txt = "model M\n  Real x, y, z;\nequation\n  z = %s;\n  x = 1;\n  y = 2;\nend M;\n" % e
        pts = [{"time": [F(0)], "x": [F(0)], "y": [F(1)], "z": [F(0)], "der(x)": [F(0)]}]
        out.append({"text": txt, "name": "M", "points": pts, "ranges": {}, "stream": "rejected", "expr": e})
    return out


# =============================================================================================
def run(ctx):
    drv = ctx.driver("drv_c11")
    quick = ctx.tier == "quick"
    from harness import corpus
    for c in corpus.load("C11"):
        ctx.count("corpus")
        ctx.case(slim(c), nontrivial=True)
        check_case(ctx, c, drv, expect_reject=c.get("stream") == "rejected")
    check_tables(ctx, drv)
    check_elem_identity(ctx)
    for c in sweep_cases():
        ctx.count("sweep")
        st = check_case(ctx, c, drv)
        ctx.case(slim(dict(c, points=[a08.point_to_json(p) for p in c["points"]])), nontrivial=st == "ok")
        if st != "ok":
            ctx.count("sweep-" + st + ":" + c["tag"])
    for gen_, n in ((stepped_cases, 8 if quick else 60), (ifstmt_cases, 4 if quick else 20), (emptyloop_cases, 3 if quick else 12)):
        for c in gen_(ctx.rng, n):
            ctx.count("stream:" + c["stream"])
            st = check_case(ctx, c, drv)
            ctx.case(slim(dict(c, points=[a08.point_to_json(p) for p in c["points"]])), nontrivial=st in ("ok", "raised"))
    for c in rejected_cases():
        ctx.count("stream:rejected")
        check_case(ctx, c, drv, expect_reject=True)
        ctx.case(slim(dict(c, points=[a08.point_to_json(p) for p in c["points"]])), nontrivial=False)
    n = 400 if quick else 6000
    random_models(ctx, drv, n, 3 if quick else 5)


def random_models(ctx, drv, n, npoints):
    for i in range(n):
        if i >= 40 and ctx.time_left() < (15 if ctx.tier == "quick" else 0):
            ctx.notes.append("random models stopped by the time budget after %d" % i)
            break
        g = a08.ModelGen(ctx.rng, npoints, count=lambda k: ctx.count("g:" + k))
        case = g.make()
        jc = dict(case, points=[a08.point_to_json(p) for p in case["points"]])
        st = check_case(ctx, case, drv)
        ctx.case(slim(jc), nontrivial=st == "ok")
        ctx.count("random-" + st)
        for f in case["features"]:
            ctx.count("feature:" + f)


def search(ctx):
    """Tie broken, no violation yet: spend the extra budget on the direct oracle alone."""
    random_models(ctx, None, 100000, 4)


def replay(ctx, payload):
    c = payload["case"]
    if "tables" in c:
        check_tables(ctx, ctx.driver("drv_c11"))
        return
    if "elem" in c:
        check_elem_identity(ctx)
        return
    check_case(ctx, c, ctx.driver("drv_c11"), expect_reject=c.get("stream") == "rejected")


MANIFEST = dict(
    level_text="Lean 4 theorems about an executable model of pymoca's CasADi generator (translation of expressions, "
               "if-folds, equations, for-equations, functions) against the Modelica meaning of the flat equations, for "
               "all expressions / environments / interpretations of the primitives; tied to the real generator on every "
               "run by evaluating the real residual functions at exact points against the model (fed with the real flat "
               "AST) and against an independent exact oracle.",
    level_note="Trusted: Lean kernel + standard axioms; the harness (generator, serialiser, Fraction oracle); CasADi "
               "evaluating each primitive as named; exact points only (no floating-point claim).",
    technique="Lean 4 proof (structural induction: translation correctness, substitution = execution) + "
              "model/implementation correspondence at exact points + direct exact oracle",
)
READY = True
