import PymocaVerif.Lemmas.SimplifyBase
/-!
# Simplify: alias detection and elimination (`detect_aliases`)
Helper lemmas for C14/C15.
-/
set_option linter.unusedSectionVars false
set_option linter.unusedSimpArgs false
namespace PymocaVerif.Simplify
open PymocaVerif.AliasRel Lean.Grind

variable {K : Type} [Field K] [DecidableEq K]

/-! ## detect_aliases: the detection -/

/-- `σ` with the value of one symbol replaced -/
def setE (σ : Env K) (a : String) (x : K) : Env K := fun n => if n = a then x else σ n

/-- the expression determines the symbol `a`: equal values force equal `a` (the property's
    "affine with an invertible coefficient / bijective" precondition, semantically) -/
def InjIn (I : Interp K) (e : Ex K) (a : String) : Prop :=
  ∀ σ x y, e.eval I (setE σ a x) = e.eval I (setE σ a y) → x = y

/-- the other symbol with the sign the detection attributes to it -/
def signedSym (neg : Bool) (b : String) : Ex K := if neg then .un .neg (.sym b) else .sym b

/-- meaning of the observed answers `substitute(e, a, ±b).is_zero()` for the inspected expression `e` -/
def GzOk (I : Interp K) (E : Engine K) (i : Nat) (e : Ex K) : Prop :=
  ∀ a b s, E.gzero i a b s = true →
    (∀ σ, (e.subst [(a, signedSym s b)]).eval I σ = 0) ∧ InjIn I e a

theorem upd_single (I : Interp K) (σ : Env K) (a : String) (t : Ex K) :
    upd I σ [(a, t)] = setE σ a (t.eval I σ) := by
  funext n
  unfold upd setE
  by_cases h : n = a
  · subst h; simp [List.lookup]
  · have : (n == a) = false := by simpa using h
    simp [List.lookup, this, h]

theorem setE_self (σ : Env K) (a : String) : setE σ a (σ a) = σ := by
  funext n; unfold setE; split <;> simp_all

theorem generic_sound {I : Interp K} {σ : Env K} {e : Ex K} {a b : String} {s : Bool}
    (hz : ∀ σ, (e.subst [(a, signedSym s b)]).eval I σ = 0) (hinj : InjIn I e a) (he : e.eval I σ = 0) :
    σ a = if s then - σ b else σ b := by
  have h1 := hz σ
  rw [eval_subst, upd_single] at h1
  have h2 : e.eval I (setE σ a (σ a)) = 0 := by rw [setE_self]; exact he
  have := hinj σ (σ a) ((signedSym s b : Ex K).eval I σ) (by rw [h1, h2])
  rw [this]
  cases s <;> simp [signedSym, Ex.eval]

theorem eraseDups_pair (a b d0 d1 : String) (h : [a, b].eraseDups = [d0, d1]) : a = d0 ∧ b = d1 := by
  rw [List.eraseDups_cons] at h
  by_cases hb : b = a
  · subst hb; simp at h
  · have hne : (b != a) = true := by simpa using hb
    have hne' : (!b == a) = true := by simpa using hb
    simp only [List.filter_cons, hne', if_true, List.filter_nil] at h
    rw [List.eraseDups_cons] at h
    simpa using h

/-- what a detected alias means: `d0 = ± d1` in every `σ` solving the inspected expression -/
theorem detectAlias_sound {I : Interp K} {E : Engine K} {cx : AliasCtx} {i : Nat} {e : Ex K} {σ : Env K}
    {d0 d1 : String} {neg : Bool} (hg : GzOk I E i e) (h : detectAlias E cx i e = some (d0, d1, neg))
    (he : e.eval I σ = 0) : σ d0 = if neg then - σ d1 else σ d1 := by
  unfold detectAlias at h
  simp only at h
  split at h
  · -- fast path
    rename_i r hfast
    simp at h; subst h
    split at hfast
    · rename_i a0 b0 o x y hsv
      have hab := eraseDups_pair x y a0 b0 (by simpa [Ex.symvar, Ex.syms] using hsv)
      obtain ⟨rfl, rfl⟩ := hab
      split at hfast
      · rename_i ho; subst ho
        simp at hfast; obtain ⟨rfl, rfl, rfl⟩ := hfast
        simp [Ex.eval] at he; simp; grind
      · split at hfast
        · rename_i ho; subst ho
          simp at hfast; obtain ⟨rfl, rfl, rfl⟩ := hfast
          simp [Ex.eval] at he; simp; grind
        · simp at hfast
    · simp at hfast
  · -- generic path
    have try2 : ∀ (d : List String) (r : String × String × Bool),
        (match d with
          | [a, b] => if E.gzero i a b false = true then some (a, b, false)
                      else if E.gzero i a b true = true then some (a, b, true) else none
          | _ => none) = some r → σ r.1 = if r.2.2 then - σ r.2.1 else σ r.2.1 := by
      intro d r hr
      split at hr
      · rename_i a b
        split at hr
        · rename_i hz
          simp at hr; subst hr
          obtain ⟨h1, h2⟩ := hg a b false hz
          simpa using generic_sound h1 h2 he
        · split at hr
          · rename_i hz
            simp at hr; subst hr
            obtain ⟨h1, h2⟩ := hg a b true hz
            simpa using generic_sound h1 h2 he
          · simp at hr
      · simp at hr
    split at h
    · rename_i r hr
      simp at h; subst h
      exact try2 _ _ hr
    · exact try2 _ _ h

/-! ## detect_aliases: recording and eliminating -/

theorem eqok_cons' {I : Interp K} {σ : Env K} {e : Ex K} {es : List (Ex K)} :
    EqOk I σ (e :: es) ↔ e.eval I σ = 0 ∧ EqOk I σ es := by
  simp [EqOk]

theorem makeAlias_cases {cx : AliasCtx} {ar ar' : AR} {d0 d1 : String} {neg dropped : Bool}
    (h : makeAlias cx ar d0 d1 neg = some (ar', dropped)) :
    (ar' = ar ∧ dropped = false) ∨
    (dropped = true ∧ ∃ alg other, ((alg = d0 ∧ other = d1) ∨ (alg = d1 ∧ other = d0)) ∧ alg ∈ cx.algs ∧
      other ∈ cx.allSt ∧
      (false, other) ∉ ar.aliases (false, alg) ∧ (false, other) ∉ ar.aliases (true, alg) ∧
      ar.add (false, other) (neg, alg) = some ar') := by
  unfold makeAlias at h
  simp only at h
  split at h
  · simp at h; left; exact ⟨h.1.symm, h.2⟩
  · rename_i alg0 other0 hpick
    have hp : ((alg0 = d0 ∧ other0 = d1) ∨ (alg0 = d1 ∧ other0 = d0)) ∧ alg0 ∈ cx.algs := by
      split at hpick
      · rename_i h0; simp at hpick; exact ⟨Or.inl ⟨hpick.1.symm, hpick.2.symm⟩, hpick.1 ▸ h0⟩
      · split at hpick
        · rename_i h1; simp at hpick; exact ⟨Or.inr ⟨hpick.1.symm, hpick.2.symm⟩, hpick.1 ▸ h1⟩
        · simp at hpick
    split at h
    · -- swapped: both are algebraic
      rename_i hsw
      have hboth : other0 ∈ cx.algs := by
        rcases hp.1 with ⟨_, rfl⟩ | ⟨_, rfl⟩
        · exact hsw.2.1
        · exact hsw.1
      split at h
      · simp at h; left; exact ⟨h.1.symm, h.2⟩
      · rename_i hall
        split at h
        · simp at h; left; exact ⟨h.1.symm, h.2⟩
        · split at h
          · simp at h; left; exact ⟨h.1.symm, h.2⟩
          · split at h
            · simp at h; left; exact ⟨h.1.symm, h.2⟩
            · rename_i hrel
              split at h
              · rename_i ar2 hadd
                simp at h; obtain ⟨rfl, rfl⟩ := h
                right
                refine ⟨rfl, other0, alg0, ?_, hboth, by simpa using hall, ?_, ?_, hadd⟩
                · rcases hp.1 with ⟨rfl, rfl⟩ | ⟨rfl, rfl⟩
                  · exact Or.inr ⟨rfl, rfl⟩
                  · exact Or.inl ⟨rfl, rfl⟩
                · exact fun hx => hrel (Or.inl hx)
                · exact fun hx => hrel (Or.inr hx)
              · simp at h
    · split at h
      · simp at h; left; exact ⟨h.1.symm, h.2⟩
      · rename_i hall
        split at h
        · simp at h; left; exact ⟨h.1.symm, h.2⟩
        · split at h
          · simp at h; left; exact ⟨h.1.symm, h.2⟩
          · split at h
            · simp at h; left; exact ⟨h.1.symm, h.2⟩
            · rename_i hrel
              split at h
              · rename_i ar2 hadd
                simp at h; obtain ⟨rfl, rfl⟩ := h
                right
                exact ⟨rfl, alg0, other0, hp.1, hp.2, by simpa using hall, fun hx => hrel (Or.inl hx),
                  fun hx => hrel (Or.inr hx), hadd⟩
              · simp at h

theorem makeAlias_aliasOk {cx : AliasCtx} {ar ar' : AR} {d0 d1 : String} {neg dropped : Bool} {σ : Env K}
    (h : makeAlias cx ar d0 d1 neg = some (ar', dropped)) (hok : AliasOk σ ar)
    (hd : σ d0 = if neg then - σ d1 else σ d1) : AliasOk σ ar' := by
  rcases makeAlias_cases h with ⟨rfl, _⟩ | ⟨_, alg, other, hao, _, _, _, _, hadd⟩
  · exact hok
  · refine add_aliasOk hok ?_ hadd
    rcases hao with ⟨rfl, rfl⟩ | ⟨rfl, rfl⟩ <;> cases neg <;> simp [sval] at hd ⊢ <;> grind

/-- the loop: kept equations are equations of the model; every recorded fact holds in `σ` -/
theorem aliasLoop_sound {I : Interp K} {E : Engine K} (hE : EngineOk I E) {cx : AliasCtx} {σ : Env K} :
    ∀ (es : List (Ex K)) (i : Nat) (ar : AR) (kept : List (Ex K)) (ar' : AR),
      (∀ k e, es[k]? = some e → GzOk I E (i + k) (E.view (i + k) e)) →
      aliasLoop E cx i es ar = .ok (kept, ar') → EqOk I σ es → AliasOk σ ar →
      EqOk I σ kept ∧ AliasOk σ ar'
  | [], i, ar, kept, ar', _, h, _, hok => by
    simp [aliasLoop] at h; obtain ⟨rfl, rfl⟩ := h
    exact ⟨by intro e he; simp at he, hok⟩
  | e :: es, i, ar, kept, ar', hg, h, heq, hok => by
    have hes : EqOk I σ es := fun x hx => heq x (List.mem_cons_of_mem _ hx)
    have hge : ∀ k x, es[k]? = some x → GzOk I E (i + 1 + k) (E.view (i + 1 + k) x) := by
      intro k x hx
      have := hg (k + 1) x (by simpa using hx)
      have e1 : i + (k + 1) = i + 1 + k := by omega
      rwa [e1] at this
    have he0 : (E.view i e).eval I σ = 0 := by rw [hE.view_eval]; exact heq e (by simp)
    simp only [aliasLoop] at h
    split at h
    · rename_i d0 d1 neg hdet
      have hd := detectAlias_sound (σ := σ) (by simpa using hg 0 e (by simp)) hdet he0
      split at h
      · simp at h
      · rename_i ar2 hmk
        exact aliasLoop_sound hE es (i + 1) ar2 kept ar' hge h hes (makeAlias_aliasOk hmk hok hd)
      · rename_i ar2 hmk
        split at h
        · simp at h
        · rename_i r hr
          simp at h; obtain ⟨rfl, rfl⟩ := h
          have := aliasLoop_sound hE es (i + 1) ar2 r.1 r.2 hge (by rw [hr]) hes (makeAlias_aliasOk hmk hok hd)
          exact ⟨by rw [eqok_cons']; exact ⟨heq e (by simp), this.1⟩, this.2⟩
    · split at h
      · simp at h
      · rename_i r hr
        simp at h; obtain ⟨rfl, rfl⟩ := h
        have := aliasLoop_sound hE es (i + 1) ar r.1 r.2 hge (by rw [hr]) hes hok
        exact ⟨by rw [eqok_cons']; exact ⟨heq e (by simp), this.1⟩, this.2⟩

theorem holdsL_append {I : Interp K} {σ : Env K} {l1 l2 : List (String × Ex K)} (h1 : HoldsL I σ l1) (h2 : HoldsL I σ l2) :
    HoldsL I σ (l1 ++ l2) := by
  intro p hp
  rcases List.mem_append.1 hp with h | h
  · exact h1 p h
  · exact h2 p h

theorem elimClass_holds {I : Interp K} {σ : Env K} (c : String) :
    ∀ (as : List SName) (allSt : List String) (r : List (String × Ex K) × List String),
      elimClass c as allSt = .ok r → (∀ a ∈ as, sval σ a = σ c) → HoldsL I σ r.1
  | [], allSt, r, h, _ => by
    simp [elimClass] at h; subst h; intro p hp; simp at hp
  | a :: as, allSt, r, h, hs => by
    simp only [elimClass] at h
    split at h
    · simp at h
    · split at h
      · simp at h
      · rename_i r' hr'
        simp at h; subst h
        intro p hp
        rcases List.mem_cons.1 hp with rfl | hp
        · have := hs a (by simp)
          obtain ⟨sg, n⟩ := a
          cases sg <;> simp [sval, Ex.eval] at this ⊢ <;> grind
        · exact elimClass_holds c as _ r' hr' (fun x hx => hs x (List.mem_cons_of_mem _ hx)) p hp

theorem newAliases_sub {old ar : AR} {c : String} {a : SName} (h : a ∈ newAliases old ar c) :
    a ∈ ar.aliases (false, c) := by
  unfold newAliases at h
  have := (List.mem_filter.1 (List.mem_filter.1 h).1).1
  exact List.mem_eraseDups.1 this

theorem elimAliases_holds {I : Interp K} {σ : Env K} {old ar : AR} (hok : AliasOk σ ar) :
    ∀ (cs allSt : List String) (r : List (String × Ex K) × List String),
      elimAliases old ar cs allSt = .ok r → HoldsL I σ r.1
  | [], allSt, r, h => by
    simp [elimAliases] at h; subst h; intro p hp; simp at hp
  | c :: cs, allSt, r, h => by
    simp only [elimAliases] at h
    split at h
    · simp at h
    · split at h
      · simp at h
      · rename_i r1 hr1
        split at h
        · simp at h
        · rename_i r2 hr2
          simp at h; subst h
          refine holdsL_append ?_ (elimAliases_holds hok cs _ r2 hr2)
          refine elimClass_holds c _ _ r1 hr1 ?_
          intro a ha
          have := aliases_sval hok (newAliases_sub ha)
          simpa [sval] using this

theorem valok_markAliased {I : Interp K} {σ : Env K} {vs : List (Var K)} (ar : AR) (h : ValOk I σ vs) :
    ValOk I σ (vs.map (markAliased ar)) := by
  intro v hv t ht
  obtain ⟨v0, hv0, rfl⟩ := List.mem_map.1 hv
  unfold markAliased at ht ⊢
  split at ht <;> simp_all <;> exact h v0 hv0 t ht

/-- forward direction of detect_aliases -/
theorem alias_sound {I : Interp K} {E : Engine K} (hE : EngineOk I E) {σ : Env K} {allowDer : Bool} {m m' : Model K}
    (hg : ∀ k e, m.eqs[k]? = some e → GzOk I E k (E.view k e))
    (h : detectAliases E allowDer m = .ok m') (hs : Sat I σ m) : Sat I σ m' := by
  unfold detectAliases at h
  simp only at h
  split at h
  · simp at h
  · rename_i kept ar hloop
    have hl := aliasLoop_sound hE m.eqs 0 m.ar kept ar (by simpa using hg) hloop hs.eqs hs.alias
    split at h
    · simp at h
    · rename_i l left hel
      simp at h; subst h
      have hh : HoldsL I σ l := elimAliases_holds hl.2 _ _ (l, left) hel
      refine ⟨?_, ?_, ?_, hl.2⟩
      · exact (eqok_map (fun e => sub_eval hE hh e)).2 hl.1
      · exact valok_markAliased ar (valok_filter _ hs.params)
      · exact valok_markAliased ar hs.consts

end PymocaVerif.Simplify
