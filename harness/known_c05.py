"""Predicates of the open findings of C05."""
from harness.common import known_predicate


def _xref_targets(case):
    out = set()
    for e in case.get("xrefs") or []:
        rhs = e.split("=")[-1].strip().rstrip(";").strip()
        if "." in rhs:
            out.add(rhs.split(".")[0])
    return out


@known_predicate
def c05_classpath_symbol_written(case, what):
    """C05-F1: a class refers to an input/output symbol of another class by class path (`x = M0.u`);
    flattening a class that instantiates the referring class strips the prefix from M0's own symbol
    in the parsed tree; the failing request is then a request for that class M0."""
    if not case.get("xrefs") or "requests" not in case or "upto" not in case:
        return False
    op, path = case["requests"][case["upto"] - 1]
    return path[0] in _xref_targets(case) and "after earlier requests on the same tree" in what


@known_predicate
def c05_dotted_unqualified_import(case, what):
    """C05-F2 (fixed by ceefff9; a fixed entry suppresses nothing): the library has an unqualified import and a component
    whose type is a dotted name, and the differing request repeats an earlier request on the same tree."""
    import re
    text = case.get("text") or ""
    if "requests" not in case or "upto" not in case or not re.search(r"import\s+[\w.]+\.\*\s*;", text):
        return False
    if not re.search(r"^\s*\w+\.\w[\w.]*\s+\w+\s*;", text, re.M):
        return False
    return "after earlier requests on the same tree" in what
