"""C17 — alias relation is a signed equivalence under any operation history.

Tie: correspondence between `pymoca.backends.casadi.alias_relation.AliasRelation` (real code,
in-process) and the Lean model `PymocaVerif.Model.AliasRel` (compiled driver `drv_c17`) on
(i) an exhaustive breadth-first exploration, up to observable-state equivalence, of all
admissible add/remove histories over three names with both signs, and (ii) random histories
over six names on several relation objects with copies interleaved.
Direct oracle: the signed union-find closure of the added pairs minus the removed classes,
computed independently in this file from the history alone.
"""
import itertools
import json

DRIVERS = ["drv_c17"]
RULE = ("histories of add/remove/copy over signed names that are substrings/prefixes/dotted extensions of one another "
        "(p, p1, tank.p, ab, a, b); exhaustive BFS over 3 names (and, shallower, 4 names) up to observable-state "
        "equivalence (every admissible op from every distinct reachable state up to the depth bound), then random "
        "histories over 6 names and up to 3 objects; a case is one history prefix; non-trivial = at least one "
        "effective add (two classes merged); distinct = distinct history")
TRUSTED = ["value semantics for the shared Python set objects of `_aliases` (exercised: copies and sources evolve separately in the random histories)"]
ASSUMPTIONS = ["names are Modelica component references (identifiers, possibly dotted; no leading '-' in the base name)",
               "histories never relate a variable to its own negation (the property's precondition); such adds are skipped by the generator and counted"]


def tog(v):
    return v[1:] if v[0] == "-" else "-" + v


# ---- direct oracle: signed union-find closure ---------------------------------------------
class Closure:
    """Signed partition kept as name -> frozenset; only the classes, no representative."""

    def __init__(self):
        self.cls = {}

    def klass(self, a):
        return self.cls.get(a, frozenset([a]))

    def admissible(self, a, b):
        return b not in self.klass(tog(a))

    def add(self, a, b):
        if b in self.klass(a):
            return False
        new = self.klass(a) | self.klass(b)
        inv = frozenset(tog(v) for v in new)
        for v in new:
            self.cls[v] = new
        for v in inv:
            self.cls[v] = inv
        return True

    def dissolve(self, a):
        for v in list(self.klass(a) | self.klass(tog(a))):
            self.cls.pop(v, None)

    def copy(self):
        c = Closure()
        c.cls = dict(self.cls)
        return c

    def nontrivial_pairs(self):
        seen, out = set(), []
        for v, k in self.cls.items():
            if len(k) > 1 and k not in seen:
                seen.add(k)
                seen.add(frozenset(tog(x) for x in k))
                out.append(k)
        return out


def observe(rel, univ):
    names = [s + n for n in univ for s in ("", "-")]
    al = {v: sorted(rel.aliases(v)) for v in names}
    cs = {}
    for v in names:
        c, s = rel.canonical_signed(v)
        cs[v] = [c, int(s)]
    it = sorted([c, sorted(a)] for c, a in rel)
    return {"aliases": al, "canonical": cs, "cv": sorted(rel.canonical_variables), "iter": it}


def oracle(obs, spec, univ):
    """Property statement checked on the observables of one object against the closure."""
    names = [s + n for n in univ for s in ("", "-")]
    for v in names:
        k = spec.klass(v)
        if set(obs["aliases"][v]) != set(k):
            return "aliases(%s) = %s, closure class is %s" % (v, obs["aliases"][v], sorted(k))
        c, s = obs["canonical"][v]
        want = c if s == 1 else "-" + c
        if c.startswith("-") or s not in (1, -1) or want not in k:
            return "canonical_signed(%s) = (%s, %s) is not a member of its class %s with that sign" % (v, c, s, sorted(k))
        for w in k:
            if obs["canonical"][w] != [c, s]:
                return "members %s and %s of one class have different canonical/sign" % (v, w)
        if obs["canonical"][tog(v)] != [c, -s]:
            return "canonical_signed(%s) is not the negation of canonical_signed(%s)" % (tog(v), v)
    pairs = spec.nontrivial_pairs()
    its = obs["iter"]
    if len(its) != len(pairs):
        return "iteration yields %d entries for %d non-trivial classes" % (len(its), len(pairs))
    for c, al in its:
        k = spec.klass(c)
        if len(k) < 2 or obs["canonical"][c] != [c, 1] or set(al) != set(k) - {c}:
            return "iteration entry (%s, %s) is not (canonical, rest of its class %s)" % (c, al, sorted(k))
    if sorted(c for c, _ in its) != obs["cv"]:
        return "canonical_variables differ from the iteration's canonical names"
    return None


def run_impl(hist, univ, nobj):
    """Replay on the real class; returns per-step observables (all objects) or an exception."""
    from pymoca.backends.casadi.alias_relation import AliasRelation
    objs = {0: AliasRelation()}
    specs = {0: Closure()}
    for i in range(1, nobj):
        objs[i] = AliasRelation()
        specs[i] = Closure()
    steps = []
    for op in hist:
        try:
            if op[0] == "add":
                _, o, a, b = op
                objs[o].add(a, b)
                specs[o].add(a, b)
            elif op[0] == "remove":
                _, o, a = op
                c, s = objs[o].canonical_signed(a)
                if a in objs[o].canonical_variables and len(specs[o].klass(a)) > 1:
                    specs[o].dissolve(a)
                objs[o].remove(a)
            else:
                _, src, dst = op
                objs[dst] = objs[src].copy()
                specs[dst] = specs[src].copy()
        except Exception as e:  # the property: no operation of an admissible history raises
            steps.append({"raised": type(e).__name__})
            return steps, specs
        steps.append({"raised": False, "objs": [observe(objs[i], univ) for i in range(nobj)],
                      "specs": [specs[i].copy() for i in range(nobj)]})
    return steps, specs


def check_history(ctx, hist, univ, nobj, drv, only_last=False):
    """Runs one history on impl + model, applies the oracle, compares.  Returns impl steps."""
    steps, _ = run_impl(hist, univ, nobj)
    case = {"univ": univ, "nobj": nobj, "hist": hist}
    rng = range(len(steps) - 1, len(steps)) if only_last else range(len(steps))
    for i in rng:
        st = steps[i]
        if st["raised"]:
            ctx.violation("operation raised %s in an admissible history" % st["raised"], dict(case, upto=i + 1),
                          expected="no exception", observed=st["raised"], kind="history")
            break
        for o in range(nobj):
            msg = oracle(st["objs"][o], st["specs"][o], univ)
            if msg:
                ctx.violation(msg, dict(case, upto=i + 1, obj=o), expected="signed closure", observed=st["objs"][o],
                              kind="history")
                return steps
    if drv is not None:
        ans = drv.ask({"op": "alias.run", "univ": univ, "nobj": nobj, "hist": hist})
        if not ans.get("ok"):
            from harness.common import HarnessError
            raise HarnessError("model driver rejected %s: %s" % (case, ans))
        for i in rng:
            m, r = ans["steps"][i] if i < len(ans["steps"]) else None, steps[i]
            if m is None:
                ctx.disagreement("alias.run", dict(case, upto=i + 1), "model stopped earlier", "impl continued")
                break
            if bool(m["raised"]) != bool(r["raised"]):
                ctx.disagreement("alias.run", dict(case, upto=i + 1), m.get("raised"), r.get("raised"))
                break
            if not m["raised"] and m["objs"] != r["objs"]:
                diff = {k: (m["objs"][o][k], r["objs"][o][k]) for o in range(nobj) for k in m["objs"][o]
                        if m["objs"][o][k] != r["objs"][o][k]}
                ctx.disagreement("alias.run", dict(case, upto=i + 1), diff, None)
                break
            if not m["raised"] and not m["admissible"]:
                ctx.disagreement("alias.admissible", dict(case, upto=i + 1), "model says inadmissible", "generator says admissible")
    return steps


def all_ops(univ, nobj=1):
    names = [s + n for n in univ for s in ("", "-")]
    ops = [["add", 0, a, b] for a in names for b in names]
    ops += [["remove", 0, a] for a in names]
    return ops


def bfs(ctx, drv, univ, depth):
    """Every admissible op from every distinct reachable observable state, up to `depth`."""
    start = ()
    seen = {json.dumps(observe_empty(univ), sort_keys=True): start}
    frontier = [start]
    ops = all_ops(univ)
    closed = False
    for d in range(depth):
        nxt = []
        for hist in frontier:
            # spec state at the end of hist (for admissibility)
            steps, specs = run_impl(list(hist), univ, 1)
            spec = specs[0]
            for op in ops:
                if ctx.time_left() < 0:
                    ctx.notes.append("bfs stopped by time budget at depth %d" % d)
                    return len(seen), False
                if op[0] == "add" and not spec.admissible(op[2], op[3]):
                    ctx.count("bfs-inadmissible-skipped")
                    continue
                h2 = list(hist) + [op]
                effective = op[0] == "add" and op[3] not in spec.klass(op[2])
                ctx.case({"univ": univ, "nobj": 1, "hist": h2}, nontrivial=effective or any(
                    o[0] == "add" for o in hist))
                ctx.count("bfs-" + op[0])
                st = check_history(ctx, h2, univ, 1, drv, only_last=True)
                if st and not st[-1]["raised"]:
                    key = json.dumps(st[-1]["objs"][0], sort_keys=True)
                    if key not in seen:
                        seen[key] = tuple(h2)
                        nxt.append(tuple(h2))
        frontier = nxt
        ctx.count("bfs-depth-%d-new-states" % (d + 1), len(nxt))
        if not nxt:
            closed = True
            break
    return len(seen), closed


def observe_empty(univ):
    from pymoca.backends.casadi.alias_relation import AliasRelation
    return observe(AliasRelation(), univ)


def random_history(rng, univ, nobj, maxlen):
    names = [s + n for n in univ for s in ("", "-")]
    specs = {i: Closure() for i in range(nobj)}
    hist = []
    n = rng.randint(1, maxlen)
    tries = 0
    while len(hist) < n and tries < 10 * n:
        tries += 1
        r = rng.random()
        o = rng.randrange(nobj)
        if r < 0.62:
            a, b = rng.choice(names), rng.choice(names)
            if not specs[o].admissible(a, b):
                continue
            specs[o].add(a, b)
            hist.append(["add", o, a, b])
        elif r < 0.82:
            a = rng.choice(names)
            hist.append(["remove", o, a])
            specs = _respec(hist, nobj)
        elif nobj > 1:
            s, d = rng.randrange(nobj), rng.randrange(nobj)
            if s != d:
                hist.append(["copy", s, d])
                specs[d] = specs[s].copy()
    return hist


def _respec(hist, nobj):
    # exact spec after a history needs the implementation's canonical choice for `remove`
    _, specs = run_impl(hist, [], nobj)
    return {i: specs[i].copy() for i in range(nobj)}


def run(ctx):
    drv = ctx.driver("drv_c17")
    quick = ctx.tier == "quick"
    # corpus first
    from harness import corpus
    for c in corpus.load("C17"):
        ctx.count("corpus")
        check_history(ctx, c["hist"], c["univ"], c["nobj"], drv)
    # names in substring / prefix / dotted relation to one another: the class structure must depend on equality
    # of names only (a remove of `p1` or `tank.p` must not touch the class of `p`)
    nstates, closed = bfs(ctx, drv, ["p", "p1", "tank.p"], 4 if quick else 7)
    ctx.extra["bfs_states"] = nstates
    ctx.extra["bfs_closed_under_all_ops"] = closed
    ctx.extra["exhaustive"] = False
    # two non-trivial classes need four names: a second, shallower exhaustive exploration
    n4, _ = bfs(ctx, drv, ["p", "p1", "tank.p", "ab"], 3 if quick else 4)
    ctx.extra["bfs_states_4_names"] = n4
    univ = ["p", "p1", "tank.p", "ab", "a", "b"]
    n = 600 if quick else 30000
    for i in range(n):
        if ctx.time_left() < 0:
            ctx.notes.append("random histories stopped by time budget after %d" % i)
            break
        nobj = ctx.rng.choice([1, 2, 2, 3])
        hist = random_history(ctx.rng, univ if ctx.rng.random() < 0.7 else univ[:3], nobj, 30)
        ctx.case({"univ": univ, "nobj": nobj, "hist": hist},
                 nontrivial=any(o[0] == "add" and o[2] != o[3] for o in hist))
        ctx.count("random-len-%02d" % (10 * (len(hist) // 10)))
        ctx.count("random-with-copy" if any(o[0] == "copy" for o in hist) else "random-no-copy")
        check_history(ctx, hist, univ, nobj, drv)


def replay(ctx, payload):
    c = payload["case"]
    check_history(ctx, c["hist"], c["univ"], c["nobj"], ctx.driver("drv_c17"))

MANIFEST = dict(
    level_text="Lean 4 theorems about an executable model of AliasRelation, for unbounded histories over any number of "
               "objects: the full invariant (signed partition of _aliases, canonical map defined exactly on stored names "
               "with one canonical name and a consistent sign per class, duplicate-free canonical-variables set) is "
               "preserved by every admissible add, by remove (which never raises) and by copy; consequences: aliases() is "
               "the signed class, canonical_signed is consistent, iteration yields one entry per non-trivial class, a copy "
               "evolves independently, and the relation equals the inductively defined signed closure of the added pairs "
               "minus the removed classes (closure_char).  Tied to the real class by a per-run differential correspondence "
               "(exhaustive BFS over 3 signed names up to observable-state equivalence + random histories with copies) and "
               "a direct signed-union-find oracle on the real code.",
    level_note="Trusted: Lean kernel + standard axioms; the harness; value semantics for Python's shared set objects "
               "(exercised by the correspondence). The model, not the Python, is what the theorems are about.",
    technique="Lean 4 proof (invariant by induction over operation histories, refinement of an inductively defined signed "
              "closure) + model/implementation correspondence",
)
READY = True
