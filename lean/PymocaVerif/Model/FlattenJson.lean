import Lean.Data.Json
import PymocaVerif.Model.FlattenSrc
/-!
# JSON front end of the C07 / C08 drivers

Library descriptions as produced by `harness/gen/a05.py` (see its module docstring for the
format) are decoded into `SLib`; flat models are encoded in the canonical form the harness
also derives from pymoca's flat class.  JSON recursion is bounded by fuel (total functions).
-/
open Lean
namespace PymocaVerif.Flatten.J

abbrev E := Except String

def arr (j : Json) : E (List Json) := do
  let a ← j.getArr?
  pure a.toList
def field (j : Json) (k : String) : E Json := j.getObjVal? k
def strs (j : Json) : E (List String) := do (← arr j).mapM (·.getStr?)
def nats (j : Json) : E (List Nat) := do (← arr j).mapM (·.getNat?)

/-- a subscript is a number, or an expression: ["num", n] | ["ref", parts] | ["bin", "+", a, b] -/
def parseSub0 : Nat → Json → E Sub0
  | 0, _ => .error "fuel"
  | f + 1, j =>
    match j.getNat? with
    | .ok n => pure (.lit n)
    | .error _ => do
      match ← arr j with
      | [k, a] =>
        match ← k.getStr? with
        | "num" => pure (.lit (← a.getNat?))
        | "ref" =>
          match ← arr a with
          | [p] =>
            match ← arr p with
            | [n, ss] => if (← arr ss).isEmpty then pure (.name (← n.getStr?)) else .error "subscript-too-deep"
            | _ => .error "bad-ref-part"
          | _ => .error "subscript-too-deep"
        | s => .error s!"bad-subscript {s}"
      | [k, op, a, b] =>
        if (← k.getStr?) == "bin" && (← op.getStr?) == "+" then
          pure (.add (← parseSub0 f a) (← parseSub0 f b))
        else .error "bad-subscript-operator"
      | _ => .error "bad-subscript"

def parseParts0 (j : Json) : E (List (Name × List Sub0)) := do
  (← arr j).mapM fun p => do
    match ← arr p with
    | [n, ss] => pure (← n.getStr?, ← (← arr ss).mapM (parseSub0 16))
    | _ => .error "bad-ref-part"

def parseSub1 : Nat → Json → E Sub1
  | 0, _ => .error "fuel"
  | f + 1, j =>
    match j.getNat? with
    | .ok n => pure (.lit n)
    | .error _ => do
      match ← arr j with
      | [k, a] =>
        match ← k.getStr? with
        | "num" => pure (.lit (← a.getNat?))
        | "ref" =>
          let ps ← parseParts0 a
          match ps with
          | [(n, [])] => pure (.name n)
          | _ => pure (.ref ps)
        | s => .error s!"bad-subscript {s}"
      | [k, op, a, b] =>
        if (← k.getStr?) == "bin" && (← op.getStr?) == "+" then
          pure (.add (← parseSub1 f a) (← parseSub1 f b))
        else .error "bad-subscript-operator"
      | _ => .error "bad-subscript"

def parseParts (j : Json) : E (List (Name × List Sub1)) := do
  (← arr j).mapM fun p => do
    match ← arr p with
    | [n, ss] => pure (← n.getStr?, ← (← arr ss).mapM (parseSub1 16))
    | _ => .error "bad-ref-part"

def parseExpr : Nat → Json → E Expr
  | 0, _ => .error "fuel"
  | f + 1, j => do
    match ← arr j with
    | [k, a] =>
      match ← k.getStr? with
      | "num" => pure (.num (← a.getNat?))
      | "real" => pure (.real (← a.getStr?))
      | "bool" => pure (.bool (← a.getBool?))
      | "str" => pure (.str (← a.getStr?))
      | "ref" => pure (.ref (← parseParts a))
      | s => .error s!"bad-expr {s}"
    | [k, op, a] =>
      match ← k.getStr? with
      | "un" => pure (.un (← op.getStr?) (← parseExpr f a))
      | s => .error s!"bad-expr {s}"
    | [k, op, a, b] =>
      match ← k.getStr? with
      | "bin" => pure (.bin (← op.getStr?) (← parseExpr f a) (← parseExpr f b))
      | s => .error s!"bad-expr {s}"
    | _ => .error "bad-expr"

def parseOptExpr (f : Nat) (j : Json) : E (Option Expr) :=
  if j.isNull then pure none else do pure (some (← parseExpr f j))

def parseSMod : Nat → Json → E SMod
  | 0, _ => .error "fuel"
  | f + 1, j => do
    let subs ← (← arr (← field j "subs")).mapM (parseSMod f)
    pure (.mk (← strs (← field j "name")) subs (← parseOptExpr 64 (← field j "value")))

def parseSMods (j : Json) : E (List SMod) := do (← arr j).mapM (parseSMod 64)

def dotted (s : String) : List Name := s.splitOn "."

def parseComp (j : Json) : E SComp := do
  pure { name := ← (← field j "name").getStr?, type := dotted (← (← field j "type").getStr?),
         prefixes := ← strs (← field j "prefixes"), dims := ← nats (← field j "dims"),
         mods := ← parseSMods (← field j "mods"), value := ← parseOptExpr 64 (← field j "value") }

def parsePair (e : Json) : E (Expr × Expr) := do
  match ← arr e with
  | [l, r] => pure (← parseExpr 64 l, ← parseExpr 64 r)
  | _ => .error "bad-equation"

/-- [lhs, rhs]  |  ["for", i, lo, hi, [[lhs, rhs], ...]] -/
def parseEqn (e : Json) : E Eqn := do
  match ← arr e with
  | [l, r] => pure (.eq (← parseExpr 64 l) (← parseExpr 64 r))
  | [k, i, lo, hi, body] =>
    if (← k.getStr?) == "for" then
      pure (.forEq (← i.getStr?) (← lo.getNat?) (← hi.getNat?) (← (← arr body).mapM parsePair))
    else .error "bad-equation"
  | _ => .error "bad-equation"

def parseClass : Nat → Json → E SClass
  | 0, _ => .error "fuel"
  | f + 1, j => do
    let aj ← field j "alias"
    let alias ← if aj.isNull then pure none else do
      pure (some (dotted (← (← field aj "base").getStr?), ← parseSMods (← field aj "mods")))
    let exts ← (← arr (← field j "extends")).mapM fun e => do
      pure ({ ref := dotted (← (← field e "ref").getStr?), mods := ← parseSMods (← field e "mods") } : SExt)
    let classes ← (← arr (← field j "classes")).mapM (parseClass f)
    let comps ← (← arr (← field j "comps")).mapM parseComp
    let eqs ← (← arr (← field j "eqs")).mapM parseEqn
    let ieqs ← match j.getObjVal? "ieqs" with
      | .ok x => (← arr x).mapM parseEqn
      | .error _ => pure []
    pure (.mk (← (← field j "name").getStr?) (← (← field j "kind").getStr?) alias exts classes comps eqs ieqs)

def parseLib (j : Json) : E SLib := do (← arr j).mapM (parseClass 64)

/-! ## encoding -/

def jnat (n : Nat) : Json := Json.num (JsonNumber.fromNat n)
def jnats (xs : List Nat) : Json := Json.arr (xs.map jnat).toArray
def jstrs (xs : List String) : Json := Json.arr (xs.map Json.str).toArray
def dot (p : Path) : String := ".".intercalate p

/-! source form of subscripts (as sent by the harness): numbers, or expressions in source syntax -/
def srcNum (n : Nat) : Json := Json.arr #["num", jnat n]
def encSub0In : Sub0 → Json
  | .lit n => srcNum n
  | .name x => Json.arr #["ref", Json.arr #[Json.arr #[Json.str x, Json.arr #[]]]]
  | .add a b => Json.arr #["bin", "+", encSub0In a, encSub0In b]
def encSub0 : Sub0 → Json
  | .lit n => jnat n
  | s => encSub0In s
def jparts0 (ps : List (Name × List Sub0)) : Json :=
  Json.arr (ps.map fun p => Json.arr #[Json.str p.1, Json.arr (p.2.map encSub0).toArray]).toArray
def encSub1In : Sub1 → Json
  | .lit n => srcNum n
  | .name x => Json.arr #["ref", Json.arr #[Json.arr #[Json.str x, Json.arr #[]]]]
  | .ref ps => Json.arr #["ref", jparts0 ps]
  | .add a b => Json.arr #["bin", "+", encSub1In a, encSub1In b]
def encSub1 : Sub1 → Json
  | .lit n => jnat n
  | s => encSub1In s
def jparts (ps : List (Name × List Sub1)) : Json :=
  Json.arr (ps.map fun p => Json.arr #[Json.str p.1, Json.arr (p.2.map encSub1).toArray]).toArray

/-! canonical flat form of subscripts: numbers; ["ref", flat or plain name, subs]; ["uref", parts]; sums.
    Subscripts inside a reference that was left alone are left alone too (canonical, unrenamed). -/
def jnum (n : Nat) : Json := Json.arr #["num", jnat n]
/-- inner positions (operands of a sum) print literals as expressions; the top of a subscript
    prints a literal as a bare number -/
def canSub0In : Sub0 → Json
  | .lit n => jnum n
  | .name x => Json.arr #["ref", Json.str x, Json.arr #[]]
  | .add a b => Json.arr #["bin", "+", canSub0In a, canSub0In b]
def canSub0 : Sub0 → Json
  | .lit n => jnat n
  | s => canSub0In s
def canParts0 (ps : List (Name × List Sub0)) : Json :=
  Json.arr (ps.map fun p => Json.arr #[Json.str p.1, Json.arr (p.2.map canSub0).toArray]).toArray
def canRef0 (ps : List (Name × List Sub0)) : Json :=
  match ps with
  | [p] => Json.arr #["ref", Json.str p.1, Json.arr (p.2.map canSub0).toArray]
  | _ => Json.arr #["uref", canParts0 ps]
def canSub1In : Sub1 → Json
  | .lit n => jnum n
  | .name x => Json.arr #["ref", Json.str x, Json.arr #[]]
  | .ref ps => canRef0 ps
  | .add a b => Json.arr #["bin", "+", canSub1In a, canSub1In b]
def canSub1 : Sub1 → Json
  | .lit n => jnat n
  | s => canSub1In s
def encFSub0In : FSub0 → Json
  | .lit n => jnum n
  | .var p => Json.arr #["ref", Json.str (dot p), Json.arr #[]]
  | .name x => Json.arr #["ref", Json.str x, Json.arr #[]]
  | .add a b => Json.arr #["bin", "+", encFSub0In a, encFSub0In b]
def encFSub0 : FSub0 → Json
  | .lit n => jnat n
  | s => encFSub0In s
def encFSub1In : FSub1 → Json
  | .lit n => jnum n
  | .var p subs => Json.arr #["ref", Json.str (dot p), Json.arr (subs.map encFSub0).toArray]
  | .name x => Json.arr #["ref", Json.str x, Json.arr #[]]
  | .uref ps => canRef0 ps
  | .add a b => Json.arr #["bin", "+", encFSub1In a, encFSub1In b]
def encFSub1 : FSub1 → Json
  | .lit n => jnat n
  | s => encFSub1In s
def canParts (ps : List (Name × List Sub1)) : Json :=
  Json.arr (ps.map fun p => Json.arr #[Json.str p.1, Json.arr (p.2.map canSub1).toArray]).toArray

def encExpr : Expr → Json
  | .num n => Json.arr #["num", jnat n]
  | .real s => Json.arr #["real", Json.str s]
  | .bool b => Json.arr #["bool", Json.bool b]
  | .str s => Json.arr #["str", Json.str s]
  | .ref ps => Json.arr #["ref", jparts ps]
  | .un op a => Json.arr #["un", Json.str op, encExpr a]
  | .bin op a b => Json.arr #["bin", Json.str op, encExpr a, encExpr b]

def encOptExpr : Option Expr → Json
  | none => Json.null
  | some e => encExpr e

def encFExpr : FExpr → Json
  | .num n => Json.arr #["num", jnat n]
  | .real s => Json.arr #["real", Json.str s]
  | .bool b => Json.arr #["bool", Json.bool b]
  | .str s => Json.arr #["str", Json.str s]
  | .fref p subs => Json.arr #["ref", Json.str (dot p), Json.arr (subs.map encFSub1).toArray]
  | .uref [p] => Json.arr #["ref", Json.str p.1, Json.arr (p.2.map canSub1).toArray]
  | .uref ps => Json.arr #["uref", canParts ps]
  | .sym p => Json.arr #["sym", Json.str (dot p)]
  | .un op a => Json.arr #["un", Json.str op, encFExpr a]
  | .bin op a b => Json.arr #["bin", Json.str op, encFExpr a, encFExpr b]

mutual
  def encSMod : SMod → Json
    | .mk name subs value =>
      Json.mkObj [("name", jstrs name), ("subs", Json.arr (encSMods subs).toArray), ("value", encOptExpr value)]
  def encSMods : List SMod → List Json
    | [] => []
    | m :: ms => encSMod m :: encSMods ms
end

def encEqn : Eqn → Json
  | .eq l r => Json.arr #[encExpr l, encExpr r]
  | .forEq i lo hi body =>
    Json.arr #["for", Json.str i, jnat lo, jnat hi, Json.arr (body.map fun e => Json.arr #[encExpr e.1, encExpr e.2]).toArray]

def encFEqn : FEqn → Json
  | .eq l r => Json.arr #[encFExpr l, encFExpr r]
  | .forEq i lo hi body =>
    Json.arr #["for", Json.str i, jnat lo, jnat hi, Json.arr (body.map fun e => Json.arr #[encFExpr e.1, encFExpr e.2]).toArray]

def encComp (k : SComp) : Json :=
  Json.mkObj [("name", Json.str k.name), ("type", Json.str (dot k.type)), ("prefixes", jstrs k.prefixes),
    ("dims", jnats k.dims), ("mods", Json.arr (encSMods k.mods).toArray), ("value", encOptExpr k.value)]

mutual
  def encClass : SClass → Json
    | .mk name kind alias exts classes comps eqs ieqs =>
      Json.mkObj [("name", Json.str name), ("kind", Json.str kind),
        ("alias", match alias with
          | none => Json.null
          | some a => Json.mkObj [("base", Json.str (dot a.1)), ("mods", Json.arr (encSMods a.2).toArray)]),
        ("extends", Json.arr (exts.map fun e =>
          Json.mkObj [("ref", Json.str (dot e.ref)), ("mods", Json.arr (encSMods e.mods).toArray)]).toArray),
        ("classes", Json.arr (encClasses classes).toArray),
        ("comps", Json.arr (comps.map encComp).toArray),
        ("eqs", Json.arr (eqs.map encEqn).toArray),
        ("ieqs", Json.arr (ieqs.map encEqn).toArray)]
  def encClasses : List SClass → List Json
    | [] => []
    | c :: cs => encClass c :: encClasses cs
end

def encFVar (v : FVar) : Json :=
  Json.mkObj [("name", Json.str (dot v.path)), ("type", Json.str v.ty), ("prefixes", jstrs v.prefixes),
    ("dims", jnats v.dims), ("attrs", Json.mkObj (v.attrs.map fun a => (a.1, encFExpr a.2))),
    ("value", match v.value with | none => Json.null | some e => encFExpr e)]

def encErr : Err → String
  | .fuel => "fuel"
  | .noClass p => "noClass " ++ dot p
  | .badExtends => "badExtends"
  | .dupMember n => "dupMember " ++ n
  | .unknownTarget p => "unknownTarget " ++ dot p
  | .badAttr p => "badAttr " ++ dot p
  | .typeModNotLiteral => "typeModNotLiteral"
  | .targetElementary => "targetElementary"
  | .resolve m => "resolve " ++ m

def encResult : Except Err FlatModel → List (String × Json)
  | .error e => [("ok", Json.bool false), ("err", Json.str (encErr e))]
  | .ok m => [("ok", Json.bool true), ("vars", Json.arr (m.vars.map encFVar).toArray),
              ("eqs", Json.arr (m.eqs.map encFEqn).toArray), ("ieqs", Json.arr (m.ieqs.map encFEqn).toArray)]

def encMods (ms : List Mod) : Json :=
  Json.arr (ms.map fun m => Json.arr #[jstrs m.path, encExpr m.value]).toArray

/-- Requests:
    `flatten {lib, target}`            -> flat model of the reference semantics + the Modelica text
    `respell {lib, how: nested|dotted}` -> the library with every modification list respelled
    `desugar {mods}`                    -> the (path, expression) list of a spelled modification list -/
def handle (req : Json) : E Json := do
  match ← (← field req "op").getStr? with
  | "flatten" =>
    let src ← parseLib (← field req "lib")
    let target := dotted (← (← field req "target").getStr?)
    pure (Json.mkObj (encResult (flattenSrc src target) ++ [("text", Json.str (render src))]))
  | "respell" =>
    let src ← parseLib (← field req "lib")
    let f ← match ← (← field req "how").getStr? with
      | "nested" => pure toNestedList
      | "dotted" => pure (toDottedList [])
      | h => .error s!"bad-how {h}"
    pure (Json.mkObj [("ok", Json.bool true), ("lib", Json.arr (encClasses (respellList f src)).toArray)])
  | "desugar" =>
    let ms ← parseSMods (← field req "mods")
    pure (Json.mkObj [("ok", Json.bool true), ("mods", encMods (desugarList [] ms))])
  | o => .error s!"unknown-op {o}"

end PymocaVerif.Flatten.J
