import PymocaVerif.Model.ClassAsm
/-!
# Lemmas about the `ClassAsm` model: the listener machine refines the structural specification
-/
namespace PymocaVerif.ClassAsm

/-! ## Small facts -/

@[simp] theorem updLast_append_singleton {α} (g : α → α) (l : List α) (x : α) :
    updLast g (l ++ [x]) = l ++ [g x] := by
  induction l with
  | nil => rfl
  | cons a t ih =>
    cases t with
    | nil => rfl
    | cons b t' => simp only [List.cons_append] at ih ⊢; simp only [updLast]; rw [ih]

theorem tick_of_node {k : Ctr} (h : k.node ≠ .none) : tick k = k := by
  unfold tick; cases hk : k.node <;> simp_all

theorem ticks_of_node (n : Nat) {k : Ctr} (h : k.node ≠ .none) : ticks n k = k := by
  induction n with
  | zero => rfl
  | succ n ih => simp only [ticks, tick_of_node h, ih]

theorem run_ticks (n : Nat) (st : List Frame) (cl : Option ClauseSt) (k : Ctr) (ie : Bool)
    (fc : List ClassAst) (tl : List Event) :
    run ⟨st, cl, k, ie, fc⟩ (List.replicate n .enterElemMod ++ tl) = run ⟨st, cl, ticks n k, ie, fc⟩ tl := by
  induction n generalizing k with
  | zero => rfl
  | succ n ih => simp only [List.replicate_succ, List.cons_append, run, step, ticks]; exact ih _

/-! ## Component clauses -/

theorem run_decl (d : Decl) (f : Frame) (rest : List Frame) (cl : ClauseSt) (k : Ctr)
    (fc : List ClassAst) (tl : List Event) :
    run ⟨f :: rest, some cl, k, false, fc⟩ (declEvents d ++ tl) =
      match specDecl cl ((f.info.symbols ++ cl.syms).map (·.name)) f.closed.length k d with
      | .error e => .error e
      | .ok (y, k') => run ⟨f :: rest, some { cl with syms := cl.syms ++ [y] }, k', false, fc⟩ tl := by
  unfold declEvents specDecl
  simp only [List.append_assoc, List.cons_append, List.nil_append, run, step, Bool.false_eq_true, if_false]
  by_cases hmem : d.name ∈ (f.info.symbols ++ cl.syms).map (·.name)
  · rw [if_pos hmem, if_pos hmem]
  · rw [if_neg hmem, if_neg hmem]
    simp only []
    rw [run_ticks, ticks_of_node _ (by simp)]
    simp only [run, step, updLast_append_singleton]
    rw [run_ticks, ticks_of_node _ (by simp)]
    simp only [run, step, updLast_append_singleton]

theorem specDecl_syms (cl : ClauseSt) (x : List Sym) (names : List String) (sec : Nat) (k : Ctr) (d : Decl) :
    specDecl { cl with syms := x } names sec k d = specDecl cl names sec k d := rfl

theorem specDecls_syms (cl : ClauseSt) (x : List Sym) (names : List String) (sec : Nat) (ds : List Decl)
    (acc : List Sym) (k : Ctr) :
    specDecls { cl with syms := x } names sec ds acc k = specDecls cl names sec ds acc k := by
  induction ds generalizing acc k with
  | nil => rfl
  | cons d t ih =>
    simp only [specDecls, specDecl_syms]
    cases specDecl cl (names ++ acc.map (·.name)) sec k d with
    | error e => rfl
    | ok p => exact ih _ _

theorem run_decls (ds : List Decl) (f : Frame) (rest : List Frame) (cl : ClauseSt) (k : Ctr)
    (fc : List ClassAst) (tl : List Event) :
    run ⟨f :: rest, some cl, k, false, fc⟩ (declsEvents ds ++ tl) =
      match specDecls cl (f.info.symbols.map (·.name)) f.closed.length ds cl.syms k with
      | .error e => .error e
      | .ok (syms, k') => run ⟨f :: rest, some { cl with syms := syms }, k', false, fc⟩ tl := by
  induction ds generalizing cl k with
  | nil => simp [declsEvents, specDecls]
  | cons d t ih =>
    simp only [declsEvents, List.append_assoc, run_decl, specDecls, List.map_append]
    cases specDecl cl (f.info.symbols.map (·.name) ++ cl.syms.map (·.name)) f.closed.length k d with
    | error e => rfl
    | ok p =>
      obtain ⟨y, k'⟩ := p
      simp only []
      rw [ih, specDecls_syms]

theorem run_clause (c : Clause) (f : Frame) (rest : List Frame) (k : Ctr)
    (fc : List ClassAst) (tl : List Event) :
    run ⟨f :: rest, none, k, false, fc⟩ (clauseEvents c ++ tl) =
      match specClause c f k with
      | .error e => .error e
      | .ok (f', k') => run ⟨f' :: rest, none, k', false, fc⟩ tl := by
  unfold clauseEvents specClause
  simp only [List.append_assoc, List.cons_append, List.nil_append, run, step]
  rw [run_decls]
  simp only []
  cases specDecls ⟨c.prefixes, k.nextId, k.nextId + 1, k.nextId + 2, []⟩ (f.info.symbols.map (·.name))
      f.closed.length c.decls [] { k with nextId := k.nextId + 3 } with
  | error e => rfl
  | ok p =>
    obtain ⟨syms, k'⟩ := p
    simp only [run, step]

/-! ## Extends clauses, short classes -/

theorem run_extEvs (evs : List ExtEv) (st : List Frame) (f : Frame) (k : Ctr) (fc : List ClassAst) (tl : List Event) :
    run ⟨f :: st, none, k, true, fc⟩ (extEvsEvents evs ++ tl) = run ⟨f :: st, none, extEvsCtr evs k, true, fc⟩ tl := by
  induction evs generalizing k with
  | nil => rfl
  | cons e t ih =>
    cases e with
    | m => simp only [extEvsEvents, extEvEvents, List.cons_append, List.nil_append, run, step,
             extEvsCtr, extEvCtr]; exact ih _
    | d p ty n =>
      simp only [extEvsEvents, extEvEvents, List.cons_append, List.nil_append, run, step,
        extEvsCtr, extEvCtr, if_true]
      exact ih _

theorem run_ext (e : ExtSrc) (f : Frame) (rest : List Frame) (k : Ctr) (fc : List ClassAst) (tl : List Event) :
    run ⟨f :: rest, none, k, false, fc⟩ (extEvents e ++ tl) =
      run ⟨f.addExt e.path e.args :: rest, none, extEvsCtr e.evs k, false, fc⟩ tl := by
  unfold extEvents
  simp only [List.append_assoc, List.cons_append, List.nil_append, run, step]
  rw [run_extEvs]
  simp only [run, step]

theorem run_short (sh : ShortSrc) (f : Frame) (rest : List Frame) (k : Ctr) (fc : List ClassAst) (tl : List Event) :
    run ⟨f :: rest, none, k, false, fc⟩ (shortEvents sh ++ tl) =
      run ⟨f.attach (specShort sh) :: rest, none, ticks sh.ticks k, false, fc⟩ tl := by
  unfold shortEvents
  simp only [List.append_assoc, List.cons_append, List.nil_append, run, step]
  rw [run_ticks]
  simp only [run, step]
  rfl

/-! ## Classes: the machine computes the structural specification -/

mutual
theorem run_class (c : ClassSrc) (p : Frame) (rest : List Frame) (k : Ctr) (fc : List ClassAst) (tl : List Event) :
    run ⟨p :: rest, none, k, false, fc⟩ (classEvents c ++ tl) =
      match specClass c k with
      | .error e => .error e
      | .ok (a, k') => run ⟨p.attach a :: rest, none, k', false, fc⟩ tl := by
  match c with
  | .mk h first ss =>
    simp only [classEvents, specClass, List.append_assoc, List.cons_append, List.nil_append, run, step]
    rw [run_elems first]
    cases specElems first (Frame.new h.kind h.partial_ h.encapsulated) k with
    | error e => rfl
    | ok r =>
      obtain ⟨f, k1⟩ := r
      simp only [run, step]
      rw [run_sections ss]
      cases specSections ss { f with closed := f.closed ++ [none] } k1 with
      | error e => rfl
      | ok r2 =>
        obtain ⟨f2, k2⟩ := r2
        simp only []
        rw [run_ticks]
        simp only [run, step]
        rfl
theorem run_elems (es : Elems) (f : Frame) (rest : List Frame) (k : Ctr) (fc : List ClassAst) (tl : List Event) :
    run ⟨f :: rest, none, k, false, fc⟩ (elemsEvents es ++ tl) =
      match specElems es f k with
      | .error e => .error e
      | .ok (f', k') => run ⟨f' :: rest, none, k', false, fc⟩ tl := by
  match es with
  | .nil => simp [elemsEvents, specElems]
  | .comp c t =>
    simp only [elemsEvents, specElems, List.append_assoc]
    rw [run_clause]
    cases specClause c f k with
    | error e => rfl
    | ok r => obtain ⟨f1, k1⟩ := r; exact run_elems t f1 rest k1 fc tl
  | .ext e t =>
    simp only [elemsEvents, specElems, List.append_assoc]
    rw [run_ext]
    exact run_elems t _ rest _ fc tl
  | .imp i t =>
    simp only [elemsEvents, specElems, List.cons_append, List.nil_append, run, step]
    cases addImport f.info.imports i with
    | error e => rfl
    | ok imps => exact run_elems t _ rest _ fc tl
  | .cls c t =>
    simp only [elemsEvents, specElems, List.append_assoc]
    rw [run_class c]
    cases specClass c k with
    | error e => rfl
    | ok r => obtain ⟨a, k1⟩ := r; exact run_elems t _ rest k1 fc tl
  | .short sh t =>
    simp only [elemsEvents, specElems, List.append_assoc]
    rw [run_short]
    exact run_elems t _ rest _ fc tl
theorem run_sections (ss : Sections) (f : Frame) (rest : List Frame) (k : Ctr) (fc : List ClassAst) (tl : List Event) :
    run ⟨f :: rest, none, k, false, fc⟩ (sectionsEvents ss ++ tl) =
      match specSections ss f k with
      | .error e => .error e
      | .ok (f', k') => run ⟨f' :: rest, none, k', false, fc⟩ tl := by
  match ss with
  | .nil => simp [sectionsEvents, specSections]
  | .elems vis es t =>
    simp only [sectionsEvents, specSections, List.append_assoc, List.cons_append, List.nil_append]
    rw [run_elems es]
    cases specElems es f k with
    | error e => rfl
    | ok r =>
      obtain ⟨f1, k1⟩ := r
      simp only [run, step]
      exact run_sections t _ rest k1 fc tl
  | .eqs ini items t =>
    simp only [sectionsEvents, specSections, List.cons_append, List.nil_append, run, step,
      updLast_append_singleton, List.nil_append]
    exact run_sections t _ rest k fc tl
  | .algs ini items t =>
    simp only [sectionsEvents, specSections, List.cons_append, List.nil_append, run, step,
      updLast_append_singleton, List.nil_append]
    exact run_sections t _ rest k fc tl
end

theorem run_file (file : List (Bool × ClassSrc)) (root : Frame) (k : Ctr) (fc : List ClassAst) :
    (match run ⟨[root], none, k, false, fc⟩ (fileEvents file) with
      | .ok s => Except.ok s.fileClasses
      | .error e => .error e) = specFile file fc k := by
  induction file generalizing root k fc with
  | nil => rfl
  | cons x t ih =>
    obtain ⟨fin, c⟩ := x
    simp only [fileEvents, specFile, List.append_assoc]
    rw [run_class c]
    cases specClass c k with
    | error e => rfl
    | ok r =>
      obtain ⟨a, k1⟩ := r
      simp only [List.cons_append, List.nil_append, run, step, Frame.attach]
      exact ih _ _ _

theorem runListener_eq_expected (file : List (Bool × ClassSrc)) : runListener file = expected file := by
  unfold runListener expected LState.init
  exact run_file file _ _ _

/-! ## Component clauses, explicitly -/

def Leq (a b : Ctr) : Prop := a.symCount ≤ b.symCount ∧ a.nextId ≤ b.nextId

theorem Leq.refl (a : Ctr) : Leq a a := ⟨Nat.le_refl _, Nat.le_refl _⟩
theorem Leq.trans {a b c : Ctr} (h1 : Leq a b) (h2 : Leq b c) : Leq a c :=
  ⟨Nat.le_trans h1.1 h2.1, Nat.le_trans h1.2 h2.2⟩

/-- The symbol's declaration number and object tags were handed out between `lo` and `hi`. -/
def Sym.Between (lo hi : Ctr) (y : Sym) : Prop :=
  lo.symCount ≤ y.order ∧ y.order < hi.symCount ∧ lo.nextId ≤ y.typeId ∧ y.typeId < hi.nextId ∧
  lo.nextId ≤ y.dimsId ∧ y.dimsId < hi.nextId ∧ lo.nextId ≤ y.prefId ∧ y.prefId < hi.nextId

theorem Sym.Between.mono {lo hi lo' hi' : Ctr} {y : Sym} (h : y.Between lo hi) (h1 : Leq lo' lo) (h2 : Leq hi hi') :
    y.Between lo' hi' := by
  unfold Sym.Between Leq at *; omega

theorem Sym.Between.distinct {a b c d : Ctr} {y z : Sym} (hy : y.Between a b) (hz : z.Between c d) (h : Leq b c) :
    y.Distinct z ∧ y.order < z.order := by
  unfold Sym.Between Leq Sym.Distinct at *; omega

theorem Sym.Distinct.symm {y z : Sym} (h : y.Distinct z) : z.Distinct y :=
  ⟨Ne.symm h.1, Ne.symm h.2.1, Ne.symm h.2.2⟩

/-- The symbol a declarator stands for when its declaration is exited. -/
def declSym (cl : ClauseSt) (sec : Nat) (k : Ctr) (d : Decl) : Sym :=
  { declExit d.dims d.mod k.nextId (newSym cl d.name k.symCount sec) with comment := d.comment }

def declCtr (k : Ctr) (d : Decl) : Ctr := ⟨k.symCount + 1, .none, k.nextId + dimsAlloc d.dims⟩

def declSyms (cl : ClauseSt) (sec : Nat) : List Decl → Ctr → List Sym
  | [], _ => []
  | d :: t, k => declSym cl sec k d :: declSyms cl sec t (declCtr k d)

def declsCtr : List Decl → Ctr → Ctr
  | [], k => k
  | d :: t, k => declsCtr t (declCtr k d)

theorem specDecl_ok {cl : ClauseSt} {names : List String} {sec : Nat} {k : Ctr} {d : Decl} {y : Sym} {k' : Ctr} :
    specDecl cl names sec k d = .ok (y, k') ↔ d.name ∉ names ∧ y = declSym cl sec k d ∧ k' = declCtr k d := by
  unfold specDecl
  by_cases h : d.name ∈ names
  · simp [h]
  · simp only [h, if_false, not_false_eq_true, true_and, Except.ok.injEq, Prod.mk.injEq]
    constructor
    · rintro ⟨rfl, rfl⟩; exact ⟨rfl, rfl⟩
    · rintro ⟨rfl, rfl⟩; exact ⟨rfl, rfl⟩

theorem specDecl_err {cl : ClauseSt} {names : List String} {sec : Nat} {k : Ctr} {d : Decl} {e : Err} :
    specDecl cl names sec k d = .error e ↔ d.name ∈ names ∧ e = .alreadyDefined d.name := by
  unfold specDecl
  by_cases h : d.name ∈ names
  · simp [h, eq_comm]
  · simp [h]

@[simp] theorem declSym_name (cl : ClauseSt) (sec : Nat) (k : Ctr) (d : Decl) : (declSym cl sec k d).name = d.name := by
  unfold declSym declExit newSym; cases d.dims <;> rfl

theorem declSyms_names (cl : ClauseSt) (sec : Nat) (ds : List Decl) (k : Ctr) :
    (declSyms cl sec ds k).map (·.name) = ds.map (·.name) := by
  induction ds generalizing k with
  | nil => rfl
  | cons d t ih => simp [declSyms, ih]

/-- `specDecls` succeeds exactly when no name repeats; then it yields the declarators' symbols. -/
theorem specDecls_ok {cl : ClauseSt} {names : List String} {sec : Nat} {ds : List Decl} {acc : List Sym} {k : Ctr}
    {syms : List Sym} {k' : Ctr} :
    specDecls cl names sec ds acc k = .ok (syms, k') ↔
      (ds.map (·.name)).Nodup ∧ (∀ n ∈ ds.map (·.name), n ∉ names ++ acc.map (·.name)) ∧
      syms = acc ++ declSyms cl sec ds k ∧ k' = declsCtr ds k := by
  induction ds generalizing acc k with
  | nil => simp [specDecls, declSyms, declsCtr, eq_comm]
  | cons d t ih =>
    simp only [specDecls]
    cases h : specDecl cl (names ++ acc.map (·.name)) sec k d with
    | error e =>
      rw [specDecl_err] at h
      simp only [reduceCtorEq, false_iff, not_and]
      intro _ h2
      exact absurd h.1 (h2 d.name (by simp))
    | ok p =>
      obtain ⟨y, k1⟩ := p
      rw [specDecl_ok] at h
      obtain ⟨hn, rfl, rfl⟩ := h
      simp only [ih, List.map_append, List.map_cons, List.map_nil, declSym_name, List.nodup_cons, List.mem_cons,
        forall_eq_or_imp, declSyms, declsCtr, List.append_assoc, List.cons_append, List.nil_append, List.mem_append,
        List.not_mem_nil, or_false]
      constructor
      · rintro ⟨h1, h2, h3, h4⟩
        refine ⟨⟨?_, h1⟩, ⟨?_, ?_⟩, h3, h4⟩
        · intro hm; exact (h2 _ hm) (Or.inr (Or.inr rfl))
        · simpa using hn
        · intro n hn' hc; exact (h2 n hn') (by rcases hc with hc | hc; exact Or.inl hc; exact Or.inr (Or.inl hc))
      · rintro ⟨⟨h1, h1'⟩, ⟨h2, h2'⟩, h3, h4⟩
        refine ⟨h1', ?_, h3, h4⟩
        intro n hn' hc
        rcases hc with hc | hc | hc
        · exact h2' n hn' (Or.inl hc)
        · exact h2' n hn' (Or.inr hc)
        · subst hc; exact h1 hn'



theorem declSyms_length (cl : ClauseSt) (sec : Nat) (ds : List Decl) (k : Ctr) :
    (declSyms cl sec ds k).length = ds.length := by
  induction ds generalizing k with
  | nil => rfl
  | cons d t ih => simp [declSyms, ih]

theorem declsCtr_symCount (ds : List Decl) (k : Ctr) : (declsCtr ds k).symCount = k.symCount + ds.length := by
  induction ds generalizing k with
  | nil => rfl
  | cons d t ih => simp only [declsCtr, ih, declCtr, List.length_cons]; omega

theorem declsCtr_nextId (ds : List Decl) (k : Ctr) : k.nextId ≤ (declsCtr ds k).nextId := by
  induction ds generalizing k with
  | nil => exact Nat.le_refl _
  | cons d t ih => simp only [declsCtr]; exact Nat.le_trans (by simp [declCtr]) (ih _)

theorem declsCtr_node (ds : List Decl) (k : Ctr) (h : ds ≠ []) : (declsCtr ds k).node = .none := by
  induction ds generalizing k with
  | nil => exact absurd rfl h
  | cons d t ih =>
    cases t with
    | nil => rfl
    | cons d' t' => simp only [declsCtr] at ih ⊢; exact ih _ (by simp)

/-- What a declarator's symbol looks like before the clause is exited. -/
theorem declSym_fields (cl : ClauseSt) (sec : Nat) (k : Ctr) (d : Decl) :
    let y := declSym cl sec k d
    y.typeId = cl.typeId ∧ y.prefId = cl.prefId ∧ y.order = k.symCount ∧ y.sec = sec ∧ y.vis = .priv ∧
    y.prefixes = cl.prefixes ∧ y.comment = d.comment ∧ y.cmod = applyMod none d.mod ∧ y.type = [] ∧
    y.dims = dimsSpec none d.dims ∧
    (y.dimsId = cl.dimsId ∨ (y.dimsId = k.nextId ∧ (declCtr k d).nextId = k.nextId + 1)) := by
  unfold declSym declExit newSym declCtr dimsAlloc dimsSpec
  cases d.dims <;> simp

theorem declSyms_fields (cl : ClauseSt) (sec : Nat) (ds : List Decl) (k : Ctr) :
    ∀ y ∈ declSyms cl sec ds k,
      y.typeId = cl.typeId ∧ y.prefId = cl.prefId ∧ y.sec = sec ∧ y.vis = .priv ∧ y.prefixes = cl.prefixes ∧
      y.type = [] ∧ k.symCount ≤ y.order ∧ y.order < (declsCtr ds k).symCount ∧
      (y.dimsId = cl.dimsId ∨ (k.nextId ≤ y.dimsId ∧ y.dimsId < (declsCtr ds k).nextId)) := by
  induction ds generalizing k with
  | nil => intro y hy; cases hy
  | cons d t ih =>
    intro y hy
    simp only [declSyms, List.mem_cons] at hy
    have hs := declsCtr_symCount t (declCtr k d)
    have hn := declsCtr_nextId t (declCtr k d)
    rcases hy with rfl | hy
    · have h := declSym_fields cl sec k d
      simp only at h
      obtain ⟨h1, h2, h3, h4, h5, h6, _, _, h9, _, h11⟩ := h
      refine ⟨h1, h2, h4, h5, h6, h9, by omega, ?_, ?_⟩
      · have := declsCtr_symCount (d :: t) k; simp only [List.length_cons] at this; omega
      · rcases h11 with h | ⟨h, h'⟩
        · exact Or.inl h
        · right; simp only [declsCtr]; omega
    · obtain ⟨h1, h2, h3, h4, h5, h6, h7, h8, h9⟩ := ih _ y hy
      refine ⟨h1, h2, h3, h4, h5, h6, ?_, h8, ?_⟩
      · simp only [declCtr] at h7; omega
      · rcases h9 with h | ⟨h, h'⟩
        · exact Or.inl h
        · right; simp only [declsCtr]; simp only [declCtr] at h; exact ⟨by omega, h'⟩

theorem declSyms_order (cl : ClauseSt) (sec : Nat) (ds : List Decl) (k : Ctr) :
    (declSyms cl sec ds k).Pairwise (fun a b => a.order < b.order) := by
  induction ds generalizing k with
  | nil => exact List.Pairwise.nil
  | cons d t ih =>
    simp only [declSyms, List.pairwise_cons]
    refine ⟨?_, ih _⟩
    intro z hz
    have h := (declSyms_fields cl sec t (declCtr k d) z hz).2.2.2.2.2.2.1
    have h0 := (declSym_fields cl sec k d).2.2.1
    simp only [declCtr] at h
    omega

theorem declSyms_views (cl : ClauseSt) (sec : Nat) (ds : List Decl) (k : Ctr) :
    (declSyms cl sec ds k).map Sym.view =
      ds.map fun d => ⟨d.name, [], cl.prefixes, dimsSpec none d.dims, d.comment, applyMod none d.mod⟩ := by
  induction ds generalizing k with
  | nil => rfl
  | cons d t ih =>
    simp only [declSyms, List.map_cons, ih, List.cons.injEq, and_true]
    have h := declSym_fields cl sec k d
    simp only at h
    obtain ⟨_, _, _, _, _, h6, h7, h8, h9, h10, _⟩ := h
    simp [Sym.view, h6, h7, h8, h9, h10]



theorem mem_copyTail {n : Nat} {l : List Sym} {z : Sym} (hz : z ∈ copyTail n l) :
    ∃ y ∈ l, ∃ j, j < l.length ∧ z.dimsId = n + 3 * j ∧ z.prefId = n + 3 * j + 1 ∧ z.typeId = n + 3 * j + 2 ∧
      z.order = y.order ∧ z.sec = y.sec ∧ z.vis = y.vis := by
  induction l generalizing n with
  | nil => cases hz
  | cons y t ih =>
    simp only [copyTail, List.mem_cons] at hz
    rcases hz with rfl | hz
    · exact ⟨y, by simp, 0, by simp, rfl, rfl, rfl, rfl, rfl, rfl⟩
    · obtain ⟨y', hy', j, hj, h1, h2, h3, h4, h5, h6⟩ := ih hz
      refine ⟨y', by simp [hy'], j + 1, by simp [hj], ?_, ?_, ?_, h4, h5, h6⟩ <;> omega

theorem copyTail_good (n : Nat) (l : List Sym) (h : l.Pairwise (fun a b => a.order < b.order)) :
    (copyTail n l).Pairwise (fun a b => a.Distinct b ∧ a.order < b.order) := by
  induction l generalizing n with
  | nil => exact List.Pairwise.nil
  | cons y t ih =>
    rw [List.pairwise_cons] at h
    simp only [copyTail, List.pairwise_cons]
    refine ⟨?_, ih _ h.2⟩
    intro z hz
    obtain ⟨y', hy', j, _, h1, h2, h3, h4, _, _⟩ := mem_copyTail hz
    have := h.1 y' hy'
    unfold Sym.Distinct
    simp only
    omega


/-! ## `exitComponent_clause` on the symbols of the clause -/

/-- The symbols after the type was filled in and the clause-level subscripts were joined. -/
def clauseS2 (ty : List String) (cd : Option (List Expr)) (cid nid : Nat) (l : List Sym) : List Sym :=
  match cd with
  | some d => joinDims d cid nid (nid + 1) (l.map fun y => { y with type := ty })
  | none => l.map fun y => { y with type := ty }

theorem clauseExit_eq (ty : List String) (cd : Option (List Expr)) (cid nid : Nat) (l : List Sym) :
    clauseExit ty cd cid nid l =
      match clauseS2 ty cd cid nid l with
      | [] => []
      | y0 :: ys => y0 :: copyTail (nid + cdimsAlloc cd l.length) ys := by
  unfold clauseExit clauseS2
  cases cd <;> rfl

theorem copyTail_map {β} (g : Sym → β) (hg : ∀ y a b c, g { y with dimsId := a, prefId := b, typeId := c } = g y)
    (n : Nat) (l : List Sym) : (copyTail n l).map g = l.map g := by
  induction l generalizing n with
  | nil => rfl
  | cons y t ih => simp [copyTail, hg, ih]

theorem joinDims_map {β} (g : Sym → β) (hg : ∀ y a b, g { y with dims := a, dimsId := b } = g y)
    (d : List Expr) (cid nid m : Nat) (l : List Sym) : (joinDims d cid nid m l).map g = l.map g := by
  induction l generalizing m with
  | nil => rfl
  | cons y t ih =>
    simp only [joinDims, List.map_cons, ih]
    split <;> simp [hg]

theorem mem_joinDims {d : List Expr} {cid nid m : Nat} {l : List Sym} {z : Sym} (hz : z ∈ joinDims d cid nid m l) :
    ∃ y ∈ l, z.order = y.order ∧ z.sec = y.sec ∧ z.vis = y.vis ∧ z.typeId = y.typeId ∧ z.prefId = y.prefId ∧
      (z.dimsId = nid ∨ (m ≤ z.dimsId ∧ z.dimsId < m + l.length)) := by
  induction l generalizing m with
  | nil => cases hz
  | cons y t ih =>
    simp only [joinDims, List.mem_cons] at hz
    rcases hz with rfl | hz
    · refine ⟨y, by simp, ?_⟩
      split
      · exact ⟨rfl, rfl, rfl, rfl, rfl, Or.inl rfl⟩
      · exact ⟨rfl, rfl, rfl, rfl, rfl, Or.inr ⟨Nat.le_refl _, by simp⟩⟩
    · obtain ⟨y', hy', h1, h2, h3, h4, h5, h6⟩ := ih hz
      refine ⟨y', by simp [hy'], h1, h2, h3, h4, h5, ?_⟩
      rcases h6 with h6 | h6
      · exact Or.inl h6
      · right; simp only [List.length_cons]; omega

theorem clauseS2_map {β} (g : Sym → β) (hg : ∀ y a b c, g { y with type := a, dims := b, dimsId := c } = g y)
    (ty : List String) (cd : Option (List Expr)) (cid nid : Nat) (l : List Sym) :
    (clauseS2 ty cd cid nid l).map g = l.map g := by
  unfold clauseS2
  cases cd with
  | none =>
    simp only [List.map_map]
    apply List.map_congr_left
    intro y _
    exact hg y ty y.dims y.dimsId
  | some d =>
    rw [joinDims_map g (fun y a b => by simpa using hg y y.type a b)]
    simp only [List.map_map]
    apply List.map_congr_left
    intro y _
    exact hg y ty y.dims y.dimsId

theorem mem_clauseS2 {ty : List String} {cd : Option (List Expr)} {cid nid : Nat} {l : List Sym} {z : Sym}
    (hz : z ∈ clauseS2 ty cd cid nid l) :
    ∃ y ∈ l, z.order = y.order ∧ z.sec = y.sec ∧ z.vis = y.vis ∧ z.typeId = y.typeId ∧ z.prefId = y.prefId ∧
      (z.dimsId = y.dimsId ∨ (nid ≤ z.dimsId ∧ z.dimsId < nid + cdimsAlloc cd l.length)) := by
  unfold clauseS2 at hz
  cases cd with
  | none =>
    simp only [List.mem_map] at hz
    obtain ⟨y, hy, rfl⟩ := hz
    exact ⟨y, hy, rfl, rfl, rfl, rfl, rfl, Or.inl rfl⟩
  | some d =>
    obtain ⟨y', hy', h1, h2, h3, h4, h5, h6⟩ := mem_joinDims hz
    simp only [List.mem_map] at hy'
    obtain ⟨y, hy, rfl⟩ := hy'
    refine ⟨y, hy, h1, h2, h3, h4, h5, Or.inr ?_⟩
    simp only [cdimsAlloc, List.length_map] at h6 ⊢
    omega

theorem clauseExit_map {β} (g : Sym → β) (hg : ∀ y a b c, g { y with type := a, dims := b, dimsId := c } = g y)
    (hg' : ∀ y a b c, g { y with dimsId := a, prefId := b, typeId := c } = g y)
    (ty : List String) (cd : Option (List Expr)) (cid nid : Nat) (l : List Sym) :
    (clauseExit ty cd cid nid l).map g = l.map g := by
  rw [clauseExit_eq, ← clauseS2_map g hg ty cd cid nid l]
  cases clauseS2 ty cd cid nid l with
  | nil => rfl
  | cons y0 ys => simp [copyTail_map g hg']

/-- The source view of a symbol after `exitComponent_clause`. -/
def exitView (ty : List String) (cd : Option (List Expr)) (cid : Nat) (y : Sym) : SymView :=
  { y.view with type := ty, dims := match cd with
      | some d => if y.dimsId = cid then [d] else y.dims ++ [d]
      | none => y.dims }

theorem joinDims_views (d : List Expr) (cid nid m : Nat) (l : List Sym) :
    (joinDims d cid nid m l).map Sym.view =
      l.map fun y => { y.view with dims := if y.dimsId = cid then [d] else y.dims ++ [d] } := by
  induction l generalizing m with
  | nil => rfl
  | cons y t ih =>
    simp only [joinDims, List.map_cons, ih, List.cons.injEq, and_true]
    split <;> rfl

theorem clauseExit_views (ty : List String) (cd : Option (List Expr)) (cid nid : Nat) (l : List Sym) :
    (clauseExit ty cd cid nid l).map Sym.view = l.map (exitView ty cd cid) := by
  have h2 : (clauseS2 ty cd cid nid l).map Sym.view = l.map (exitView ty cd cid) := by
    unfold clauseS2 exitView
    cases cd with
    | none => simp [List.map_map, Function.comp_def, Sym.view]
    | some d => rw [joinDims_views]; simp [List.map_map, Function.comp_def, Sym.view]
  rw [clauseExit_eq, ← h2]
  cases clauseS2 ty cd cid nid l with
  | nil => rfl
  | cons y0 ys => simp [copyTail_map Sym.view (fun _ _ _ _ => rfl)]

def clauseSt (c : Clause) (k : Ctr) : ClauseSt := ⟨c.prefixes, k.nextId, k.nextId + 1, k.nextId + 2, []⟩
def clauseK3 (k : Ctr) : Ctr := { k with nextId := k.nextId + 3 }

/-- The symbols a component clause adds to its class. -/
def clauseSyms (c : Clause) (sec : Nat) (k : Ctr) : List Sym :=
  clauseExit c.type c.cdims (k.nextId + 2) (declsCtr c.decls (clauseK3 k)).nextId
    (declSyms (clauseSt c k) sec c.decls (clauseK3 k))

def clauseCtr (c : Clause) (k : Ctr) : Ctr :=
  { declsCtr c.decls (clauseK3 k) with
    nextId := (declsCtr c.decls (clauseK3 k)).nextId + clauseExitAlloc c.cdims c.decls.length }

theorem specClause_ok {c : Clause} {f f' : Frame} {k k' : Ctr} :
    specClause c f k = .ok (f', k') ↔
      c.names.Nodup ∧ (∀ n ∈ c.names, n ∉ f.info.symbols.map (·.name)) ∧
      f' = { f with info := { f.info with symbols := f.info.symbols ++ clauseSyms c f.closed.length k } } ∧
      k' = clauseCtr c k := by
  unfold specClause
  simp only []
  split
  · next syms k1 h =>
    obtain ⟨h1, h2, rfl, rfl⟩ := specDecls_ok.mp h
    simp only [Except.ok.injEq, Prod.mk.injEq, List.nil_append, declSyms_length]
    constructor
    · rintro ⟨rfl, rfl⟩
      exact ⟨h1, by simpa [Clause.names] using h2, rfl, rfl⟩
    · rintro ⟨_, _, rfl, rfl⟩
      exact ⟨rfl, rfl⟩
  · next e h =>
    simp only [reduceCtorEq, false_iff, not_and]
    intro h1 h2
    have := specDecls_ok (cl := ⟨c.prefixes, k.nextId, k.nextId + 1, k.nextId + 2, []⟩)
      (names := f.info.symbols.map (·.name)) (sec := f.closed.length) (ds := c.decls) (acc := [])
      (k := { k with nextId := k.nextId + 3 }) (syms := _) (k' := _) |>.mpr ⟨h1, by simpa [Clause.names] using h2, rfl, rfl⟩
    rw [h] at this; cases this

/-- Views of the declarators' symbols after the clause is exited (`cid` is older than every tag handed
    out during the declarations, so "holds the default dimensions object" means "has no subscripts"). -/
theorem declSyms_exitViews (cl : ClauseSt) (sec : Nat) (ty : List String) (cd : Option (List Expr))
    (ds : List Decl) (k : Ctr) (hk : cl.dimsId < k.nextId) :
    (declSyms cl sec ds k).map (exitView ty cd cl.dimsId) =
      ds.map fun d => ⟨d.name, ty, cl.prefixes, dimsSpec cd d.dims, d.comment, applyMod none d.mod⟩ := by
  induction ds generalizing k with
  | nil => rfl
  | cons d t ih =>
    simp only [declSyms, List.map_cons]
    rw [ih _ (by simp only [declCtr]; omega)]
    simp only [List.cons.injEq, and_true]
    unfold exitView declSym declExit newSym Sym.view dimsSpec defaultDims
    cases cd <;> cases hd : d.dims <;> simp
    omega

theorem clauseSyms_views (c : Clause) (sec : Nat) (k : Ctr) : (clauseSyms c sec k).map Sym.view = c.views := by
  unfold clauseSyms Clause.views
  rw [clauseExit_views]
  exact declSyms_exitViews (clauseSt c k) sec c.type c.cdims c.decls (clauseK3 k) (by simp [clauseSt, clauseK3])

theorem clauseSyms_names (c : Clause) (sec : Nat) (k : Ctr) : (clauseSyms c sec k).map (·.name) = c.names := by
  unfold clauseSyms Clause.names
  rw [clauseExit_map (·.name) (fun _ _ _ _ => rfl) (fun _ _ _ _ => rfl)]
  exact declSyms_names _ _ _ _

theorem clauseSyms_length (c : Clause) (sec : Nat) (k : Ctr) : (clauseSyms c sec k).length = c.decls.length := by
  have := congrArg List.length (clauseSyms_names c sec k)
  simpa [Clause.names] using this

theorem clauseCtr_leq (c : Clause) (k : Ctr) : Leq k (clauseCtr c k) := by
  unfold clauseCtr Leq
  have h1 := declsCtr_symCount c.decls (clauseK3 k)
  have h2 := declsCtr_nextId c.decls (clauseK3 k)
  simp only [clauseK3] at h1 h2 ⊢
  omega



theorem clauseSyms_good (c : Clause) (sec : Nat) (k : Ctr) :
    (clauseSyms c sec k).Pairwise (fun a b => a.Distinct b ∧ a.order < b.order) ∧
    ∀ y ∈ clauseSyms c sec k, y.Between k (clauseCtr c k) ∧ y.sec = sec ∧ y.vis = .priv := by
  unfold clauseSyms clauseCtr
  have hf := declSyms_fields (clauseSt c k) sec c.decls (clauseK3 k)
  have ho := declSyms_order (clauseSt c k) sec c.decls (clauseK3 k)
  have hl := declSyms_length (clauseSt c k) sec c.decls (clauseK3 k)
  have hn := declsCtr_nextId c.decls (clauseK3 k)
  generalize declSyms (clauseSt c k) sec c.decls (clauseK3 k) = l at hf ho hl
  generalize declsCtr c.decls (clauseK3 k) = kd at hf hn
  simp only [clauseSt, clauseK3] at hf hn
  rw [clauseExit_eq]
  have hm := @mem_clauseS2 c.type c.cdims (k.nextId + 2) kd.nextId l
  have hord : (clauseS2 c.type c.cdims (k.nextId + 2) kd.nextId l).Pairwise (fun a b => a.order < b.order) := by
    have := clauseS2_map (·.order) (fun _ _ _ _ => rfl) c.type c.cdims (k.nextId + 2) kd.nextId l
    have h1 : (l.map (·.order)).Pairwise (· < ·) := by rw [List.pairwise_map]; exact ho
    rw [← this, List.pairwise_map] at h1
    exact h1
  have hlen : (clauseS2 c.type c.cdims (k.nextId + 2) kd.nextId l).length = l.length := by
    have := congrArg List.length (clauseS2_map (·.order) (fun _ _ _ _ => rfl) c.type c.cdims (k.nextId + 2) kd.nextId l)
    simpa using this
  generalize clauseS2 c.type c.cdims (k.nextId + 2) kd.nextId l = s2 at hm hord hlen
  cases s2 with
  | nil => simp
  | cons z0 zs =>
    simp only [List.length_cons] at hlen
    rw [List.pairwise_cons] at hord
    have hal : clauseExitAlloc c.cdims c.decls.length = cdimsAlloc c.cdims l.length + 3 * zs.length := by
      unfold clauseExitAlloc; rw [← hl, ← hlen]; simp
    -- facts about any element of s2
    have hs2 : ∀ z ∈ z0 :: zs, z.sec = sec ∧ z.vis = .priv ∧ z.typeId = k.nextId + 1 ∧ z.prefId = k.nextId ∧
        k.symCount ≤ z.order ∧ z.order < kd.symCount ∧ k.nextId ≤ z.dimsId ∧
        z.dimsId < kd.nextId + cdimsAlloc c.cdims l.length := by
      intro z hz
      obtain ⟨y, hy, h1, h2, h3, h4, h5, h6⟩ := hm hz
      obtain ⟨f1, f2, f3, f4, _, _, f7, f8, f9⟩ := hf y hy
      refine ⟨h2.trans f3, h3.trans f4, h4.trans f1, h5.trans f2, by omega, by omega, ?_, ?_⟩ <;> omega
    have htail : ∀ z ∈ copyTail (kd.nextId + cdimsAlloc c.cdims l.length) zs,
        ∃ y ∈ zs, ∃ j, j < zs.length ∧ z.dimsId = kd.nextId + cdimsAlloc c.cdims l.length + 3 * j ∧
          z.prefId = kd.nextId + cdimsAlloc c.cdims l.length + 3 * j + 1 ∧
          z.typeId = kd.nextId + cdimsAlloc c.cdims l.length + 3 * j + 2 ∧
          z.order = y.order ∧ z.sec = y.sec ∧ z.vis = y.vis := fun z hz => mem_copyTail hz
    constructor
    · rw [List.pairwise_cons]
      constructor
      · intro z hz
        obtain ⟨y, hy, j, hj, h1, h2, h3, h4, _, _⟩ := htail z hz
        have hlt := hord.1 y hy
        have h0 := hs2 z0 (by simp)
        unfold Sym.Distinct
        omega
      · exact copyTail_good _ _ hord.2
    · intro z hz
      simp only [List.mem_cons] at hz
      unfold Sym.Between
      simp only [hal]
      rcases hz with rfl | hz
      · have h0 := hs2 z (by simp)
        refine ⟨?_, h0.1, h0.2.1⟩
        omega
      · obtain ⟨y, hy, j, hj, h1, h2, h3, h4, h5, h6⟩ := htail z hz
        have h0 := hs2 y (by simp [hy])
        refine ⟨?_, h5.trans h0.1, h6.trans h0.2.1⟩
        omega

/-! ## Counters only grow; every object tag and declaration number is handed out once -/

theorem tick_leq (k : Ctr) : Leq k (tick k) := by
  unfold tick Leq; cases k.node <;> simp

theorem ticks_leq (n : Nat) (k : Ctr) : Leq k (ticks n k) := by
  induction n generalizing k with
  | zero => exact Leq.refl k
  | succ n ih => exact Leq.trans (tick_leq k) (ih _)

theorem extEvsCtr_leq (evs : List ExtEv) (k : Ctr) : Leq k (extEvsCtr evs k) := by
  induction evs generalizing k with
  | nil => exact Leq.refl k
  | cons e t ih =>
    refine Leq.trans ?_ (ih _)
    cases e with
    | m => exact tick_leq k
    | d _ _ _ => simp [extEvCtr, Leq]

@[simp] theorem deepSymsList_nil : deepSymsList [] = [] := by simp [deepSymsList]
@[simp] theorem deepSymsList_cons (c : ClassAst) (t : List ClassAst) :
    deepSymsList (c :: t) = deepSyms c ++ deepSymsList t := by simp [deepSymsList]
theorem deepSyms_mk (i : ClassInfo) (cs : List ClassAst) : deepSyms (.mk i cs) = deepSymsList cs ++ i.symbols := by
  simp [deepSyms]

theorem mem_deepSymsList_dictSet {l : List ClassAst} {c : ClassAst} {y : Sym}
    (h : y ∈ deepSymsList (dictSet l c)) : y ∈ deepSymsList l ∨ y ∈ deepSyms c := by
  induction l with
  | nil => simpa [dictSet] using h
  | cons x t ih =>
    simp only [dictSet] at h
    split at h
    · simp only [deepSymsList_cons, List.mem_append] at h ⊢
      rcases h with h | h
      · exact Or.inr h
      · exact Or.inl (Or.inr h)
    · simp only [deepSymsList_cons, List.mem_append] at h ⊢
      rcases h with h | h
      · exact Or.inl (Or.inl h)
      · rcases ih h with h | h
        · exact Or.inl (Or.inr h)
        · exact Or.inr h

theorem pairwise_dictSet {D : Sym → Sym → Prop} (hs : ∀ {x y}, D x y → D y x) (l : List ClassAst) (c : ClassAst)
    (S : List Sym) (h1 : (deepSymsList l ++ S).Pairwise D) (h2 : (deepSyms c).Pairwise D)
    (h3 : ∀ x ∈ deepSymsList l ++ S, ∀ y ∈ deepSyms c, D x y) :
    (deepSymsList (dictSet l c) ++ S).Pairwise D := by
  induction l with
  | nil =>
    simp only [dictSet, deepSymsList_cons, deepSymsList_nil, List.append_nil, List.nil_append] at h1 h3 ⊢
    rw [List.pairwise_append]
    exact ⟨h2, h1, fun a ha b hb => hs (h3 b hb a ha)⟩
  | cons x t ih =>
    simp only [deepSymsList_cons, List.append_assoc] at h1 h3
    rw [List.pairwise_append] at h1
    simp only [dictSet]
    split
    · simp only [deepSymsList_cons, List.append_assoc]
      rw [List.pairwise_append]
      refine ⟨h2, h1.2.1, fun a ha b hb => hs (h3 b ?_ a ha)⟩
      exact List.mem_append_right _ hb
    · simp only [deepSymsList_cons, List.append_assoc]
      rw [List.pairwise_append]
      refine ⟨h1.1, ih h1.2.1 (fun a ha b hb => h3 a (List.mem_append_right _ ha) b hb), ?_⟩
      intro a ha b hb
      rw [List.mem_append] at hb
      rcases hb with hb | hb
      · rcases mem_deepSymsList_dictSet hb with hb | hb
        · exact h1.2.2 a ha b (List.mem_append_left _ hb)
        · exact h3 a (List.mem_append_left _ ha) b hb
      · exact h1.2.2 a ha b (List.mem_append_right _ hb)

/-- All symbols held by a class under construction: those of its finished nested classes and its own. -/
def frameSyms (f : Frame) : List Sym := deepSymsList f.classes ++ f.info.symbols

def FrameOK (lo : Ctr) (f : Frame) (k : Ctr) : Prop :=
  (frameSyms f).Pairwise Sym.Distinct ∧ ∀ y ∈ frameSyms f, y.Between lo k

theorem FrameOK.attach {lo k k1 : Ctr} {f : Frame} {a : ClassAst} (hf : FrameOK lo f k) (hlo : Leq lo k) (hk : Leq k k1)
    (h2 : (deepSyms a).Pairwise Sym.Distinct) (h3 : ∀ y ∈ deepSyms a, y.Between k k1) : FrameOK lo (f.attach a) k1 := by
  unfold FrameOK frameSyms Frame.attach at *
  constructor
  · apply pairwise_dictSet (fun h => Sym.Distinct.symm h) _ _ _ hf.1 h2
    intro x hx y hy
    exact ((hf.2 x hx).distinct (h3 y hy) (Leq.refl k)).1
  · intro y hy
    rw [List.mem_append] at hy
    rcases hy with hy | hy
    · rcases mem_deepSymsList_dictSet hy with hy | hy
      · exact (hf.2 y (List.mem_append_left _ hy)).mono (Leq.refl _) hk
      · exact (h3 y hy).mono hlo (Leq.refl _)
    · exact (hf.2 y (List.mem_append_right _ hy)).mono (Leq.refl _) hk

theorem FrameOK.mono {lo k k1 : Ctr} {f : Frame} (hf : FrameOK lo f k) (hk : Leq k k1) : FrameOK lo f k1 :=
  ⟨hf.1, fun y hy => (hf.2 y hy).mono (Leq.refl _) hk⟩

theorem FrameOK.clause {lo k : Ctr} {f : Frame} (c : Clause) (hf : FrameOK lo f k) (hlo : Leq lo k) :
    FrameOK lo { f with info := { f.info with symbols := f.info.symbols ++ clauseSyms c f.closed.length k } } (clauseCtr c k) := by
  have hg := clauseSyms_good c f.closed.length k
  have hk := clauseCtr_leq c k
  unfold FrameOK frameSyms at *
  simp only [← List.append_assoc]
  constructor
  · rw [List.pairwise_append]
    refine ⟨hf.1, hg.1.imp (fun h => h.1), ?_⟩
    intro x hx y hy
    exact ((hf.2 x hx).distinct (hg.2 y hy).1 (Leq.refl k)).1
  · intro y hy
    rw [List.mem_append] at hy
    rcases hy with hy | hy
    · exact (hf.2 y hy).mono (Leq.refl _) hk
    · exact (hg.2 y hy).1.mono hlo (Leq.refl _)

theorem deepSyms_specShort (s : ShortSrc) : deepSyms (specShort s) = [] := by
  simp [specShort, deepSyms_mk, Frame.addExt, Frame.new, ClassInfo.new]

mutual
theorem class_ids (c : ClassSrc) (k : Ctr) (a : ClassAst) (k' : Ctr) (h : specClass c k = .ok (a, k')) :
    Leq k k' ∧ (deepSyms a).Pairwise Sym.Distinct ∧ ∀ y ∈ deepSyms a, y.Between k k' := by
  match c with
  | .mk hd first ss =>
    simp only [specClass] at h
    split at h
    · cases h
    · next f1 k1 h1 =>
      split at h
      · cases h
      · next f2 k2 h2 =>
        simp only [Except.ok.injEq, Prod.mk.injEq] at h
        obtain ⟨rfl, rfl⟩ := h
        have hnew : FrameOK k (Frame.new hd.kind hd.partial_ hd.encapsulated) k := by
          simp [FrameOK, frameSyms, Frame.new, ClassInfo.new]
        obtain ⟨l1, o1⟩ := elems_ids first k _ k _ k1 h1 (Leq.refl k) hnew
        have o1' : FrameOK k { f1 with closed := f1.closed ++ [none] } k1 := o1
        obtain ⟨l2, o2⟩ := sections_ids ss k _ k1 _ k2 h2 l1 o1'
        have l3 := ticks_leq hd.annTicks k2
        refine ⟨Leq.trans l1 (Leq.trans l2 l3), ?_, ?_⟩
        · simp only [deepSyms_mk, Frame.composition]
          have := o2.1
          unfold frameSyms at this
          rw [List.pairwise_append] at this ⊢
          refine ⟨this.1, ?_, ?_⟩
          · rw [List.pairwise_map]; exact this.2.1
          · intro x hx y hy
            simp only [List.mem_map] at hy
            obtain ⟨y', hy', rfl⟩ := hy
            exact this.2.2 x hx y' hy'
        · intro y hy
          simp only [deepSyms_mk, Frame.composition, List.mem_append, List.mem_map] at hy
          rcases hy with hy | ⟨y', hy', rfl⟩
          · exact (o2.2 y (List.mem_append_left _ hy)).mono (Leq.refl _) l3
          · exact ((o2.2 y' (List.mem_append_right _ hy')).mono (Leq.refl _) l3 : y'.Between k _)
theorem elems_ids (es : Elems) (lo : Ctr) (f : Frame) (k : Ctr) (f' : Frame) (k' : Ctr)
    (h : specElems es f k = .ok (f', k')) (hlo : Leq lo k) (hf : FrameOK lo f k) : Leq k k' ∧ FrameOK lo f' k' := by
  match es with
  | .nil =>
    simp only [specElems, Except.ok.injEq, Prod.mk.injEq] at h
    obtain ⟨rfl, rfl⟩ := h
    exact ⟨Leq.refl _, hf⟩
  | .comp c t =>
    simp only [specElems] at h
    split at h
    · next f1 k1 h1 =>
      obtain ⟨_, _, rfl, rfl⟩ := specClause_ok.mp h1
      have hk := clauseCtr_leq c k
      obtain ⟨l, o⟩ := elems_ids t lo _ _ f' k' h (Leq.trans hlo hk) (hf.clause c hlo)
      exact ⟨Leq.trans hk l, o⟩
    · cases h
  | .ext e t =>
    simp only [specElems] at h
    have hk := extEvsCtr_leq e.evs k
    obtain ⟨l, o⟩ := elems_ids t lo _ _ f' k' h (Leq.trans hlo hk) (hf.mono hk : FrameOK lo (f.addExt e.path e.args) _)
    exact ⟨Leq.trans hk l, o⟩
  | .imp i t =>
    simp only [specElems] at h
    split at h
    · next imps hi => exact elems_ids t lo _ _ f' k' h hlo hf
    · cases h
  | .cls c t =>
    simp only [specElems] at h
    split at h
    · next a k1 h1 =>
      obtain ⟨l1, p1, b1⟩ := class_ids c k a k1 h1
      obtain ⟨l, o⟩ := elems_ids t lo _ _ f' k' h (Leq.trans hlo l1) (hf.attach hlo l1 p1 b1)
      exact ⟨Leq.trans l1 l, o⟩
    · cases h
  | .short s t =>
    simp only [specElems] at h
    have hk := ticks_leq s.ticks k
    have ha : FrameOK lo (f.attach (specShort s)) (ticks s.ticks k) :=
      hf.attach hlo hk (by simp [deepSyms_specShort]) (by simp [deepSyms_specShort])
    obtain ⟨l, o⟩ := elems_ids t lo _ _ f' k' h (Leq.trans hlo hk) ha
    exact ⟨Leq.trans hk l, o⟩
theorem sections_ids (ss : Sections) (lo : Ctr) (f : Frame) (k : Ctr) (f' : Frame) (k' : Ctr)
    (h : specSections ss f k = .ok (f', k')) (hlo : Leq lo k) (hf : FrameOK lo f k) : Leq k k' ∧ FrameOK lo f' k' := by
  match ss with
  | .nil =>
    simp only [specSections, Except.ok.injEq, Prod.mk.injEq] at h
    obtain ⟨rfl, rfl⟩ := h
    exact ⟨Leq.refl _, hf⟩
  | .elems vis es t =>
    simp only [specSections] at h
    split at h
    · next f1 k1 h1 =>
      obtain ⟨l1, o1⟩ := elems_ids es lo f k f1 k1 h1 hlo hf
      have o1' : FrameOK lo { f1 with closed := f1.closed ++ [some vis] } k1 := o1
      obtain ⟨l, o⟩ := sections_ids t lo _ _ f' k' h (Leq.trans hlo l1) o1'
      exact ⟨Leq.trans l1 l, o⟩
    · cases h
  | .eqs ini items t =>
    simp only [specSections] at h
    exact sections_ids t lo _ _ f' k' h hlo (hf : FrameOK lo { f with eqSecs := _ } k)
  | .algs ini items t =>
    simp only [specSections] at h
    exact sections_ids t lo _ _ f' k' h hlo (hf : FrameOK lo { f with algSecs := _ } k)
end

/-! ## What a list of elements adds to its class -/

/-- The fields of a class that elements never touch. -/
def ClassInfo.rest (i : ClassInfo) : ClassInfo := { i with symbols := [], extends_ := [], imports := [] }

def extOf (sec : Nat) (e : ExtSrc) : Ext := ⟨e.path, e.args, .priv, sec⟩

structure Grow (es : Elems) (f : Frame) (k : Ctr) (f' : Frame) (k' : Ctr) : Prop where
  closed : f'.closed = f.closed
  eqSecs : f'.eqSecs = f.eqSecs
  algSecs : f'.algSecs = f.algSecs
  rest : f'.info.rest = f.info.rest
  leq : Leq k k'
  syms : ∃ S, f'.info.symbols = f.info.symbols ++ S ∧ S.map Sym.view = es.clauses.flatMap Clause.views ∧
    S.map (·.sec) = List.replicate es.declCount f.closed.length ∧
    S.Pairwise (fun a b => a.order < b.order) ∧ ∀ y ∈ S, k.symCount ≤ y.order ∧ y.order < k'.symCount
  nodup : (f.info.symbols.map (·.name)).Nodup → (f'.info.symbols.map (·.name)).Nodup
  exts : f'.info.extends_ = f.info.extends_ ++ es.exts.map (extOf f.closed.length)
  imps : importsFold es.imps f.info.imports = .ok f'.info.imports

theorem Elems.declCount_comp (c : Clause) (t : Elems) : (Elems.comp c t).declCount = c.decls.length + t.declCount := by
  simp [Elems.declCount, Elems.clauses]

theorem view_name (y : Sym) : y.view.name = y.name := rfl

theorem elems_grow (es : Elems) (f : Frame) (k : Ctr) (f' : Frame) (k' : Ctr)
    (h : specElems es f k = .ok (f', k')) : Grow es f k f' k' := by
  match es with
  | .nil =>
    simp only [specElems, Except.ok.injEq, Prod.mk.injEq] at h
    obtain ⟨rfl, rfl⟩ := h
    exact ⟨rfl, rfl, rfl, rfl, Leq.refl _, ⟨[], by simp [Elems.clauses, Elems.declCount]⟩, id,
      by simp [Elems.exts], by simp [Elems.imps, importsFold]⟩
  | .comp c t =>
    simp only [specElems] at h
    split at h
    · next f1 k1 h1 =>
      obtain ⟨hn1, hn2, rfl, rfl⟩ := specClause_ok.mp h1
      have g := elems_grow t _ _ f' k' h
      have hk := clauseCtr_leq c k
      have hg := clauseSyms_good c f.closed.length k
      obtain ⟨S, hS, hv, hs, ho, hb⟩ := g.syms
      refine ⟨g.closed, g.eqSecs, g.algSecs, g.rest, Leq.trans hk g.leq, ?_, ?_, g.exts, g.imps⟩
      · refine ⟨clauseSyms c f.closed.length k ++ S, by simp [hS], ?_, ?_, ?_, ?_⟩
        · simp [Elems.clauses, hv, clauseSyms_views]
        · simp only [List.map_append, hs, Elems.declCount_comp, ← List.replicate_append_replicate]
          congr 1
          rw [List.eq_replicate_iff]
          refine ⟨by simp [clauseSyms_length], ?_⟩
          intro b hb'
          simp only [List.mem_map] at hb'
          obtain ⟨y, hy, rfl⟩ := hb'
          exact (hg.2 y hy).2.1
        · rw [List.pairwise_append]
          refine ⟨hg.1.imp (fun h => h.2), ho, ?_⟩
          intro a ha b hb'
          have h1 := (hg.2 a ha).1
          have h2 := (hb b hb').1
          unfold Sym.Between at h1
          omega
        · intro y hy
          rw [List.mem_append] at hy
          rcases hy with hy | hy
          · have h1 := (hg.2 y hy).1
            have := g.leq
            unfold Sym.Between at h1; unfold Leq at this
            omega
          · have := hb y hy
            unfold Leq at hk
            omega
      · intro hnd
        apply g.nodup
        simp only [List.map_append, clauseSyms_names]
        rw [List.nodup_append]
        refine ⟨hnd, hn1, ?_⟩
        intro a ha b hb' hab
        subst hab
        exact hn2 a hb' ha
    · cases h
  | .ext e t =>
    simp only [specElems] at h
    have g := elems_grow t _ _ f' k' h
    have hk := extEvsCtr_leq e.evs k
    obtain ⟨S, hS, hv, hs, ho, hb⟩ := g.syms
    refine ⟨g.closed, g.eqSecs, g.algSecs, g.rest, Leq.trans hk g.leq, ⟨S, hS, ?_, ?_, ho, ?_⟩, g.nodup, ?_, g.imps⟩
    · simpa [Elems.clauses] using hv
    · simpa [Elems.declCount, Elems.clauses, Frame.addExt] using hs
    · intro y hy; have := hb y hy; unfold Leq at hk; omega
    · rw [g.exts]; simp [Frame.addExt, Elems.exts, extOf]
  | .imp i t =>
    simp only [specElems] at h
    split at h
    · next imps hi =>
      have g := elems_grow t _ _ f' k' h
      obtain ⟨S, hS, hv, hs, ho, hb⟩ := g.syms
      refine ⟨g.closed, g.eqSecs, g.algSecs, g.rest, g.leq, ⟨S, hS, ?_, ?_, ho, hb⟩, g.nodup, ?_, ?_⟩
      · simpa [Elems.clauses] using hv
      · simpa [Elems.declCount, Elems.clauses] using hs
      · rw [g.exts]; simp [Elems.exts]
      · simp only [Elems.imps, importsFold, hi]; exact g.imps
    · cases h
  | .cls c t =>
    simp only [specElems] at h
    split at h
    · next a k1 h1 =>
      have g := elems_grow t _ _ f' k' h
      have hk := (class_ids c k a k1 h1).1
      obtain ⟨S, hS, hv, hs, ho, hb⟩ := g.syms
      refine ⟨g.closed, g.eqSecs, g.algSecs, g.rest, Leq.trans hk g.leq, ⟨S, hS, ?_, ?_, ho, ?_⟩, g.nodup, ?_, g.imps⟩
      · simpa [Elems.clauses] using hv
      · simpa [Elems.declCount, Elems.clauses, Frame.attach] using hs
      · intro y hy; have := hb y hy; unfold Leq at hk; omega
      · rw [g.exts]; simp [Frame.attach, Elems.exts]
    · cases h
  | .short s t =>
    simp only [specElems] at h
    have g := elems_grow t _ _ f' k' h
    have hk := ticks_leq s.ticks k
    obtain ⟨S, hS, hv, hs, ho, hb⟩ := g.syms
    refine ⟨g.closed, g.eqSecs, g.algSecs, g.rest, Leq.trans hk g.leq, ⟨S, hS, ?_, ?_, ho, ?_⟩, g.nodup, ?_, g.imps⟩
    · simpa [Elems.clauses] using hv
    · simpa [Elems.declCount, Elems.clauses, Frame.attach] using hs
    · intro y hy; have := hb y hy; unfold Leq at hk; omega
    · rw [g.exts]; simp [Frame.attach, Elems.exts]



def Sections.eqSecList : Sections → List (Bool × List String)
  | .nil => []
  | .elems _ _ t => t.eqSecList
  | .eqs i xs t => (i, xs) :: t.eqSecList
  | .algs _ _ t => t.eqSecList

def Sections.algSecList : Sections → List (Bool × List String)
  | .nil => []
  | .elems _ _ t => t.algSecList
  | .eqs _ _ t => t.algSecList
  | .algs i xs t => (i, xs) :: t.algSecList

theorem importsFold_append (a b : List ImpSrc) (i0 i1 i2 : List (String × ImportVal))
    (h1 : importsFold a i0 = .ok i1) (h2 : importsFold b i1 = .ok i2) : importsFold (a ++ b) i0 = .ok i2 := by
  induction a generalizing i0 with
  | nil => simp only [importsFold, Except.ok.injEq] at h1; subst h1; simpa using h2
  | cons x t ih =>
    simp only [importsFold, List.cons_append] at h1 ⊢
    split at h1
    · next imps hx => exact ih _ h1
    · cases h1

structure GrowS (ss : Sections) (f : Frame) (k : Ctr) (f' : Frame) (k' : Ctr) : Prop where
  closed : f'.closed = f.closed ++ ss.labels
  eqSecs : f'.eqSecs = f.eqSecs ++ ss.eqSecList
  algSecs : f'.algSecs = f.algSecs ++ ss.algSecList
  rest : f'.info.rest = f.info.rest
  leq : Leq k k'
  syms : ∃ S, f'.info.symbols = f.info.symbols ++ S ∧ S.map Sym.view = ss.clauses.flatMap Clause.views ∧
    S.map (·.sec) = ss.secs f.closed.length ∧
    S.Pairwise (fun a b => a.order < b.order) ∧ ∀ y ∈ S, k.symCount ≤ y.order ∧ y.order < k'.symCount
  nodup : (f.info.symbols.map (·.name)).Nodup → (f'.info.symbols.map (·.name)).Nodup
  exts : ∃ E, f'.info.extends_ = f.info.extends_ ++ E ∧
    E.map (fun e => (e.path, e.args)) = ss.exts.map (fun e => (e.path, e.args)) ∧
    E.map (·.sec) = ss.extSecs f.closed.length
  imps : importsFold ss.imps f.info.imports = .ok f'.info.imports

theorem sections_grow (ss : Sections) (f : Frame) (k : Ctr) (f' : Frame) (k' : Ctr)
    (h : specSections ss f k = .ok (f', k')) : GrowS ss f k f' k' := by
  match ss with
  | .nil =>
    simp only [specSections, Except.ok.injEq, Prod.mk.injEq] at h
    obtain ⟨rfl, rfl⟩ := h
    exact ⟨by simp [Sections.labels], by simp [Sections.eqSecList], by simp [Sections.algSecList], rfl, Leq.refl _,
      ⟨[], by simp [Sections.clauses, Sections.secs]⟩, id, ⟨[], by simp [Sections.exts, Sections.extSecs]⟩,
      by simp [Sections.imps, importsFold]⟩
  | .elems vis es t =>
    simp only [specSections] at h
    split at h
    · next f1 k1 h1 =>
      have g1 := elems_grow es f k f1 k1 h1
      have g2 := sections_grow t _ _ f' k' h
      obtain ⟨S1, hS1, hv1, hs1, ho1, hb1⟩ := g1.syms
      obtain ⟨S2, hS2, hv2, hs2, ho2, hb2⟩ := g2.syms
      obtain ⟨E2, hE2, hp2, hx2⟩ := g2.exts
      have hl1 := g1.leq
      have hl2 := g2.leq
      refine ⟨?_, ?_, ?_, g2.rest.trans g1.rest, Leq.trans g1.leq g2.leq, ?_, fun hn => g2.nodup (g1.nodup hn), ?_, ?_⟩
      · rw [g2.closed]; simp [g1.closed, Sections.labels]
      · rw [g2.eqSecs]; simp [g1.eqSecs, Sections.eqSecList]
      · rw [g2.algSecs]; simp [g1.algSecs, Sections.algSecList]
      · refine ⟨S1 ++ S2, by rw [hS2]; simp [hS1], ?_, ?_, ?_, ?_⟩
        · simp [Sections.clauses, hv1, hv2]
        · simp only [List.map_append, hs1, hs2, Sections.secs, g1.closed, List.length_append, List.length_cons,
            List.length_nil]
        · rw [List.pairwise_append]
          refine ⟨ho1, ho2, ?_⟩
          intro a ha b hb
          have := hb1 a ha
          have := hb2 b hb
          omega
        · intro y hy
          unfold Leq at hl1 hl2
          rw [List.mem_append] at hy
          rcases hy with hy | hy
          · have := hb1 y hy; omega
          · have := hb2 y hy; omega
      · refine ⟨es.exts.map (extOf f.closed.length) ++ E2, by rw [hE2]; simp [g1.exts], ?_, ?_⟩
        · simp [Sections.exts, hp2, extOf, Function.comp_def]
        · simp only [List.map_append, hx2, Sections.extSecs, g1.closed, List.length_append, List.length_cons,
            List.length_nil, List.map_map]
          congr 1
          rw [List.eq_replicate_iff]
          exact ⟨by simp, by simp [extOf]⟩
      · exact importsFold_append _ _ _ _ _ g1.imps g2.imps
    · cases h
  | .eqs ini items t =>
    simp only [specSections] at h
    have g := sections_grow t _ _ f' k' h
    obtain ⟨S, hS, hv, hs, ho, hb⟩ := g.syms
    obtain ⟨E, hE, hp, hx⟩ := g.exts
    exact ⟨by rw [g.closed]; simp [Sections.labels], by rw [g.eqSecs]; simp [Sections.eqSecList],
      by rw [g.algSecs]; simp [Sections.algSecList], g.rest, g.leq,
      ⟨S, hS, by simpa [Sections.clauses] using hv, by simpa [Sections.secs] using hs, ho, hb⟩, g.nodup,
      ⟨E, hE, by simpa [Sections.exts] using hp, by simpa [Sections.extSecs] using hx⟩,
      by simpa [Sections.imps] using g.imps⟩
  | .algs ini items t =>
    simp only [specSections] at h
    have g := sections_grow t _ _ f' k' h
    obtain ⟨S, hS, hv, hs, ho, hb⟩ := g.syms
    obtain ⟨E, hE, hp, hx⟩ := g.exts
    exact ⟨by rw [g.closed]; simp [Sections.labels], by rw [g.eqSecs]; simp [Sections.eqSecList],
      by rw [g.algSecs]; simp [Sections.algSecList], g.rest, g.leq,
      ⟨S, hS, by simpa [Sections.clauses] using hv, by simpa [Sections.secs] using hs, ho, hb⟩, g.nodup,
      ⟨E, hE, by simpa [Sections.exts] using hp, by simpa [Sections.extSecs] using hx⟩,
      by simpa [Sections.imps] using g.imps⟩



theorem secItems_eqSecList (ss : Sections) (ini : Bool) : secItems ss.eqSecList ini = ss.items false ini := by
  match ss with
  | .nil => rfl
  | .elems _ _ t => simpa [Sections.eqSecList, Sections.items] using secItems_eqSecList t ini
  | .eqs i xs t =>
    have := secItems_eqSecList t ini
    unfold secItems at this ⊢
    simp only [Sections.eqSecList, Sections.items, List.filter_cons, Bool.not_false, Bool.true_and]
    split <;> simp [this]
  | .algs _ _ t =>
    have := secItems_eqSecList t ini
    simpa [Sections.eqSecList, Sections.items] using this

theorem secItems_algSecList (ss : Sections) (ini : Bool) : secItems ss.algSecList ini = ss.items true ini := by
  match ss with
  | .nil => rfl
  | .elems _ _ t => simpa [Sections.algSecList, Sections.items] using secItems_algSecList t ini
  | .algs i xs t =>
    have := secItems_algSecList t ini
    unfold secItems at this ⊢
    simp only [Sections.algSecList, Sections.items, List.filter_cons, Bool.true_and]
    split <;> simp [this]
  | .eqs _ _ t =>
    have := secItems_algSecList t ini
    simpa [Sections.algSecList, Sections.items] using this

/-- The two frames a class passes through: after its leading element list and after its sections. -/
theorem class_frames {hd : ClassHdr} {first : Elems} {ss : Sections} {k : Ctr} {a : ClassAst} {k' : Ctr}
    (h : specClass (.mk hd first ss) k = .ok (a, k')) :
    ∃ f1 k1 f2 k2, Grow first (Frame.new hd.kind hd.partial_ hd.encapsulated) k f1 k1 ∧
      GrowS ss { f1 with closed := f1.closed ++ [none] } k1 f2 k2 ∧
      a = .mk { (f2.composition hd.annotation).info with name := some hd.name, comment := hd.comment } f2.classes ∧
      k' = ticks hd.annTicks k2 := by
  simp only [specClass] at h
  split at h
  · cases h
  · next f1 k1 h1 =>
    split at h
    · cases h
    · next f2 k2 h2 =>
      simp only [Except.ok.injEq, Prod.mk.injEq] at h
      obtain ⟨rfl, rfl⟩ := h
      exact ⟨f1, k1, f2, k2, elems_grow _ _ _ _ _ h1, sections_grow _ _ _ _ _ h2, rfl, rfl⟩

/-- Own symbols of a class, before `exitComposition` assigns visibilities. -/
theorem class_symbols {hd : ClassHdr} {first : Elems} {ss : Sections} {k : Ctr} {a : ClassAst} {k' : Ctr}
    (h : specClass (.mk hd first ss) k = .ok (a, k')) :
    ∃ S : List Sym, a.info.symbols = S.map (fun y => { y with vis := visOf (ClassSrc.mk hd first ss).labels y.sec }) ∧
      S.map Sym.view = (ClassSrc.mk hd first ss).views ∧ S.map (·.sec) = (ClassSrc.mk hd first ss).secs ∧
      S.Pairwise (fun a b => a.order < b.order) ∧ (S.map (·.name)).Nodup := by
  obtain ⟨f1, k1, f2, k2, g1, g2, rfl, rfl⟩ := class_frames h
  obtain ⟨S1, hS1, hv1, hs1, ho1, hb1⟩ := g1.syms
  obtain ⟨S2, hS2, hv2, hs2, ho2, hb2⟩ := g2.syms
  have hc1 : f1.closed = [] := g1.closed
  have hcl : f2.closed = (ClassSrc.mk hd first ss).labels := by
    rw [g2.closed]; simp [hc1, ClassSrc.labels]
  have hsy : f2.info.symbols = S1 ++ S2 := by
    rw [hS2]; simp only [hS1]; simp [Frame.new, ClassInfo.new]
  refine ⟨S1 ++ S2, ?_, ?_, ?_, ?_, ?_⟩
  · simp [ClassAst.info, Frame.composition, hsy, hcl]
  · simp [ClassSrc.views, ClassSrc.clauses, hv1, hv2]
  · simp only [List.map_append, hs1, hs2, ClassSrc.secs, hc1]; rfl
  · rw [List.pairwise_append]
    refine ⟨ho1, ho2, ?_⟩
    intro x hx y hy
    have := hb1 x hx
    have := hb2 y hy
    omega
  · have := g2.nodup (g1.nodup (by simp [Frame.new, ClassInfo.new]))
    rw [hsy] at this
    exact this



/-- Header fields and equation / algorithm sections of a class. -/
theorem class_sections {hd : ClassHdr} {first : Elems} {ss : Sections} {k : Ctr} {a : ClassAst} {k' : Ctr}
    (h : specClass (.mk hd first ss) k = .ok (a, k')) :
    a.info.name = some hd.name ∧ a.info.kind = hd.kind ∧ a.info.partial_ = hd.partial_ ∧
    a.info.encapsulated = hd.encapsulated ∧ a.info.final = false ∧ a.info.comment = hd.comment ∧
    a.info.annotation = hd.annotation ∧
    a.info.equations = ss.items false false ∧ a.info.initialEquations = ss.items false true ∧
    a.info.statements = ss.items true false ∧ a.info.initialStatements = ss.items true true := by
  obtain ⟨f1, k1, f2, k2, g1, g2, rfl, rfl⟩ := class_frames h
  have hr : f2.info.rest = (Frame.new hd.kind hd.partial_ hd.encapsulated).info.rest := g2.rest.trans g1.rest
  have e1 := congrArg ClassInfo.kind hr
  have e2 := congrArg ClassInfo.partial_ hr
  have e3 := congrArg ClassInfo.encapsulated hr
  have e4 := congrArg ClassInfo.final hr
  have e5 := congrArg ClassInfo.annotation hr
  have e6 := congrArg ClassInfo.equations hr
  have e7 := congrArg ClassInfo.initialEquations hr
  have e8 := congrArg ClassInfo.statements hr
  have e9 := congrArg ClassInfo.initialStatements hr
  simp only [ClassInfo.rest, Frame.new, ClassInfo.new] at e1 e2 e3 e4 e5 e6 e7 e8 e9
  have hq : f2.eqSecs = ss.eqSecList := by rw [g2.eqSecs]; simp [g1.eqSecs, Frame.new]
  have ha : f2.algSecs = ss.algSecList := by rw [g2.algSecs]; simp [g1.algSecs, Frame.new]
  simp only [ClassAst.info, Frame.composition, e1, e2, e3, e4, e5, e6, e7, e8, e9, hq, ha, List.nil_append,
    secItems_eqSecList, secItems_algSecList, true_and]
  cases hd.annotation <;> simp

/-- Extends clauses and imports of a class. -/
theorem class_extends {hd : ClassHdr} {first : Elems} {ss : Sections} {k : Ctr} {a : ClassAst} {k' : Ctr}
    (h : specClass (.mk hd first ss) k = .ok (a, k')) :
    a.info.extends_.map (fun e => (e.path, e.args)) = (ClassSrc.mk hd first ss).exts.map (fun e => (e.path, e.args)) ∧
    a.info.extends_.map (·.vis) =
      (ClassSrc.mk hd first ss).extSecs.map (visOf (ClassSrc.mk hd first ss).labels) ∧
    importsFold (ClassSrc.mk hd first ss).imps [] = .ok a.info.imports := by
  obtain ⟨f1, k1, f2, k2, g1, g2, rfl, rfl⟩ := class_frames h
  obtain ⟨E2, hE2, hp2, hx2⟩ := g2.exts
  have hc1 : f1.closed = [] := g1.closed
  have hcl : f2.closed = (ClassSrc.mk hd first ss).labels := by
    rw [g2.closed]; simp [hc1, ClassSrc.labels]
  have hex : f2.info.extends_ = first.exts.map (extOf 0) ++ E2 := by
    rw [hE2]; simp only [g1.exts]; simp [Frame.new, ClassInfo.new]
  refine ⟨?_, ?_, ?_⟩
  · simp [ClassAst.info, Frame.composition, hex, ClassSrc.exts, hp2, extOf, Function.comp_def]
  · simp only [ClassAst.info, Frame.composition, hex, hcl, List.map_map, List.map_append, ClassSrc.extSecs]
    congr 1
    · simp [Function.comp_def, extOf, List.map_const']
    · have hx2' : ss.extSecs 1 = E2.map (·.sec) := by rw [hx2]; simp [hc1]
      rw [hx2', List.map_map]
      rfl
  · have := importsFold_append _ _ _ _ _ g1.imps g2.imps
    simpa [ClassSrc.imps, ClassAst.info, Frame.composition, Frame.new, ClassInfo.new] using this

/-! ## Nested classes -/

/-- `ast` is what the specification gives for the nested definition `src` (at some counter state). -/
def NestedSpec (src : ClassSrc ⊕ ShortSrc) (ast : ClassAst) : Prop :=
  match src with
  | .inl c => ∃ k k', specClass c k = .ok (ast, k')
  | .inr s => ast = specShort s

/-- Pointwise relation between the nested definitions and trees (own definition: core has no
    append lemma for `List.Forall₂`). -/
inductive NestedAll : List (ClassSrc ⊕ ShortSrc) → List ClassAst → Prop
  | nil : NestedAll [] []
  | cons {s a ss as} : NestedSpec s a → NestedAll ss as → NestedAll (s :: ss) (a :: as)

theorem NestedAll.append {s1 s2 a1 a2} (h1 : NestedAll s1 a1) (h2 : NestedAll s2 a2) : NestedAll (s1 ++ s2) (a1 ++ a2) := by
  induction h1 with
  | nil => simpa using h2
  | cons h _ ih => exact .cons h ih

theorem elems_nested (es : Elems) (f : Frame) (k : Ctr) (f' : Frame) (k' : Ctr)
    (h : specElems es f k = .ok (f', k')) :
    ∃ As, NestedAll es.nested As ∧ f'.classes = As.foldl dictSet f.classes := by
  match es with
  | .nil =>
    simp only [specElems, Except.ok.injEq, Prod.mk.injEq] at h
    obtain ⟨rfl, rfl⟩ := h
    exact ⟨[], .nil, rfl⟩
  | .comp c t =>
    simp only [specElems] at h
    split at h
    · next f1 k1 h1 =>
      obtain ⟨_, _, rfl, rfl⟩ := specClause_ok.mp h1
      obtain ⟨As, hA, hc⟩ := elems_nested t _ _ f' k' h
      exact ⟨As, by simpa [Elems.nested] using hA, hc⟩
    · cases h
  | .ext e t =>
    simp only [specElems] at h
    obtain ⟨As, hA, hc⟩ := elems_nested t _ _ f' k' h
    exact ⟨As, by simpa [Elems.nested] using hA, hc⟩
  | .imp i t =>
    simp only [specElems] at h
    split at h
    · obtain ⟨As, hA, hc⟩ := elems_nested t _ _ f' k' h
      exact ⟨As, by simpa [Elems.nested] using hA, hc⟩
    · cases h
  | .cls c t =>
    simp only [specElems] at h
    split at h
    · next a k1 h1 =>
      obtain ⟨As, hA, hc⟩ := elems_nested t _ _ f' k' h
      exact ⟨a :: As, .cons ⟨k, k1, h1⟩ hA, by simpa [Frame.attach] using hc⟩
    · cases h
  | .short s t =>
    simp only [specElems] at h
    obtain ⟨As, hA, hc⟩ := elems_nested t _ _ f' k' h
    exact ⟨specShort s :: As, .cons rfl hA, by simpa [Frame.attach] using hc⟩

theorem sections_nested (ss : Sections) (f : Frame) (k : Ctr) (f' : Frame) (k' : Ctr)
    (h : specSections ss f k = .ok (f', k')) :
    ∃ As, NestedAll ss.nested As ∧ f'.classes = As.foldl dictSet f.classes := by
  match ss with
  | .nil =>
    simp only [specSections, Except.ok.injEq, Prod.mk.injEq] at h
    obtain ⟨rfl, rfl⟩ := h
    exact ⟨[], .nil, rfl⟩
  | .elems vis es t =>
    simp only [specSections] at h
    split at h
    · next f1 k1 h1 =>
      obtain ⟨A1, hA1, hc1⟩ := elems_nested es f k f1 k1 h1
      obtain ⟨A2, hA2, hc2⟩ := sections_nested t _ _ f' k' h
      exact ⟨A1 ++ A2, hA1.append hA2, by rw [hc2]; simp [hc1, List.foldl_append]⟩
    · cases h
  | .eqs _ _ t =>
    simp only [specSections] at h
    obtain ⟨As, hA, hc⟩ := sections_nested t _ _ f' k' h
    exact ⟨As, by simpa [Sections.nested] using hA, hc⟩
  | .algs _ _ t =>
    simp only [specSections] at h
    obtain ⟨As, hA, hc⟩ := sections_nested t _ _ f' k' h
    exact ⟨As, by simpa [Sections.nested] using hA, hc⟩

theorem class_nested {hd : ClassHdr} {first : Elems} {ss : Sections} {k : Ctr} {a : ClassAst} {k' : Ctr}
    (h : specClass (.mk hd first ss) k = .ok (a, k')) :
    ∃ As, NestedAll (ClassSrc.mk hd first ss).nested As ∧ a.classes = As.foldl dictSet [] := by
  simp only [specClass] at h
  split at h
  · cases h
  · next f1 k1 h1 =>
    split at h
    · cases h
    · next f2 k2 h2 =>
      simp only [Except.ok.injEq, Prod.mk.injEq] at h
      obtain ⟨rfl, rfl⟩ := h
      obtain ⟨A1, hA1, hc1⟩ := elems_nested _ _ _ _ _ h1
      obtain ⟨A2, hA2, hc2⟩ := sections_nested _ _ _ _ _ h2
      refine ⟨A1 ++ A2, hA1.append hA2, ?_⟩
      simp only [ClassAst.classes, Frame.composition, hc2, hc1, List.foldl_append]
      rfl

theorem dictSet_fresh {l : List ClassAst} {c : ClassAst} (h : ∀ x ∈ l, x.name ≠ c.name) : dictSet l c = l ++ [c] := by
  induction l with
  | nil => rfl
  | cons x t ih =>
    simp only [dictSet]
    rw [if_neg (h x (by simp)), ih (fun y hy => h y (by simp [hy]))]
    rfl

/-- Distinct names: the dict holds the definitions themselves, in source order. -/
theorem foldl_dictSet_nodup (As base : List ClassAst) (h : ((base ++ As).map (·.name)).Nodup) :
    As.foldl dictSet base = base ++ As := by
  induction As generalizing base with
  | nil => simp
  | cons a t ih =>
    simp only [List.foldl_cons]
    have hf : dictSet base a = base ++ [a] := by
      apply dictSet_fresh
      intro x hx hxa
      simp only [List.map_append, List.map_cons] at h
      rw [List.nodup_append] at h
      exact h.2.2 x.name (List.mem_map_of_mem hx) a.name (by simp) hxa
    rw [hf, ih]
    · simp
    · simpa using h

/-! ## Visibility of every section -/

theorem secs_vis (ss : Sections) (p : List (Option Vis)) :
    (ss.secs p.length).map (visOf (p ++ ss.labels)) = ss.declVis := by
  match ss with
  | .nil => rfl
  | .elems v es t =>
    simp only [Sections.secs, Sections.labels, Sections.declVis, List.map_append, List.map_replicate]
    have := secs_vis t (p ++ [some v])
    simp only [List.length_append, List.length_cons, List.length_nil, List.append_assoc, List.cons_append,
      List.nil_append] at this
    rw [this]
    congr 2
    simp [visOf, labelVis]
  | .eqs _ _ t => simpa [Sections.secs, Sections.labels, Sections.declVis] using secs_vis t p
  | .algs _ _ t => simpa [Sections.secs, Sections.labels, Sections.declVis] using secs_vis t p

theorem extSecs_vis (ss : Sections) (p : List (Option Vis)) :
    (ss.extSecs p.length).map (visOf (p ++ ss.labels)) = ss.extVis := by
  match ss with
  | .nil => rfl
  | .elems v es t =>
    simp only [Sections.extSecs, Sections.labels, Sections.extVis, List.map_append, List.map_replicate]
    have := extSecs_vis t (p ++ [some v])
    simp only [List.length_append, List.length_cons, List.length_nil, List.append_assoc, List.cons_append,
      List.nil_append] at this
    rw [this]
    congr 2
    simp [visOf, labelVis]
  | .eqs _ _ t => simpa [Sections.extSecs, Sections.labels, Sections.extVis] using extSecs_vis t p
  | .algs _ _ t => simpa [Sections.extSecs, Sections.labels, Sections.extVis] using extSecs_vis t p

theorem class_secs_vis (c : ClassSrc) : c.secs.map (visOf c.labels) = c.declVis := by
  match c with
  | .mk hd first ss =>
    simp only [ClassSrc.secs, ClassSrc.labels, ClassSrc.declVis, List.map_append, List.map_replicate]
    have := secs_vis ss [none]
    simp only [List.length_cons, List.length_nil, List.cons_append, List.nil_append] at this
    rw [this]
    rfl

theorem class_extSecs_vis (c : ClassSrc) : c.extSecs.map (visOf c.labels) = c.extVis := by
  match c with
  | .mk hd first ss =>
    simp only [ClassSrc.extSecs, ClassSrc.labels, ClassSrc.extVis, List.map_append, List.map_replicate]
    have := extSecs_vis ss [none]
    simp only [List.length_cons, List.length_nil, List.cons_append, List.nil_append] at this
    rw [this]
    rfl

theorem views_names (c : ClassSrc) : c.views.map (·.name) = c.names := by
  unfold ClassSrc.views ClassSrc.names
  induction c.clauses with
  | nil => rfl
  | cons x t ih => simp [List.flatMap_cons, ih, Clause.views, Clause.names, Function.comp_def]

/-- Own components of a class: names, in order, once. -/
theorem class_names {c : ClassSrc} {k : Ctr} {a : ClassAst} {k' : Ctr} (h : specClass c k = .ok (a, k')) :
    a.info.symbols.map (·.name) = c.names ∧ c.names.Nodup := by
  match c with
  | .mk hd first ss =>
    obtain ⟨S, hS, hv, _, _, hn⟩ := class_symbols h
    have : S.map (·.name) = (ClassSrc.mk hd first ss).names := by
      rw [← views_names, ← hv]; simp [Function.comp_def, view_name]
    rw [this] at hn
    refine ⟨?_, hn⟩
    rw [hS, ← this]
    simp [Function.comp_def]



/-! ## A component declared twice anywhere is rejected; no other kind of failure exists -/

/-- Nothing in the class (at any depth) is declared twice and no import clause clashes. -/
def ClassSrc.Clean (c : ClassSrc) : Prop := c.names.Nodup ∧ ∃ imps, importsFold c.imps [] = .ok imps

mutual
theorem class_deep_nodup (c : ClassSrc) (k : Ctr) (a : ClassAst) (k' : Ctr) (h : specClass c k = .ok (a, k')) :
    ∀ c' ∈ c.deep, c'.Clean := by
  match c with
  | .mk hd first ss =>
    have hown : (ClassSrc.mk hd first ss).Clean := ⟨(class_names h).2, _, (class_extends h).2.2⟩
    simp only [specClass] at h
    split at h
    · cases h
    · next f1 k1 h1 =>
      split at h
      · cases h
      · next f2 k2 h2 =>
        intro c' hc'
        simp only [ClassSrc.deep, List.mem_cons, List.mem_append] at hc'
        rcases hc' with rfl | hc' | hc'
        · exact hown
        · exact elems_deep_nodup first _ _ _ _ h1 c' hc'
        · exact sections_deep_nodup ss _ _ _ _ h2 c' hc'
theorem elems_deep_nodup (es : Elems) (f : Frame) (k : Ctr) (f' : Frame) (k' : Ctr)
    (h : specElems es f k = .ok (f', k')) : ∀ c' ∈ es.deep, c'.Clean := by
  match es with
  | .nil => intro c' hc'; simp [Elems.deep] at hc'
  | .comp c t =>
    simp only [specElems] at h
    split at h
    · simpa [Elems.deep] using elems_deep_nodup t _ _ _ _ h
    · cases h
  | .ext e t =>
    simp only [specElems] at h
    simpa [Elems.deep] using elems_deep_nodup t _ _ _ _ h
  | .imp i t =>
    simp only [specElems] at h
    split at h
    · simpa [Elems.deep] using elems_deep_nodup t _ _ _ _ h
    · cases h
  | .cls c t =>
    simp only [specElems] at h
    split at h
    · next a k1 h1 =>
      intro c' hc'
      simp only [Elems.deep, List.mem_append] at hc'
      rcases hc' with hc' | hc'
      · exact class_deep_nodup c _ _ _ h1 c' hc'
      · exact elems_deep_nodup t _ _ _ _ h c' hc'
    · cases h
  | .short s t =>
    simp only [specElems] at h
    simpa [Elems.deep] using elems_deep_nodup t _ _ _ _ h
theorem sections_deep_nodup (ss : Sections) (f : Frame) (k : Ctr) (f' : Frame) (k' : Ctr)
    (h : specSections ss f k = .ok (f', k')) : ∀ c' ∈ ss.deep, c'.Clean := by
  match ss with
  | .nil => intro c' hc'; simp [Sections.deep] at hc'
  | .elems vis es t =>
    simp only [specSections] at h
    split at h
    · next f1 k1 h1 =>
      intro c' hc'
      simp only [Sections.deep, List.mem_append] at hc'
      rcases hc' with hc' | hc'
      · exact elems_deep_nodup es _ _ _ _ h1 c' hc'
      · exact sections_deep_nodup t _ _ _ _ h c' hc'
    · cases h
  | .eqs _ _ t =>
    simp only [specSections] at h
    simpa [Sections.deep] using sections_deep_nodup t _ _ _ _ h
  | .algs _ _ t =>
    simp only [specSections] at h
    simpa [Sections.deep] using sections_deep_nodup t _ _ _ _ h
end

/-- The failures the listener itself raises. -/
def Err.Listener (e : Err) : Prop := (∃ n, e = .alreadyDefined n) ∨ (∃ n, e = .alreadyImported n)

theorem specDecls_err {cl : ClauseSt} {names : List String} {sec : Nat} {ds : List Decl} {acc : List Sym} {k : Ctr}
    {e : Err} (h : specDecls cl names sec ds acc k = .error e) : e.Listener := by
  induction ds generalizing acc k with
  | nil => simp [specDecls] at h
  | cons d t ih =>
    simp only [specDecls] at h
    split at h
    · exact ih h
    · next e' he =>
      simp only [Except.error.injEq] at h
      subst h
      exact Or.inl ⟨_, (specDecl_err.mp he).2⟩

theorem specClause_err {c : Clause} {f : Frame} {k : Ctr} {e : Err} (h : specClause c f k = .error e) : e.Listener := by
  unfold specClause at h
  simp only [] at h
  split at h
  · cases h
  · next e' he =>
    simp only [Except.error.injEq] at h
    subst h
    exact specDecls_err he

theorem addRefs_err {imps : List (String × ImportVal)} {path names : List String} {e : Err}
    (h : addRefs imps path names = .error e) : e.Listener := by
  induction names generalizing imps with
  | nil => simp [addRefs] at h
  | cons n t ih =>
    simp only [addRefs] at h
    split at h
    · simp only [Except.error.injEq] at h; subst h; exact Or.inr ⟨_, rfl⟩
    · exact ih h

theorem addImport_err {imps : List (String × ImportVal)} {i : ImpSrc} {e : Err}
    (h : addImport imps i = .error e) : e.Listener := by
  cases i with
  | qual path => exact addRefs_err h
  | short n path => simp [addImport] at h
  | star path => simp [addImport] at h
  | list path names => exact addRefs_err h

mutual
theorem class_err (c : ClassSrc) (k : Ctr) (e : Err) (h : specClass c k = .error e) : e.Listener := by
  match c with
  | .mk hd first ss =>
    simp only [specClass] at h
    split at h
    · next e' he => simp only [Except.error.injEq] at h; subst h; exact elems_err first _ _ _ he
    · next f1 k1 h1 =>
      split at h
      · next e' he => simp only [Except.error.injEq] at h; subst h; exact sections_err ss _ _ _ he
      · cases h
theorem elems_err (es : Elems) (f : Frame) (k : Ctr) (e : Err) (h : specElems es f k = .error e) : e.Listener := by
  match es with
  | .nil => simp [specElems] at h
  | .comp c t =>
    simp only [specElems] at h
    split at h
    · exact elems_err t _ _ _ h
    · next e' he => simp only [Except.error.injEq] at h; subst h; exact specClause_err he
  | .ext _ t => simp only [specElems] at h; exact elems_err t _ _ _ h
  | .imp i t =>
    simp only [specElems] at h
    split at h
    · exact elems_err t _ _ _ h
    · next e' he => simp only [Except.error.injEq] at h; subst h; exact addImport_err he
  | .cls c t =>
    simp only [specElems] at h
    split at h
    · exact elems_err t _ _ _ h
    · next e' he => simp only [Except.error.injEq] at h; subst h; exact class_err c _ _ he
  | .short _ t => simp only [specElems] at h; exact elems_err t _ _ _ h
theorem sections_err (ss : Sections) (f : Frame) (k : Ctr) (e : Err) (h : specSections ss f k = .error e) : e.Listener := by
  match ss with
  | .nil => simp [specSections] at h
  | .elems _ es t =>
    simp only [specSections] at h
    split at h
    · exact sections_err t _ _ _ h
    · next e' he => simp only [Except.error.injEq] at h; subst h; exact elems_err es _ _ _ he
  | .eqs _ _ t => simp only [specSections] at h; exact sections_err t _ _ _ h
  | .algs _ _ t => simp only [specSections] at h; exact sections_err t _ _ _ h
end

/-! ## Whole files -/

theorem deepSyms_setFinal (fin : Bool) (a : ClassAst) : deepSyms (setFinal fin a) = deepSyms a := by
  cases a with
  | mk i cs => simp [setFinal, deepSyms_mk]

/-- The top-level definitions of a file and the trees the specification gives for them. -/
inductive FileAll : List (Bool × ClassSrc) → List ClassAst → Prop
  | nil : FileAll [] []
  | cons {fin c a k k' t as} : specClass c k = .ok (a, k') → FileAll t as → FileAll ((fin, c) :: t) (setFinal fin a :: as)

theorem specFile_ok (file : List (Bool × ClassSrc)) (acc : List ClassAst) (lo k : Ctr) (r : List ClassAst)
    (h : specFile file acc k = .ok r) (hlo : Leq lo k)
    (hp : (deepSymsList acc).Pairwise Sym.Distinct) (hb : ∀ y ∈ deepSymsList acc, y.Between lo k) :
    (deepSymsList r).Pairwise Sym.Distinct ∧ (∀ c ∈ file, ∀ c' ∈ c.2.deep, c'.Clean) ∧
    ∃ As, FileAll file As ∧ r = As.foldl dictSet acc := by
  induction file generalizing acc k with
  | nil =>
    simp only [specFile, Except.ok.injEq] at h
    subst h
    exact ⟨hp, by simp, [], .nil, rfl⟩
  | cons x t ih =>
    obtain ⟨fin, c⟩ := x
    simp only [specFile] at h
    split at h
    · next a k1 h1 =>
      obtain ⟨l1, p1, b1⟩ := class_ids c k a k1 h1
      have hp' : (deepSymsList (dictSet acc (setFinal fin a))).Pairwise Sym.Distinct := by
        have := pairwise_dictSet (fun h => Sym.Distinct.symm h) acc (setFinal fin a) []
          (by simpa using hp) (by rw [deepSyms_setFinal]; exact p1)
          (by
            intro x hx y hy
            rw [deepSyms_setFinal] at hy
            exact ((hb x (by simpa using hx)).distinct (b1 y hy) (Leq.refl k)).1)
        simpa using this
      have hb' : ∀ y ∈ deepSymsList (dictSet acc (setFinal fin a)), y.Between lo k1 := by
        intro y hy
        rcases mem_deepSymsList_dictSet hy with hy | hy
        · exact (hb y hy).mono (Leq.refl _) l1
        · rw [deepSyms_setFinal] at hy; exact (b1 y hy).mono hlo (Leq.refl _)
      obtain ⟨r1, r2, As, hA, hr⟩ := ih _ _ h (Leq.trans hlo l1) hp' hb'
      refine ⟨r1, ?_, setFinal fin a :: As, .cons h1 hA, by simpa using hr⟩
      intro c0 hc0 c' hc'
      simp only [List.mem_cons] at hc0
      rcases hc0 with rfl | hc0
      · exact class_deep_nodup c k a k1 h1 c' hc'
      · exact r2 c0 hc0 c' hc'
    · cases h

theorem specFile_err (file : List (Bool × ClassSrc)) (acc : List ClassAst) (k : Ctr) (e : Err)
    (h : specFile file acc k = .error e) : e.Listener := by
  induction file generalizing acc k with
  | nil => simp [specFile] at h
  | cons x t ih =>
    obtain ⟨fin, c⟩ := x
    simp only [specFile] at h
    split at h
    · exact ih _ _ h
    · next e' he => simp only [Except.error.injEq] at h; subst h; exact class_err c _ _ he

/-! ## Acceptance: without a repeated component name and without an import clash the walk succeeds -/

def Elems.names (es : Elems) : List String := es.clauses.flatMap Clause.names
def Sections.names (ss : Sections) : List String := ss.clauses.flatMap Clause.names


theorem flatMap_views_names (l : List Clause) : (l.flatMap Clause.views).map (·.name) = l.flatMap Clause.names := by
  induction l with
  | nil => rfl
  | cons x t ih => simp [List.flatMap_cons, ih, Clause.views, Clause.names, Function.comp_def]

theorem names_of_views {S : List Sym} {l : List Clause} (h : S.map Sym.view = l.flatMap Clause.views) :
    S.map (·.name) = l.flatMap Clause.names := by
  rw [← flatMap_views_names, ← h]; simp [Function.comp_def, view_name]

theorem importsFold_append_inv (a b : List ImpSrc) (i0 i2 : List (String × ImportVal))
    (h : importsFold (a ++ b) i0 = .ok i2) : ∃ i1, importsFold a i0 = .ok i1 ∧ importsFold b i1 = .ok i2 := by
  induction a generalizing i0 with
  | nil => exact ⟨i0, rfl, by simpa using h⟩
  | cons x t ih =>
    simp only [List.cons_append, importsFold] at h ⊢
    split at h
    · next imps hx => exact ih _ h
    · cases h

mutual
theorem class_accepted (c : ClassSrc) (k : Ctr) (h : ∀ c' ∈ c.deep, c'.Clean) : ∃ a k', specClass c k = .ok (a, k') := by
  match c with
  | .mk hd first ss =>
    have hown := h (.mk hd first ss) (by simp [ClassSrc.deep])
    obtain ⟨hn, imps, hi⟩ := hown
    simp only [ClassSrc.names, ClassSrc.clauses, List.flatMap_append] at hn
    simp only [ClassSrc.imps] at hi
    obtain ⟨i1, hi1, hi2⟩ := importsFold_append_inv _ _ _ _ hi
    obtain ⟨f1, k1, h1⟩ := elems_accepted first (Frame.new hd.kind hd.partial_ hd.encapsulated) k
      (by simpa [Frame.new, ClassInfo.new, Elems.names] using (List.nodup_append.mp hn).1)
      ⟨i1, by simpa [Frame.new, ClassInfo.new] using hi1⟩
      (fun c' hc' => h c' (by simp [ClassSrc.deep, hc']))
    have g1 := elems_grow _ _ _ _ _ h1
    obtain ⟨S1, hS1, hv1, _⟩ := g1.syms
    have hnames1 : f1.info.symbols.map (·.name) = first.names := by
      have : S1.map (·.name) = first.names := names_of_views hv1
      rw [hS1]; simpa [Frame.new, ClassInfo.new] using this
    have himp1 : f1.info.imports = i1 := by
      have := g1.imps
      simp only [Frame.new, ClassInfo.new] at this
      rw [hi1] at this
      exact (Except.ok.inj this).symm
    obtain ⟨f2, k2, h2⟩ := sections_accepted ss { f1 with closed := f1.closed ++ [none] } k1
      (by simpa [hnames1, Elems.names, Sections.names] using hn)
      ⟨imps, by simpa [himp1] using hi2⟩
      (fun c' hc' => h c' (by simp [ClassSrc.deep, hc']))
    simp only [specClass, h1, h2]
    exact ⟨_, _, rfl⟩
theorem elems_accepted (es : Elems) (f : Frame) (k : Ctr)
    (hn : (f.info.symbols.map (·.name) ++ es.names).Nodup)
    (hi : ∃ imps, importsFold es.imps f.info.imports = .ok imps)
    (h : ∀ c' ∈ es.deep, c'.Clean) : ∃ f' k', specElems es f k = .ok (f', k') := by
  match es with
  | .nil => exact ⟨f, k, rfl⟩
  | .comp c t =>
    simp only [Elems.names, Elems.clauses, List.flatMap_cons] at hn
    have hc : specClause c f k = .ok (_, _) := specClause_ok.mpr ⟨
      (List.nodup_append.mp (List.nodup_append.mp hn).2.1).1,
      fun n hn1 hn2 => (List.nodup_append.mp hn).2.2 n hn2 n (List.mem_append_left _ hn1) rfl, rfl, rfl⟩
    simp only [specElems, hc]
    apply elems_accepted t
    · simpa [clauseSyms_names, Elems.names, List.append_assoc] using hn
    · simpa [Elems.imps] using hi
    · intro c' hc'; exact h c' (by simpa [Elems.deep] using hc')
  | .ext e t =>
    simp only [specElems]
    apply elems_accepted t
    · simpa [Frame.addExt, Elems.names, Elems.clauses] using hn
    · simpa [Frame.addExt, Elems.imps] using hi
    · intro c' hc'; exact h c' (by simpa [Elems.deep] using hc')
  | .imp i t =>
    obtain ⟨imps, hi⟩ := hi
    simp only [Elems.imps, importsFold] at hi
    split at hi
    · next imps1 hx =>
      simp only [specElems, hx]
      apply elems_accepted t
      · simpa [Elems.names, Elems.clauses] using hn
      · exact ⟨imps, hi⟩
      · intro c' hc'; exact h c' (by simpa [Elems.deep] using hc')
    · cases hi
  | .cls c t =>
    obtain ⟨a, k1, hc⟩ := class_accepted c k (fun c' hc' => h c' (by simp [Elems.deep, hc']))
    simp only [specElems, hc]
    apply elems_accepted t
    · simpa [Frame.attach, Elems.names, Elems.clauses] using hn
    · simpa [Frame.attach, Elems.imps] using hi
    · intro c' hc'; exact h c' (by simp [Elems.deep, hc'])
  | .short s t =>
    simp only [specElems]
    apply elems_accepted t
    · simpa [Frame.attach, Elems.names, Elems.clauses] using hn
    · simpa [Frame.attach, Elems.imps] using hi
    · intro c' hc'; exact h c' (by simpa [Elems.deep] using hc')
theorem sections_accepted (ss : Sections) (f : Frame) (k : Ctr)
    (hn : (f.info.symbols.map (·.name) ++ ss.names).Nodup)
    (hi : ∃ imps, importsFold ss.imps f.info.imports = .ok imps)
    (h : ∀ c' ∈ ss.deep, c'.Clean) : ∃ f' k', specSections ss f k = .ok (f', k') := by
  match ss with
  | .nil => exact ⟨f, k, rfl⟩
  | .elems vis es t =>
    obtain ⟨imps, hi⟩ := hi
    simp only [Sections.imps] at hi
    obtain ⟨i1, hi1, hi2⟩ := importsFold_append_inv _ _ _ _ hi
    simp only [Sections.names, Sections.clauses, List.flatMap_append] at hn
    obtain ⟨f1, k1, h1⟩ := elems_accepted es f k
      (by rw [← List.append_assoc] at hn; exact (List.nodup_append.mp hn).1)
      ⟨i1, hi1⟩ (fun c' hc' => h c' (by simp [Sections.deep, hc']))
    have g1 := elems_grow _ _ _ _ _ h1
    obtain ⟨S1, hS1, hv1, _⟩ := g1.syms
    have hnames1 : f1.info.symbols.map (·.name) = f.info.symbols.map (·.name) ++ es.names := by
      have : S1.map (·.name) = es.names := names_of_views hv1
      rw [hS1]; simp [this]
    have himp1 : f1.info.imports = i1 := by
      have := g1.imps
      rw [hi1] at this
      exact (Except.ok.inj this).symm
    simp only [specSections, h1]
    apply sections_accepted t
    · simpa [hnames1, Elems.names, Sections.names, List.append_assoc] using hn
    · exact ⟨imps, by simpa [himp1] using hi2⟩
    · intro c' hc'; exact h c' (by simp [Sections.deep, hc'])
  | .eqs _ _ t =>
    simp only [specSections]
    apply sections_accepted t
    · simpa [Sections.names, Sections.clauses] using hn
    · simpa [Sections.imps] using hi
    · intro c' hc'; exact h c' (by simpa [Sections.deep] using hc')
  | .algs _ _ t =>
    simp only [specSections]
    apply sections_accepted t
    · simpa [Sections.names, Sections.clauses] using hn
    · simpa [Sections.imps] using hi
    · intro c' hc'; exact h c' (by simpa [Sections.deep] using hc')
end

theorem file_accepted (file : List (Bool × ClassSrc)) (acc : List ClassAst) (k : Ctr)
    (h : ∀ c ∈ file, ∀ c' ∈ c.2.deep, c'.Clean) : ∃ r, specFile file acc k = .ok r := by
  induction file generalizing acc k with
  | nil => exact ⟨acc, rfl⟩
  | cons x t ih =>
    obtain ⟨fin, c⟩ := x
    obtain ⟨a, k1, hc⟩ := class_accepted c k (h (fin, c) (by simp))
    simp only [specFile, hc]
    exact ih _ _ (fun c0 hc0 => h c0 (by simp [hc0]))

end PymocaVerif.ClassAsm
