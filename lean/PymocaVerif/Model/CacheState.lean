/-!
# Model of the CasADi model cache as a state machine (C20, C21)

`pymoca.backends.casadi.api`: `transfer_model` / `load_model` / `save_model`.

The world is: the `.mo` source files of the model folder (folder `0`) and of the library
folders, each file with a modification time and a content; the pymoca version; and the cache
file `<model>.pymoca_cache`, which is either absent or holds the first `written` bytes of a
pickle of `size` bytes made from a `Db` (version, options, compiled model).

`load` performs the checks of `load_model` in the order of the code:
`getmtime` of the cache (absent -> `FileNotFoundError`), the mtime walk over the model folder
and the library folders *of the current options* with the comparison `file > cache`,
`pickle.load` with its two `except` clauses (`RuntimeError` first, then `Exception`), the
version test, the option test without the
excluded key `library_folders`.  `transfer` is `transfer_model`: option rewriting, `load`,
and on `FileNotFoundError` / `InvalidCacheError` compile + `save_model`; any other exception
escapes.  What unpickling a strict prefix raises is a parameter (`truncErr`, observed from
CPython by the harness); what compiling yields is a parameter (`compile`).
-/
namespace PymocaVerif.CacheState

abbrev Folder := Nat

structure SrcFile where
  path : String
  mtime : Nat
  content : Nat
  deriving DecidableEq, Repr

/-- Compiler options.  `rest` is every other key (sorted `key, repr(value)` pairs). -/
structure Opts where
  libs : List Folder
  mtimeCheck : Bool
  cache : Bool
  codegen : Bool
  expandMx : Bool
  rest : List (String × String)
  deriving DecidableEq, Repr

/-- The rewriting at the top of `transfer_model`: code generation disables caching; caching
    implies `expand_mx`. -/
def Opts.norm (o : Opts) : Opts :=
  let c := if o.cache && o.codegen then false else o.cache
  { o with cache := c, expandMx := if c && !o.expandMx then true else o.expandMx }

/-- A Python exception: the class names along its MRO and whether its message mentions
    CasADi deserialisation (the test inside `except RuntimeError`). -/
structure Exc where
  mro : List String
  deser : Bool
  deriving DecidableEq, Repr

/-- The second `except` clause of `load_model` (since 9d600b8: `except Exception`; before: the
    tuple `UnpicklingError, AttributeError, EOFError, ImportError, IndexError`). -/
def caughtClasses : List String := ["Exception"]

inductive Reason
  | noFile | outOfDate | casadiVersion | damaged | version | options
  deriving DecidableEq, Repr

def Reason.name : Reason → String
  | .noFile => "no-file" | .outOfDate => "out-of-date" | .casadiVersion => "casadi-version"
  | .damaged => "damaged" | .version => "version" | .options => "options"

inductive LoadResult (M : Type)
  | hit (m : M)
  | miss (r : Reason)
  | raised (e : Exc)

/-- How `load_model` treats an exception of `pickle.load`:
    `none` = it escapes, `some r` = converted to `InvalidCacheError`. -/
def convert (e : Exc) : Option Reason :=
  if e.mro.contains "RuntimeError" then (if e.deser then some .casadiVersion else none)
  else if e.mro.any (fun c => caughtClasses.contains c) then some .damaged
  else none

structure Db (M : Type) where
  version : Nat
  opts : Opts
  model : M

structure CacheFile (M : Type) where
  mtime : Nat
  db : Db M
  size : Nat
  written : Nat

def CacheFile.complete {M} (c : CacheFile M) : Bool := decide (c.size ≤ c.written)

structure World (M : Type) where
  fs : Folder → List SrcFile
  cache : Option (CacheFile M)
  version : Nat

structure Cfg (M : Type) where
  /-- version, sources (model folder first, then each library folder), normalised options -/
  compile : Nat → List (List (String × Nat)) → Opts → M
  /-- the exception `pickle.load` raises on a strict prefix of the given length -/
  truncErr : Nat → Exc
  /-- `exclude_options = ["library_folders"]` -/
  exclLibs : Bool

/-- `old_opts != new_opts` after dropping the excluded keys. -/
def optsMatch (excl : Bool) (a b : Opts) : Bool :=
  (excl || a.libs == b.libs) && a.mtimeCheck == b.mtimeCheck && a.cache == b.cache &&
    a.codegen == b.codegen && a.expandMx == b.expandMx && a.rest == b.rest

/-- `os.path.getmtime(filename) > cache_mtime` for some `*.mo` file of the folder. -/
def stale {M} (c : CacheFile M) (files : List SrcFile) : Bool :=
  files.any (fun x => decide (x.mtime > c.mtime))

def folders (o : Opts) : List Folder := 0 :: o.libs

def load {M} (cfg : Cfg M) (w : World M) (o : Opts) : LoadResult M :=
  match w.cache with
  | none => .miss .noFile
  | some c =>
    if o.mtimeCheck && (folders o).any (fun f => stale c (w.fs f)) then .miss .outOfDate
    else if !c.complete then
      match convert (cfg.truncErr c.written) with
      | some r => .miss r
      | none => .raised (cfg.truncErr c.written)
    else if c.db.version != w.version then .miss .version
    else if !optsMatch cfg.exclLibs c.db.opts o then .miss .options
    else .hit c.db.model

def srcs (fs : Folder → List SrcFile) (o : Opts) : List (List (String × Nat)) :=
  (folders o).map fun f => (fs f).map fun x => (x.path, x.content)

def compileNow {M} (cfg : Cfg M) (w : World M) (o : Opts) : M :=
  cfg.compile w.version (srcs w.fs o) o

inductive Outcome (M : Type)
  | direct (m : M)                 -- neither cache nor codegen
  | hit (m : M)                    -- `CachedModel`
  | compiled (m : M) (r : Reason)  -- recompiled after `FileNotFoundError` / `InvalidCacheError`
  | raised (e : Exc)

def Outcome.model? {M} : Outcome M → Option M
  | .direct m => some m | .hit m => some m | .compiled m _ => some m | .raised _ => none

def Outcome.kind {M} : Outcome M → String
  | .direct _ => "direct" | .hit _ => "hit" | .compiled _ r => "compiled:" ++ r.name
  | .raised e => "raised:" ++ (e.mro.head?.getD "?")

/-- How far a `save_model` got: `done`, died before `open(…, "wb")`, or died with `k` bytes on disk. -/
inductive Interrupt
  | done | beforeOpen | after (k : Nat)
  deriving DecidableEq, Repr

/-- `transfer_model(folder, name, o0)`; a newly written cache file gets mtime `now` and has
    `size` bytes. -/
def transfer {M} (cfg : Cfg M) (w : World M) (o0 : Opts) (now size : Nat)
    (intr : Interrupt := .done) : World M × Outcome M :=
  let o := o0.norm
  if !(o.cache || o.codegen) then (w, .direct (compileNow cfg w o)) else
  match load cfg w o with
  | .hit m => (w, .hit m)
  | .raised e => (w, .raised e)
  | .miss r =>
    let m := compileNow cfg w o
    let db : Db M := { version := w.version, opts := o, model := m }
    let w' : World M := match intr with
      | .done => { w with cache := some { mtime := now, db := db, size := size, written := size } }
      | .beforeOpen => w
      | .after k => { w with cache := some { mtime := now, db := db, size := size, written := min k size } }
    (w', .compiled m r)

/-- Rewrite the file with that path, or add it. -/
def writeFile (files : List SrcFile) (x : SrcFile) : List SrcFile :=
  if files.any (fun y => y.path == x.path) then files.map (fun y => if y.path == x.path then x else y)
  else files ++ [x]

inductive Op
  | write (f : Folder) (path : String) (mtime content : Nat)
  | setVersion (v : Nat)
  | transfer (o : Opts) (now size : Nat)
  | crashedTransfer (o : Opts) (now size : Nat) (i : Interrupt)
  /-- the cache file cut to its first `k` bytes (mtime becomes `t` unless nothing was lost) -/
  | truncate (k t : Nat)
  deriving Repr

def truncateCache {M} (c : CacheFile M) (k t : Nat) : CacheFile M :=
  if c.written ≤ k then c else { c with written := k, mtime := if c.size ≤ k then c.mtime else t }

def step {M} (cfg : Cfg M) (w : World M) : Op → World M × Option (Outcome M)
  | .write f p t c =>
    ({ w with fs := fun g => if g = f then writeFile (w.fs f) ⟨p, t, c⟩ else w.fs g }, none)
  | .setVersion v => ({ w with version := v }, none)
  | .transfer o now size => let r := transfer cfg w o now size; (r.1, some r.2)
  | .crashedTransfer o now size i => ((transfer cfg w o now size i).1, none)
  | .truncate k t => ({ w with cache := w.cache.map (fun c => truncateCache c k t) }, none)

/-- Runs a history; the outcomes of its (uninterrupted) `transfer` steps, in order. -/
def run {M} (cfg : Cfg M) (w : World M) : List Op → World M × List (Outcome M)
  | [] => (w, [])
  | op :: rest =>
    let r := step cfg w op
    let rr := run cfg r.1 rest
    (rr.1, (match r.2 with | some o => [o] | none => []) ++ rr.2)

end PymocaVerif.CacheState
