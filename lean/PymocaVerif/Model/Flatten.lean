/-!
# Reference flattening semantics for core Modelica (C07, C08)

Executable, environment-passing reference semantics of instantiation + flattening for the
subset C07/C08 quantify over: long classes with (multiple) extends clauses carrying
modifications, components of builtin / type-definition / class type with prefixes, array
dimensions and modifications, equations over dotted references with subscripts, short class
definitions (`type T = Real(..)`, `type U = T(..)`, `model B2 = B(..)`).

Two stages.  `Model/FlattenSrc.lean` turns the *source* library (nested class definitions,
relative type names, modifications as spelled) into a *resolved* library `Lib`: an association
list from absolute class paths to `ClassDef`s whose type references are absolute and whose
modifications are desugared to `(path, expression)` pairs.  This file defines the semantics of a
resolved library; the property theorems (Props/C07, Props/C08) are about it.

Everything is total: recursion through class references is by fuel (`Err.fuel` when it runs
out — a recursive class structure exhausts any fuel), every rejection is an explicit `Err`.
-/
namespace PymocaVerif.Flatten

abbrev Name := String
abbrev Path := List Name

/-- Expressions as written in the source. A reference is a dotted list of (name, subscripts). -/
inductive Expr where
  | num (n : Nat)
  | bool (b : Bool)
  | str (s : String)
  | ref (parts : List (Name × List Nat))
  | un (op : String) (a : Expr)
  | bin (op : String) (a b : Expr)
  deriving Repr, DecidableEq, Inhabited

/-- Expressions of the flat model: a reference is either renamed to a flat variable (`fref`),
    or left as written (`uref`); `sym` is the variable on the left of a binding equation. -/
inductive FExpr where
  | num (n : Nat)
  | bool (b : Bool)
  | str (s : String)
  | fref (path : Path) (subs : List Nat)
  | uref (parts : List (Name × List Nat))
  | sym (path : Path)
  | un (op : String) (a : FExpr)
  | bin (op : String) (a b : FExpr)
  deriving Repr, DecidableEq, Inhabited

inductive Err where
  | fuel            -- recursion bound exhausted (recursive class structure)
  | noClass (p : Path)
  | badExtends      -- extends of an elementary type in a long class / malformed short definition
  | dupMember (n : Name)
  | unknownTarget (p : Path)   -- a modification names no element of the class it is applied to
  | badAttr (p : Path)         -- modification of something that is not the binding or an attribute of a leaf
  | typeModNotLiteral
  | targetElementary
  | resolve (msg : String)     -- source-level lookup failure (stage 1)
  deriving Repr, DecidableEq, Inhabited

/-- A desugared modification as written in a class: `path` relative to the modified element
    (component path followed by the attribute name; `[]` is the binding of a declaration). -/
structure Mod where
  path : Path
  value : Expr
  deriving Repr, DecidableEq, Inhabited

/-- A modification travelling down the instance tree: `scope` is the prefix of the instance in
    which it was *written* (its expression is resolved there). -/
structure MMod where
  path : Path
  scope : Path
  value : Expr
  deriving Repr, DecidableEq, Inhabited

inductive Ty where
  | builtin (b : String)
  | cls (p : Path)
  deriving Repr, DecidableEq, Inhabited

structure Comp where
  name : Name
  ty : Ty
  prefixes : List String
  dims : List Nat
  mods : List Mod          -- class modification followed by the binding (path `[]`)
  deriving Repr, DecidableEq, Inhabited

structure ClassDef where
  isShort : Bool                      -- `type T = X(mods)`: exactly one extends clause, nothing else
  exts : List (Ty × List Mod)
  comps : List Comp
  eqs : List (Expr × Expr)
  deriving Repr, Inhabited

abbrev Lib := List (Path × ClassDef)

def Lib.find (lib : Lib) (p : Path) : Option ClassDef := List.lookup p lib

def attrNames : List String :=
  ["start", "min", "max", "nominal", "fixed", "unit", "quantity", "displayUnit"]

/-! ## small helpers -/

/-- `mapM` in `Except`, by structural recursion (so that proofs are plain list inductions). -/
def mapE {α β ε : Type} (f : α → Except ε β) : List α → Except ε (List β)
  | [] => .ok []
  | a :: as =>
    match f a with
    | .error e => .error e
    | .ok b =>
      match mapE f as with
      | .error e => .error e
      | .ok bs => .ok (b :: bs)

/-- first element satisfying `p`, as an error carrier -/
def firstBad {α : Type} (p : α → Bool) : List α → Option α
  | [] => none
  | a :: as => if p a then some a else firstBad p as

def dupName : List Name → Option Name
  | [] => none
  | a :: as => if as.contains a then some a else dupName as

def Expr.isLiteral : Expr → Bool
  | .num _ => true
  | .bool _ => true
  | .str _ => true
  | .ref _ => false
  | .un _ a => a.isLiteral
  | .bin _ a b => a.isLiteral && b.isLiteral

/-! ## elementary types: builtins and short definitions of them -/

/-- `some (b, ms)`: the type is builtin `b` reached through short class definitions whose
    modification lists are `ms`, *innermost definition first* (later wins).  `none`: a class. -/
def elemOf : Nat → Lib → Ty → Except Err (Option (String × List (List Mod)))
  | _, _, .builtin b => .ok (some (b, []))
  | 0, _, .cls _ => .error .fuel
  | f + 1, lib, .cls p =>
    match lib.find p with
    | none => .error (.noClass p)
    | some d =>
      if d.isShort then
        match d.exts with
        | [(t, m)] =>
          match elemOf f lib t with
          | .error e => .error e
          | .ok none => .ok none
          | .ok (some (b, ms)) => .ok (some (b, ms ++ [m]))
        | _ => .error .badExtends
      else .ok none

/-! ## members: own and inherited components and equations -/

/-- A component of a class together with the modification lists of the extends clauses it was
    inherited through, *base-most clause first* (the derived class's clause is last and wins). -/
structure Member where
  comp : Comp
  ext : List (List Mod)
  deriving Repr, DecidableEq, Inhabited

def Mod.headIn (names : List Name) (m : Mod) : Bool :=
  match m.path with
  | [] => false
  | n :: _ => names.contains n

/-- the members a class gets through one extends clause `tm`, given the members of the base -/
def inheritStep (elem : Ty → Except Err (Option (String × List (List Mod))))
    (rec : Path → Except Err (List Member)) (tm : Ty × List Mod) : Except Err (List Member) :=
  match tm.1 with
  | .builtin _ => .error .badExtends
  | .cls b =>
    match elem (.cls b) with
    | .error e => .error e
    | .ok (some _) => .error .badExtends
    | .ok none =>
      match rec b with
      | .error e => .error e
      | .ok ms =>
        match firstBad (fun m => !(Mod.headIn (ms.map (·.comp.name)) m)) tm.2 with
        | some m => .error (.unknownTarget m.path)
        | none => .ok (ms.map fun x => { x with ext := x.ext ++ [tm.2] })

def membersF : Nat → Lib → Path → Except Err (List Member)
  | 0, _, _ => .error .fuel
  | f + 1, lib, p =>
    match lib.find p with
    | none => .error (.noClass p)
    | some d =>
      match mapE (inheritStep (elemOf f lib) (membersF f lib)) d.exts with
      | .error e => .error e
      | .ok inh => .ok (inh.flatten ++ d.comps.map fun k => { comp := k, ext := [] })

def inheritEqStep (rec : Path → Except Err (List (Expr × Expr))) (tm : Ty × List Mod) :
    Except Err (List (Expr × Expr)) :=
  match tm.1 with
  | .builtin _ => .error .badExtends
  | .cls b => rec b

def memberEqsF : Nat → Lib → Path → Except Err (List (Expr × Expr))
  | 0, _, _ => .error .fuel
  | f + 1, lib, p =>
    match lib.find p with
    | none => .error (.noClass p)
    | some d =>
      match mapE (inheritEqStep (memberEqsF f lib)) d.exts with
      | .error e => .error e
      | .ok inh => .ok (inh.flatten ++ d.eqs)

/-! ## instantiation -/

/-- A leaf of the instance tree. `binds` are all modifications that reach it, lowest priority
    first (type definitions, declaration, extends clauses base-most first, enclosing
    components innermost first); each has path `[]` (binding) or `[attr]`. -/
structure Var where
  path : Path
  ty : String
  prefixes : List String
  dims : List Nat
  binds : List MMod
  deriving Repr, DecidableEq, Inhabited

/-- An equation of the class instantiated at `scope`, as written. -/
structure IEq where
  scope : Path
  lhs : Expr
  rhs : Expr
  deriving Repr, DecidableEq, Inhabited

def Mod.here (P : Path) (m : Mod) : MMod := { path := m.path, scope := P, value := m.value }

/-- the modification, one level down into element `n` (if it concerns `n`) -/
def Mod.strip (n : Name) (m : Mod) : Option Mod :=
  match m.path with
  | [] => none
  | h :: t => if h = n then some { m with path := t } else none

def MMod.strip (n : Name) (m : MMod) : Option MMod :=
  match m.path with
  | [] => none
  | h :: t => if h = n then some { m with path := t } else none

def MMod.headIn (names : List Name) (m : MMod) : Bool :=
  match m.path with
  | [] => false
  | n :: _ => names.contains n

/-- input/output survive only on components of the class being flattened itself -/
def stripIO (P : Path) (prefixes : List String) : List String :=
  if P = [] then prefixes else prefixes.filter fun x => x != "input" && x != "output"

def okLeafPath (p : Path) : Bool :=
  match p with
  | [] => true
  | [a] => attrNames.contains a
  | _ => false

/-- All modifications for member `k` of a class instantiated at `P` with `outer` coming from the
    enclosing levels: declaration < extends clauses (base-most first) < enclosing components. -/
def allMods (P : Path) (k : Comp) (ext : List (List Mod)) (outer : List MMod) : List MMod :=
  k.mods.map (Mod.here P) ++ (ext.flatten.filterMap (Mod.strip k.name)).map (Mod.here P)
    ++ outer.filterMap (MMod.strip k.name)

/-- modifications of the type definitions of a leaf (literals only: they would have to be
    resolved in the scope of the definition, which has no instance) -/
def typeMods (P : Path) (ms : List (List Mod)) : Except Err (List MMod) :=
  match firstBad (fun (m : Mod) => !(m.value.isLiteral)) ms.flatten with
  | some _ => .error .typeModNotLiteral
  | none => .ok (ms.flatten.map (Mod.here P))

def mkLeaf (P : Path) (k : Comp) (b : String) (tms : List (List Mod)) (all : List MMod) (dims : List Nat) :
    Except Err (List Var × List IEq) :=
  match typeMods P tms with
  | .error e => .error e
  | .ok tm =>
    match firstBad (fun (m : MMod) => !(okLeafPath m.path)) (tm ++ all) with
    | some m => .error (.badAttr m.path)
    | none => .ok ([{ path := P ++ [k.name], ty := b, prefixes := stripIO P k.prefixes,
                      dims := dims ++ k.dims, binds := tm ++ all }], [])

/-- the part of the instance tree below member `m` of a class instantiated at `P` -/
def instStep (elem : Ty → Except Err (Option (String × List (List Mod))))
    (rec : Path → Path → List MMod → List Nat → Except Err (List Var × List IEq))
    (P : Path) (outer : List MMod) (dims : List Nat) (m : Member) : Except Err (List Var × List IEq) :=
  match elem m.comp.ty with
  | .error e => .error e
  | .ok (some (b, tms)) => mkLeaf P m.comp b tms (allMods P m.comp m.ext outer) dims
  | .ok none =>
    match m.comp.ty with
    | .builtin _ => .error .badExtends
    | .cls c' => rec c' (P ++ [m.comp.name]) (allMods P m.comp m.ext outer) (dims ++ m.comp.dims)

/-- Instantiate class `c` at instance prefix `P`, with the modifications `outer` of the enclosing
    levels and the dimensions `dims` of the enclosing array components. -/
def instF : Nat → Lib → Path → Path → List MMod → List Nat → Except Err (List Var × List IEq)
  | 0, _, _, _, _, _ => .error .fuel
  | f + 1, lib, c, P, outer, dims =>
    match membersF f lib c with
    | .error e => .error e
    | .ok ms =>
      match dupName (ms.map (·.comp.name)) with
      | some n => .error (.dupMember n)
      | none =>
        match firstBad (fun m => !(MMod.headIn (ms.map (·.comp.name)) m)) outer with
        | some m => .error (.unknownTarget m.path)
        | none =>
          match memberEqsF f lib c with
          | .error e => .error e
          | .ok eqs =>
            match mapE (instStep (elemOf f lib) (instF f lib) P outer dims) ms with
            | .error e => .error e
            | .ok rs =>
              .ok ((rs.map (·.1)).flatten,
                   (rs.map (·.2)).flatten ++ eqs.map fun e => { scope := P, lhs := e.1, rhs := e.2 })

/-! ## renaming and the flat model -/

def refNames (parts : List (Name × List Nat)) : Path := parts.map (·.1)
def refSubs (parts : List (Name × List Nat)) : List Nat := (parts.map (·.2)).flatten

/-- A reference written in instance `P` denotes the variable `P ++ names` when that is a
    variable of the flat model; otherwise it is left as written. -/
def rename (vars : List Path) (P : Path) : Expr → FExpr
  | .num n => .num n
  | .bool b => .bool b
  | .str s => .str s
  | .ref parts =>
    if vars.contains (P ++ refNames parts) then .fref (P ++ refNames parts) (refSubs parts)
    else .uref parts
  | .un op a => .un op (rename vars P a)
  | .bin op a b => .bin op (rename vars P a) (rename vars P b)

/-- the winning modification of attribute path `a` (`[]` = binding): the last one in priority order -/
def lookupBind (binds : List MMod) (a : Path) : Option MMod :=
  (binds.reverse.find? fun m => m.path == a)

structure FVar where
  path : Path
  ty : String
  prefixes : List String
  dims : List Nat
  attrs : List (String × FExpr)
  value : Option FExpr
  deriving Repr, DecidableEq, Inhabited

structure FlatModel where
  vars : List FVar
  eqs : List (FExpr × FExpr)       -- instance equations, unconnected-flow equations, binding equations
  deriving Repr, DecidableEq, Inhabited

def Var.isParam (v : Var) : Bool := v.prefixes.contains "parameter" || v.prefixes.contains "constant"

def Var.attr (names : List Path) (v : Var) (a : Path) : Option FExpr :=
  (lookupBind v.binds a).map fun m => rename names m.scope m.value

def finVar (names : List Path) (v : Var) : FVar :=
  { path := v.path, ty := v.ty, prefixes := v.prefixes, dims := v.dims,
    attrs := attrNames.filterMap fun a => (v.attr names [a]).map fun e => (a, e),
    value := if v.isParam then v.attr names [] else none }

def instEqs (names : List Path) (ieqs : List IEq) : List (FExpr × FExpr) :=
  ieqs.map fun e => (rename names e.scope e.lhs, rename names e.scope e.rhs)

def flowEqs (vars : List Var) : List (FExpr × FExpr) :=
  (vars.filter fun v => v.prefixes.contains "flow").map fun v => (.sym v.path, .num 0)

def bindEqs (names : List Path) (vars : List Var) : List (FExpr × FExpr) :=
  vars.filterMap fun v =>
    if v.isParam then none else (v.attr names []).map fun e => (.sym v.path, e)

/-- the instance tree of `target` (its leaves and equations, not yet renamed) -/
def instTop (fuel : Nat) (lib : Lib) (target : Path) : Except Err (List Var × List IEq) :=
  match elemOf fuel lib (.cls target) with
  | .error e => .error e
  | .ok (some _) => .error .targetElementary
  | .ok none => instF fuel lib target [] [] []

def assemble (r : List Var × List IEq) : FlatModel :=
  let names := r.1.map (·.path)
  { vars := r.1.map (finVar names),
    eqs := instEqs names r.2 ++ flowEqs r.1 ++ bindEqs names r.1 }

def flattenF (fuel : Nat) (lib : Lib) (target : Path) : Except Err FlatModel :=
  match instTop fuel lib target with
  | .error e => .error e
  | .ok r => .ok (assemble r)

end PymocaVerif.Flatten
