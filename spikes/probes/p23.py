from pymoca import parser
from pymoca.backends.casadi import generator as gen
def try_model(txt, name, opts=None):
    t = parser.parse(txt, bypass_cache=True)
    try:
        m = gen.generate(t, name, opts)
        return str(m.equations)
    except Exception as e:
        return "EXC %s: %s" % (type(e).__name__, str(e)[:90])
for sub in ["0","1","3","4","-1","0:2","1:3","1:4","2:5","-1:2","3:1","0:0","4:4","4:5",":", "1:2:3", "2:3:1"]:
    txt = "model M Real x[3]; Real y; equation y = sum(x[%s]); x = {1,2,3}; end M;" % sub
    print("x[3] sub", sub, "->", try_model(txt, "M"))
for sub in ["0,1","1,1","2,3","3,1","2,4","1:2,1","0:1,1","1,0:2","1,2:4", "1"]:
    txt = "model M Real x[2,3]; Real y; equation y = sum(x[%s]); end M;" % sub
    print("x[2,3] sub", sub, "->", try_model(txt, "M"))
txt = "model M Real x; Real y; equation y = x[1]; end M;"
print("scalar", try_model(txt,"M"))
txt = "model M Real x[3]; equation for i in 0:2 loop x[i+1] = x[i]; end for; end M;"
print("loop 0:2", try_model(txt,"M"))
txt = "model M Real x[3]; equation for i in 1:4 loop x[i] = 1; end for; end M;"
print("loop 1:4", try_model(txt,"M"))
txt = "model M Real x[3]; equation for i in 1:3 loop x[i] = x[i-1]; end for; end M;"
print("loop i-1", try_model(txt,"M"))
