/-! Driver for C22 (stub: not built yet). -/
def main : IO Unit := pure ()
