import PymocaVerif.Model.ParseCache
/-! Lemmas for C01: the row invariant through every transaction and operation; what the
    initialisation block establishes; transparency of one `parse`. -/
namespace PymocaVerif.ParseCache

variable {pf : Ver → TextId → Option TreeId}

def rowsOf : DbFile → List Row
  | .db (some m) _ => m.rows
  | _ => []

/-- a row that unpickles to a tree holds the tree the uncached parser gives for its own text and version -/
def RowOk (pf : Ver → TextId → Option TreeId) (r : Row) : Prop :=
  ∀ t, r.blob = .good (some t) → pf r.ver r.key = some t

def FileInv (pf : Ver → TextId → Option TreeId) (f : DbFile) : Prop := ∀ r ∈ rowsOf f, RowOk pf r

def RowInv (pf : Ver → TextId → Option TreeId) (s : St) : Prop := FileInv pf s.file

/-- the process has not initialised the database, or the `models` table can be queried -/
def Synced (s : St) : Prop := s.init = true → s.file.queryable.isSome = true

/-- no stored row unpickles to `None` -/
def NoNone (f : DbFile) : Prop := ∀ r ∈ rowsOf f, r.blob ≠ .good none

theorem Exc.mem_all (e : Exc) : e ∈ Exc.all := by cases e <;> simp [Exc.all]

/-- every exception class a damaged blob raises is caught -/
def CaughtAll (cfg : Cfg) : Prop := ∀ e, cfg.isCaught e = true

theorem caughtAll_of_all {cfg : Cfg} (h : Exc.all.all cfg.isCaught = true) : CaughtAll cfg :=
  fun e => List.all_eq_true.mp h e (Exc.mem_all e)

/-! ### rows through the transactions -/

theorem rowsOf_setRows_sub {f : DbFile} {rows : List Row} : ∀ r ∈ rowsOf (f.setRows rows), r ∈ rows := by
  intro r hr
  unfold DbFile.setRows at hr
  split at hr <;> simp_all [rowsOf]
  all_goals (rename_i f' hne; cases f' <;> simp_all [rowsOf])
  all_goals (rename_i m t; cases m <;> simp_all [rowsOf])

theorem queryable_rows {f : DbFile} {m : Models} (h : f.queryable = some m) : rowsOf f = m.rows := by
  unfold DbFile.queryable at h
  split at h
  · split at h <;> simp_all [rowsOf]
  · cases h

theorem queryable_setRows {f : DbFile} {m : Models} (rows : List Row) (h : f.queryable = some m) :
    (f.setRows rows).queryable = some { m with rows := rows } := by
  unfold DbFile.queryable at h
  split at h
  · rename_i m' t
    split at h
    · cases h
    · cases h
      simp_all [DbFile.setRows, DbFile.queryable]
  · cases h

theorem rowsOf_setRows {f : DbFile} {m : Models} (rows : List Row) (h : f.queryable = some m) :
    rowsOf (f.setRows rows) = rows := by
  rw [queryable_rows (queryable_setRows rows h)]

theorem fileInv_integrity {f : DbFile} (h : FileInv pf f) : FileInv pf (txIntegrity f) := by
  cases f <;> simp_all [txIntegrity, FileInv, rowsOf]

theorem fileInv_checkModels {f f' : DbFile} (h : FileInv pf f) (he : txCheckModels f = .ok f') : FileInv pf f' := by
  unfold txCheckModels at he
  split at he
  · cases he
  · split at he <;> cases he <;> simp_all [FileInv, rowsOf]
  · cases he; simp [FileInv, rowsOf]

theorem rowsOf_db (m : Option Models) (a b : Option MetaTbl) : rowsOf (.db m a) = rowsOf (.db m b) := by
  cases m <;> rfl

theorem fileInv_checkMeta {f f' : DbFile} (h : FileInv pf f) (he : txCheckMeta f = .ok f') : FileInv pf f' := by
  cases f with
  | garbage => simp [txCheckMeta] at he
  | db m mt =>
    have : ∃ mt', f' = .db m mt' := by
      cases mt with
      | none => simp [txCheckMeta] at he; exact ⟨_, he.symm⟩
      | some t => cases t <;> simp [txCheckMeta] at he <;> exact ⟨_, he.symm⟩
    obtain ⟨mt', rfl⟩ := this
    intro r hr
    rw [rowsOf_db m mt' mt] at hr
    exact h r hr

theorem fileInv_metaDefaults {f f' : DbFile} {t1 t2 : Int} (h : FileInv pf f) (he : txMetaDefaults t1 t2 f = .ok f') :
    FileInv pf f' := by
  unfold txMetaDefaults at he
  split at he <;> cases he
  rename_i m c p
  cases m <;> simp_all [FileInv, rowsOf]

theorem fileInv_prune {f f' : DbFile} {c t : Int} (h : FileInv pf f) (he : txPrune c t f = .ok f') : FileInv pf f' := by
  unfold txPrune at he
  split at he
  · split at he <;> cases he
    intro r hr
    simp only [rowsOf, List.mem_filter] at hr
    exact h r (by simpa [rowsOf] using hr.1)
  · cases he

theorem fileInv_touch {f f' : DbFile} {x : TextId} {v : Ver} {t : Int} (h : FileInv pf f)
    (he : txTouch x v t f = .ok f') : FileInv pf f' := by
  unfold txTouch at he
  split at he
  · cases he
  · rename_i m hq
    cases he
    intro r hr
    rw [rowsOf_setRows _ hq] at hr
    obtain ⟨r0, hr0, rfl⟩ := List.mem_map.mp hr
    have h0 := h r0 (by rw [queryable_rows hq]; exact hr0)
    split <;> simpa [RowOk] using h0

theorem fileInv_insert {f f' : DbFile} {x : TextId} {v : Ver} {tree : TreeId} {t : Int} (h : FileInv pf f)
    (hpf : pf v x = some tree) (he : txInsert x v tree t f = .ok f') : FileInv pf f' := by
  unfold txInsert at he
  split at he
  · cases he
  · rename_i m hq
    cases he
    intro r hr
    rw [rowsOf_setRows _ hq] at hr
    rcases List.mem_append.mp hr with hr | hr
    · have : r ∈ m.rows := by
        split at hr
        · exact (List.mem_filter.mp hr).1
        · exact hr
      exact h r (by rw [queryable_rows hq]; exact this)
    · simp at hr; subst hr
      intro t' ht'
      simp at ht'; subst ht'
      exact hpf

/-! ### what the initialisation block does -/

/-- after a successful initialisation block: initialised, both tables with the expected layout, rows a
    subset of the old ones, same version -/
theorem initBlock_spec (s : St) (days : Int) :
    ∃ s', initBlock s days = .ok s' ∧ s'.init = true ∧ s'.ver = s.ver ∧ s'.dirty = s.dirty ∧
      (∃ rows c p, s'.file = .db (some ⟨.ok, rows⟩) (some (.ok c p)) ∧ ∀ r ∈ rows, r ∈ rowsOf s.file) := by
  unfold initBlock
  cases hf : s.file with
  | garbage =>
    (simp [txIntegrity, txCheckModels, txCheckMeta, txMetaDefaults, txPrune, St.read, rowsOf] <;> try (intros; assumption))
  | db m mt =>
    cases m with
    | none =>
      cases mt with
      | none => (simp [txIntegrity, txCheckModels, txCheckMeta, txMetaDefaults, txPrune, St.read, rowsOf] <;> try (intros; assumption))
      | some mt => cases mt <;> (simp [txIntegrity, txCheckModels, txCheckMeta, txMetaDefaults, txPrune, St.read, rowsOf] <;> try (intros; assumption))
    | some m =>
      obtain ⟨lay, rows⟩ := m
      cases lay <;> cases mt with
      | none => (simp [txIntegrity, txCheckModels, txCheckMeta, txMetaDefaults, txPrune, St.read, rowsOf] <;> try (intros; assumption))
      | some mt =>
        cases mt <;> (simp [txIntegrity, txCheckModels, txCheckMeta, txMetaDefaults, txPrune, St.read, rowsOf] <;> try (intros; assumption))

theorem initBlock_inv {s s' : St} {days : Int} (h : RowInv pf s) (he : initBlock s days = .ok s') : RowInv pf s' := by
  obtain ⟨s'', he', _, _, _, rows, c, p, hfile, hsub⟩ := initBlock_spec s days
  rw [he] at he'; cases he'
  intro r hr
  rw [hfile] at hr
  exact h r (hsub r (by simpa [rowsOf] using hr))

/-- on an exception inside the block (unreachable from a single process, kept for totality) the rows are
    still a subset of the old ones -/
theorem initBlock_err_inv {s s' : St} {days : Int} {e : Err} (h : RowInv pf s) (he : initBlock s days = .error (s', e)) :
    RowInv pf s' := by
  obtain ⟨s'', he', _⟩ := initBlock_spec s days
  rw [he] at he'; cases he'

/-! ### `finish` and `parseCached` -/

theorem read_file (s : St) : s.read.2.file = s.file := rfl
theorem read_ver (s : St) : s.read.2.ver = s.ver := rfl
theorem read_init (s : St) : s.read.2.init = s.init := rfl

theorem finish_inv {s : St} {x : TextId} {tree : Option TreeId} (h : RowInv pf s) : RowInv pf (finish pf s x tree).1 := by
  unfold finish
  split
  · exact h
  · split
    · exact h
    · rename_i t hpf
      simp only []
      split
      · exact h
      · rename_i f he
        exact fileInv_insert (pf := pf) (f := s.file) h hpf (by simpa [St.read] using he)

theorem finish_none_transparent {s : St} {x : TextId} (hq : s.file.queryable.isSome = true) :
    (finish pf s x none).2 = .value (pf s.ver x) := by
  unfold finish
  simp only []
  cases hpf : pf s.ver x with
  | none => rfl
  | some t =>
    simp only []
    obtain ⟨m, hm⟩ := Option.isSome_iff_exists.mp hq
    have : txInsert x s.read.2.ver t s.read.1 s.read.2.file =
        .ok (s.file.setRows ((if m.layout = .ok then m.rows.filter (fun r => !matches_ x s.ver r) else m.rows) ++
          [⟨x, s.ver, .good (some t), s.now⟩])) := by
      simp [txInsert, St.read, hm]
    rw [this]

theorem finish_queryable {s : St} {x : TextId} {tree : Option TreeId} (hq : s.file.queryable.isSome = true) :
    (finish pf s x tree).1.file.queryable.isSome = true := by
  unfold finish
  split
  · exact hq
  · split
    · exact hq
    · simp only []
      obtain ⟨m, hm⟩ := Option.isSome_iff_exists.mp hq
      split
      · simpa [St.read] using hq
      · rename_i f he
        simp [txInsert, St.read, hm] at he
        subst he
        simp [queryable_setRows _ hm]

theorem finish_init {s : St} {x : TextId} {tree : Option TreeId} : (finish pf s x tree).1.init = s.init := by
  unfold finish
  split
  · rfl
  · split
    · rfl
    · simp only []
      split <;> simp [St.read]

theorem lookup_found {f : DbFile} {m : Models} {x : TextId} {v : Ver} {lh : Int} {b : Blob}
    (hq : f.queryable = some m) (h : txLookup x v f = .ok (some (lh, b))) :
    ∃ r ∈ rowsOf f, r.key = x ∧ r.ver = v ∧ r.blob = b := by
  simp only [txLookup, hq] at h
  cases hfind : m.rows.find? (matches_ x v) with
  | none => simp [hfind] at h
  | some r =>
    simp [hfind] at h
    refine ⟨r, ?_, ?_, ?_, h.2⟩
    · rw [queryable_rows hq]; exact List.mem_of_find?_eq_some hfind
    · have := List.find?_some hfind; simp [matches_] at this; exact this.1
    · have := List.find?_some hfind; simp [matches_] at this; exact this.2

/-- the part of `parseCached` after the initialisation block, from a state whose `models` table can be queried -/
def afterInit (cfg : Cfg) (pf : Ver → TextId → Option TreeId) (s : St) (x : TextId) (upd : Bool) : St × Res :=
  match txLookup x s.ver s.file with
  | .error e => (s, .raised e)
  | .ok none => finish pf s x none
  | .ok (some (lastHit, blob)) =>
    let (ty, s) := s.read
    let touched : Except (St × Err) St :=
      if upd || decide (lastHit < ty - day) then
        let (tu, s) := s.read
        match txTouch x s.ver tu s.file with
        | .error e => .error (s, e)
        | .ok f => .ok { s with file := f }
      else .ok s
    match touched with
    | .error (s, e) => (s, .raised e)
    | .ok s =>
      match blob with
      | .good t => finish pf s x t
      | .bad e => if cfg.isCaught e then finish pf s x none else (s, .raised (.unpickle e))

theorem parseCached_eq (cfg : Cfg) (s : St) (x : TextId) (days : Int) (upd : Bool) :
    parseCached cfg pf s x days upd =
      match (if s.init then .ok s else initBlock s days) with
      | .error (s, e) => (s, .raised e)
      | .ok s => afterInit cfg pf s x upd := by
  unfold parseCached afterInit
  rfl

/-- the state after the optional `UPDATE … last_hit` -/
theorem touched_spec (s : St) (x : TextId) (upd : Bool) (lh : Int) {m : Models} (hq : s.file.queryable = some m) :
    ∃ s1 : St, (if upd || decide (lh < s.read.1 - day) then
        (match txTouch x s.read.2.read.2.ver s.read.2.read.1 s.read.2.read.2.file with
          | .error e => (.error (s.read.2.read.2, e) : Except (St × Err) St)
          | .ok f => .ok { s.read.2.read.2 with file := f })
        else .ok s.read.2) = .ok s1 ∧
      s1.ver = s.ver ∧ s1.init = s.init ∧ s1.file.queryable.isSome = true ∧
      (∀ pf, FileInv pf s.file → FileInv pf s1.file) := by
  by_cases hc : (upd || decide (lh < s.read.1 - day)) = true
  · simp only [hc, if_true]
    have hq' : s.read.2.read.2.file.queryable = some m := hq
    cases ht : txTouch x s.read.2.read.2.ver s.read.2.read.1 s.read.2.read.2.file with
    | error e => simp [txTouch, hq'] at ht
    | ok f =>
      refine ⟨_, rfl, rfl, rfl, ?_, ?_⟩
      · simp [txTouch, hq'] at ht
        subst ht
        simp [queryable_setRows _ hq']
      · intro pf h
        exact fileInv_touch (f := s.file) h ht
  · simp only [hc]
    exact ⟨_, rfl, rfl, rfl, by simp [St.read, hq], fun _ h => h⟩

theorem afterInit_spec {cfg : Cfg} {s : St} {x : TextId} {upd : Bool} (hc : CaughtAll cfg) (h : RowInv pf s)
    (hq : s.file.queryable.isSome = true) :
    (afterInit cfg pf s x upd).2 = .value (pf s.ver x) ∧ RowInv pf (afterInit cfg pf s x upd).1 ∧
    (afterInit cfg pf s x upd).1.file.queryable.isSome = true ∧ (afterInit cfg pf s x upd).1.init = s.init := by
  obtain ⟨m, hm⟩ := Option.isSome_iff_exists.mp hq
  unfold afterInit
  cases hl : txLookup x s.ver s.file with
  | error e => simp [txLookup, hm] at hl
  | ok o =>
    cases o with
    | none => exact ⟨finish_none_transparent hq, finish_inv h, finish_queryable hq, finish_init⟩
    | some lb =>
      obtain ⟨lh, blob⟩ := lb
      obtain ⟨r, hr, hkey, hver, hblob⟩ := lookup_found hm hl
      obtain ⟨s1, hs1, hv1, hi1, hq1, hinv1⟩ := touched_spec s x upd lh hm
      simp only []
      rw [hs1]
      simp only []
      have h1 : RowInv pf s1 := hinv1 pf h
      cases blob with
      | good t =>
        cases t with
        | none =>
          refine ⟨?_, finish_inv h1, finish_queryable hq1, by rw [finish_init, hi1]⟩
          rw [finish_none_transparent hq1, hv1]
        | some t =>
          have hpf : pf s.ver x = some t := by
            have := h r hr t hblob
            rw [hver, hkey] at this; exact this
          refine ⟨?_, finish_inv h1, finish_queryable hq1, by rw [finish_init, hi1]⟩
          simp [finish, hpf]
      | bad e =>
        simp only [hc e, if_true]
        refine ⟨?_, finish_inv h1, finish_queryable hq1, by rw [finish_init, hi1]⟩
        rw [finish_none_transparent hq1, hv1]

/-- `afterInit` keeps the invariant even when it raises -/
theorem afterInit_inv {cfg : Cfg} {s : St} {x : TextId} {upd : Bool} (h : RowInv pf s) :
    RowInv pf (afterInit cfg pf s x upd).1 := by
  unfold afterInit
  cases hl : txLookup x s.ver s.file with
  | error e => exact h
  | ok o =>
    cases o with
    | none => exact finish_inv h
    | some lb =>
      obtain ⟨lh, blob⟩ := lb
      have hm : ∃ m, s.file.queryable = some m := by
        cases hq : s.file.queryable with
        | none => simp [txLookup, hq] at hl
        | some m => exact ⟨m, rfl⟩
      obtain ⟨m, hm⟩ := hm
      obtain ⟨s1, hs1, _, _, _, hinv1⟩ := touched_spec s x upd lh hm
      simp only []
      rw [hs1]
      simp only []
      have h1 : RowInv pf s1 := hinv1 pf h
      cases blob with
      | good t => exact finish_inv h1
      | bad e =>
        by_cases hcg : cfg.isCaught e = true
        · simp only [hcg, if_true]; exact finish_inv h1
        · simp only [hcg]; exact h1

theorem parseCached_inv {cfg : Cfg} {s : St} {x : TextId} {days : Int} {upd : Bool} (h : RowInv pf s) :
    RowInv pf (parseCached cfg pf s x days upd).1 := by
  rw [parseCached_eq]
  by_cases hi : s.init = true
  · simp only [hi, if_true]
    exact afterInit_inv h
  · have hif : s.init = false := by simpa using hi
    obtain ⟨s', he, _⟩ := initBlock_spec s days
    simp only [hif, he, Bool.false_eq_true, if_false]
    exact afterInit_inv (initBlock_inv h he)

theorem parseCached_spec {cfg : Cfg} {s : St} {x : TextId} {days : Int} {upd : Bool} (hc : CaughtAll cfg)
    (h : RowInv pf s) (hs : Synced s) :
    (parseCached cfg pf s x days upd).2 = .value (pf s.ver x) ∧
    (parseCached cfg pf s x days upd).1.init = true ∧
    (parseCached cfg pf s x days upd).1.file.queryable.isSome = true := by
  rw [parseCached_eq]
  by_cases hi : s.init = true
  · simp only [hi, if_true]
    obtain ⟨h1, _, h3, h4⟩ := afterInit_spec (x := x) (upd := upd) hc h (hs hi)
    exact ⟨h1, by rw [h4, hi], h3⟩
  · have hif : s.init = false := by simpa using hi
    obtain ⟨s', he, hinit, hver, _, rows, c, p, hfile, _⟩ := initBlock_spec s days
    simp only [hif, he, Bool.false_eq_true, if_false]
    have hq : s'.file.queryable.isSome = true := by simp [hfile, DbFile.queryable]
    obtain ⟨h1, _, h3, h4⟩ := afterInit_spec (x := x) (upd := upd) hc (initBlock_inv h he) hq
    exact ⟨by rw [h1, hver], by rw [h4, hinit], h3⟩

end PymocaVerif.ParseCache
