/-! Driver for C16 (stub: not built yet). -/
def main : IO Unit := pure ()
