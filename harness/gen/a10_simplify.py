"""Shared by C14 and C15 (agent A10): generator of Modelica models with a constructed unique
solution, runner of the real `Model.simplify`, canonical MX serialiser, exact evaluation, and the
direct oracles of the two properties.  Everything here is independent of the Lean model.

A *case* is a JSON object
    {"stream": <generator stream>, "text": <Modelica source of model M>, "options": {...},
     "sol": {name: "p/q"}, "given": [names fixed from outside: parameters, constants, inputs, states],
     "affine": bool, "meta": {...}}
`sol` assigns a value to every symbol of the flat model (parameters, constants, inputs, states,
derivatives, algebraic variables); with the `given` names fixed, it is the *only* solution of the
model's equations (the generator builds the system triangular with an invertible diagonal, or
from integer blocks with non-zero determinant).
"""
import io
import logging
import math
import re
import warnings
from fractions import Fraction

from harness.common import HarnessError

BOOL_FLAGS = [
    "resolve_parameter_values", "replace_parameter_expressions", "replace_constant_expressions",
    "eliminate_constant_assignments", "replace_parameter_values", "replace_constant_values",
    "factor_and_simplify_equations", "detect_aliases", "expand_mx", "expand_vectors",
]
# the order in which `_simplify_once` runs its passes (names of the gating options)
PASS_ORDER = [
    "expand_first",                 # expand_vectors and expand_mx (vector expansion + SX round trip)
    "resolve_parameter_values",
    "replace_parameter_expressions",
    "replace_constant_expressions",
    "eliminate_constant_assignments",
    "replace_parameter_values",
    "replace_constant_values",
    "eliminable_variable_expression",
    "expand_late",                  # expand_vectors and not expand_mx
    "factor_and_simplify_equations",
    "detect_aliases",
    "reduce_affine_expression",
]
ELIM_RE = "e_.*"
FAILURE_WARNINGS = ("exceeded maximum iteration limit",)


def fr(x):
    return Fraction(x)


def fstr(x):
    x = Fraction(x)
    return str(x.numerator) if x.denominator == 1 else "%d/%d" % (x.numerator, x.denominator)


def lit(x):
    """Modelica literal of a dyadic rational (exact in binary floating point)."""
    x = Fraction(x)
    if x.denominator == 1:
        return str(x.numerator)
    s = repr(float(x))
    if Fraction(s) != x:
        raise HarnessError("non-dyadic literal %s" % x)
    return s


def par(s):
    return "(" + s + ")"


# =========================================================================================
# generator
# =========================================================================================
class _B:
    """Builder of one model: declarations, equations, the constructed solution."""

    def __init__(self, rng):
        self.rng = rng
        self.decl = {}          # name -> declaration line
        self.order = []         # declaration order
        self.eqs = []
        self.inits = []
        self.sol = {}
        self.given = []
        self.unknowns = []      # algebraic unknowns (in construction order)
        self.states = []
        self.kinds = []
        self.affine = True
        self.pnames, self.cnames, self.unames = [], [], []
        self.head_eqs = []      # equations kept in this order, before the shuffled rest
        self.indep = []         # unknowns whose value does not depend on any state (usable in initial equations)
        self.chain_outer = []   # state-independent eliminable variables defined through another eliminable variable

    def declare(self, name, line, value, given=False):
        self.decl[name] = line
        self.order.append(name)
        self.sol[name] = Fraction(value)
        if given:
            self.given.append(name)

    def attrs(self):
        r = self.rng
        return r.choice(["", "", "", "(min=-1000)", "(max=1000, nominal=2)", "(start=1)", "(min=-500, max=500)",
                         "(nominal=4)"])

    def small(self, nz=False, lo=-5, hi=5):
        while True:
            k = self.rng.randint(lo, hi)
            if k or not nz:
                return Fraction(k)

    def dyadic(self):
        return Fraction(self.rng.choice([1, 2, 3, -1, -2, 4, 5, -3, 6]), self.rng.choice([1, 1, 1, 2, 4]))

    def ref(self, pool=None):
        """A previously defined name usable on a right-hand side."""
        cands = list(pool if pool is not None else self.unknowns + self.states + self.unames)
        return self.rng.choice(cands) if cands else None

    def text(self, name="M"):
        r = self.rng
        order = list(self.order)
        # Modelica does not care about declaration order; pymoca's variable lists follow it
        r.shuffle(order)
        eqs = list(self.eqs)
        r.shuffle(eqs)
        eqs = list(self.head_eqs) + eqs
        s = "model %s\n " % name + "\n ".join(self.decl[n] for n in order)
        if self.inits:
            s += "\ninitial equation\n " + ";\n ".join(self.inits) + ";"
        s += "\nequation\n " + ";\n ".join(eqs) + ";\nend %s;" % name
        return s


def _affine_rhs(b, maxterms=2, use_params=True, pool=None):
    """Random affine expression over already defined names; returns (text, value)."""
    r = b.rng
    terms, val = [], Fraction(0)
    pool = list(pool) if pool is not None else b.unknowns + b.states + b.unames
    n = r.randint(1, maxterms) if pool else 0
    for w in r.sample(pool, min(n, len(pool))):
        a = b.small(nz=True, lo=-3, hi=3)
        if use_params and b.pnames and r.random() < 0.25:
            p = r.choice(b.pnames)
            terms.append("%s*%s" % (p, w))
            val += b.sol[p] * b.sol[w]
        elif a == 1:
            terms.append(w)
            val += b.sol[w]
        else:
            terms.append("%s*%s" % (lit(a) if a > 0 else par(lit(a)), w))
            val += a * b.sol[w]
    if r.random() < 0.6 or not terms:
        k = b.small()
        terms.append(lit(k) if k >= 0 else par(lit(k)))
        val += k
    if use_params and r.random() < 0.3 and (b.pnames or b.cnames):
        p = r.choice(b.pnames + b.cnames)
        terms.append(p)
        val += b.sol[p]
    return " + ".join(terms), val


def gen_model(rng, stream="main", size=None):
    """Returns a case without options."""
    b = _B(rng)
    r = rng
    # ---- parameters, constants, inputs -------------------------------------------------------
    npar = r.randint(1, 3)
    no_params = (stream in ("main", "nonlinear") and r.random() < 0.2) or (stream == "affineconst" and r.random() < 0.5)
    if no_params:
        npar = 0
    for i in range(npar):
        v = b.dyadic() if r.random() < 0.3 else b.small(nz=True)
        b.declare("p%d" % i, "parameter Real p%d = %s;" % (i, lit(v)), v, given=True)
        b.pnames.append("p%d" % i)
    if not no_params and r.random() < 0.35:
        # a parameter without value (NaN): never replaced by any pass, stays an input of the functions
        v = b.small(nz=True)
        b.declare("pf", "parameter Real pf;", v, given=True)
        b.pnames.append("pf")
    # parameter expressions (chains allowed: q1 may use q0)
    for i in range(0 if no_params else r.randint(0, 2)):
        src = r.choice(b.pnames)
        a, k = b.small(nz=True, lo=-2, hi=3), b.small(lo=-2, hi=2)
        txt = r.choice(["%s*%s + %s" % (lit(a) if a > 0 else par(lit(a)), src, lit(k) if k >= 0 else par(lit(k))),
                        "%s + %s" % (src, lit(abs(k) + 1))])
        val = a * b.sol[src] + k if "*" in txt else b.sol[src] + abs(k) + 1
        b.declare("q%d" % i, "parameter Real q%d = %s;" % (i, txt), val, given=True)
        b.pnames.append("q%d" % i)
    for i in range(r.randint(1, 2)):
        v = b.small(nz=True)
        b.declare("c%d" % i, "constant Real c%d = %s;" % (i, lit(v)), v, given=True)
        b.cnames.append("c%d" % i)
    if stream == "constexpr" or r.random() < 0.35:
        # a constant defined through another constant (finding C15-F1 when the values are replaced
        # without resolving the expressions first)
        b.declare("cc0", "constant Real cc0 = 2*c0 + 1;", 2 * b.sol["c0"] + 1, given=True)
        b.cnames.append("cc0")
    for i in range(r.randint(1, 2) if stream == "allalias" else r.randint(0, 2)):
        v = b.small()
        b.declare("u%d" % i, "input Real u%d;" % i, v, given=True)
        b.unames.append("u%d" % i)
    # ---- states --------------------------------------------------------------------------------
    nst = r.choice([0, 0, 1, 1, 2])
    if stream == "eliminit":
        nst = r.choice([1, 2])
    if stream == "allalias":
        nst = 0                       # every equation is an alias equation: all of them are eliminated
    if stream == "affineconst":
        nst = 0                       # no initial equations: the affine collapse of the dae equations is what is looked at
    if stream == "affineinit":
        nst = r.choice([1, 2])
    for i in range(nst):
        v = b.small()
        x = "x%d" % i
        b.declare(x, "Real %s%s;" % (x, b.attrs()), v, given=True)
        b.states.append(x)
    # ---- algebraic unknowns --------------------------------------------------------------------
    n = size if size is not None else r.randint(3, 7)
    kinds_first = ["const", "paramexpr", "affine"]
    kinds_all = ["const", "const", "alias", "alias", "negalias", "negalias", "affine", "affine", "paramexpr",
                 "scaled", "pscaled", "pscaled", "rscaled", "block", "elim", "elim", "elimchain", "aliaschain", "aliaschain", "zero", "negform", "paramalias", "inputalias"]
    if stream == "nonlinear":
        kinds_all = kinds_all + ["nonlin", "nonlin", "nonlin", "ifelim", "ifelim", "unaryfun", "unaryfun", "unaryfun", "unaryfun"]
    if stream in ("contradiction", "iter"):
        kinds_all = [k for k in kinds_all if k not in ("elim", "elimchain")]
    if stream == "unaryfun":
        kinds_all = ["unaryfun"] * 5 + ["const", "affine", "alias", "scaled"]
    if stream == "eliminit":
        kinds_first = ["const", "inputalias"]
        kinds_all = ["elimchain", "elimchain", "elim", "elim", "const", "affine", "inputalias", "alias"]
    if stream == "allalias":
        kinds_first = ["inputalias"]
        kinds_all = ["aliaschain", "aliaschain", "alias", "negalias", "inputalias"]
    if stream == "aliaschain":
        kinds_all = ["aliaschain"] * 5 + ["const", "affine", "alias", "negalias", "pscaled", "pscaled", "pscaled"]
    i = 0
    while i < n:
        pool = b.unknowns + b.states + b.unames
        kind = r.choice(kinds_all if b.unknowns else kinds_first)
        v = "v%d" % i
        if kind == "elim":
            v = "e_v%d" % i
        if kind == "const":
            k = b.small()
            val = k
            eq = r.choice(["%s = %s" % (v, lit(k) if k >= 0 else par(lit(k))),
                           "%s = %s" % (lit(k) if k >= 0 else par(lit(k)), v),
                           "%s - %s = 0" % (v, lit(k) if k >= 0 else par(lit(k))),
                           "%s + %s = 0" % (v, lit(-k) if -k >= 0 else par(lit(-k))),
                           "0 = %s - %s" % (lit(k) if k >= 0 else par(lit(k)), v)])
        elif kind == "zero":
            val = Fraction(0)
            eq = r.choice(["%s = 0" % v, "0 = %s" % v, "2*%s = 0" % v])
        elif kind in ("alias", "negalias"):
            w = b.ref()
            if w is None:
                continue
            if w in b.indep or w in b.unames:
                b.indep.append(v)
            if kind == "alias":
                val = b.sol[w]
                eq = r.choice(["%s = %s" % (v, w), "%s = %s" % (w, v), "%s - %s = 0" % (v, w), "0 = %s - %s" % (w, v)])
            else:
                val = -b.sol[w]
                eq = r.choice(["%s = -%s" % (v, w), "%s + %s = 0" % (v, w), "-%s = %s" % (w, v), "%s = -%s" % (w, v),
                               "0 = %s + %s" % (w, v)])
        elif kind == "paramalias":
            w = r.choice(b.pnames + b.cnames)
            val = b.sol[w]
            eq = r.choice(["%s = %s" % (v, w), "%s = %s" % (w, v)])
        elif kind == "inputalias":
            if not b.unames:
                continue
            w = r.choice(b.unames)
            s = r.choice([1, -1])
            val = s * b.sol[w]
            eq = "%s = %s%s" % (v, "-" if s < 0 else "", w)
        elif kind == "affine":
            rhs, val = _affine_rhs(b)
            eq = r.choice(["%s = %s" % (v, rhs), "%s = %s" % (rhs, v)])
        elif kind == "paramexpr":
            if not b.pnames:
                continue
            p = r.choice(b.pnames)
            c = r.choice(b.cnames)
            val = 2 * b.sol[p] + b.sol[c]
            eq = r.choice(["%s = 2*%s + %s" % (v, p, c), "%s - %s = 2*%s" % (v, c, p)])
        elif kind == "scaled":
            w = b.ref()
            if w is None:
                continue
            k = b.small(lo=-2, hi=2)
            val = b.sol[w] + k
            inner = "%s - %s - %s" % (v, w, lit(k) if k >= 0 else par(lit(k)))
            eq = r.choice(["%s*(%s) = 0" % (r.choice(["2", "(-3)", "4"]), inner), "(%s)/%s = 0" % (inner, r.choice(["2", "4"])),
                           "-(%s) = 0" % inner, "(%s)*%s = 0" % (inner, r.choice(["2", "(-2)"]))])
        elif kind == "pscaled":
            w = b.ref()
            if w is None:
                continue
            if not [q for q in b.pnames if b.sol[q] != 0]:
                continue
            p = r.choice([q for q in b.pnames if b.sol[q] != 0])     # a zero factor would make the system singular
            s = r.choice([1, -1])
            val = s * b.sol[w]
            sg = "-" if s > 0 else "+"
            eq = r.choice(["%s*(%s %s %s) = 0" % (p, v, sg, w), "%s*(%s %s %s) = 0" % (p, w, sg, v),
                           "%s*%s %s %s*%s = 0" % (v, p, sg, w, p), "(%s %s %s)*%s = 0" % (v, sg, w, p),
                           "%s*(%s %s %s) = 0" % (r.choice(["2", "3", "(-2)"]), v, sg, w)])
        elif kind == "negform":
            w = b.ref()
            if w is None:
                continue
            val = -b.sol[w] + 1
            eq = r.choice(["-%s = %s - 1" % (v, w), "1 - %s = %s" % (v, w)])
        elif kind == "elim":
            ipool = b.indep + b.unames
            if ipool and r.random() < 0.5:
                rhs, val = _affine_rhs(b, maxterms=2, use_params=r.random() < 0.5, pool=ipool)
                b.indep.append(v)       # state independent: may appear in an initial equation
            else:
                rhs, val = _affine_rhs(b, maxterms=2, use_params=r.random() < 0.5)
            form = r.choice(["l", "r", "add-l", "add-r", "add-r", "add-num"])
            if stream == "eliminit" and r.random() < 0.6:
                form = r.choice(["add-r", "add-num"])
            if form == "add-num":       # `e + 3 = 0` (CasADi keeps it as 3 + e): the eliminable variable is the last operand
                k = b.small(nz=True)
                eq, val = "%s + %s = 0" % (v, lit(k) if k >= 0 else par(lit(k))), -k
                if v not in b.indep:
                    b.indep.append(v)
            elif form == "l":
                eq = "%s = %s" % (v, rhs)
            elif form == "r":
                eq = "%s = %s" % (rhs, v)
            elif form == "add-l":       # top-level sum: e + (…) = 0, so e = -(…)
                eq, val = "%s + (%s) = 0" % (v, rhs), -val
            else:
                eq, val = "(%s) + %s = 0" % (rhs, v), -val
        elif kind == "rscaled":
            # a product whose unknown-carrying factor is the LEFT operand and whose right factor is a non-constant,
            # non-zero expression (unreplaced parameter / always positive): only a constant factor may be dropped
            w = b.ref()
            if w is None:
                continue
            k = b.small(lo=-2, hi=2)
            val = b.sol[w] + k
            inner = "%s - %s - %s" % (v, w, lit(k) if k >= 0 else par(lit(k)))
            if not [q for q in b.pnames if b.sol[q] != 0]:
                continue
            pz = r.choice([q for q in b.pnames if b.sol[q] != 0])
            eq = r.choice(["(%s) * %s = 0" % (inner, pz), "(%s) * (2 + %s*%s) = 0" % (inner, pz, pz),
                           "(%s) * (%s + %s) = 0" % (inner, pz, lit(abs(b.sol[pz]) + 1))])
        elif kind == "elimchain":
            # eliminable variables defined through each other, 3-5 deep: e_a = f(e_b), e_b = g(e_c), e_c = h(x);
            # the head is used by an ordinary equation (the substitution fixpoint must run to the end)
            depth = r.randint(2, 4) if stream == "eliminit" else r.randint(3, 5)
            if i + depth + 1 > n + 3:
                depth = min(depth, 3)
            ipool = b.indep + b.unames
            chain_indep = bool(ipool) and (r.random() < 0.6 or stream == "eliminit")
            base = r.choice(ipool) if chain_indep else b.ref()
            if base is None:
                continue
            chain = ["e_v%d" % (i + j) for j in range(depth)]      # chain[0] is the head
            prev, prev_val = base, b.sol[base]
            ceqs, cvals = [], {}
            for nm in reversed(chain):
                a, k = b.small(nz=True, lo=-2, hi=2), b.small(lo=-2, hi=2)
                cvals[nm] = a * prev_val + k
                rhs = "%s*%s + %s" % (lit(a) if a > 0 else par(lit(a)), prev, lit(k) if k >= 0 else par(lit(k)))
                ceqs.append(r.choice(["%s = %s" % (nm, rhs), "%s = %s" % (rhs, nm), "%s + (%s) = 0" % (nm, "(-1)*(" + rhs + ")"),
                                      "(%s) + %s = 0" % ("(-1)*(" + rhs + ")", nm)]))
                prev, prev_val = nm, cvals[nm]
            user = "v%d" % (i + depth)
            k = b.small(lo=-2, hi=2)
            for nm in chain:
                b.declare(nm, "Real %s;" % nm, cvals[nm])
            b.declare(user, "Real %s%s;" % (user, b.attrs()), 2 * cvals[chain[0]] + k)
            b.unknowns.extend(chain + [user])
            if chain_indep:
                b.indep.extend(chain + [user])
                b.chain_outer.extend(chain[:-1])
            b.eqs.extend(ceqs + ["%s = 2*%s + %s" % (user, chain[0], lit(k) if k >= 0 else par(lit(k)))])
            b.kinds.append("elimchain%d" % depth)
            i += depth + 1
            continue
        elif kind == "aliaschain":
            # a tree of 3-6 alias equations over one protected variable (parameter / input / constant / state) and
            # algebraic variables: alg-alg links and links to the protected variable, both operand orders, both signs
            roots = b.unames if stream == "allalias" else b.pnames + b.cnames + b.unames + b.states
            root = r.choice(roots)
            depth = r.randint(3, 6)
            members, ceqs = [], []
            planted = r.random() < 0.5

            def link(a_, b_, sg_, a_first):
                if sg_ > 0:
                    return r.choice(["%s = %s", "%s - %s = 0"]) % ((a_, b_) if a_first else (b_, a_))
                return r.choice(["%s = -%s", "%s + %s = 0"]) % ((a_, b_) if a_first else (b_, a_))
            if planted:
                # in this order: an alg-alg link, a link to the protected variable, then the equation joining the
                # two classes written with the member of the alg-only class first
                m0, m1, m2 = ["v%d" % (i + j) for j in range(3)]
                s1, s2, s3 = r.choice([1, -1]), r.choice([1, -1]), r.choice([1, -1])
                mx, my = (m0, m1) if r.random() < 0.5 else (m1, m0)
                vals = {m2: s2 * b.sol[root]}
                vals[mx] = s3 * vals[m2]
                vals[my] = s1 * vals[mx]
                for nm in (m0, m1, m2):
                    b.declare(nm, "Real %s%s;" % (nm, b.attrs()), vals[nm])
                b.head_eqs += [link(m0, m1, s1, r.random() < 0.5), link(m2, root, s2, r.random() < 0.5), link(mx, m2, s3, True)]
                members = [m0, m1, m2]
            for j in range(len(members), depth):
                nm = "v%d" % (i + j)
                # the protected variable is linked late in about half of the chains (alg-alg links come first)
                cands = members + ([root] if (j == 0 or r.random() < 0.5 or j == depth - 1 and root not in [t for _, t in ceqs]) else [])
                tgt = r.choice(cands) if cands else root
                sg = r.choice([1, 1, -1])
                b.declare(nm, "Real %s%s;" % (nm, b.attrs()), sg * b.sol[tgt])
                if sg > 0:
                    e = r.choice(["%s = %s" % (nm, tgt), "%s = %s" % (tgt, nm), "%s - %s = 0" % (nm, tgt), "%s - %s = 0" % (tgt, nm)])
                else:
                    e = r.choice(["%s = -%s" % (nm, tgt), "%s = -%s" % (tgt, nm), "%s + %s = 0" % (nm, tgt), "%s + %s = 0" % (tgt, nm)])
                ceqs.append((e, tgt))
                members.append(nm)
            b.unknowns.extend(members)
            if root in b.unames or root in b.pnames or root in b.cnames:
                b.indep.extend(members)
            b.eqs.extend(e for e, _ in ceqs)
            b.kinds.append("aliaschain%d" % depth)
            i += depth
            continue
        elif kind == "unaryfun":
            # the residual is, at top level, an elementary function of an affine expression (possibly under a sign or a
            # constant factor): f(v - w - k) = 0 has the unique solution v - w - k = f^-1(0), exact in floating point
            # (log 1 = 0, sinh 0 = tanh 0 = arctan 0 = 0); only functions that vanish exactly at 0 may be dropped
            w = b.ref()
            if w is None:
                continue
            b.affine = False
            k = b.small(lo=-2, hi=2)
            fn = r.choice(["log", "log", "log", "sinh", "tanh", "arctan"])
            zero_at = 1 if fn == "log" else 0
            val = b.sol[w] + k + zero_at
            inner = "%s(%s - %s - %s)" % (fn, v, w, lit(k) if k >= 0 else par(lit(k)))
            eq = r.choice(["%s = 0" % inner, "0 = %s" % inner, "3*%s = 0" % inner, "-%s = 0" % inner,
                           "%s/4 = 0" % inner, "(-5)*%s = 0" % inner])
        elif kind == "ifelim":
            # an if-equation defining an eliminable variable; after the SX round trip it is the sum of two
            # if_else_zero terms `extract_assignment` looks through (condition on an input only)
            w = b.ref(b.unknowns + b.states)
            if w is None or not b.unames:
                continue
            u = r.choice(b.unames)
            k1, k2 = b.small(lo=-3, hi=3), b.small(lo=-3, hi=3)
            thr = b.small(lo=-2, hi=2)
            v = "e_v%d" % i
            val = b.sol[w] + (k1 if b.sol[u] > thr else k2)
            eq = "if %s > %s then %s = %s + %s; else %s = %s + %s; end if" % (
                u, lit(thr) if thr >= 0 else par(lit(thr)), v, w, lit(k1) if k1 >= 0 else par(lit(k1)),
                v, w, lit(k2) if k2 >= 0 else par(lit(k2)))
            b.affine = False
        elif kind == "nonlin":
            w = b.ref()
            if w is None:
                continue
            b.affine = False
            k = b.small(lo=-2, hi=2)
            form = r.choice(["sq", "cube", "prod"])
            if form == "sq":
                val = b.sol[w] * b.sol[w] + k
                eq = "%s = %s*%s + %s" % (v, w, w, lit(k) if k >= 0 else par(lit(k)))
            elif form == "cube":
                val = b.sol[w] ** 3 - k
                eq = "%s + %s = %s*%s*%s" % (v, lit(k) if k >= 0 else par(lit(k)), w, w, w)
            else:
                w2 = b.ref()
                val = b.sol[w] * b.sol[w2] + k
                eq = "%s - %s*%s = %s" % (v, w, w2, lit(k) if k >= 0 else par(lit(k)))
        elif kind == "block":
            m = r.choice([2, 2, 3])
            if i + m > n + 1:
                continue
            names = ["v%d" % (i + j) for j in range(m)]
            while True:
                A = [[Fraction(r.randint(-3, 3)) for _ in range(m)] for _ in range(m)]
                vals = [b.small() for _ in range(m)]
                # rows never have the shape of an alias equation (a*v - a*w = 0): alias *cycles* belong to
                # the separate stream of finding C14-F1
                aliasish = any(sum(1 for a in row if a) == 2 and len({abs(a) for a in row if a}) == 1
                               and sum(a * x for a, x in zip(row, vals)) == 0 for row in A)
                if _det(A) != 0 and all(sum(1 for a in row if a) >= 2 for row in A) and not aliasish:
                    break
            w = b.ref()
            beqs = []
            for row in A:
                lhs = " + ".join("%s*%s" % (lit(a) if a > 0 else par(lit(a)), nm) for a, nm in zip(row, names) if a)
                rhsv = sum(a * x for a, x in zip(row, vals))
                if w is not None and r.random() < 0.5:
                    g = b.small(nz=True, lo=-2, hi=2)
                    lhs += " + %s*%s" % (lit(g) if g > 0 else par(lit(g)), w)
                    rhsv += g * b.sol[w]
                beqs.append("%s = %s" % (lhs, lit(rhsv) if rhsv >= 0 else par(lit(rhsv))))
            for nm, x in zip(names, vals):
                b.declare(nm, "Real %s%s;" % (nm, b.attrs()), x)
            b.unknowns.extend(names)
            b.eqs.extend(beqs)
            b.kinds.append("block%d" % m)
            i += m
            continue
        else:
            raise HarnessError("unknown kind " + kind)
        b.declare(v, "Real %s%s;" % (v, b.attrs()), val)
        b.unknowns.append(v)
        if kind in ("const", "zero", "paramexpr", "paramalias", "inputalias"):
            b.indep.append(v)
        b.eqs.append(eq)
        b.kinds.append(kind)
        i += 1
    # ---- differential equations: one per state, defining der(x) -------------------------------
    for x in b.states:
        rhs, val = _affine_rhs(b, maxterms=2)
        form = r.choice(["plain", "plain", "alias", "scaled", "chain2"])
        if form == "chain2":
            # the differential equation written through two algebraic aliases of two protected variables:
            # a ~ x, b ~ der(x), a ~ b (in this order); the last equation links two protected classes and must stay
            na, nb = "da_%s" % x, "db_%s" % x
            s1, s2, s3 = r.choice([1, -1]), r.choice([1, -1]), r.choice([1, -1])
            va = s1 * b.sol[x]
            vb = s3 * va
            val = s2 * vb

            def lk(a_, b_, sg_):
                a_first = r.random() < 0.5
                if sg_ > 0:
                    return r.choice(["%s = %s", "%s - %s = 0"]) % ((a_, b_) if a_first else (b_, a_))
                return r.choice(["%s = -%s", "%s + %s = 0"]) % ((a_, b_) if a_first else (b_, a_))
            b.declare(na, "Real %s;" % na, va)
            b.declare(nb, "Real %s;" % nb, vb)
            b.unknowns += [na, nb]
            b.head_eqs += [lk(na, x, s1), lk(nb, "der(%s)" % x, s2), lk(na, nb, s3)]
        elif form == "alias" and b.unknowns:
            w = r.choice(b.unknowns)
            val = b.sol[w]
            b.eqs.append(r.choice(["der(%s) = %s" % (x, w), "%s = der(%s)" % (w, x)]))
        elif form == "scaled":
            b.eqs.append("2*der(%s) = %s" % (x, rhs))
            val = val / 2
        else:
            b.eqs.append("der(%s) = %s" % (x, rhs))
        b.sol["der(%s)" % x] = val
        b.kinds.append("der-" + form)
        if r.random() < 0.6 or stream in ("affineinit", "eliminit"):
            xv = b.sol[x]
            exprs = [q for q in b.pnames + b.cnames if q.startswith(("q", "cc"))]
            pc = r.choice(exprs) if exprs and r.random() < 0.6 else r.choice(b.pnames + b.cnames)
            rest = xv - b.sol[pc]
            forms = ["%s = %s" % (x, lit(xv) if xv >= 0 else par(lit(xv))),
                     "%s - %s = 0" % (x, lit(xv) if xv >= 0 else par(lit(xv))),
                     # initial equations that mention a parameter / constant (they are substituted by the passes too)
                     "%s = %s + %s" % (x, pc, lit(rest) if rest >= 0 else par(lit(rest))),
                     "%s - %s = %s" % (x, pc, lit(rest) if rest >= 0 else par(lit(rest)))]
            picked = None
            if b.indep:
                # only unknowns that do not depend on a state: `x0 = w + d` with w = f(x0) would be the vacuous 0 = 0
                evs = [n_ for n_ in b.indep if n_.startswith("e_v")]
                if b.chain_outer and r.random() < 0.7:
                    evs = list(b.chain_outer)     # its resolved value needs the whole fixpoint
                w = r.choice(evs) if evs and (r.random() < 0.6 or stream == "eliminit") else r.choice(b.indep)
                d = xv - b.sol[w]
                forms.append("%s = %s + %s" % (x, w, lit(d) if d >= 0 else par(lit(d))))
                if r.random() < 0.4 or (stream == "eliminit" and w.startswith("e_v")):
                    picked = forms[-1]
            b.inits.append(picked or (r.choice(forms[2:4]) if r.random() < 0.45 else r.choice(forms)))
    if stream == "delay":
        # a delayed expression over variables that the passes eliminate (aliases, constant assignments, eliminable
        # variables), a constant and a parameter (former finding C15-F4): every substituting pass must rewrite it
        pool = list(b.unknowns)
        r.shuffle(pool)
        picks = pool[:3] if pool else [b.pnames[0]]
        p = r.choice(b.pnames)
        c = r.choice(b.cnames)
        terms = ["%s*%s" % (p, picks[0])]
        if len(picks) > 1:
            terms.append("%s*%s" % (c, picks[1]))
        if len(picks) > 2:
            terms.append(picks[2])
        b.declare("dly", "Real dly;", 0)
        b.unknowns.append("dly")
        b.eqs.append("dly = delay(%s, 1.0)" % " + ".join(terms))
        b.sol["_pymoca_delay_0"] = Fraction(0)
        b.given.append("_pymoca_delay_0")
        b.kinds.append("delay")
    if stream == "contradiction":
        # x = y together with x = -y (through a chain): the only solution is zero
        a, c = "k0", "k1"
        b.declare(a, "Real %s;" % a, 0)
        b.declare(c, "Real %s;" % c, 0)
        b.unknowns += [a, c]
        if r.random() < 0.5:
            b.eqs += [r.choice(["%s = %s" % (a, c), "%s - %s = 0" % (c, a)]),
                      r.choice(["%s = -%s" % (a, c), "%s + %s = 0" % (a, c)])]
        else:
            d = "k2"
            b.declare(d, "Real %s;" % d, 0)
            b.unknowns.append(d)
            b.eqs += ["%s = %s" % (a, c), "%s = %s" % (c, d), r.choice(["%s = -%s" % (d, a), "%s + %s = 0" % (a, d)])]
        b.kinds.append("contradiction")
    if stream == "allalias":
        # consistent initial equations on aliases that the detection eliminates (no state: every DAE equation is an alias
        # equation and is removed; the initial equations must still be rewritten)
        for w in r.sample(b.unknowns, min(len(b.unknowns), r.randint(1, 2))):
            k = b.small(lo=-2, hi=2)
            b.inits.append(r.choice(["%s = %s" % (w, lit(b.sol[w]) if b.sol[w] >= 0 else par(lit(b.sol[w]))),
                                     "2*%s + %s = %s" % (w, lit(k) if k >= 0 else par(lit(k)),
                                                         lit(2 * b.sol[w] + k) if 2 * b.sol[w] + k >= 0 else par(lit(2 * b.sol[w] + k)))]))
        b.kinds.append("alias-inits")
    if stream == "affineconst":
        # equations that still depend on a constant when the affine form is built
        w = b.ref()
        c = r.choice(b.cnames)
        wv = b.sol[w] if w else Fraction(0)
        b.declare("kk", "Real kk;", 2 * b.sol[c] + wv)
        b.unknowns.append("kk")
        b.eqs.append("kk = 2*%s + %s" % (c, w) if w else "kk = 2*%s" % c)
        b.kinds.append("affine")
    if stream == "iterparam":
        # an algebraic variable aliased to a parameter *expression* (finding C15-F8 under iteration)
        if "q0" not in b.sol:
            b.declare("q0", "parameter Real q0 = 2*p0 + 1;", 2 * b.sol["p0"] + 1, given=True)
            b.pnames.append("q0")
        b.declare("kq", "Real kq;", b.sol["q0"])
        b.unknowns.append("kq")
        b.eqs.append(r.choice(["kq = q0", "q0 = kq"]))
        b.kinds.append("paramalias")
    if stream == "iteraffine":
        b.declare("kc", "Real kc;", 3)
        b.unknowns.append("kc")
        b.eqs.append("kc = 3")
        b.kinds.append("const")
    if stream == "timealias":
        b.declare("tt", "Real tt;", 0)
        b.unknowns.append("tt")
        b.eqs.append(r.choice(["tt = time", "time = tt"]))
        b.kinds.append("timealias")
    if stream == "iter":
        # an alias that only becomes visible to the second pass: a0 = b0 first, then (a0-b0)+(b0 (+|-) w) = 0
        w = b.ref() or b.pnames[0]
        s = r.choice([1, -1])
        wv = b.sol[w]
        b.declare("ia", "Real ia;", -s * wv)
        b.declare("ib", "Real ib;", -s * wv)
        b.unknowns += ["ia", "ib"]
        b.eqs += ["ia = ib", "(ia - ib) + (ib %s %s) = 0" % ("+" if s > 0 else "-", w)]
        b.kinds.append("iter-neg" if s > 0 else "iter-pos")
    case = {"stream": stream, "text": b.text(), "sol": {k: fstr(v) for k, v in sorted(b.sol.items())},
            "given": sorted(b.given), "affine": b.affine,
            "meta": {"kinds": b.kinds, "n_unknowns": len(b.unknowns), "n_states": len(b.states)}}
    return case


def _det(A):
    n = len(A)
    A = [row[:] for row in A]
    d = Fraction(1)
    for c in range(n):
        p = next((i for i in range(c, n) if A[i][c] != 0), None)
        if p is None:
            return Fraction(0)
        if p != c:
            A[c], A[p] = A[p], A[c]
            d = -d
        d *= A[c][c]
        for i in range(c + 1, n):
            f = A[i][c] / A[c][c]
            for j in range(c, n):
                A[i][j] -= f * A[c][j]
    return d


def rank(rows):
    A = [[Fraction(x) for x in row] for row in rows]
    if not A:
        return 0
    n, m = len(A), len(A[0])
    rk, c = 0, 0
    while rk < n and c < m:
        p = next((i for i in range(rk, n) if A[i][c] != 0), None)
        if p is None:
            c += 1
            continue
        A[rk], A[p] = A[p], A[rk]
        for i in range(rk + 1, n):
            f = A[i][c] / A[rk][c]
            if f:
                for j in range(c, m):
                    A[i][j] -= f * A[rk][j]
        rk += 1
        c += 1
    return rk


FINDING_STREAMS = ["contradiction", "iter", "constexpr", "delay", "timealias", "affineinit", "iteraffine", "iterparam"]


def gen_options(rng, case):
    """Option set for a case.  The main streams stay outside the regions of the open findings
    (each of those has its own stream, where exactly the triggering options are forced)."""
    stream = case["stream"]
    o = {f: rng.random() < 0.5 for f in BOOL_FLAGS}
    has_elim = "e_v" in case["text"]
    has_if = " if " in case["text"]
    has_init = "initial equation" in case["text"]
    if rng.random() < (0.6 if has_elim else 0.15):
        o["eliminable_variable_expression"] = ELIM_RE
        if rng.random() < 0.97:
            o["expand_mx"] = True          # required by the pass (otherwise it raises by design)
        if has_if and rng.random() < 0.7:
            o["expand_vectors"] = True     # the SX round trip that turns if-equations into if_else_zero sums
    if rng.random() < 0.25:
        o["allow_derivative_aliases"] = False
    iterative = rng.random() < 0.15
    if stream in ("main", "nonlinear"):
        if iterative:
            o["iterative_simplification"] = True
        elif case["affine"] and not has_init and rng.random() < 0.35:
            o["reduce_affine_expression"] = True
    elif stream == "iter":
        o["iterative_simplification"] = True
        o["detect_aliases"] = True
        o["expand_vectors"] = False if not o["expand_mx"] else o["expand_vectors"]
    elif stream in ("contradiction", "timealias"):
        o["detect_aliases"] = True
    elif stream == "unaryfun":
        o["factor_and_simplify_equations"] = True
        o.pop("reduce_affine_expression", None)
    elif stream == "eliminit":
        o["eliminable_variable_expression"] = ELIM_RE
        o["expand_mx"] = True
        o.pop("reduce_affine_expression", None)
    elif stream == "allalias":
        o["detect_aliases"] = True
        o["allow_derivative_aliases"] = True
        o["eliminate_constant_assignments"] = rng.random() < 0.3
        o.pop("eliminable_variable_expression", None)
        o.pop("reduce_affine_expression", None)
        o.pop("iterative_simplification", None)
    elif stream == "aliaschain":
        o["detect_aliases"] = True
        for k in ("replace_parameter_values", "replace_constant_values", "replace_parameter_expressions", "replace_constant_expressions"):
            o[k] = rng.random() < 0.25          # mostly keep the protected variables symbolic
        if rng.random() < 0.2:
            o["iterative_simplification"] = True
    elif stream == "constexpr":
        o["replace_constant_values"] = True
        o["replace_constant_expressions"] = rng.random() < 0.3
    elif stream == "delay":
        o["replace_parameter_values"] = rng.random() < 0.7
        for k in ("detect_aliases", "eliminate_constant_assignments", "replace_constant_values"):
            o[k] = rng.random() < 0.75
    elif stream == "affineconst":
        o["reduce_affine_expression"] = True
        o["replace_constant_values"] = False
        o["replace_parameter_values"] = rng.random() < 0.8
        o["replace_parameter_expressions"] = rng.random() < 0.8
        o["expand_vectors"] = False
        o.pop("eliminable_variable_expression", None)
    elif stream == "affineinit":
        o["reduce_affine_expression"] = True
    elif stream == "iterparam":
        o["iterative_simplification"] = True
        o["detect_aliases"] = True
        o["replace_parameter_values"] = True
        o["replace_parameter_expressions"] = False
        o["resolve_parameter_values"] = False
    elif stream == "iteraffine":
        o["reduce_affine_expression"] = True
        o["iterative_simplification"] = True
        o["eliminate_constant_assignments"] = True
    return o


# =========================================================================================
# the real code
# =========================================================================================
_OPN = None


def opnames():
    global _OPN
    if _OPN is None:
        import casadi as ca
        _OPN = {getattr(ca, k): k for k in dir(ca) if k.startswith("OP_")}
    return _OPN


def ser_mx(e):
    """Canonical tree of a scalar MX/SX expression: what the passes can inspect."""
    if e.numel() != 1:
        return ["nonscalar", list(e.shape)]
    if e.is_symbolic():
        return ["sym", e.name()]
    if e.is_constant():
        x = float(e)
        if math.isnan(x):
            return ["const", "nan"]
        if math.isinf(x):
            return ["const", "inf" if x > 0 else "-inf"]
        return ["const", fstr(Fraction(x))]
    n = e.n_dep()
    return [opnames().get(e.op(), "OP_%d" % e.op())] + [ser_mx(e.dep(i)) for i in range(n)]


def tree_ok(t):
    if t[0] in ("sym",):
        return True
    if t[0] == "const":
        return t[1] not in ("nan", "inf", "-inf")
    if t[0] == "nonscalar":
        return False
    return all(tree_ok(c) for c in t[1:])


def tree_syms(t, acc=None):
    acc = [] if acc is None else acc
    if t[0] == "sym":
        if t[1] not in acc:
            acc.append(t[1])
    elif t[0] not in ("const", "nonscalar"):
        for c in t[1:]:
            tree_syms(c, acc)
    return acc


class EvalError(Exception):
    pass


def tree_eval(t, env):
    """Exact evaluation of a serialised tree over Fractions (independent of CasADi)."""
    k = t[0]
    if k == "sym":
        if t[1] not in env:
            raise EvalError("free " + t[1])
        return env[t[1]]
    if k == "const":
        if t[1] in ("nan", "inf", "-inf"):
            raise EvalError("non-finite constant")
        return Fraction(t[1])
    a = [tree_eval(c, env) for c in t[1:]]
    if k == "OP_ADD":
        return a[0] + a[1]
    if k == "OP_SUB":
        return a[0] - a[1]
    if k == "OP_MUL":
        return a[0] * a[1]
    if k == "OP_DIV":
        if a[1] == 0:
            raise EvalError("division by zero")
        return a[0] / a[1]
    if k == "OP_NEG":
        return -a[0]
    if k == "OP_TWICE":
        return 2 * a[0]
    if k == "OP_SQ":
        return a[0] * a[0]
    if k == "OP_INV":
        if a[0] == 0:
            raise EvalError("division by zero")
        return 1 / a[0]
    if k == "OP_IF_ELSE_ZERO":
        return a[1] if a[0] != 0 else Fraction(0)
    if k == "OP_FABS":
        return abs(a[0])
    if k in ("OP_LT", "OP_LE", "OP_EQ", "OP_NE"):
        return Fraction(int({"OP_LT": a[0] < a[1], "OP_LE": a[0] <= a[1], "OP_EQ": a[0] == a[1], "OP_NE": a[0] != a[1]}[k]))
    if k == "OP_NOT":
        return Fraction(int(a[0] == 0))
    raise EvalError("operator " + k)


class LogCapture:
    def __enter__(self):
        self.h = logging.StreamHandler(io.StringIO())
        self.h.setLevel(logging.WARNING)
        self.lg = logging.getLogger("pymoca")
        self.old = self.lg.level
        self.lg.addHandler(self.h)
        self.prop = self.lg.propagate
        self.lg.propagate = False
        if self.lg.getEffectiveLevel() > logging.WARNING:
            self.lg.setLevel(logging.WARNING)
        self.w = warnings.catch_warnings(record=True)
        self.wl = self.w.__enter__()
        warnings.simplefilter("always")
        return self

    def __exit__(self, *a):
        self.w.__exit__(*a)
        self.lg.removeHandler(self.h)
        self.lg.setLevel(self.old)
        self.lg.propagate = self.prop
        return False

    def lines(self):
        out = [l for l in self.h.stream.getvalue().splitlines() if l.strip()]
        out += ["%s: %s" % (w.category.__name__, w.message) for w in self.wl
                if "pymoca" in (w.filename or "")]
        return out


_TREES = {}


def parse_text(text):
    from pymoca import parser
    if text not in _TREES:
        if len(_TREES) > 64:
            _TREES.clear()
        _TREES[text] = parser.parse(text, bypass_cache=True)
    return _TREES[text]


def fresh_model(text, options=None):
    """parse (memoised) + generate: the unsimplified casadi Model."""
    from pymoca.backends.casadi import generator as gen
    import copy
    tree = parse_text(text)
    return gen.generate(copy.deepcopy(tree), "M", dict(options or {}))


def categories(m):
    return {
        "states": [v.symbol.name() for v in m.states],
        "ders": [v.symbol.name() for v in m.der_states],
        "algs": [v.symbol.name() for v in m.alg_states],
        "inputs": [v.symbol.name() for v in m.inputs],
        "params": [v.symbol.name() for v in m.parameters],
        "consts": [v.symbol.name() for v in m.constants],
    }


def numel(vs):
    return sum(v.symbol.size1() * v.symbol.size2() for v in vs)


def eval_mx(expr, env):
    """Value of an MX expression (or python number) at `env` (name -> Fraction); exact for the
    dyadic inputs the generator uses.  Raises EvalError when a symbol has no value."""
    import casadi as ca
    e = ca.MX(expr)
    syms = ca.symvar(e)
    args = []
    for s in syms:
        if s.name() not in env:
            raise EvalError("free " + s.name())
        args.append(float(env[s.name()]))
    f = ca.Function("ev", syms, [e])
    out = f.call(args)[0]
    vals = [float(x) for x in out.full().ravel()]
    return [Fraction(x) if math.isfinite(x) else x for x in vals]


def lookup_val(env, nm):
    """value of a symbol; a scalar that vector expansion renamed `x[1,1]` / `x[1]` has the value of `x`"""
    if nm in env:
        return env[nm]
    base = re.sub(r"(\[1(,1)*\])+$", "", nm)
    if base != nm and base in env:
        return env[base]
    raise EvalError("no value for " + nm)


def call_residual(f, m, env, kind="dae", override=None):
    """Evaluate a residual function of `m` at `env`; returns list of Fractions (or floats when not finite)."""
    import numpy as np
    ov = override or {}

    def vec(vs):
        out = []
        for v in vs:
            nm = v.symbol.name()
            if v.symbol.numel() != 1:
                raise EvalError("non-scalar symbol " + nm)
            if nm in ov:
                out.append(float(ov[nm]))
            else:
                out.append(float(lookup_val(env, nm)))
        return out
    args = [float(env.get("time", 0)), vec(m.states), vec(m.der_states), vec(m.alg_states), vec(m.inputs),
            vec(m.constants), vec(m.parameters)]
    out = f.call(args)
    if not out:
        return []
    vals = []
    for o in out:
        vals.extend(float(x) for x in np.array(o.full()).ravel(order="F"))
    return [Fraction(x) if math.isfinite(x) else x for x in vals]


FUNCS = ["dae_residual_function", "initial_residual_function", "variable_metadata_function", "delay_arguments_function"]


def build_functions(m):
    """Which of the four functions can be built; name -> None | error text."""
    res = {}
    fs = {}
    for fn in FUNCS:
        try:
            fs[fn] = getattr(m, fn)
            res[fn] = None
        except Exception as e:  # noqa: BLE001
            msg = str(e)
            mm = re.search(r"free variables? \[?([^\]\n]*)\]?", msg)
            res[fn] = (type(e).__name__ + ": " + (("free variables " + mm.group(1)) if mm else msg.strip().splitlines()[-1][:160]))
    return res, fs


def known_symbols(m):
    names = {"time"}
    for vs in (m.states, m.der_states, m.alg_states, m.inputs, m.constants, m.parameters):
        names.update(v.symbol.name() for v in vs)
    return names


def dangling(m):
    """Symbols mentioned by remaining equations / initial equations / delay arguments that are in
    no variable list (the statement 'no remaining expression refers to an eliminated variable')."""
    import casadi as ca
    names = known_symbols(m)
    if hasattr(m, "_states_vector"):
        names.update(["states_vector", "der_states_vector", "alg_states_vector", "inputs_vector"])
    out = {}
    groups = {"equations": list(m.equations), "initial_equations": list(m.initial_equations),
              "delay_arguments": [ca.MX(x) for d in m.delay_arguments for x in (d.expr, d.duration)]}
    for g, exprs in groups.items():
        bad = set()
        for e in exprs:
            for s in ca.symvar(ca.MX(e)):
                if s.name() not in names:
                    bad.add(s.name())
        if bad:
            out[g] = sorted(bad)
    return out


class Run:
    """Outcome of parse+generate+simplify on the real code for one (text, options)."""
    pass


def run_real(text, options, keep_model=True):
    r = Run()
    r.options = dict(options)
    r.exc = None
    r.exc_by_design = False
    r.log = []
    r.model = None
    try:
        m = fresh_model(text, options)
    except Exception as e:  # noqa: BLE001
        r.exc = "generate:%s: %s" % (type(e).__name__, str(e)[:200])
        return r
    r.cat0 = categories(m)
    r.n_unknown0 = numel(m.states) + numel(m.alg_states)
    r.n_eq0 = sum(e.numel() for e in m.equations)
    r.n_init0 = sum(e.numel() for e in m.initial_equations)
    r.build0, _ = build_functions(m)
    r.has_delay = len(m.delay_arguments) > 0
    r.delay_fn0 = None
    if r.has_delay and r.build0.get("delay_arguments_function") is None:
        try:
            r.delay_fn0 = (m.delay_arguments_function, categories(m))
        except Exception:  # noqa: BLE001
            r.delay_fn0 = None
    with LogCapture() as lc:
        try:
            m.simplify(dict(options))
        except Exception as e:  # noqa: BLE001
            r.exc = "%s: %s" % (type(e).__name__, str(e)[:200])
            if options.get("eliminable_variable_expression") is not None and not options.get("expand_mx") \
                    and "requires `expand_mx`" in str(e):
                r.exc_by_design = True
    r.log = lc.lines()
    r.failure_reported = any(any(k in l for k in FAILURE_WARNINGS) for l in r.log)
    r.model = m
    r.cat = categories(m)
    r.n_unknown = numel(m.states) + numel(m.alg_states)
    r.n_eq = sum(e.numel() for e in m.equations)
    r.n_init = sum(e.numel() for e in m.initial_equations)
    return r


def alias_pairs(m):
    """[(canonical, [signed alias names sorted])] sorted — what the model records."""
    return sorted((c, sorted(a)) for c, a in m.alias_relation)


# =========================================================================================
# direct oracles
# =========================================================================================
def solution(case):
    return {k: Fraction(v) for k, v in case["sol"].items()}


def jacobian_columns(f, m, env, names, kind):
    """Exact Jacobian columns of an (affine) residual w.r.t. `names` by evaluation differences."""
    base = call_residual(f, m, env, kind)
    cols = []
    for nm in names:
        r1 = call_residual(f, m, env, kind, override={nm: env[nm] + 1})
        r2 = call_residual(f, m, env, kind, override={nm: env[nm] - 1})
        col = [a - b for a, b in zip(r1, base)]
        col2 = [b - a for a, b in zip(r2, base)]
        cols.append((col, col == col2))
    return base, cols


def oracle_c14(case, r):
    """Property C14 on the outcome `r` of the real simplify.  Returns list of (what, expected, observed)."""
    out = []
    if r.exc is not None or r.failure_reported:
        return out                       # an exception / iteration-limit warning reports failure: allowed
    m = r.model
    sol = solution(case)
    # (1) recorded constant values hold in the (unique) original solution; the values of the constants and
    #     parameters that remain are expressions of variables that remain (they must be fixed *at their values*)
    still = known_symbols(m)
    import casadi as _ca
    for v in list(m.constants) + list(m.parameters):
        if isinstance(v.value, _ca.MX):
            gone = sorted(s_.name() for s_ in _ca.symvar(v.value) if s_.name() not in still)
            if gone:
                out.append(("the value of %s refers to variables that are no longer in the model: %s"
                            % (v.symbol.name(), ",".join(gone)), "value over remaining variables", str(v.value)))
    for v in m.constants:
        nm = v.symbol.name()
        if nm not in sol:
            continue
        try:
            val = eval_mx(v.value, sol)
        except EvalError as e:
            out.append(("recorded constant %s has a value that cannot be evaluated (%s)" % (nm, e), "closed value", str(v.value)))
            continue
        if len(val) == 1 and isinstance(val[0], float) and math.isnan(val[0]):
            continue                      # no value recorded
        if len(val) != 1 or val[0] != sol[nm]:
            out.append(("recorded constant value is wrong: %s" % nm, fstr(sol[nm]), [str(x) for x in val]))
    # (2) recorded aliases (with sign) hold
    for canon, aliases in alias_pairs(m):
        for a in aliases:
            sgn, nm = (-1, a[1:]) if a[0] == "-" else (1, a)
            if nm in sol and canon in sol and sol[nm] != sgn * sol[canon]:
                out.append(("recorded alias does not hold in the original solution: %s ~ %s" % (canon, a),
                            "%s = %s" % (nm, fstr(sgn * sol[canon])), fstr(sol[nm])))
    # every symbol the simplified equations mention is a variable of the simplified model: a removed parameter or
    # constant that is still referred to is no longer fixed at its value (and an eliminated unknown is unconstrained)
    for g, names_ in sorted(dangling(m).items()):
        out.append(("simplified %s refer to symbols that are not variables of the simplified model (not fixed at any value): %s"
                    % (g, ",".join(names_)), "only variables of the simplified model", names_))
    built, fs = build_functions(m)
    if built["dae_residual_function"] is not None or built["initial_residual_function"] is not None:
        return out                       # C15's statement; C14 cannot evaluate a residual that does not exist
    # (3) the constructed solution zeroes the simplified residuals
    for fn, kind in (("dae_residual_function", "dae"), ("initial_residual_function", "initial")):
        try:
            res = call_residual(fs[fn], m, sol, kind)
        except EvalError as e:
            out.append(("simplified %s residual cannot be evaluated at the solution (%s)" % (kind, e), "value", None))
            continue
        bad = [(i, str(x)) for i, x in enumerate(res) if x != 0]
        if bad:
            out.append(("the original solution does not satisfy the simplified %s residual" % kind, "all zero", bad[:6]))
    # (3b) the delay arguments (expression and duration) have the value they had before simplification
    if getattr(r, "delay_fn0", None) is not None and built.get("delay_arguments_function") is None:
        try:
            f0, cat0 = r.delay_fn0
            def args_for(cat):
                return [float(sol.get("time", 0))] + [[float(lookup_val(sol, n)) for n in cat[g]]
                                                      for g in ("states", "ders", "algs", "inputs", "consts", "params")]
            before = [float(x) for o in f0.call(args_for(cat0)) for x in o.full().ravel()]
            after = [float(x) for o in fs["delay_arguments_function"].call(args_for(r.cat)) for x in o.full().ravel()]
            if before != after:
                out.append(("delay arguments changed their value at the solution", before, after))
        except (KeyError, EvalError):
            pass
    # (4) no other solution: the simplified affine system has full column rank in its unknowns
    if case["affine"] and not out:
        unk = [v.symbol.name() for v in list(m.der_states) + list(m.alg_states)]
        try:
            base, cols = jacobian_columns(fs["dae_residual_function"], m, sol, unk, "dae")
        except EvalError as e:
            out.append(("simplified residual cannot be evaluated near the solution (%s)" % e, "value", None))
            return out
        if not all(ok for _, ok in cols):
            out.append(("simplified residual of an affine model is not affine in the remaining unknowns", "affine", None))
        elif unk:
            rows = [[cols[j][0][i] for j in range(len(unk))] for i in range(len(base))]
            rk = rank(rows) if rows else 0
            if rk < len(unk):
                out.append(("simplified system has more solutions than the original: rank %d < %d remaining unknowns %s"
                            % (rk, len(unk), unk), "unique solution", "rank %d, %d equations" % (rk, len(base))))
    return out


def _short_exc(exc):
    """Exception class plus the part of the message that does not depend on paths or addresses."""
    cls, _, msg = exc.partition(":")
    msg = msg.strip()
    if cls == "KeyError":
        return "KeyError " + msg[:40]
    if cls == "AssertionError":
        return "AssertionError " + msg[:60]
    m = re.search(r"for '(\w+)'", msg)
    return cls + (" in CasADi function '%s'" % m.group(1) if m else "")


def oracle_c15(case, r):
    """Property C15 on the outcome of the real simplify."""
    out = []
    if r.exc is not None:
        if not r.exc_by_design:
            out.append(("simplify raised on a regular system, no simplified functions: " + _short_exc(r.exc),
                        "simplified model", r.exc))
        return out
    m = r.model
    # balance: equations and unknowns leave in pairs
    d0, d1 = r.n_unknown0 - r.n_eq0, r.n_unknown - r.n_eq
    if d0 != d1 and not r.failure_reported:
        out.append(("#unknowns - #equations changed from %d to %d" % (d0, d1),
                    "%d unknowns / %d equations removed in pairs" % (r.n_unknown0, r.n_eq0),
                    "%d unknowns, %d equations left" % (r.n_unknown, r.n_eq)))
    # self-contained: nothing refers to an eliminated variable
    dang = dangling(m)
    if dang:
        for g, names in sorted(dang.items()):
            out.append(("%s refer to eliminated variables: %s" % (g, ",".join(names)), "only remaining variables", names))
    built, _ = build_functions(m)
    for fn in FUNCS:
        if built[fn] is not None and r.build0.get(fn) is None:
            grp = {"dae_residual_function": "equations", "initial_residual_function": "initial_equations",
                   "delay_arguments_function": "delay_arguments"}.get(fn)
            if grp in dang:
                continue                 # already reported with the names
            out.append(("%s cannot be built after simplification" % fn, "function", built[fn]))
    return out


# =========================================================================================
# symptoms (annotations of a failing outcome, used by the known-finding predicates)
# =========================================================================================
def symptoms(case, r):
    out = []
    m = r.model
    if m is None or r.exc is not None:
        return out
    names = set(sum(r.cat0.values(), []))
    rel = m.alias_relation
    for x in sorted(names):
        try:
            if "-" + x in rel.aliases(x):
                out.append("alias relation relates %s to its own negation" % x)
                break
        except Exception:  # noqa: BLE001
            pass
    unknown_now = set(r.cat["algs"]) | set(r.cat["states"])
    try:
        for canon, aliases in alias_pairs(m):
            for a in aliases:
                if a.startswith("-") and a[1:] in unknown_now:
                    out.append("negative alias %s of %s is still listed as an unknown" % (a, canon))
    except Exception:  # noqa: BLE001
        pass
    return out


def nontrivial(r):
    """RULE: the simplification did something — a variable left a list or an equation was removed/rewritten."""
    if r.model is None or r.exc is not None:
        return False
    return r.cat != r.cat0 or r.n_eq != r.n_eq0


# =========================================================================================
# plan of one run
# =========================================================================================
def plan(tier, prop):
    """[(stream, number of models, option sets per model)] — fixed per tier.  The small streams of the
    (former and open) findings come first so that the time budget never cuts them off."""
    q = tier == "quick"
    p = [("contradiction", 3 if q else 40, 2), ("iter", 3 if q else 40, 2), ("delay", 5 if q else 60, 3),
         ("aliaschain", 8 if q else 150, 3), ("affineconst", 5 if q else 60, 2),
         ("allalias", 4 if q else 60, 2), ("eliminit", 5 if q else 60, 2),
         ("unaryfun", 4 if q else 60, 2)]
    if prop == "C15":
        p += [("constexpr", 2 if q else 30, 2), ("timealias", 2 if q else 20, 2),
              ("affineinit", 2 if q else 30, 2), ("iteraffine", 2 if q else 30, 2), ("iterparam", 2 if q else 30, 2)]
    p += [("nonlinear", 7 if q else 300, 2 if q else 4),
          ("main", 36 if q else 1200, 3 if q else 5)]
    return p


def gen_cases(ctx, prop):
    for stream, nm, no in plan(ctx.tier, prop):
        for i in range(nm):
            base = gen_model(ctx.rng, stream)
            for j in range(no):
                case = dict(base)
                case["options"] = gen_options(ctx.rng, base)
                yield case


def count_case(ctx, case, r):
    o = case["options"]
    ctx.count("stream:" + case["stream"])
    for k in sorted(o):
        if o[k]:
            ctx.count("opt:" + k)
    for k in case["meta"]["kinds"]:
        ctx.count("kind:" + k)
    ctx.count("unknowns:%02d" % case["meta"]["n_unknowns"])
    if r.exc is not None:
        ctx.count("outcome:exception" + (":by-design" if r.exc_by_design else ""))
    elif r.failure_reported:
        ctx.count("outcome:failure-warning")
    else:
        ctx.count("outcome:simplified")
        ctx.count("removed-unknowns:%02d" % (r.n_unknown0 - r.n_unknown))
    if r.log:
        ctx.count("logged-warning")


def check_case(ctx, prop, case, drv=None, tie=None):
    """Runs the real simplify on one case, applies the direct oracle of `prop`, then the model tie."""
    r = run_real(case["text"], case["options"])
    if r.exc is not None and r.exc.startswith("generate:"):
        raise HarnessError("generated model rejected by pymoca: %s\n%s" % (r.exc, case["text"]))
    ctx.case(case, nontrivial=nontrivial(r), key=[case["text"], case["options"]])
    count_case(ctx, case, r)
    viol = oracle_c14(case, r) if prop == "C14" else oracle_c15(case, r)
    if viol and case.get("affine") and case["stream"] != "contradiction":
        # the generator's own claim first: the *unsimplified* model must have the constructed solution as its only one
        m0 = fresh_model(case["text"], case["options"])
        sol = solution(case)
        unk = [v.symbol.name() for v in list(m0.der_states) + list(m0.alg_states)]
        try:
            base, cols = jacobian_columns(m0.dae_residual_function, m0, sol, unk, "dae")
            rows = [[cols[j][0][i] for j in range(len(unk))] for i in range(len(base))]
            if any(x != 0 for x in base) or (unk and rank(rows) < len(unk)):
                raise HarnessError("generator produced a model whose constructed solution is not its unique solution:\n" + case["text"])
        except EvalError:
            pass
    if viol:
        sy = symptoms(case, r)
        suffix = (" [" + "; ".join(sy) + "]") if sy else ""
        for what, expected, observed in viol:
            ctx.violation(what + suffix, case, expected=expected, observed=observed, kind="input")
    if tie is not None and drv is not None and case["stream"] != "iteraffine":
        tie(ctx, prop, case, r, drv)
    return r, viol


# =========================================================================================
# tie to the Lean model: pass by pass, on the serialised real state
# =========================================================================================
MODELLED = {"resolve_parameter_values", "replace_parameter_expressions", "replace_constant_expressions",
            "eliminate_constant_assignments", "replace_parameter_values", "replace_constant_values",
            "eliminable_variable_expression", "factor_and_simplify_equations", "detect_aliases"}
MODE_KEYS = ("expand_mx", "expand_vectors", "allow_derivative_aliases")


def pass_active(options, p):
    ev, em = bool(options.get("expand_vectors")), bool(options.get("expand_mx"))
    if p == "expand_first":
        return ev and em
    if p == "expand_late":
        return ev and not em
    if p == "eliminable_variable_expression":
        return options.get("eliminable_variable_expression") is not None
    return bool(options.get(p))


def prefix_options(options, k):
    """Options under which `_simplify_once` runs exactly the passes with index < k of `options`."""
    o = {}
    for key in MODE_KEYS:
        if key in options:
            o[key] = options[key]
    for i, p in enumerate(PASS_ORDER):
        if p in ("expand_first", "expand_late"):
            continue
        if i < k and pass_active(options, p):
            o[p] = options[p]
    if k <= PASS_ORDER.index("expand_late") and pass_active(options, "expand_late"):
        o["expand_vectors"] = False      # expand_first is inactive in this mode, nothing earlier reads the flag
    return o


def ser_value(v):
    import casadi as ca
    import numpy as np
    if isinstance(v, ca.MX):
        return ser_mx(v)
    if isinstance(v, (list, tuple, np.ndarray, ca.DM)):
        return ["nonscalar", []]
    x = float(v)
    if math.isnan(x):
        return None
    if math.isinf(x):
        return ["const", "inf" if x > 0 else "-inf"]
    return ["const", fstr(Fraction(x))]


def ser_state(m):
    def vs(lst, with_value):
        return [{"n": v.symbol.name(), "v": ser_value(v.value) if with_value else None, "a": bool(v.aliases)} for v in lst]
    rel = m.alias_relation
    ar = {"al": sorted([k, sorted(v)] for k, v in rel._aliases.items()),
          "cmap": [[k, c, int(s)] for k, (c, s) in rel._canonical_variables_map.items()],
          "cv": sorted(rel._canonical_variables)}
    import casadi as ca
    return {"states": vs(m.states, False), "ders": vs(m.der_states, False), "algs": vs(m.alg_states, False),
            "inputs": vs(m.inputs, False), "params": vs(m.parameters, True), "consts": vs(m.constants, True),
            "eqs": [ser_mx(e) for e in m.equations], "inits": [ser_mx(e) for e in m.initial_equations],
            "delays": [[ser_mx(ca.MX(d.expr)), ser_mx(ca.MX(d.duration))] for d in m.delay_arguments], "ar": ar}


def state_ok(st):
    trees = list(st["eqs"]) + list(st["inits"]) + [t for d in st["delays"] for t in d]
    trees += [v["v"] for v in st["params"] + st["consts"] if v["v"] is not None]
    return all(tree_ok(t) and _arity_ok(t) for t in trees)


def _arity_ok(t):
    if t[0] in ("sym", "const"):
        return True
    return len(t) in (2, 3) and all(_arity_ok(c) for c in t[1:])


def observe_ar(m, univ):
    rel = m.alias_relation
    canon = {}
    al = {}
    for n in univ:
        c, s = rel.canonical_signed(n)
        canon[n] = [c, int(s)]
        al[n] = sorted(rel.aliases(n))
    return {"cv": sorted(rel.canonical_variables), "iter": sorted([c, sorted(a)] for c, a in rel),
            "canon": canon, "aliases": al}


def state_at(text, options, j, k):
    """The real model after `j` complete `_simplify_once(options)` and the passes < k of the next one.
    Returns (model, exception text or None, log lines of the last call)."""
    m = fresh_model(text, options)
    full = {kk: v for kk, v in options.items() if kk != "iterative_simplification"}
    exc, log = None, []
    with LogCapture() as lc:
        try:
            for _ in range(j):
                m.simplify(dict(full))
            if k > 0:
                lc.h.stream.truncate(0)
                lc.h.stream.seek(0)
                m.simplify(prefix_options(options, k))
        except Exception as e:  # noqa: BLE001
            exc = "%s: %s" % (type(e).__name__, str(e)[:200])
    log = lc.lines()
    return m, exc, log


def observe_alias_engine(m, options):
    """What `_detect_alias` can learn from CasADi about each equation of `m`: the view it inspects
    and the answers of `substitute(...).is_zero()` for the candidate pairs."""
    import casadi as ca
    sx_mode = bool(options.get("expand_vectors")) and not bool(options.get("expand_mx"))
    params = {v.symbol.name() for v in m.parameters}
    consts = {v.symbol.name() for v in m.constants}
    gz, views = [], []
    for i, eq in enumerate(m.equations):
        if eq.numel() != 1:
            continue
        e = eq
        if sx_mode:
            s_mx = ca.symvar(eq)
            f = ca.Function("tmp", s_mx, [eq]).expand()
            s_sx = [ca.SX.sym(x.name(), *x.shape) for x in s_mx]
            e = f.call(s_sx)[0]
            if isinstance(e, ca.DM):        # an equation without symbols; the real loop calls symvar on it as well
                views.append([i, ["const", fstr(Fraction(float(e)))] if e.numel() == 1 else ["nonscalar", []]])
                continue
            views.append([i, ser_mx(e)])
        deps = ca.symvar(e)
        nonp = [s for s in deps if s.name() not in params and s.name() not in consts]
        seen = set()
        for d in (deps, nonp):
            if len(d) != 2:
                continue
            key = (d[0].name(), d[1].name())
            if key in seen:
                continue
            seen.add(key)
            gz.append([i, key[0], key[1], False, bool(ca.substitute(e, d[0], d[1]).is_zero())])
            gz.append([i, key[0], key[1], True, bool(ca.substitute(e, d[0], -1 * d[1]).is_zero())])
    return gz, views


def lean_opts(options, m_pre):
    o = {k: bool(options.get(k)) for k in BOOL_FLAGS + ["reduce_affine_expression", "iterative_simplification"]}
    o["allow_derivative_aliases"] = bool(options.get("allow_derivative_aliases", True))
    if options.get("eliminable_variable_expression") is not None:
        rx = re.compile(options["eliminable_variable_expression"])
        allv = [v.symbol.name() for v in list(m_pre.states) + list(m_pre.alg_states)]
        o["matched"] = [n for n in allv if rx.match(n)]
    else:
        o["matched"] = None
    return o


def _env_points(rng, names, n=3):
    # points depend on the symbol names only, so that the tie never disturbs the generator's stream
    import random as _random
    rng = _random.Random("|".join(sorted(names)))
    pts = []
    for _ in range(n):
        pts.append([[nm, fstr(Fraction(rng.choice([1, 2, 3, 5, 7, -1, -2, -3, -5, 4, -4, 6]), rng.choice([1, 1, 2])))]
                    for nm in sorted(names)])
    return pts


def _eval_lean(drv, trees, env):
    ans = drv.ask({"op": "simplify.eval", "trees": trees, "env": env})
    if not ans.get("ok"):
        raise HarnessError("model driver rejected eval: %s" % ans)
    return ans["values"]


def _names(vs):
    return [v["n"] for v in vs]


def compare_states(drv, rng, model_st, real_st, real_m, what):
    """Differences between the model's outcome of a pass and the real outcome (both serialised).

    Neither C14 nor C15 fixes the order of a variable list or of the equation list, so the lists are
    compared as sets of names (flags and values by name) and the equations / initial equations as
    multisets of their values at exact points; only the delay arguments (positionally tied to the
    delay states) are compared in order."""
    diffs = []
    for g in ("states", "ders", "algs", "inputs", "params", "consts"):
        if sorted(_names(model_st[g])) != sorted(_names(real_st[g])):
            diffs.append("%s: model %s, real %s" % (g, sorted(_names(model_st[g])), sorted(_names(real_st[g]))))
        else:
            fa = {v["n"]: v["a"] for v in model_st[g]}
            fb = {v["n"]: v["a"] for v in real_st[g]}
            if fa != fb:
                diffs.append("%s aliases-attribute flags: model %s, real %s" % (g, sorted(fa.items()), sorted(fb.items())))
    if diffs:
        return diffs
    pairs = []          # compared position by position
    bags = {}           # compared as multisets: group -> (model trees, real trees)
    for g in ("eqs", "inits"):
        if len(model_st[g]) != len(real_st[g]):
            diffs.append("%s: model keeps %d, real keeps %d" % (g, len(model_st[g]), len(real_st[g])))
        else:
            bags[g] = (list(model_st[g]), list(real_st[g]))
    if len(model_st["delays"]) != len(real_st["delays"]):
        diffs.append("delay arguments: model %d, real %d" % (len(model_st["delays"]), len(real_st["delays"])))
    else:
        for i, (a, b) in enumerate(zip(model_st["delays"], real_st["delays"])):
            pairs += [("delay-expr", i, a[0], b[0]), ("delay-duration", i, a[1], b[1])]
    for g in ("params", "consts"):
        rv = {v["n"]: v["v"] for v in real_st[g]}
        for i, a in enumerate(model_st[g]):
            bv = rv[a["n"]]
            if (a["v"] is None) != (bv is None):
                diffs.append("value of %s: model %s, real %s" % (a["n"], a["v"], bv))
            elif a["v"] is not None:
                pairs.append(("value:" + a["n"], i, a["v"], bv))
    if diffs:
        return diffs
    names = set()
    for _, _, a, b in pairs:
        names.update(tree_syms(a))
        names.update(tree_syms(b))
    for ta, tb in bags.values():
        for t in ta + tb:
            names.update(tree_syms(t))
    envs = _env_points(rng, names)
    for env in envs:
        va = _eval_lean(drv, [p[2] for p in pairs], env)
        vb = _eval_lean(drv, [p[3] for p in pairs], env)
        for (g, i, a, b), x, y in zip(pairs, va, vb):
            if x != y:
                diffs.append("%s[%d] differs at an exact point: model %s = %s, real %s = %s" % (g, i, a, x, b, y))
        if diffs:
            return diffs[:4]
    for g, (ta, tb) in bags.items():
        if not ta:
            continue
        cols_a = [_eval_lean(drv, ta, env) for env in envs]
        cols_b = [_eval_lean(drv, tb, env) for env in envs]
        sig_a = sorted(tuple(c[i] for c in cols_a) for i in range(len(ta)))
        sig_b = sorted(tuple(c[i] for c in cols_b) for i in range(len(tb)))
        if sig_a != sig_b:
            only_a = [x for x in sig_a if x not in sig_b][:2]
            only_b = [x for x in sig_b if x not in sig_a][:2]
            diffs.append("%s differ as multisets of values at exact points: only model %s, only real %s" % (g, only_a, only_b))
    if diffs:
        return diffs[:4]
    # the recorded alias relation
    univ = sorted(set(model_st["ar"]["canon"].keys()))
    real_ar = observe_ar(real_m, univ)
    for k in ("cv", "iter", "canon", "aliases"):
        if model_st["ar"][k] != real_ar[k]:
            diffs.append("alias relation %s: model %s, real %s" % (k, model_st["ar"][k], real_ar[k]))
    return diffs


EXC_KINDS = {"KeyError": "KeyError", "AssertionError": "AssertionError", "requires-expand-mx": "Exception",
             "duplicate-symbol": "RuntimeError", "nan-constant": None}


def tie_case(ctx, prop, case, r, drv):
    """Pass-by-pass correspondence for one case (scalar models, modelled passes)."""
    opts = case["options"]
    text = case["text"]
    iterative = bool(opts.get("iterative_simplification"))
    act = [p for p in PASS_ORDER if pass_active(opts, p)]
    if not act:
        ctx.count("tie:no-pass-enabled")
        return
    left = 0
    for j in range(4 if iterative else 1):
        pre_m, pre_exc, _ = state_at(text, opts, j, 0)
        if pre_exc is not None:
            ctx.count("tie:stopped-at-real-exception")
            return
        for p in act:
            k = PASS_ORDER.index(p)
            post_m, post_exc, post_log = state_at(text, opts, j, k + 1)
            ctx.count("tie-pass:" + p)
            if p in MODELLED:
                pre_st = ser_state(pre_m)
                if hasattr(pre_m, "_states_vector") or not state_ok(pre_st):
                    ctx.count("tie:state-outside-model")
                    return
                req = {"op": "simplify.pass", "pass": p, "state": pre_st, "opts": lean_opts(opts, pre_m)}
                if p == "detect_aliases":
                    req["gzero"], req["views"] = observe_alias_engine(pre_m, opts)
                ans = drv.ask(req)
                if not ans.get("ok"):
                    raise HarnessError("model driver rejected %s: %s" % (p, str(ans)[:300]))
                sub = dict(case, iteration=j, **{"pass": p})
                if ans["raised"] is not None:
                    kind = ans["raised"]["kind"]
                    if kind == "unsupported":
                        ctx.count("tie:unsupported:" + ans["raised"].get("arg", ""))
                        return
                    want = EXC_KINDS.get(kind)
                    got = post_exc.split(":")[0] if post_exc else None
                    if want != got:
                        ctx.disagreement("simplify.pass:" + p, sub, model=ans["raised"], impl=post_exc)
                    else:
                        ctx.count("tie:agreed-exception:" + kind)
                    return
                if post_exc is not None:
                    ctx.disagreement("simplify.pass:" + p, sub, model="no exception", impl=post_exc)
                    return
                post_st = ser_state(post_m)
                if not state_ok(post_st):
                    ctx.count("tie:state-outside-model")
                    return
                diffs = compare_states(drv, ctx.rng, ans["state"], post_st, post_m, p)
                real_warn = any(any(w in l for w in FAILURE_WARNINGS) for l in post_log)
                if bool(ans["state"]["warned"]) != real_warn and p != "detect_aliases":
                    diffs.append("iteration-limit warning: model %s, real %s" % (ans["state"]["warned"], real_warn))
                real_dang = sorted(set(n for names in dangling(post_m).values() for n in names))
                if ans["state"]["dangling"] != real_dang:
                    diffs.append("dangling symbols: model %s, real %s" % (ans["state"]["dangling"], real_dang))
                if ans["state"]["n_unknowns"] != numel(post_m.states) + numel(post_m.alg_states) or \
                        ans["state"]["n_eqs"] != len(post_m.equations):
                    diffs.append("counts: model %d/%d, real %d/%d" % (ans["state"]["n_unknowns"], ans["state"]["n_eqs"],
                                                                     numel(post_m.states) + numel(post_m.alg_states), len(post_m.equations)))
                if diffs:
                    ctx.disagreement("simplify.pass:" + p, sub, model=diffs[:4], impl=None)
                    return
                ctx.count("tie:pass-agreed")
            else:
                if post_exc is not None:
                    ctx.count("tie:stopped-at-real-exception")
                    return
                if p == "reduce_affine_expression":
                    d = tie_affine(ctx, drv, pre_m, post_m)
                    if d is None:
                        ctx.count("tie:affine-outside-model")
                    elif d:
                        ctx.disagreement("simplify.pass:" + p, dict(case, iteration=j, **{"pass": p}), model=d[:4], impl=None)
                        return
                    else:
                        ctx.count("tie:pass-agreed")
                        ctx.count("tie:affine-rows-agreed")
                    pre_m = post_m
                    continue
                # observed renormalisation (vector expansion of a scalar model, SX round trip): value-preserving?
                a, b = ser_state(pre_m), ser_state(post_m)
                if any(sorted(_names(a[g])) != sorted(_names(b[g])) for g in ("states", "ders", "algs", "inputs", "params", "consts")):
                    ctx.count("tie:vector-expansion-renamed-variables")    # property C18's business
                    return
                if state_ok(a) and state_ok(b):
                    diffs = compare_states(drv, ctx.rng, dict(a, ar=_lean_ar(drv, a)), b, post_m, p)
                    if diffs:
                        ctx.disagreement("observed-pass:" + p, dict(case, iteration=j, **{"pass": p}), model=diffs[:4], impl=None)
                        return
                    ctx.count("tie:observed-pass-value-preserving")
            pre_m = post_m
        n_alg = len(pre_m.alg_states)
        if iterative and left != n_alg:
            left = n_alg
            continue
        break
    # the chained single passes must end where the real run ended
    if r.exc is None and r.model is not None and not hasattr(r.model, "_states_vector"):
        if {k: sorted(v) for k, v in categories(pre_m).items()} != {k: sorted(v) for k, v in r.cat.items()} or \
                len(pre_m.equations) != len(r.model.equations):
            if not (iterative and j >= 3):
                ctx.disagreement("simplify.loop", case, model=[categories(pre_m), len(pre_m.equations)],
                                 impl=[r.cat, len(r.model.equations)])


def tie_affine(ctx, drv, pre_m, post_m):
    """The model's rows `A x + b` (evaluated by the Lean `Ex.eval`) against the real collapsed residual
    functions (evaluated by CasADi) at exact points; None = state outside the model."""
    pre_st = ser_state(pre_m)
    if hasattr(pre_m, "_states_vector") or not state_ok(pre_st):
        return None
    ans = drv.ask({"op": "simplify.pass", "pass": "reduce_affine_expression", "state": pre_st, "opts": {}})
    if not ans.get("ok") or ans.get("raised") is not None:
        raise HarnessError("model driver rejected reduce_affine_expression: %s" % str(ans)[:300])
    mst = ans["state"]
    names = set()
    for g in ("states", "ders", "algs", "inputs", "params", "consts"):
        names.update(_names(pre_st[g]))
    for t in mst["eqs"] + mst["inits"]:
        names.update(tree_syms(t))
    diffs = []
    try:
        fd, fi = post_m.dae_residual_function, post_m.initial_residual_function
    except Exception as e:  # noqa: BLE001
        return ["real collapsed residual cannot be built: %s" % str(e)[:120]]
    envs = _env_points(ctx.rng, names)
    for grp, f, kind in (("eqs", fd, "dae"), ("inits", fi, "initial")):
        if not mst[grp]:
            continue
        sig_m, sig_r = [], []
        cols_m = [_eval_lean(drv, mst[grp], env) for env in envs]
        try:
            cols_r = [[fstr(x) if isinstance(x, Fraction) else str(x)
                       for x in call_residual(f, post_m, {k: Fraction(v) for k, v in env}, kind)] for env in envs]
        except EvalError as e:
            return ["real collapsed %s residual cannot be evaluated: %s" % (kind, e)]
        if len(cols_r[0]) != len(mst[grp]):
            diffs.append("%s: model has %d rows, real residual %d" % (grp, len(mst[grp]), len(cols_r[0])))
            continue
        sig_m = sorted(tuple(c[i] for c in cols_m) for i in range(len(mst[grp])))
        sig_r = sorted(tuple(c[i] for c in cols_r) for i in range(len(mst[grp])))
        if sig_m != sig_r:
            diffs.append("%s rows of A x + b differ at exact points: only model %s, only real %s"
                         % (grp, [x for x in sig_m if x not in sig_r][:2], [x for x in sig_r if x not in sig_m][:2]))
    return diffs


def _lean_ar(drv, st):
    ans = drv.ask({"op": "simplify.describe", "state": st})
    if not ans.get("ok"):
        raise HarnessError("model driver rejected describe: %s" % str(ans)[:300])
    return ans["state"]["ar"]
