/-! # C27 — property theorems (stub: not built yet) -/
