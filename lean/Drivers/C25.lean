/-! Driver for C25 (stub: not built yet). -/
def main : IO Unit := pure ()
