"""Predicates of the open findings of C15 (see known/C15.json).  Each recognises one failing input
class by the options that reach the defective branch, the shape of the model text and the oracle's
message (with the symptom it attaches), so any other violation of C15 is still reported."""
import re

from harness.common import known_predicate


def _opts(case):
    return case.get("options", {}) if isinstance(case, dict) else {}


def _text(case):
    return case.get("text", "") if isinstance(case, dict) else ""


def _declared(case, prefix):
    return set(re.findall(r"\b%s Real (\w+)" % prefix, _text(case)))


@known_predicate
def c15_contradictory_alias_cycle(case, what):
    return bool(_opts(case).get("detect_aliases")) and "to its own negation" in what and \
        what.startswith("#unknowns - #equations changed")


@known_predicate
def c15_second_pass_negative_alias(case, what):
    o = _opts(case)
    return bool(o.get("detect_aliases")) and bool(o.get("iterative_simplification")) and \
        "is still listed as an unknown" in what and what.startswith("#unknowns - #equations changed")


@known_predicate
def c15_constant_expression_values(case, what):
    """replace_constant_values without replace_constant_expressions on a constant whose value mentions
    another constant: the other constant's symbol is left behind in the equations."""
    o = _opts(case)
    if not o.get("replace_constant_values") or o.get("replace_constant_expressions"):
        return False
    m = re.match(r"(equations|initial_equations|delay_arguments) refer to eliminated variables: (.*)$", what.split(" [")[0])
    if not m:
        return False
    names = set(m.group(2).split(","))
    consts = _declared(case, "constant")
    # every left-over name is a constant that occurs in the declared value of another constant
    used = set()
    for decl in re.findall(r"constant Real \w+ = ([^;]*);", _text(case)):
        used.update(re.findall(r"[A-Za-z_]\w*", decl))
    return bool(names) and names <= (consts & used)


@known_predicate
def c15_delay_parameter_values(case, what):
    """replace_parameter_values does not substitute the delay arguments."""
    o = _opts(case)
    m = re.match(r"delay_arguments refer to eliminated variables: (.*)$", what.split(" [")[0])
    if not (m and o.get("replace_parameter_values") and "delay(" in _text(case)):
        return False
    return set(m.group(1).split(",")) <= _declared(case, "parameter")


@known_predicate
def c15_time_alias(case, what):
    """an alias equation between an algebraic variable and `time`: KeyError 'time' in detect_aliases."""
    return bool(_opts(case).get("detect_aliases")) and what.startswith("simplify raised on a regular system") and \
        "KeyError 'time'" in what and re.search(r"(=\s*time\s*;|\btime\s*=)", _text(case)) is not None


@known_predicate
def c15_affine_initial_equations(case, what):
    """reduce_affine_expression with both equations and initial equations: the state vectors are created twice."""
    return bool(_opts(case).get("reduce_affine_expression")) and "initial equation" in _text(case) and \
        what.startswith("dae_residual_function cannot be built after simplification")


@known_predicate
def c15_iterative_affine(case, what):
    """iterative_simplification re-runs the passes on the collapsed affine expression and raises."""
    o = _opts(case)
    return bool(o.get("reduce_affine_expression")) and bool(o.get("iterative_simplification")) and \
        what.startswith("simplify raised on a regular system")


@known_predicate
def c15_iterative_parameter_canonical(case, what):
    """a parameter that became the canonical variable of an alias class is removed by replace_parameter_values
    in a later iteration: KeyError in detect_aliases."""
    o = _opts(case)
    m = re.search(r"KeyError '(\w+)'", what)
    return bool(m) and bool(o.get("iterative_simplification")) and bool(o.get("replace_parameter_values")) and \
        bool(o.get("detect_aliases")) and what.startswith("simplify raised on a regular system") and \
        m.group(1) in _declared(case, "parameter")
