"""C04 — the parsed class structure reflects the source declarations.

Real code: `pymoca.parser.parse(text, bypass_cache=True)` (ANTLR parse + `ASTListener` walk + `file_to_tree`).
Model: `PymocaVerif.Model.ClassAsm` — the listener as a state machine over enter/exit events (compiled
driver `drv_c04`); the theorems of `Props/C04.lean` are about that machine and the structural specification
`expected` it refines.
Direct oracle (this file, independent of the Lean model): the class description the text was rendered from is
compared field by field with the tree (`ideal_*`), declaration numbers must increase in source order, every
declarator owns its `type` / `dimensions` / `prefixes` objects (mutate one, observe all others), a twice
declared component must be rejected.
"""
import copy
import json

from harness.common import HarnessError
from harness.gen import a03 as G

DRIVERS = ["drv_c04"]
RULE = ("one case = one generated stored definition (1-3 top-level classes, nesting depth <= 3) rendered to text with "
        "layout noise; streams: main / dup / redecl / quirk; "
        "non-trivial = at least one component clause with >= 2 declarators, or >= 2 element sections, or a nested "
        "class, in some class; distinct = distinct source description")
TRUSTED = ["ANTLR: the parse tree of the rendered text has the shape of the description it was rendered from, and the "
           "walker fires enter/exit callbacks in document order (exercised by every correspondence case)",
           "the printers of expressions / equations / statements / modification arguments in harness/props/c04.py "
           "(they only canonicalise payloads the listener model passes through unchanged)"]
ASSUMPTIONS = ["expressions, equations, statements and modification arguments are opaque payloads of the model (C03 owns "
               "expression structure); the model counts the enterElement_modification events inside them",
               "no `within`, no enumeration / der / `extends`-form class specifiers, no external functions, no "
               "constrainedby, no string-comment concatenation, no annotation inside equations/statements, no component "
               "redeclaration inside a *component* modification (the listener crashes there: AttributeError, see report)",
               "object identity of `type`/`dimensions`/`prefixes` is compared at top level only (the inner subscript list of "
               "clause-level dimensions is shared between declarators by the shallow `list()` copy; nothing in pymoca mutates it)"]


# ================================================================================================
# canonical printers of pymoca AST payloads (independent of the generator's text production)
# ================================================================================================
BINOPS = {"+", "-", "*", "/", "^", ".+", ".-", ".*", "./", ".^", "<", "<=", ">", ">=", "==", "<>", "and", "or"}


def p_ref(n):
    from pymoca import ast
    s = n.name
    idx = n.indices
    if idx != [[None]]:
        if len(idx) != 1:
            return "<indices %r>" % (idx,)
        s += "[%s]" % ", ".join(p_expr(i) for i in idx[0])
    if n.child:
        if len(n.child) != 1 or not isinstance(n.child[0], ast.ComponentRef):
            return "<child %r>" % (n.child,)
        s += "." + p_ref(n.child[0])
    return s


def p_expr(n):
    from pymoca import ast
    if isinstance(n, ast.Primary):
        v = n.value
        if v is True:
            return "true"
        if v is False:
            return "false"
        if v is None:
            return "None"
        if isinstance(v, str):
            return '"%s"' % v
        if isinstance(v, int):
            return str(v)
        return "<float %r>" % v
    if isinstance(n, ast.ComponentRef):
        return p_ref(n)
    if isinstance(n, ast.Slice):
        if isinstance(n.start, ast.Primary) and n.start.value is None and isinstance(n.stop, ast.Primary) and n.stop.value is None:
            return ":"
        s = "%s:%s" % (p_expr(n.start), p_expr(n.stop))
        if not (isinstance(n.step, ast.Primary) and n.step.value == 1 and n.step.value is not True):
            s += ":<step %s>" % p_expr(n.step)
        return s
    if isinstance(n, ast.Array):
        return "{%s}" % ", ".join(p_expr(v) for v in n.values)
    if isinstance(n, ast.IfExpression):
        if len(n.conditions) == 1 and len(n.expressions) == 2:
            return "(if %s then %s else %s)" % (p_expr(n.conditions[0]), p_expr(n.expressions[0]), p_expr(n.expressions[1]))
        return "<ifexpr %d %d>" % (len(n.conditions), len(n.expressions))
    if isinstance(n, ast.Expression):
        op = n.operator
        if isinstance(op, ast.ComponentRef):
            return "%s(%s)" % (p_ref(op), ", ".join(p_expr(o) for o in n.operands))
        if op in ("der", "initial"):
            return "%s(%s)" % (op, ", ".join(p_expr(o) for o in n.operands))
        if op in BINOPS and len(n.operands) == 2:
            return "(%s %s %s)" % (p_expr(n.operands[0]), op, p_expr(n.operands[1]))
        if op in ("-", "+") and len(n.operands) == 1:
            return "(%s%s)" % (op, p_expr(n.operands[0]))
        if op == "not" and len(n.operands) == 1:
            return "(not %s)" % p_expr(n.operands[0])
        return "<expr %r/%d>" % (op, len(n.operands))
    if isinstance(n, list):
        return "<list %s>" % ", ".join(p_expr(x) for x in n)
    return "<%s>" % type(n).__name__


def p_cmt(n):
    c = getattr(n, "comment", "")
    return ' "%s"' % c if c else ""


def p_block(items, p):
    return "".join(p(i) + "; " for i in items)


def p_if(n, p):
    s = ""
    nb, nc = len(n.blocks), len(n.conditions)
    if nb != nc:
        return "<if %d conditions %d blocks>" % (nc, nb)
    for i in range(nb):
        c = n.conditions[i]
        if i == 0:
            s += "if %s then %s" % (p_expr(c), p_block(n.blocks[i], p))
        elif c is True:
            if i != nb - 1:
                return "<if: True condition not last>"
            s += "else %s" % p_block(n.blocks[i], p)
        else:
            s += "elseif %s then %s" % (p_expr(c), p_block(n.blocks[i], p))
    return s + "end if"


def p_for(n, body, p):
    if len(n.indices) != 1:
        return "<for %d indices>" % len(n.indices)
    i = n.indices[0]
    return "for %s in %s loop %send for" % (i.name, p_expr(i.expression), p_block(body, p))


def p_eq(n):
    from pymoca import ast
    if isinstance(n, ast.Equation):
        return "%s = %s%s" % (p_expr(n.left), p_expr(n.right), p_cmt(n))
    if isinstance(n, ast.ConnectClause):
        return "connect(%s, %s)%s" % (p_ref(n.left), p_ref(n.right), p_cmt(n))
    if isinstance(n, ast.IfEquation):
        return p_if(n, p_eq)
    if isinstance(n, ast.ForEquation):
        return p_for(n, n.equations, p_eq)
    return "<%s>" % type(n).__name__


def p_stmt(n):
    from pymoca import ast
    if isinstance(n, ast.AssignmentStatement):
        # `x := e` gives left=[x]; `(a, b) := f(e)` gives left=[a, b] (the generator writes >= 2 outputs)
        left = p_ref(n.left[0]) if len(n.left) == 1 else "(%s)" % ", ".join(p_ref(r) for r in n.left)
        return "%s := %s%s" % (left, p_expr(n.right), p_cmt(n))
    if isinstance(n, ast.IfStatement):
        return p_if(n, p_stmt)
    if isinstance(n, ast.ForStatement):
        return p_for(n, n.statements, p_stmt)
    return "<%s>" % type(n).__name__


def p_arg(a):
    """ClassModificationArgument -> canonical text (see harness.gen.a03.arg_canon)."""
    from pymoca import ast
    if not isinstance(a, ast.ClassModificationArgument):
        return "<%s>" % type(a).__name__
    v = a.value
    if isinstance(v, ast.ElementModification):
        if a.redeclare:
            return "<redeclare flag on element modification>"
        s = p_ref(v.component)
        for m in v.modifications:
            if isinstance(m, ast.ClassModification):
                s += "(%s)" % ", ".join(p_arg(x) for x in m.arguments)
            else:
                s += "=" + p_expr(m)
        return s
    if isinstance(v, ast.ComponentClause):
        if not a.redeclare or len(v.symbol_list) != 1:
            return "<component clause argument redeclare=%r n=%d>" % (a.redeclare, len(v.symbol_list))
        return "redeclare %s%s %s" % ("".join(p + " " for p in v.prefixes), ".".join(v.type.to_tuple()), v.symbol_list[0].name)
    return "<%s>" % type(v).__name__


def p_cmod(cm):
    from pymoca import ast
    if cm is None:
        return None
    if not isinstance(cm, ast.ClassModification):
        return ["<%s>" % type(cm).__name__]
    return [p_arg(a) for a in cm.arguments]


# ================================================================================================
# canonical form of the tree the real code returns
# ================================================================================================
def canon_class(c, ids):
    from pymoca import ast
    syms = []
    for key, s in c.symbols.items():
        dims = s.dimensions
        d = {"name": s.name, "key": key,
             "type": list(s.type.to_tuple()) if isinstance(s.type, ast.ComponentRef) else ["<%s>" % type(s.type).__name__],
             "prefixes": list(s.prefixes), "dims": [[p_expr(e) for e in lvl] for lvl in dims],
             "comment": s.comment, "vis": str(s.visibility), "order": s.order, "cmod": p_cmod(s.class_modification),
             "ids": [ids(s.type), ids(s.dimensions), ids(s.prefixes)]}
        syms.append(d)
    imports = []
    for k, v in c.imports.items():
        if isinstance(v, ast.ComponentRef):
            imports.append([k, {"k": "ref", "path": list(v.to_tuple())}])
        elif isinstance(v, ast.ImportClause) and v.unqualified:
            imports.append([k, {"k": "star", "paths": [list(x.to_tuple()) for x in v.components]}])
        elif isinstance(v, ast.ImportClause):
            imports.append([k, {"k": "short", "paths": [list(x.to_tuple()) for x in v.components], "name": v.short_name}])
        else:
            imports.append([k, {"k": "<%s>" % type(v).__name__}])
    ann = c.annotation
    return {"name": c.name, "kind": c.type, "partial": bool(c.partial), "encapsulated": bool(c.encapsulated),
            "final": bool(c.final), "comment": c.comment, "symbols": syms,
            "extends": [{"path": list(e.component.to_tuple()), "args": p_cmod(e.class_modification), "vis": str(e.visibility)}
                        for e in c.extends],
            "imports": imports,
            "equations": [p_eq(e) for e in c.equations], "initial_equations": [p_eq(e) for e in c.initial_equations],
            "statements": [p_stmt(e) for e in c.statements], "initial_statements": [p_stmt(e) for e in c.initial_statements],
            "annotation": p_cmod(ann) if not isinstance(ann, list) else None,
            "classes": [dict(canon_class(k, ids), key=key) for key, k in c.classes.items()]}


class IdNumbering:
    """Object identities -> small numbers by first occurrence (the aliasing fingerprint)."""

    def __init__(self):
        self.m = {}
        self.keep = []

    def __call__(self, obj):
        self.keep.append(obj)
        return self.m.setdefault(id(obj), len(self.m))


def run_impl(text):
    """Parse with the real code.  Returns (outcome, tree)."""
    from pymoca import parser
    try:
        tree = parser.parse(text, bypass_cache=True)
    except Exception as e:  # classified, never escapes
        # only the class of the failure and the text as a whole are kept: the property says "rejected",
        # the wording / layout of the message is the implementation's business
        return {"outcome": "error", "exc": type(e).__name__, "oserror": isinstance(e, OSError),
                "message": " ".join(str(a) for a in getattr(e, "args", ()))}, None
    if tree is None:
        return {"outcome": "syntax-error"}, None
    ids = IdNumbering()
    return {"outcome": "ok", "classes": [dict(canon_class(c, ids), key=k) for k, c in tree.classes.items()]}, tree


# ================================================================================================
# direct oracle: what the description says the tree must contain
# ================================================================================================
def decl_cmod(d):
    if d["sub"] is None and d["val"] is None:
        return None
    out = [G.arg_canon(a) for a in d["sub"]] if d["sub"] is not None else []
    if d["val"] is not None:
        out.append("value=" + d["val"])
    return out


def ideal_dims(e, d):
    if e["cdims"] is not None and d["dims"] is not None:
        return [list(d["dims"]), list(e["cdims"])]      # `Real[3] b[2]` is a 2 x 3 array
    if e["cdims"] is not None:
        return [list(e["cdims"])]
    if d["dims"] is not None:
        return [list(d["dims"])]
    return [["None"]]


VIS = {None: "private", "public": "public", "protected": "protected"}


def ideal_class(c):
    syms, ext, imports, classes = [], [], [], []
    for vis, lst in G.elem_lists(c):
        for e in lst:
            if e["t"] == "comp":
                for d in e["decls"]:
                    syms.append({"name": d["name"], "type": list(e["type"]), "prefixes": list(e["prefixes"]),
                                 "dims": ideal_dims(e, d), "comment": d["comment"], "vis": VIS[vis], "cmod": decl_cmod(d)})
            elif e["t"] == "ext":
                ext.append({"path": list(e["path"]), "args": [G.arg_canon(a) for a in e["args"] or []], "vis": VIS[vis]})
            elif e["t"] == "imp":
                imports.append(e)
            elif e["t"] == "cls":
                classes.append(ideal_class(e["cls"]))
            elif e["t"] == "short":
                classes.append({"name": e["name"], "kind": e["kind"], "partial": False, "encapsulated": False,
                                "comment": e["comment"], "symbols": [],
                                "extends": [{"path": list(e["path"]), "args": [G.arg_canon(a) for a in e["args"] or []],
                                             "vis": "private"}],
                                "imports": [], "equations": [], "initial_equations": [], "statements": [],
                                "initial_statements": [], "annotation": None, "classes": []})
    imp = []
    for e in imports:
        if e["form"] == "qual":
            imp.append([e["path"][-1], {"k": "ref", "path": list(e["path"])}])
        elif e["form"] == "list":
            for n in e["names"]:
                imp.append([n, {"k": "ref", "path": list(e["path"]) + [n]}])
        elif e["form"] == "short":
            imp = [x for x in imp if x[0] != e["short"]] if False else imp
            new = [e["short"], {"k": "short", "paths": [list(e["path"])], "name": e["short"]}]
            for i, x in enumerate(imp):
                if x[0] == e["short"]:
                    imp[i] = new
                    break
            else:
                imp.append(new)
        else:
            for x in imp:
                if x[0] == "*":
                    x[1]["paths"].append(list(e["path"]))
                    break
            else:
                imp.append(["*", {"k": "star", "paths": [list(e["path"])]}])
    out = {"name": c["name"], "kind": c["kind"], "partial": c["partial"], "encapsulated": c["encapsulated"],
           "comment": c["comment"], "symbols": syms, "extends": ext, "imports": imp,
           "equations": [], "initial_equations": [], "statements": [], "initial_statements": [],
           "annotation": [G.arg_canon(a) for a in c["annotation"]] if c["annotation"] is not None else None,
           "classes": classes}
    for s in c["sections"]:
        if s["t"] == "eqs":
            out["initial_equations" if s["initial"] else "equations"] += s["eqs"]
        elif s["t"] == "algs":
            out["initial_statements" if s["initial"] else "statements"] += s["stmts"]
    return out


SYM_FIELDS = ["type", "prefixes", "dims", "vis", "comment", "cmod"]
CLASS_FIELDS = ["kind", "partial", "encapsulated", "comment", "equations", "initial_equations", "statements",
                "initial_statements", "extends", "imports", "annotation"]


def compare_class(want, got, path, quirk=False):
    """All differences between the description and the tree, as (what, expected, observed); a
    difference in the list of components / nested classes ends the comparison of that class."""
    here = path + [want["name"]]
    where = ".".join(here)
    if got["name"] != want["name"]:
        yield ("class name in %s" % ".".join(path or ["<file>"]), want["name"], got["name"])
        return
    wn, gn = [s["name"] for s in want["symbols"]], [s["name"] for s in got["symbols"]]
    if wn != gn or [s["key"] for s in got["symbols"]] != gn:
        yield ("components of class %s (each declared component exactly once, in declaration order)" % where, wn, gn)
        return
    for w, g in zip(want["symbols"], got["symbols"]):
        for f in SYM_FIELDS:
            if w[f] != g[f]:
                if f == "vis":
                    yield ("visibility of component %s.%s is %s, its section says %s" % (where, w["name"], g[f], w[f]), w[f], g[f])
                else:
                    yield ("%s of component %s.%s" % ({"dims": "array dimensions", "cmod": "modifications"}.get(f, f),
                                                      where, w["name"]), w[f], g[f])
    if len(want["extends"]) != len(got["extends"]):
        yield ("extends clauses of class %s" % where, want["extends"], got["extends"])
    else:
        for i, (w, g) in enumerate(zip(want["extends"], got["extends"])):
            for f in ("path", "args"):
                if w[f] != g[f]:
                    yield ("%s of extends clause %d of class %s" % (f, i, where), w[f], g[f])
            if w["vis"] != g["vis"]:
                yield ("visibility of extends clause %d (%s) of class %s is %s, its section says %s" % (
                    i, ".".join(w["path"]), where, g["vis"], w["vis"]), w["vis"], g["vis"])
    for f in CLASS_FIELDS:
        if f == "extends" or (f == "imports" and quirk):
            continue
        if want[f] != got[f]:
            yield ("%s of class %s" % (f, where), want[f], got[f])
    if quirk:
        return
    wn, gn = [k["name"] for k in want["classes"]], [k["name"] for k in got["classes"]]
    if wn != gn or [k["key"] for k in got["classes"]] != gn:
        yield ("nested classes of class %s" % where, wn, gn)
        return
    for w, g in zip(want["classes"], got["classes"]):
        yield from compare_class(w, g, here)


def doc_order_symbols(cls_canon, src_cls, out):
    """Symbols of the tree in *source* order: a nested class contributes where it is declared."""
    syms = {s["name"]: s for s in cls_canon["symbols"]}
    nested = {k["name"]: k for k in cls_canon["classes"]}
    for _, lst in G.elem_lists(src_cls):
        for e in lst:
            if e["t"] == "comp":
                for d in e["decls"]:
                    if d["name"] in syms:
                        out.append((cls_canon["name"], syms[d["name"]]))
            elif e["t"] == "cls" and e["cls"]["name"] in nested:
                doc_order_symbols(nested[e["cls"]["name"]], e["cls"], out)


def tree_symbols(tree):
    out = []

    def walk(c):
        for s in c.symbols.values():
            out.append((c, s))
        for k in c.classes.values():
            walk(k)
    for c in tree.classes.values():
        walk(c)
    return out


def snapshot(s):
    from pymoca import ast
    return json.dumps([ast.Node.to_json(s.type), ast.Node.to_json(s.dimensions), list(s.prefixes)], sort_keys=True, default=str)


def aliasing_probe(tree):
    """Mutate one symbol's type / dimensions / prefixes objects in place; no other symbol may change."""
    from pymoca import ast
    syms = tree_symbols(tree)
    for i, (c, s) in enumerate(syms):
        before = [snapshot(t) for _, t in syms]
        try:
            s.prefixes.append("c04probe")
            s.dimensions.append([ast.Primary(value=77)])
            s.type.name = s.type.name + "_c04probe"
            s.type.child.append(ast.ComponentRef(name="c04probe"))
        except Exception as e:
            return ("type/dimensions/prefixes of %s.%s are not plain mutable objects: %s" % (c.name, s.name, type(e).__name__),
                    "lists and a ComponentRef", repr(e))
        for j, (c2, t) in enumerate(syms):
            if j != i and snapshot(t) != before[j]:
                fields = [n for n, a, b in zip(("type", "dimensions", "prefixes"), json.loads(before[j]), json.loads(snapshot(t)))
                          if a != b]
                return ("declarators share an object: changing %s of %s.%s in place changed %s.%s" % (
                    "/".join(fields), c.name, s.name, c2.name, t.name), "unchanged", fields)
    return None


def nontrivial(f):
    for c in G.all_classes(f):
        if any(e["t"] == "comp" and len(e["decls"]) >= 2 for _, lst in G.elem_lists(c) for e in lst):
            return True
        if len(G.elem_lists(c)) >= 3 or any(e["t"] == "cls" for _, lst in G.elem_lists(c) for e in lst):
            return True
    return False


# ================================================================================================
# the view of a description the Lean driver gets
# ================================================================================================
def lv_ticks(args):
    return G.args_events(args)


def lv_ext_events(args):
    """'m' per element_modification, {"d": ...} per redeclared component, in source order."""
    out = []
    for a in args or []:
        if "redeclare" in a:
            r = a["redeclare"]
            out.append({"d": {"prefixes": r["prefixes"], "type": r["type"], "name": r["name"]}})
        else:
            out.append("m")
            out += lv_ext_events(a["sub"])
    return out


def lv_elem(e):
    if e["t"] == "comp":
        decls = []
        for d in e["decls"]:
            items = []
            if d["sub"] is not None:
                items.append({"cm": [G.arg_canon(a) for a in d["sub"]]})
            if d["val"] is not None:
                items.append({"val": d["val"]})
            decls.append({"name": d["name"], "dims": d["dims"], "mod": items, "modTicks": len(lv_ticks(d["sub"])),
                          "comment": d["comment"], "annTicks": len(lv_ticks(d["ann"]))})
        return {"t": "comp", "prefixes": e["prefixes"], "type": e["type"], "cdims": e["cdims"], "decls": decls}
    if e["t"] == "ext":
        return {"t": "ext", "path": e["path"], "args": [G.arg_canon(a) for a in e["args"] or []],
                "evs": lv_ext_events(e["args"]) + lv_ext_events(e["ann"])}
    if e["t"] == "imp":
        return {"t": "imp", "form": e["form"], "path": e["path"], "short": e["short"], "names": e["names"]}
    if e["t"] == "cls":
        return {"t": "cls", "cls": lv_class(e["cls"])}
    if e["t"] == "short":
        return {"t": "short", "kind": e["kind"], "name": e["name"], "path": e["path"],
                "args": [G.arg_canon(a) for a in e["args"] or []], "ticks": len(lv_ticks(e["args"])), "comment": e["comment"]}
    raise HarnessError("unknown element " + e["t"])


def lv_class(c):
    secs = []
    for s in c["sections"]:
        if s["t"] == "elems":
            secs.append({"t": "elems", "vis": s["vis"], "elems": [lv_elem(e) for e in s["elems"]]})
        elif s["t"] == "eqs":
            secs.append({"t": "eqs", "initial": s["initial"], "items": s["eqs"]})
        else:
            secs.append({"t": "algs", "initial": s["initial"], "items": s["stmts"]})
    return {"kind": c["kind"], "partial": c["partial"], "encapsulated": c["encapsulated"], "name": c["name"],
            "comment": c["comment"], "first": [lv_elem(e) for e in c["first"]], "sections": secs,
            "annotation": [G.arg_canon(a) for a in c["annotation"]] if c["annotation"] is not None else None,
            "annTicks": len(lv_ticks(c["annotation"]))}


def lean_view(f):
    return {"classes": [{"final": t["final"], "cls": lv_class(t["cls"])} for t in f["classes"]]}


def renumber(classes, field="ids"):
    """Renumber identity tags by first occurrence, in the traversal order canon_class uses."""
    m = {}

    def walk(c):
        for s in c["symbols"]:
            s[field] = [m.setdefault(("o", i), len(m)) for i in s[field]]
        for k in c["classes"]:
            walk(k)
    for c in classes:
        walk(c)


def strip_for_compare(classes):
    """Drop what the correspondence does not compare exactly; returns (comparable copy, exact orders)."""
    cl = copy.deepcopy(classes)
    orders = []

    def walk(c):
        for s in c["symbols"]:
            orders.append(s["order"])
            s.pop("key", None)
        c.pop("key", None)
        for k in c["classes"]:
            walk(k)
    for c in cl:
        walk(c)
    rank = {o: i for i, o in enumerate(sorted(set(orders)))}

    def walk2(c):
        for s in c["symbols"]:
            s["order"] = rank[s["order"]]
        for k in c["classes"]:
            walk2(k)
    for c in cl:
        walk2(c)
    return cl, orders


# ================================================================================================
# one case
# ================================================================================================
def check_case(ctx, case, drv):
    f, text, stream = case["src"], case["text"], case.get("stream", "main")
    impl, tree = run_impl(text)
    ctx.count("outcome-" + impl["outcome"] + ("-" + impl.get("exc", "") if impl["outcome"] == "error" else ""))
    dup = G.first_duplicate(f)
    clash = import_clash(f)

    # ---- direct oracle ------------------------------------------------------------------------
    if impl["outcome"] == "syntax-error":
        raise HarnessError("generator produced a text the grammar rejects:\n" + text)
    if dup is not None:
        if impl["outcome"] == "ok":
            ctx.violation("component %s declared twice in class %s is not rejected" % (dup[1], dup[0]), case,
                          expected="an exception", observed="a tree", kind="input")
    elif impl["outcome"] == "error":
        if not clash:
            ctx.violation("parsing a class text of the supported subset raised %s" % impl["exc"], case,
                          expected="a tree", observed=impl, kind="input")
    else:
        msgs = []
        want = [ideal_class(t["cls"]) for t in f["classes"]]
        got = impl["classes"]
        if [w["name"] for w in want] != [g["name"] for g in got]:
            msgs.append(("top-level classes of the file", [w["name"] for w in want], [g["name"] for g in got]))
        else:
            for t, w, g in zip(f["classes"], want, got):
                if g["final"] != t["final"]:
                    msgs.append(("final flag of class %s" % w["name"], t["final"], g["final"]))
                msgs += list(compare_class(w, g, [], quirk=stream == "quirk"))
            if stream != "quirk":
                docs = []
                for t, g in zip(f["classes"], got):
                    doc_order_symbols(g, t["cls"], docs)
                for (c1, s1), (c2, s2) in zip(docs, docs[1:]):
                    if not s1["order"] < s2["order"]:
                        msgs.append(("declaration order: %s.%s (order %d) is declared before %s.%s (order %d)" % (
                            c1, s1["name"], s1["order"], c2, s2["name"], s2["order"]), "increasing", [s1["order"], s2["order"]]))
                        break
        m = aliasing_probe(tree)      # the probe changes the tree: impl["classes"] was canonicalised before
        if m:
            msgs.append(m)
        for m in msgs[:12]:
            ctx.violation(m[0], case, expected=m[1], observed=m[2], kind="input")

    # ---- correspondence with the Lean model ------------------------------------------------------
    if drv is None:
        return
    ans = drv.ask({"op": "asm.run", "file": lean_view(f)})
    if not ans.get("ok"):
        raise HarnessError("model driver rejected the case: %s\n%s" % (ans, json.dumps(lean_view(f))[:2000]))
    if ans.get("refines") is False:
        ctx.tie_broken("model:listener-differs-from-expected", {"case": case, "listener": ans.get("result"), "spec": ans.get("spec")})
    m = ans["result"]
    if m["outcome"] == "error":
        # the model says the listener rejects the file (IOError) because of `name`: the implementation must
        # reject it with an OSError; the name should occur somewhere in its message (format not compared)
        want = {"outcome": "error", "exc": "an OSError (IOError)", "because-of": m["name"], "kind": m["err"]}
        if impl["outcome"] != "error" or not impl.get("oserror"):
            ctx.disagreement("asm.run", case, want, impl if impl["outcome"] != "ok" else {"outcome": "ok"})
        elif m["name"] not in impl.get("message", ""):
            ctx.count("rejected-but-message-does-not-name-the-component")
        return
    if impl["outcome"] != "ok":
        ctx.disagreement("asm.run", case, {"outcome": "ok"}, impl)
        return
    renumber(m["classes"])
    mc, morders = strip_for_compare(m["classes"])
    ic, iorders = strip_for_compare(impl["classes"])
    if mc != ic:
        ctx.disagreement("asm.run", case, first_diff(mc, ic), None)
    elif morders != iorders:
        ctx.count("order-numbers-differ-but-same-ranking")


def first_diff(a, b, path=""):
    if type(a) != type(b):
        return {"at": path, "model": a, "impl": b}
    if isinstance(a, dict):
        for k in sorted(set(a) | set(b)):
            if a.get(k) != b.get(k):
                return first_diff(a.get(k), b.get(k), path + "/" + k)
    if isinstance(a, list):
        if len(a) != len(b):
            return {"at": path, "model": a, "impl": b}
        for i, (x, y) in enumerate(zip(a, b)):
            if x != y:
                return first_diff(x, y, "%s/%d" % (path, i))
    return {"at": path, "model": a, "impl": b}


def import_clash(f):
    for c in G.all_classes(f):
        seen = set()
        for _, lst in G.elem_lists(c):
            for e in lst:
                if e["t"] != "imp":
                    continue
                if e["form"] == "short":
                    seen.add(e["short"])
                    continue
                if e["form"] == "star":
                    seen.add("*")
                    continue
                for n in ([e["path"][-1]] if e["form"] == "qual" else e["names"]):
                    if n in seen:
                        return True
                    seen.add(n)
    return False


STREAMS = [("main", 0.74), ("dup", 0.10), ("redecl", 0.09), ("quirk", 0.07)]


def make_case(rng):
    r, acc, stream = rng.random(), 0.0, "main"
    for name, p in STREAMS:
        acc += p
        if r < acc:
            stream = name
            break
    g = G.Gen(rng, stream, size=rng.choice([0.6, 1.0, 1.0, 1.5]))
    f = g.gen_file()
    text = G.render(f, rng)
    return {"stream": stream, "src": f, "text": text}


def run(ctx):
    from harness import corpus
    drv = ctx.driver("drv_c04")
    for c in corpus.load("C04"):
        ctx.count("corpus")
        c.pop("_file", None)
        check_case(ctx, c, drv)
    n = 450 if ctx.tier == "quick" else 14000
    for i in range(n):
        if ctx.time_left() < 0:
            ctx.notes.append("stopped by the time budget after %d of %d cases" % (i, n))
            break
        case = make_case(ctx.rng)
        f = case["src"]
        ctx.case(case["src"], nontrivial=nontrivial(f))
        ctx.count("stream-" + case["stream"])
        cls = G.all_classes(f)
        ctx.count("classes-%d" % min(len(cls), 8))
        ctx.count("max-declarators-%d" % max([len(e["decls"]) for c in cls for _, lst in G.elem_lists(c) for e in lst
                                               if e["t"] == "comp"] or [0]))
        ctx.count("max-element-sections-%d" % max(len(G.elem_lists(c)) for c in cls))
        for c in cls:
            for _, lst in G.elem_lists(c):
                for e in lst:
                    ctx.count("elem-" + e["t"])
                    if e["t"] == "comp":
                        ctx.count("prefixes-" + ("+".join(e["prefixes"]) or "none"))
        check_case(ctx, case, drv)


def search(ctx):
    """Tie broken without a direct violation: more cases, direct oracle only."""
    while ctx.time_left() > 0 and not ctx.violations:
        case = make_case(ctx.rng)
        ctx.count("search-cases")
        check_case(ctx, case, None)


def replay(ctx, payload):
    check_case(ctx, payload["case"], ctx.driver("drv_c04"))


MANIFEST = dict(
    level_text="Lean 4 theorems about an executable model of pymoca's ASTListener as a state machine over enter/exit events: "
               "the machine run on the event stream of any class description computes the structural specification "
               "`expected` (refinement, unbounded nesting/sizes), and `expected` has each declared component exactly once, "
               "in order, with its clause's type/prefixes, dimensions, comment, modification, own objects, sections in "
               "source order, nested classes/extends/imports attached, duplicates rejected; tied to the real parser every "
               "run by a differential correspondence on generated class texts and a direct field-by-field oracle.",
    level_note="Trusted: Lean kernel + standard axioms; the harness; ANTLR producing the parse tree of the rendered text. "
               "The model, not the Python, is what the theorems are about.",
    technique="Lean 4 proof (refinement of a structural specification by an event-driven state machine, by mutual "
              "structural induction) + model/implementation correspondence + direct oracle",
)
READY = True
