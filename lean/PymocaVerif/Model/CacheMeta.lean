/-!
# Model of `save_model` / `load_model`: what is stored, what is reconstructed (C19)

`pymoca.backends.casadi.api.save_model` stores, per category of variables with metadata
(`states, alg_states, inputs, parameters, constants`):
* `Variable.to_dict()` of every variable — name, shape, python type, aliases and the six
  `CASADI_ATTRIBUTES`, where an attribute that is a CasADi `MX` is replaced by `None`;
* the matrix `<key>__metadata_dependent` classifying every (variable, attribute) as
  `NOT_MX` / `MX_DEPENDENT` (an MX that depends on the parameters) / `MX_INDEPENDENT`;
and the pickled `variable_metadata_function`, whose output for the category has **one row per
scalar element** (a scalar attribute of an array variable is `repmat`-ed) and one column per
attribute.  `load_model` rebuilds the variables with `from_dict` and then walks the variables
of the category keeping a running row offset: rows `[row, row + numel)` of column `j`, taken
from the function called on the symbolic parameters (dependent) or on NaN (independent).

Everything else (`der_states`, `outputs`, `delay_states`, `alias_relation`, string variables,
the four functions) travels through the pickle unchanged: `payload`.

Types: `P` pickled Python values, `E` parameter vectors ("environments"), `V` numbers.
-/
namespace PymocaVerif.CacheMeta

inductive Dep
  | notMx | dependent | independent
  deriving DecidableEq, Repr

def Dep.code : Dep → Nat
  | .notMx => 0 | .dependent => 1 | .independent => 2

/-- An attribute of a variable of the freshly compiled model. -/
inductive Attr (P E V : Type)
  /-- a plain Python value (float, int, bool, `_DefaultValue`, list, ndarray) -/
  | py (v : P)
  /-- an `MX` (or, since 00f122e, a list with `MX` elements, which `save_model` turns into one
      `MX`): whether `not is_constant() and depends_on(parameters)`, and its element
      values (one value = scalar, else one per element, column-major) at a parameter vector -/
  | mx (dependent : Bool) (f : E → List V)

structure Var (P E V : Type) where
  name : String
  rows : Nat
  cols : Nat
  pyType : String
  aliases : List String
  attrs : Nat → Attr P E V

def Var.numel {P E V} (v : Var P E V) : Nat := v.rows * v.cols

/-- `Variable.to_dict()`. -/
structure VarDict (P : Type) where
  name : String
  rows : Nat
  cols : Nat
  pyType : String
  aliases : List String
  attrs : Nat → Option P

def VarDict.numel {P} (d : VarDict P) : Nat := d.rows * d.cols

def classify {P E V} : Attr P E V → Dep
  | .py _ => .notMx
  | .mx true _ => .dependent
  | .mx false _ => .independent

def toDict {P E V} (v : Var P E V) : VarDict P :=
  { name := v.name, rows := v.rows, cols := v.cols, pyType := v.pyType, aliases := v.aliases,
    attrs := fun j => match v.attrs j with | .py p => some p | .mx _ _ => none }

/-- element `k` of a value list: a single value is broadcast (`repmat`) -/
def pick {V} [Inhabited V] (l : List V) (k : Nat) : V :=
  match l with
  | [x] => x
  | _ => l.getD k default

variable {P E V : Type} [Inhabited V]

/-- Element `k` of attribute `a` as it enters the metadata function: a Python value is
    converted by `embed` (`ca.MX(ca.DM(value))`). -/
def elemOf (embed : P → List V) (a : Attr P E V) (e : E) (k : Nat) : V :=
  match a with
  | .py p => pick (embed p) k
  | .mx _ f => pick (f e) k

/-- The rows of one variable in the category's metadata matrix. -/
def rowsOf (nA : Nat) (embed : P → List V) (v : Var P E V) (e : E) : List (List V) :=
  (List.range v.numel).map fun k => (List.range nA).map fun j => elemOf embed (v.attrs j) e k

/-- `variable_metadata_function` output of one category. -/
def metaOf (nA : Nat) (embed : P → List V) (vars : List (Var P E V)) (e : E) : List (List V) :=
  vars.flatMap fun v => rowsOf nA embed v e

/-- What the cache holds for one category. -/
structure CatDb (P E V : Type) where
  dicts : List (VarDict P)
  dep : List (Nat → Dep)
  metaFn : E → List (List V)

def saveCat (nA : Nat) (embed : P → List V) (vars : List (Var P E V)) : CatDb P E V :=
  { dicts := vars.map toDict, dep := vars.map (fun v j => classify (v.attrs j)),
    metaFn := metaOf nA embed vars }

/-- An attribute of a variable of the `CachedModel`. -/
inductive LAttr (P E V : Type)
  | py (v : Option P)
  | mx (f : E → List V)

structure LVar (P E V : Type) where
  name : String
  rows : Nat
  cols : Nat
  pyType : String
  aliases : List String
  /-- the running row offset at which this variable's rows were read (ghost, for the tie) -/
  row0 : Nat
  attrs : Nat → LAttr P E V

/-- column `j` of rows `[row, row + n)` -/
def colSlice (m : List (List V)) (row n j : Nat) : List V :=
  ((m.drop row).take n).map fun r => r.getD j default

/-- The loop of `load_model` over one category, with its running row offset. -/
def loadVars (nanEnv : E) (metaFn : E → List (List V)) :
    Nat → List (VarDict P) → List (Nat → Dep) → List (LVar P E V)
  | row, d :: ds, m :: ms =>
    { name := d.name, rows := d.rows, cols := d.cols, pyType := d.pyType, aliases := d.aliases, row0 := row,
      attrs := fun j => match m j with
        | .dependent => .mx (fun e => colSlice (metaFn e) row d.numel j)
        | .independent => .mx (fun _ => colSlice (metaFn nanEnv) row d.numel j)
        | .notMx => .py (d.attrs j) } :: loadVars nanEnv metaFn (row + d.numel) ds ms
  | _, _, _ => []

def loadCat (nanEnv : E) (c : CatDb P E V) : List (LVar P E V) :=
  loadVars nanEnv c.metaFn 0 c.dicts c.dep

/-- The whole model: the five metadata categories and everything that is passed through. -/
structure Fresh (P E V X : Type) where
  cats : List (List (Var P E V))
  payload : X

structure Db (P E V X : Type) where
  cats : List (CatDb P E V)
  payload : X

structure Cached (P E V X : Type) where
  cats : List (List (LVar P E V))
  payload : X

def save {X} (nA : Nat) (embed : P → List V) (m : Fresh P E V X) : Db P E V X :=
  { cats := m.cats.map (saveCat nA embed), payload := m.payload }

def load {X} (nanEnv : E) (db : Db P E V X) : Cached P E V X :=
  { cats := db.cats.map (loadCat nanEnv), payload := db.payload }

/-! ## Delay durations

`all_symbols` are numbered `0 .. S-1`; an environment gives every symbol a value.  The raw
duration `i` is output `2i+1` of the pickled `delay_arguments` function; `deps i` is the
stored list `__delay_duration_dependent[i]`.  `load_model` masks (replaces by NaN) symbols
outside a set `T i` that the loop below computes, including its reuse of the variable
`actual_deps` (first the sorted union of all lists, then the last list that was shorter). -/

/-- Which symbols stay symbolic in the loaded duration `i`: `none` = the duration is taken
    from the all-NaN call (no dependencies stored). -/
def maskSets (union : List Nat) : Nat → List (List Nat) → List (Option (List Nat))
  | _, [] => []
  | cur, dd :: rest =>
    if dd.isEmpty then none :: maskSets union cur rest
    else if dd.length < cur then some dd :: maskSets union dd.eraseDups.length rest
    else some union :: maskSets union cur rest

def unionOf (dds : List (List Nat)) : List Nat := (dds.flatMap id).eraseDups

/-- environment with NaN outside `keep` -/
def maskEnv (nan : V) (keep : List Nat) (env : Nat → V) : Nat → V :=
  fun k => if keep.contains k then env k else nan

def loadDurations (nan : V) (raw : List ((Nat → V) → V)) (dds : List (List Nat)) : List ((Nat → V) → V) :=
  (raw.zip (maskSets (unionOf dds) (unionOf dds).length dds)).map fun (f, t) =>
    match t with
    | none => fun _ => f (fun _ => nan)
    | some keep => fun env => f (maskEnv nan keep env)

end PymocaVerif.CacheMeta

/-! ## Attribute expressions and the dependency classification

`save_model` classifies an `MX` attribute as `MX_DEPENDENT` when
`not attr.is_constant() and ca.depends_on(attr, parameter_vector)`, else `MX_INDEPENDENT`.
Here: attribute expressions over the parameters (`+ - * unary-` and constants), values in
`Option Int` where `none` is NaN (absorbing), and the syntactic occurrence test. -/
namespace PymocaVerif.CacheMeta

inductive PExpr
  | const (v : Int)
  | nan
  | param (k : Nat)
  | neg (a : PExpr)
  | add (a b : PExpr)
  | sub (a b : PExpr)
  | mul (a b : PExpr)
  deriving Repr

def PExpr.eval (env : Nat → Option Int) : PExpr → Option Int
  | .const v => some v
  | .nan => none
  | .param k => env k
  | .neg a => (a.eval env).map (fun x => -x)
  | .add a b => do let x ← a.eval env; let y ← b.eval env; pure (x + y)
  | .sub a b => do let x ← a.eval env; let y ← b.eval env; pure (x - y)
  | .mul a b => do let x ← a.eval env; let y ← b.eval env; pure (x * y)

/-- does a parameter symbol occur (`depends_on`; a constant expression has none) -/
def PExpr.hasParam : PExpr → Bool
  | .const _ => false
  | .nan => false
  | .param _ => true
  | .neg a => a.hasParam
  | .add a b => a.hasParam || b.hasParam
  | .sub a b => a.hasParam || b.hasParam
  | .mul a b => a.hasParam || b.hasParam

/-- The attribute of the fresh model given by element expressions, classified as `save_model` does. -/
def Attr.ofExprs {P : Type} (es : List PExpr) : Attr P (Nat → Option Int) (Option Int) :=
  .mx (es.any PExpr.hasParam) (fun env => es.map (PExpr.eval env))

end PymocaVerif.CacheMeta
